// C12 harness: SmartRotation3D derivative matrices, dRTdAngles, the covariance of operator*(Affine3d, Pose3D),
// LeastSquares::computeEstimateCovariance — the real classes — plus central finite differences with Richardson
// extrapolation (long double) of the implementation's own maps, printed after a `|` separator and judged in Python.
// `lsh.*`: ONE LeastSquares<double> object per case driven through problem sequences (solver reuse), see lean/Drivers/C12.lean.
#include <memory>
#include <Eigen/Geometry>
#include "proto.hpp"
#include "romea_core_common/geometry/Pose3D.hpp"
#include "romea_core_common/regression/leastsquares/LeastSquares.hpp"
#include "romea_core_common/transform/SmartRotation3D.hpp"

using namespace romea::core;
using vp::Toks;
typedef long double ld;

static std::vector<double> floats(const Toks & t, size_t first, size_t n)
{
  if (t.size() != first + n) { throw vp::BadOp(); }
  std::vector<double> v(n);
  for (size_t i = 0; i < n; ++i) { v[i] = vp::parseD(t[first + i]); }
  return v;
}
template<typename M> static void fill(M & m, const std::vector<double> & a, size_t off)
{
  for (int i = 0; i < m.rows(); ++i) { for (int j = 0; j < m.cols(); ++j) { m(i, j) = a[off + i * m.cols() + j]; } }
}
template<typename M> static void emit(std::string & o, const M & m)
{
  for (int i = 0; i < m.rows(); ++i) { for (int j = 0; j < m.cols(); ++j) { o += (o.empty() ? "" : " ") + vp::fmtD(m(i, j)); } }
}
static void emitLd(std::string & o, ld v) { o += " " + vp::fmtD(static_cast<double>(v)); }

// the solver object of the `lsh.*` ops: lives until the next `#case` / `lsh.new`
static std::unique_ptr<LeastSquares<double>> hs;
static int hsEst = 0;     // mirror of estimateSize_ (private)
static int hsN = 0;       // mirror of dataSize_ (private)

static void reset() { hs.reset(); hsEst = 0; hsN = 0; }

static size_t natArg(const std::string & s, size_t lo, size_t hi)
{
  uint64_t v = vp::parseU(s);
  if (v < lo || v > hi) { throw vp::BadOp(); }
  return static_cast<size_t>(v);
}

// `lsh.*`: the history ops on one solver object.  Lines the C++ could only answer with undefined behaviour (index
// outside the buffers, no object) are bad-op on both sides.
static std::string handleHistory(const Toks & t)
{
  const std::string & op = t[0];
  if (op == "lsh.new") {
    if (t.size() == 2) {
      size_t e = natArg(t[1], 1, 8);
      hs.reset(new LeastSquares<double>(e)); hsEst = static_cast<int>(e); hsN = 0; return "ok";
    }
    if (t.size() == 3) {
      size_t e = natArg(t[1], 1, 8), n = natArg(t[2], 0, 64);
      hs.reset(new LeastSquares<double>(e, n)); hsEst = static_cast<int>(e); hsN = static_cast<int>(n); return "ok";
    }
    throw vp::BadOp();
  }
  if (!hs) { throw vp::BadOp(); }
  LeastSquares<double> & ls = *hs;
  if (op == "lsh.est" && t.size() == 2) {
    size_t e = natArg(t[1], 1, 8);
    ls.setEstimateSize(e); hsEst = static_cast<int>(e); return "ok";
  }
  if (op == "lsh.size" && t.size() == 2) {
    size_t n = natArg(t[1], 0, 64);
    bool g = ls.setDataSize(n); hsN = static_cast<int>(n);
    return std::string("grew ") + (g ? "1" : "0");
  }
  // an allocated design matrix has estimateSize_ columns and as many rows as Y_ (repair 186525a); checked before J_ is touched
  auto shapeBad = [&]() {
      return ls.getY().rows() > 0 && (ls.getJ().cols() != hsEst || ls.getJ().rows() != ls.getY().rows());
    };
  if (op == "lsh.row" && t.size() >= 2) {
    uint64_t i = vp::parseU(t[1]);
    if (t.size() != static_cast<size_t>(hsEst) + 3 || static_cast<long long>(i) >= ls.getY().rows()) { throw vp::BadOp(); }
    std::vector<double> v(hsEst + 1);
    for (int c = 0; c <= hsEst; ++c) { v[c] = vp::parseD(t[2 + c]); }
    if (shapeBad()) { return "shape-mismatch"; }
    for (int c = 0; c < hsEst; ++c) { ls.getJ()(static_cast<int>(i), c) = v[c]; }
    ls.getY()(static_cast<int>(i)) = v[hsEst];
    return "ok";
  }
  if (op == "lsh.w" && t.size() == 3) {
    uint64_t i = vp::parseU(t[1]); double w = vp::parseD(t[2]);
    if (static_cast<long long>(i) >= ls.getW().rows()) { throw vp::BadOp(); }
    ls.getW()(static_cast<int>(i)) = w; return "ok";
  }
  if (op == "lsh.pre") {
    // diagonal preconditioner diag(a) with offset b (the property's domain: diagonal preconditioners)
    if (t.size() != static_cast<size_t>(2 * hsEst) + 1) { throw vp::BadOp(); }
    Eigen::MatrixXd Ac = Eigen::MatrixXd::Zero(hsEst, hsEst); Eigen::VectorXd Bc(hsEst);
    for (int j = 0; j < hsEst; ++j) { Ac(j, j) = vp::parseD(t[1 + j]); Bc(j) = vp::parseD(t[1 + hsEst + j]); }
    ls.setPreconditionner(Ac, Bc); return "ok";
  }
  if ((op == "lsh.svd" || op == "lsh.chol" || op == "lsh.wls") && t.size() == 1) {
    if (hsN > ls.getY().rows()) { throw vp::BadOp(); }
    if (shapeBad()) { return "shape-mismatch"; }
    // the estimate itself is C07's subject; here only its effect on the covariance reported afterwards is observed
    Eigen::VectorXd x;
    if (op == "lsh.svd") { x = ls.estimateUsingSVD(); } else if (op == "lsh.chol") { x = ls.estimateUsingCholeskyDecomposition(); }
    else { x = ls.weightedEstimate(); }
    if (x.rows() != hsEst) { return "bad-shape"; }
    return "ok";
  }
  if (op == "lsh.cov" && t.size() == 2) {
    double var = vp::parseD(t[1]);
    Eigen::MatrixXd c = ls.computeEstimateCovariance(var);
    if (c.rows() != hsEst || c.cols() != hsEst) { return "bad-shape"; }
    std::string o = "P"; { std::string m; emit(m, c); o += " " + m; }
    return o;
  }
  throw vp::BadOp();
}

// Richardson-extrapolated central difference of a vector-valued map of one variable:
// D(h) = (f(x+h) - f(x-h)) / 2h,  result = (4 D(h/2) - D(h)) / 3   (error O(h^4)); differences in long double
template<typename F>
static std::vector<ld> richardson(const F & f, double x, double h, bool wrapFrom = false, size_t wrapStart = 0)
{
  auto D = [&](double hh) {
      // use the step actually representable around x
      volatile double xp = x + hh, xm = x - hh;
      std::vector<double> a = f(xp), b = f(xm);
      std::vector<ld> d(a.size());
      for (size_t i = 0; i < a.size(); ++i) {
        ld diff = static_cast<ld>(a[i]) - static_cast<ld>(b[i]);
        if (wrapFrom && i >= wrapStart) {
          const ld twoPi = 2 * 3.141592653589793238462643383279502884L;
          while (diff > twoPi / 2) { diff -= twoPi; }
          while (diff < -twoPi / 2) { diff += twoPi; }
        }
        d[i] = diff / (static_cast<ld>(xp) - static_cast<ld>(xm));
      }
      return d;
    };
  std::vector<ld> d1 = D(h), d2 = D(h / 2), r(d1.size());
  for (size_t i = 0; i < r.size(); ++i) { r[i] = (4 * d2[i] - d1[i]) / 3; }
  return r;
}

static std::vector<double> flatR(const Eigen::Vector3d & ang)
{
  SmartRotation3D s(ang);
  std::vector<double> v(9);
  for (int i = 0; i < 3; ++i) { for (int j = 0; j < 3; ++j) { v[i * 3 + j] = s.R()(i, j); } }
  return v;
}

static std::string handle(const Toks & t)
{
  const std::string & op = t[0];
  std::string o;
  if (op.compare(0, 4, "lsh.") == 0) { return handleHistory(t); }
  if (op == "smart.d") {
    auto a = floats(t, 1, 3);
    Eigen::Vector3d ang(a[0], a[1], a[2]);
    SmartRotation3D s(ang);
    emit(o, s.R()); emit(o, s.dRdAngleAroundXAxis()); emit(o, s.dRdAngleAroundYAxis()); emit(o, s.dRdAngleAroundZAxis());
    o += " |";
    for (int k = 0; k < 3; ++k) {
      auto f = [&](double x) { Eigen::Vector3d b = ang; b(k) = x; return flatR(b); };
      for (ld v : richardson(f, ang(k), 1e-3)) { emitLd(o, v); }
    }
    return o;
  }
  if (op == "smart.d2") {
    auto a = floats(t, 1, 6);
    SmartRotation3D s(a[0], a[1], a[2]);
    s.init(a[3], a[4], a[5]);
    emit(o, s.R()); emit(o, s.dRdAngleAroundXAxis()); emit(o, s.dRdAngleAroundYAxis()); emit(o, s.dRdAngleAroundZAxis());
    return o;
  }
  if (op == "smart.hist") {
    // a history on ONE object: groups (kind a b c), kind 0 = three-scalar constructor, 1 = Eigen::Vector3d constructor (both only as
    // the first step), 2 = init(x, y, z), 3 = init(Eigen::Vector3d); prints R and the three derivative matrices after the last step
    if (t.size() < 5 || (t.size() - 1) % 4 != 0) { throw vp::BadOp(); }
    auto a = floats(t, 1, t.size() - 1);
    std::unique_ptr<SmartRotation3D> s;
    for (size_t g = 0; g + 3 < a.size(); g += 4) {
      const int kind = static_cast<int>(a[g]);
      Eigen::Vector3d ang(a[g + 1], a[g + 2], a[g + 3]);
      if (g == 0) {
        if (kind == 0) { s.reset(new SmartRotation3D(ang(0), ang(1), ang(2))); }
        else if (kind == 1) { s.reset(new SmartRotation3D(ang)); }
        else { s.reset(new SmartRotation3D()); if (kind == 2) { s->init(ang(0), ang(1), ang(2)); } else { s->init(ang); } }
      } else if (kind == 2) { s->init(ang(0), ang(1), ang(2)); } else if (kind == 3) { s->init(ang); } else { throw vp::BadOp(); }
    }
    emit(o, s->R()); emit(o, s->dRdAngleAroundXAxis()); emit(o, s->dRdAngleAroundYAxis()); emit(o, s->dRdAngleAroundZAxis());
    return o;
  }
  if (op == "smart.dRT") {
    auto a = floats(t, 1, 6);
    Eigen::Vector3d ang(a[0], a[1], a[2]), T(a[3], a[4], a[5]);
    SmartRotation3D s(ang);
    emit(o, s.dRTdAngles(T)); emit(o, s.dRdAngleAroundXAxis()); emit(o, s.dRdAngleAroundYAxis()); emit(o, s.dRdAngleAroundZAxis());
    o += " |";
    // d(R*T)/d angle_k, column k; printed row-major as a 3x3 like dRTdAngles
    ld cols[3][3];
    for (int k = 0; k < 3; ++k) {
      auto f = [&](double x) {
          Eigen::Vector3d b = ang; b(k) = x; SmartRotation3D r(b); Eigen::Vector3d v = r * T;
          return std::vector<double>{v(0), v(1), v(2)};
        };
      auto d = richardson(f, ang(k), 1e-3);
      for (int i = 0; i < 3; ++i) { cols[k][i] = d[i]; }
    }
    for (int i = 0; i < 3; ++i) { for (int k = 0; k < 3; ++k) { emitLd(o, cols[k][i]); } }
    return o;
  }
  if (op == "pose.mulcov") {
    auto a = floats(t, 1, 54);
    Eigen::Affine3d A = Eigen::Affine3d::Identity();
    Eigen::Matrix3d L; Eigen::Vector3d T; fill(L, a, 0); fill(T, a, 9);
    A.linear() = L; A.translation() = T;
    Pose3D p; fill(p.position, a, 12); fill(p.orientation, a, 15); fill(p.covariance, a, 18);
    Pose3D r = A * p;
    emit(o, r.position); emit(o, r.orientation); o += " |";
    { std::string c; emit(c, r.covariance); o += " " + c; }
    o += " |";
    // Jacobian of the library's own pose map x = (position, orientation) -> (position', orientation')
    ld J[6][6];
    for (int k = 0; k < 6; ++k) {
      double x0 = k < 3 ? p.position(k) : p.orientation(k - 3);
      auto f = [&](double x) {
          Pose3D q = p; q.covariance.setZero();
          if (k < 3) { q.position(k) = x; } else { q.orientation(k - 3) = x; }
          Pose3D y = A * q;
          return std::vector<double>{y.position(0), y.position(1), y.position(2), y.orientation(0), y.orientation(1), y.orientation(2)};
        };
      double h = k < 3 ? 1e-3 * std::max(1.0, std::abs(x0)) : 2e-4;
      auto d = richardson(f, x0, h, true, 3);
      for (int i = 0; i < 6; ++i) { J[i][k] = d[i]; }
    }
    for (int i = 0; i < 6; ++i) { for (int k = 0; k < 6; ++k) { emitLd(o, J[i][k]); } }
    // contract of `rotOf`: Affine3d::rotation() returns the linear part when it is a rotation matrix
    o += (A.rotation() - L).cwiseAbs().maxCoeff() <= 1e-12 ? " contract:1" : " contract:0";
    return o;
  }
  if (op == "ls.cov") {
    if (t.size() < 4) { throw vp::BadOp(); }
    bool chol = t[1] == "chol";
    if (!chol && t[1] != "svd") { throw vp::BadOp(); }
    size_t n = vp::parseU(t[2]), m = vp::parseU(t[3]);
    if (n < 1 || n > 8 || m < n || m > 64) { throw vp::BadOp(); }
    auto a = floats(t, 4, m * n + m + 2 * n + 1);
    LeastSquares<double> ls(n, m);
    for (size_t i = 0; i < m; ++i) {
      for (size_t j = 0; j < n; ++j) { ls.getJ()(i, j) = a[i * n + j]; }
      ls.getY()(i) = a[m * n + i];
    }
    Eigen::MatrixXd Ac = Eigen::MatrixXd::Zero(n, n); Eigen::VectorXd Bc(n);
    for (size_t j = 0; j < n; ++j) { Ac(j, j) = a[m * n + m + j]; Bc(j) = a[m * n + m + n + j]; }
    ls.setPreconditionner(Ac, Bc);
    if (chol) { ls.estimateUsingCholeskyDecomposition(); } else { ls.estimateUsingSVD(); }
    Eigen::MatrixXd c = ls.computeEstimateCovariance(a[m * n + m + 2 * n]);
    if (c.rows() != static_cast<int>(n) || c.cols() != static_cast<int>(n)) { return "bad-shape"; }
    emit(o, c);
    return o;
  }
  throw vp::BadOp();
}

int main() { return vp::run(reset, handle); }
