// C07 harness: drives the real LeastSquares<double> / LeastSquares<float> through the line protocol
// documented in lean/Drivers/C07.lean.  Lines that the C++ could only answer with undefined behaviour
// (indices outside the buffers, estimate size 0) are rejected as bad-op, exactly as the model driver does.
// Since the repair of setEstimateSize (186525a) an allocated design matrix always has estimateSize_ columns; the
// harness still checks this before touching J_ and answers `shape-mismatch ...` instead of running into a heap
// overflow, so that a regression shows up as a clean outcome (the model never produces that token).
//
// How the caller-side references are held (seeded change c07f: a "normal equations up to date" flag cleared by the NON-CONST
// accessors): the harness must not call a non-const accessor behind the protocol's back.  Every inspection (bounds, shapes,
// ls.peek) goes through the CONST accessors; `ls.row` / `ls.w` call the non-const getJ()/getY() / getW() afresh for each line
// (a caller that re-fetches), `ls.rowk` / `ls.wk` write through references obtained ONCE, right after construction, and kept
// for the life of the object (a caller that keeps `auto & J = ls.getJ()` across resizes and solves — the references are to
// the members, which stay in place when Eigen reallocates their storage).  Estimates call nothing but the estimate.
#include <memory>
#include "proto.hpp"
#include "romea_core_common/regression/leastsquares/LeastSquares.hpp"

using romea::core::LeastSquares;
using vp::Toks;

template<typename T>
struct Solver
{
  std::unique_ptr<LeastSquares<T>> ls;
  int est = 0;       // mirror of estimateSize_ (private)
  int n = 0;         // mirror of dataSize_ (private)
  typename LeastSquares<T>::Matrix * Jk = nullptr;   // references obtained once per object (see the header comment)
  typename LeastSquares<T>::Vector * Yk = nullptr;
  typename LeastSquares<T>::Vector * Wk = nullptr;

  const LeastSquares<T> & c() const { return *ls; }   // const view: inspections must not look like caller writes
  void keep() { Jk = &ls->getJ(); Yk = &ls->getY(); Wk = &ls->getW(); }

  static size_t nat(const std::string & s, size_t maxv)
  {
    uint64_t v = vp::parseU(s); if (v > maxv) { throw vp::BadOp(); } return static_cast<size_t>(v);
  }

  bool create(const Toks & t)
  {
    if (t.size() == 2) { ls.reset(new LeastSquares<T>()); est = 0; n = 0; keep(); return true; }
    if (t.size() == 3) {
      size_t e = nat(t[2], 64); if (e < 1) { throw vp::BadOp(); }
      ls.reset(new LeastSquares<T>(e)); est = static_cast<int>(e); n = 0; keep(); return true;
    }
    if (t.size() == 4) {
      size_t e = nat(t[2], 64); size_t d = nat(t[3], 100000); if (e < 1) { throw vp::BadOp(); }
      ls.reset(new LeastSquares<T>(e, d)); est = static_cast<int>(e); n = static_cast<int>(d); keep(); return true;
    }
    return false;
  }

  bool shapeOk() const { return est >= 1 && n <= c().getY().rows(); }

  // empty when J_ has the shape the solver is about to assume, else the outcome token
  std::string shapeMismatch() const
  {
    if (c().getY().rows() > 0 && (c().getJ().cols() != est || c().getJ().rows() != c().getY().rows())) {
      return "shape-mismatch J=" + std::to_string(c().getJ().rows()) + "x" + std::to_string(c().getJ().cols()) +
             " Y=" + std::to_string(c().getY().rows()) + " est=" + std::to_string(est);
    }
    return "";
  }

  static std::string fmtVec(const char * tag, const typename LeastSquares<T>::Vector & v)
  {
    std::string o = tag; for (int i = 0; i < v.rows(); ++i) { o += " " + vp::fmtF(v(i)); } return o;
  }

  std::string handle(const Toks & t)
  {
    const std::string & op = t[0];
    if (op == "ls.est" && t.size() == 2) {
      size_t e = nat(t[1], 64); if (e < 1) { throw vp::BadOp(); }
      ls->setEstimateSize(e); est = static_cast<int>(e); return "ok";
    }
    if (op == "ls.size" && t.size() == 2) {
      uint64_t d = vp::parseU(t[1]);
      if (est == 0 || d > 100000) { throw vp::BadOp(); }
      bool g = ls->setDataSize(static_cast<size_t>(d)); n = static_cast<int>(d);
      return std::string("grew ") + (g ? "1" : "0");
    }
    if ((op == "ls.row" || op == "ls.rowk") && t.size() >= 2) {
      uint64_t i = vp::parseU(t[1]);
      std::vector<T> v; for (size_t k = 2; k < t.size(); ++k) { v.push_back(vp::parseF<T>(t[k])); }
      if (est == 0 || v.size() != static_cast<size_t>(est) + 1 || static_cast<long long>(i) >= c().getY().rows()) {
        throw vp::BadOp();
      }
      if (!shapeMismatch().empty()) { return shapeMismatch(); }
      const bool kept = (op == "ls.rowk");
      auto & J = kept ? *Jk : ls->getJ(); auto & Y = kept ? *Yk : ls->getY();
      for (int c = 0; c < est; ++c) { J(static_cast<int>(i), c) = v[c]; }
      Y(static_cast<int>(i)) = v[est];
      return "ok";
    }
    if ((op == "ls.w" || op == "ls.wk") && t.size() == 3) {
      uint64_t i = vp::parseU(t[1]); T w = vp::parseF<T>(t[2]);
      if (static_cast<long long>(i) >= c().getW().rows()) { throw vp::BadOp(); }
      (op == "ls.wk" ? *Wk : ls->getW())(static_cast<int>(i)) = w; return "ok";
    }
    if (op == "ls.pre" || op == "ls.pre1") {
      std::vector<T> v; for (size_t k = 1; k < t.size(); ++k) { v.push_back(vp::parseF<T>(t[k])); }
      bool withB = (op == "ls.pre");
      if (est == 0 || v.size() != static_cast<size_t>(est * est + (withB ? est : 0))) { throw vp::BadOp(); }
      typename LeastSquares<T>::Matrix A(est, est); typename LeastSquares<T>::Vector b(est);
      for (int i = 0; i < est; ++i) { for (int j = 0; j < est; ++j) { A(i, j) = v[i * est + j]; } }
      if (withB) { for (int i = 0; i < est; ++i) { b(i) = v[est * est + i]; } ls->setPreconditionner(A, b); }
      else { ls->setPreconditionner(A); }
      return "ok";
    }
    if ((op == "ls.svd" || op == "ls.chol" || op == "ls.wls") && t.size() == 1) {
      if (!shapeOk()) { throw vp::BadOp(); }
      if (!shapeMismatch().empty()) { return shapeMismatch(); }
      if (op == "ls.svd") { return fmtVec("x", ls->estimateUsingSVD()); }
      if (op == "ls.chol") { return fmtVec("x", ls->estimateUsingCholeskyDecomposition()); }
      return fmtVec("x", ls->weightedEstimate());
    }
    if (op == "ls.cov" && t.size() == 2) {
      T var = vp::parseF<T>(t[1]); if (est == 0) { throw vp::BadOp(); }
      typename LeastSquares<T>::Matrix P = ls->computeEstimateCovariance(var);
      std::string o = "P";
      for (int i = 0; i < P.rows(); ++i) { for (int j = 0; j < P.cols(); ++j) { o += " " + vp::fmtF(P(i, j)); } }
      return o;
    }
    if (op == "ls.peek" && t.size() == 2) {
      uint64_t i = vp::parseU(t[1]);
      if (est == 0 || static_cast<long long>(i) >= c().getY().rows()) { throw vp::BadOp(); }
      if (!shapeMismatch().empty()) { return shapeMismatch(); }
      std::string o = "row";
      for (int k = 0; k < est; ++k) { o += " " + vp::fmtF(c().getJ()(static_cast<int>(i), k)); }
      o += " " + vp::fmtF(c().getY()(static_cast<int>(i))) + " " + vp::fmtF(c().getW()(static_cast<int>(i)));
      return o;
    }
    throw vp::BadOp();
  }
};

static Solver<double> sd;
static Solver<float> sf;
static int which = 0;   // 0 none, 1 double, 2 float

static void reset() { sd.ls.reset(); sf.ls.reset(); which = 0; }

static std::string handle(const Toks & t)
{
  if (t[0] == "ls.new") {
    if (t.size() < 2) { throw vp::BadOp(); }
    if (t[1] == "d") { Solver<double> s; if (!s.create(t)) { throw vp::BadOp(); } sd = std::move(s); which = 1; return "ok"; }
    if (t[1] == "f") { Solver<float> s; if (!s.create(t)) { throw vp::BadOp(); } sf = std::move(s); which = 2; return "ok"; }
    throw vp::BadOp();
  }
  if (which == 1) { return sd.handle(t); }
  if (which == 2) { return sf.handle(t); }
  throw vp::BadOp();
}

int main() { return vp::run(reset, handle); }
