// C19 probe: real threads on the real classes under ThreadSanitizer (clang++-14 -fsanitize=thread).
// usage: c19_tsan <scenario> <readers> <producers> <consumers> <ops>
// Prints `ok <scenario> checks=<n>` or `INCONSISTENT <scenario> <what>`; data races are reported by TSan on stderr.
#include <atomic>
#include <cstdio>
#include <cstdlib>
#include <cstring>
#include <set>
#include <string>
#include <thread>
#include <vector>
#include <mutex>
#include "romea_core_common/concurrency/SharedVariable.hpp"
#include "romea_core_common/concurrency/SharedOptionalVariable.hpp"
#include "romea_core_common/monitoring/OnlineAverage.hpp"
#include "romea_core_common/monitoring/OnlineVariance.hpp"
#include "romea_core_common/monitoring/RateMonitoring.hpp"
#include "romea_core_common/diagnostic/CheckupEqualTo.hpp"
#include "romea_core_common/diagnostic/CheckupGreaterThan.hpp"
#include "romea_core_common/diagnostic/CheckupLowerThan.hpp"
#include "romea_core_common/diagnostic/CheckupReliability.hpp"
#include "romea_core_common/diagnostic/CheckupRate.hpp"

using namespace romea::core;

static std::atomic<long> checks{0};
static std::atomic<bool> bad{false};
static std::mutex badMutex;
static std::string badWhat;
static void fail(const std::string & w)
{
  std::lock_guard<std::mutex> l(badMutex);
  if (!bad.load()) { badWhat = w; }
  bad.store(true);
}

struct Pair { double a = 0, b = 0, c = 0, d = 1; };

static int sharedVariable(int readers, long ops)
{
  SharedVariable<Pair> v(Pair{});
  std::atomic<bool> stop{false};
  std::vector<std::thread> th;
  for (int r = 0; r < readers; ++r) {
    th.emplace_back([&, r] {
        while (!stop.load()) {
          Pair p = (r % 2) ? v.load() : static_cast<Pair>(v);
          if (p.b != -p.a || p.c != 2 * p.a || p.d != p.a + 1) { fail("half-written value observed"); }
          ++checks;
        }
      });
  }
  for (long i = 1; i <= ops; ++i) {
    Pair p; p.a = static_cast<double>(i); p.b = -p.a; p.c = 2 * p.a; p.d = p.a + 1;
    if (i % 2) { v.store(p); } else { v = p; }
  }
  stop.store(true);
  for (auto & t : th) { t.join(); }
  return 0;
}

static int sharedOptional(int producers, int consumers, long ops)
{
  SharedOptionalVariable<long> v;
  std::atomic<int> live{producers};
  std::vector<std::vector<long>> got(consumers);
  std::vector<std::thread> th;
  for (int p = 0; p < producers; ++p) {
    th.emplace_back([&, p] {
        for (long i = 1; i <= ops; ++i) { v.store(i * 16 + p); }   // value encodes (sequence, producer)
        --live;
      });
  }
  for (int c = 0; c < consumers; ++c) {
    th.emplace_back([&, c] {
        while (live.load() > 0) {
          auto x = v.consume();
          if (x) { got[c].push_back(*x); }
        }
        auto x = v.consume();
        if (x) { got[c].push_back(*x); }
      });
  }
  for (auto & t : th) { t.join(); }
  std::set<long> seen;
  for (int c = 0; c < consumers; ++c) {
    std::vector<long> lastSeq(producers, 0);
    for (long x : got[c]) {
      int p = static_cast<int>(x % 16); long seq = x / 16;
      if (p < 0 || p >= producers || seq < 1 || seq > ops) { fail("consumed a value that was never stored"); continue; }
      if (!seen.insert(x).second) { fail("a stored value was handed out twice"); }
      if (seq <= lastSeq[p]) { fail("values of one producer consumed out of store order"); }
      lastSeq[p] = seq;
      ++checks;
    }
  }
  return 0;
}

static int onlineStats(int readers, long ops, bool variance)
{
  OnlineVariance var(0.001, 16);
  OnlineAverage avg(0.001, 16);
  std::atomic<bool> stop{false};
  std::vector<std::thread> th;
  for (int r = 0; r < readers; ++r) {
    th.emplace_back([&] {
        while (!stop.load()) {
          if (variance) {
            bool a = var.isAvailable(); double m = var.getAverage(); double s = var.getVariance();
            // all samples lie in [1, 3]: any mean/variance of them is inside these bounds (NaN right after a reset)
            if (a && m == m && (m < 1 - 1e-9 || m > 3 + 1e-9)) { fail("average outside the range of the samples"); }
            if (a && s == s && (s < -1e-6 || s > 1.2)) { fail("variance outside the possible range"); }
          } else {
            bool a = avg.isAvailable(); double m = avg.getAverage();
            if (a && m == m && (m < 1 - 1e-9 || m > 3 + 1e-9)) { fail("average outside the range of the samples"); }
          }
          ++checks;
        }
      });
  }
  for (long i = 0; i < ops; ++i) {
    double x = 1.0 + (i % 5) * 0.5;
    if (variance) { var.update(x); if (i % 997 == 0) { var.reset(); } }
    else { avg.update(x); if (i % 997 == 0) { avg.reset(); } }
  }
  stop.store(true);
  for (auto & t : th) { t.join(); }
  return 0;
}

// status / message / value of one report copy must belong to the same evaluation
static void checkReport(const DiagnosticReport & r, const std::string & name, int kind)
{
  if (r.diagnostics.size() != 1 || r.info.size() != 1) { fail("malformed report copy"); return; }
  const Diagnostic & d = r.diagnostics.front();
  const std::string & val = r.info.begin()->second;
  ++checks;
  if (d.status == DiagnosticStatus::STALE) {
    if (!d.message.empty() && d.message != name + " timeout.") { fail("STALE with a non-timeout message"); }
    if (!val.empty()) { fail("STALE with a non-empty value"); }
    return;
  }
  if (val.empty()) { if (d.message.rfind("no data", 0) == 0) { return; } fail("evaluated report with empty value"); return; }
  double v = std::atof(val.c_str());
  // kind 0: equal-to 5 +- 1 ; kind 1: greater-than 5 - 1 ; kind 2: lower-than 5 + 1 ; kind 3: reliability 0.3 / 0.7
  std::string expect; DiagnosticStatus st = DiagnosticStatus::OK;
  if (kind == 0) { if (v < 4) { expect = " is too low."; st = DiagnosticStatus::ERROR; } else if (v > 6) { expect = " is too high."; st = DiagnosticStatus::ERROR; } else { expect = " is OK."; } }
  if (kind == 1) { if (v > 4) { expect = " is OK."; } else { expect = " is too low."; st = DiagnosticStatus::ERROR; } }
  if (kind == 2) { if (v < 6) { expect = " is OK."; } else { expect = " is too high."; st = DiagnosticStatus::ERROR; } }
  if (kind == 3) { if (v < 0.3) { expect = " is too low."; st = DiagnosticStatus::ERROR; } else if (v < 0.7) { expect = " is uncertain."; st = DiagnosticStatus::WARN; } else { expect = " is high."; } }
  if (d.status != st || d.message != name + expect) { fail("status/message/value of a report copy belong to different evaluations"); }
}

template<class C> static int checkup(int readers, long ops, int kind, bool withTimeout)
{
  C c("q", 5.0, 1.0);
  std::atomic<bool> stop{false};
  std::vector<std::thread> th;
  for (int r = 0; r < readers; ++r) {
    th.emplace_back([&] { while (!stop.load()) { DiagnosticReport rep = c.getReport(); checkReport(rep, "q", kind); } });
  }
  if (withTimeout) { th.emplace_back([&] { while (!stop.load()) { c.timeout(); std::this_thread::yield(); } }); }
  const double vals[] = {1.0, 4.5, 5.0, 5.5, 9.0, 2.0, 7.0, 5.0};     // exactly representable with 6 digits, far from the thresholds
  for (long i = 0; i < ops; ++i) { c.evaluate(vals[i % 8]); }
  stop.store(true);
  for (auto & t : th) { t.join(); }
  return 0;
}

static int reliability(int readers, long ops)
{
  CheckupReliability c("q", 0.3, 0.7);
  std::atomic<bool> stop{false};
  std::vector<std::thread> th;
  for (int r = 0; r < readers; ++r) {
    th.emplace_back([&] { while (!stop.load()) { DiagnosticReport rep = c.getReport(); checkReport(rep, "q", 3); } });
  }
  const double vals[] = {0.1, 0.5, 0.9, 0.2, 0.6, 0.8};
  for (long i = 0; i < ops; ++i) { c.evaluate(vals[i % 6]); }
  stop.store(true);
  for (auto & t : th) { t.join(); }
  return 0;
}

static int rateMonitoring(int readers, long ops)
{
  RateMonitoring m(10.0);
  std::atomic<bool> stop{false};
  std::atomic<long long> now{0};
  std::vector<std::thread> th;
  for (int r = 0; r < readers; ++r) {
    th.emplace_back([&] {
        while (!stop.load()) {
          m.timeout(Duration(now.load() + (checks.load() % 3 == 0 ? 600000000LL : 1000LL)));
          double x = m.getRate();
          if (!(x >= 0)) { fail("negative or NaN rate"); }
          ++checks;
        }
      });
  }
  long long t = 0;
  for (long i = 0; i < ops; ++i) { t += 100000000LL; now.store(t); m.update(Duration(t)); }
  stop.store(true);
  for (auto & t2 : th) { t2.join(); }
  return 0;
}

// RateMonitoring, value consistency against the SEQUENTIAL behaviour (what `Romea.C19.rate_monitoring_serialisable`
// states of the model): window of 4 periods (expected rate 2 Hz), one writer calling update(k * 0.6 s), k = 0, 1, 2, ...,
// 1..4 heartbeat threads calling timeout(j * 0.6 s) with j = the index the writer published before starting update j,
// and getRate.  In EVERY serial order of these calls that respects real time:
//   * a heartbeat carrying index j runs after update j-1 returned, so the last stamp it can see is (j-1)*0.6 s or later:
//     it fires (0.6 s > 0.5 s: rate := 0) only if it is ordered BEFORE update j, and then update j stores its rate after it;
//   * update k, k >= 4 (window full), stores X = 1e9 / (4 * 0.6e9 / 4.0) and returns rate_.load() in the same critical
//     section: it returns exactly X; for k < 4 the rate has never been stored: it returns exactly 0;
//   * the rate is always 0 or X; after the last update (no later stamp exists) it is X.
// A change that lets a heartbeat in between update's bookkeeping and its final `lastDuration_.store / rate_.load`
// (e.g. a shortened critical section) makes update return 0 with the window full: no data race, but no serial order.
static int rateMonitoringSerial(int readers, long ops)
{
  const long long P = 600000000LL;
  RateMonitoring m(2.0);
  const double X = 1000000000. / (static_cast<double>(4 * P) / 4.0);
  if (readers < 1) { readers = 1; }
  if (readers > 4) { readers = 4; }
  if (ops < 8) { ops = 8; }
  std::atomic<bool> stop{false};
  std::atomic<long long> now{0};
  std::vector<std::thread> th;
  for (int r = 0; r < readers; ++r) {
    th.emplace_back([&] {
        while (!stop.load()) {
          long long j = now.load();
          m.timeout(Duration(j * P));
          double x = m.getRate();
          if (x != 0. && x != X) { fail("getRate returned a value that is neither 0 nor the rate of a full window"); }
          ++checks;
        }
      });
  }
  for (long long k = 0; k < ops; ++k) {
    now.store(k);
    double r = m.update(Duration(k * P));
    if (k < 4) {
      if (r != 0.) { fail("update returned a rate before the window was full"); }
    } else if (r != X) {
      char buf[200];
      std::snprintf(buf, sizeof buf, "update #%lld returned %.9g with the window full; every sequential order of the calls gives %.9g", k, r, X);
      fail(buf);
    }
    ++checks;
  }
  stop.store(true);
  for (auto & t2 : th) { t2.join(); }
  double x = m.getRate();
  if (x != X) { fail("after the last update (no later stamp) the rate is not the rate of the full window"); }
  ++checks;
  return 0;
}

template<class C> static int checkupRate(int readers, long ops)
{
  C c("src", 10.0, 1.0);
  std::atomic<bool> stop{false};
  std::atomic<long long> now{0};
  std::vector<std::thread> th;
  for (int r = 0; r < readers; ++r) {
    th.emplace_back([&, r] {
        while (!stop.load()) {
          if (r % 2 == 0) { c.heartBeatCallback(Duration(now.load() + (checks.load() % 3 == 0 ? 600000000LL : 1000LL))); }
          DiagnosticReport rep = c.getReport();
          if (rep.diagnostics.size() != 1 || rep.info.size() != 1) { fail("malformed report copy"); continue; }
          const Diagnostic & d = rep.diagnostics.front();
          const std::string & val = rep.info.begin()->second;
          if (d.status == DiagnosticStatus::STALE && !val.empty()) { fail("STALE with a non-empty value"); }
          if (d.status == DiagnosticStatus::OK && d.message != "src_rate is OK.") { fail("OK with a non-OK message"); }
          if (d.status == DiagnosticStatus::OK && val.empty()) { fail("OK with an empty value"); }
          ++checks;
        }
      });
  }
  long long t = 0;
  for (long i = 0; i < ops; ++i) { t += 100000000LL; now.store(t); c.evaluate(Duration(t)); }
  stop.store(true);
  for (auto & t2 : th) { t2.join(); }
  return 0;
}

int main(int argc, char ** argv)
{
  if (argc < 6) { std::fprintf(stderr, "usage\n"); return 2; }
  std::string s = argv[1];
  int readers = std::atoi(argv[2]), prod = std::atoi(argv[3]), cons = std::atoi(argv[4]);
  long ops = std::atol(argv[5]);
  if (s == "shared_variable") { sharedVariable(readers, ops); }
  else if (s == "shared_optional") { sharedOptional(prod, cons, ops); }
  else if (s == "online_average") { onlineStats(readers, ops, false); }
  else if (s == "online_variance") { onlineStats(readers, ops, true); }
  else if (s == "checkup_equal_to") { checkup<CheckupEqualTo<double>>(readers, ops, 0, true); }
  else if (s == "checkup_greater_than") { checkup<CheckupGreaterThan<double>>(readers, ops, 1, true); }
  else if (s == "checkup_lower_than") { checkup<CheckupLowerThan<double>>(readers, ops, 2, false); }
  else if (s == "checkup_reliability") { reliability(readers, ops); }
  else if (s == "rate_monitoring") { rateMonitoring(readers, ops); }
  else if (s == "rate_monitoring_serial") { rateMonitoringSerial(readers, ops); }
  else if (s == "checkup_rate_eq") { checkupRate<CheckupEqualToRate>(readers, ops); }
  else if (s == "checkup_rate_gt") { checkupRate<CheckupGreaterThanRate>(readers, ops); }
  else { std::fprintf(stderr, "unknown scenario\n"); return 2; }
  if (bad.load()) { std::printf("INCONSISTENT %s %s\n", s.c_str(), badWhat.c_str()); return 1; }
  std::printf("ok %s checks=%ld\n", s.c_str(), checks.load());
  return 0;
}
