// C16 harness: OnlineAverage / OnlineVariance (protected state exposed through subclasses) and
// RingOfEigenVector.
#include <memory>
#include <Eigen/Core>
#include "proto.hpp"
#include "romea_core_common/monitoring/OnlineAverage.hpp"
#include "romea_core_common/monitoring/OnlineVariance.hpp"
#include "romea_core_common/containers/Eigen/RingOfEigenVector.hpp"

using namespace romea::core;
using vp::Toks;

struct AvgX : OnlineAverage
{
  using OnlineAverage::OnlineAverage;
  size_t idx() const { return index_; }
  size_t n() const { return data_.size(); }
  long long sum() const { return sumOfData_; }
};
struct VarX : OnlineVariance
{
  using OnlineVariance::OnlineVariance;
  size_t idx() const { return index_; }
  size_t n() const { return data_.size(); }
  long long sum() const { return sumOfData_; }
};

static std::unique_ptr<AvgX> avg;
static std::unique_ptr<VarX> var;
static std::unique_ptr<RingOfEigenVector<Eigen::Vector2d>> ring;

static void reset() { avg.reset(); var.reset(); ring.reset(); }

static std::string describe()
{
  if (avg) {
    return "avg " + vp::fmtD(avg->getAverage()) + " avail " + (avg->isAvailable() ? "1" : "0") + " idx " +
           std::to_string(avg->idx()) + " n " + std::to_string(avg->n()) + " sum " + std::to_string(avg->sum());
  }
  return "avg " + vp::fmtD(var->getAverage()) + " var " + vp::fmtD(var->getVariance()) + " avail " +
         (var->isAvailable() ? "1" : "0") + " idx " + std::to_string(var->idx()) + " n " + std::to_string(var->n()) +
         " sum " + std::to_string(var->sum());
}

static std::string handle(const Toks & t)
{
  const std::string & op = t[0];
  if ((op == "avg.new" || op == "var.new") && t.size() == 3) {
    double p = vp::parseD(t[1]); size_t w = vp::parseU(t[2]);
    if (w == 0) { throw vp::BadOp(); }
    reset();
    // both construction paths in turn: (precision, window) and (precision) followed by setWindowSize(window)
    static unsigned long made = 0;
    if (++made % 2 == 0) {
      if (op == "avg.new") { avg.reset(new AvgX(p, w)); } else { var.reset(new VarX(p, w)); }
    } else {
      if (op == "avg.new") { avg.reset(new AvgX(p)); avg->setWindowSize(w); } else { var.reset(new VarX(p)); var->setWindowSize(w); }
    }
    return describe();
  }
  if (op == "stat.upd" && t.size() == 2) {
    if (!avg && !var) { throw vp::BadOp(); }
    double v = vp::parseD(t[1]);
    // VALUE SEMANTICS: every fifth update the object is replaced by a COPY of itself (copy constructor) and the original destroyed:
    // a copy carries the whole window state
    static unsigned long updates = 0;
    if (++updates % 5 == 0) {
      if (avg) { std::unique_ptr<AvgX> c(new AvgX(*avg)); avg = std::move(c); } else { std::unique_ptr<VarX> c(new VarX(*var)); var = std::move(c); }
    }
    if (avg) { avg->update(v); } else { var->update(v); }
    return describe();
  }
  if (op == "stat.reset" && t.size() == 1) {
    if (!avg && !var) { throw vp::BadOp(); }
    if (avg) { avg->reset(); } else { var->reset(); }
    return describe();
  }
  if (op == "ring.new" && t.size() == 2) {
    size_t c = vp::parseU(t[1]); if (c == 0) { throw vp::BadOp(); }
    reset(); ring.reset(new RingOfEigenVector<Eigen::Vector2d>(c)); return "ok";
  }
  if (op == "ring.app" && t.size() == 2) {
    if (!ring) { throw vp::BadOp(); }
    double v = static_cast<double>(vp::parseU(t[1]));
    static unsigned long appends = 0;
    if (++appends % 4 == 0) { std::unique_ptr<RingOfEigenVector<Eigen::Vector2d>> c(new RingOfEigenVector<Eigen::Vector2d>(*ring)); ring = std::move(c); }
    ring->append(Eigen::Vector2d(v, -v));
    return "size " + std::to_string(ring->size());
  }
  if (op == "ring.clear" && t.size() == 1) {
    if (!ring) { throw vp::BadOp(); }
    ring->clear(); return "size " + std::to_string(ring->size());
  }
  if (op == "ring.get" && t.size() == 2) {
    if (!ring) { throw vp::BadOp(); }
    size_t k = vp::parseU(t[1]); if (k >= ring->size()) { throw vp::BadOp(); }
    const Eigen::Vector2d & v = (*ring)[k];
    if (v.y() != -v.x()) { return "corrupt"; }
    return "val " + std::to_string(static_cast<unsigned long long>(v.x()));
  }
  if (op == "ring.dump" && t.size() == 1) {
    if (!ring) { throw vp::BadOp(); }
    std::string o = "size " + std::to_string(ring->size());
    for (size_t k = 0; k < ring->size(); ++k) { o += " " + std::to_string(static_cast<unsigned long long>((*ring)[k].x())); }
    return o;
  }
  throw vp::BadOp();
}

int main() { return vp::run(reset, handle); }
