// C10 harness: angle normalisers, Euler angles / rotation / quaternion conversions, SmartRotation3D::R,
// rigid_transformation3, polar and spherical coordinate maps — the real functions of /repo, float and double.
//
// The scalar type of an op is the type of its value tokens (d<bits> = double, s<bits> = float).  The single
// argument `@` stands for "the values printed by the previous op of this case" (same type).  Output: the values;
// `precond` when the normalisers' assert (|val| < 4*pi) would fire (checked here, the library is built with NDEBUG).
#include <memory>
#include "proto.hpp"
#include "romea_core_common/math/EulerAngles.hpp"
#include "romea_core_common/math/Transformation.hpp"
#include "romea_core_common/transform/SmartRotation3D.hpp"
#include "romea_core_common/coordinates/PolarCoordinates.hpp"
#include "romea_core_common/coordinates/SphericalCoordinates.hpp"

using namespace romea::core;
using vp::Toks;

struct Precond {};

static std::vector<double> lastD;
static std::vector<float> lastS;
static int lastType = 0;   // 0 none, 1 double, 2 float
static std::unique_ptr<SmartRotation3D> smart;

static void reset() { lastD.clear(); lastS.clear(); lastType = 0; smart.reset(); }

template<typename T> static std::vector<T> mat3(const Eigen::Matrix<T, 3, 3> & m)
{
  return {m(0, 0), m(0, 1), m(0, 2), m(1, 0), m(1, 1), m(1, 2), m(2, 0), m(2, 1), m(2, 2)};
}

template<typename T> static void checkPre(T v)
{
  if (!(v > -M_4PI && v < M_4PI)) { throw Precond(); }
}

template<typename T> static std::vector<T> sphTo(const std::vector<T> & a, bool homogeneous)
{
  if (homogeneous) {
    SphericalCoordinates<T> s = toSpherical(HomogeneousCoordinates3<T>(a[0], a[1], a[2]));
    return {s.getRange(), s.getAzimut(), s.getElevation()};
  }
  SphericalCoordinates<T> s = toSpherical(CartesianCoordinates3<T>(a[0], a[1], a[2]));
  return {s.getRange(), s.getAzimut(), s.getElevation()};
}

template<typename T> static std::vector<T> evalOp(const std::string & op, const std::vector<T> & a)
{
  using V3 = Eigen::Matrix<T, 3, 1>;
  using M3 = Eigen::Matrix<T, 3, 3>;
  using M2 = Eigen::Matrix<T, 2, 2>;
  const size_t n = a.size();
  if (op == "ang.n02pi" && n == 1) { checkPre(a[0]); return {between0And2Pi(a[0])}; }
  if (op == "ang.npipi" && n == 1) { checkPre(a[0]); return {betweenMinusPiAndPi(a[0])}; }
  if (op == "rot2.to" && n == 1) { M2 m = eulerAngleToRotation2D(a[0]); return {m(0, 0), m(0, 1), m(1, 0), m(1, 1)}; }
  if (op == "rot2.from" && n == 4) { M2 m; m << a[0], a[1], a[2], a[3]; return {rotation2DToEulerAngle(m)}; }
  if (op == "eul.toR" && n == 3) { M3 m = eulerAnglesToRotation3D(V3(a[0], a[1], a[2])); return mat3<T>(m); }
  if (op == "eul.toQ" && n == 3) {
    Eigen::Quaternion<T> q = eulerAnglesToQuaternion(V3(a[0], a[1], a[2])); return {q.w(), q.x(), q.y(), q.z()};
  }
  if (op == "eul.fromR" && n == 9) {
    M3 m; m << a[0], a[1], a[2], a[3], a[4], a[5], a[6], a[7], a[8];
    V3 e = rotation3DToEulerAngles(m); return {e[0], e[1], e[2]};
  }
  if (op == "eul.fromQ" && n == 4) {
    V3 e = quaternionToEulerAngles(Eigen::Quaternion<T>(a[0], a[1], a[2], a[3])); return {e[0], e[1], e[2]};
  }
  if (op == "rt3" && n == 6) {
    Eigen::Transform<T, 3, Eigen::Affine> t = rigid_transformation3(V3(a[0], a[1], a[2]), V3(a[3], a[4], a[5]));
    std::vector<T> o;
    for (int i = 0; i < 3; ++i) { for (int j = 0; j < 4; ++j) { o.push_back(t.matrix()(i, j)); } }
    const auto & m = t.matrix();
    if (!(m(3, 0) == 0 && m(3, 1) == 0 && m(3, 2) == 0 && m(3, 3) == 1)) { o.push_back(T(-1)); }  // last row must stay 0 0 0 1
    return o;
  }
  if (op == "pol.to" && n == 2) { auto p = toPolar(CartesianCoordinates2<T>(a[0], a[1])); return {p.getRange(), p.getAzimut()}; }
  if (op == "polh.to" && n == 2) {
    // the homogeneous -> polar overload is called toHomogeneous in the library
    PolarCoordinates<T> p = toHomogeneous(HomogeneousCoordinates2<T>(a[0], a[1])); return {p.getRange(), p.getAzimut()};
  }
  if (op == "pol.tos" && n == 2) { return {PolarTransform::range(a[0], a[1]), PolarTransform::azimut(a[0], a[1])}; }
  if (op == "pol.from" && n == 2) { CartesianCoordinates2<T> c = toCartesian(PolarCoordinates<T>(a[0], a[1])); return {c.x(), c.y()}; }
  if (op == "polh.from" && n == 2) {
    HomogeneousCoordinates2<T> c = toHomogeneous(PolarCoordinates<T>(a[0], a[1]));
    if (c[2] != 1) { throw std::runtime_error("w"); }
    return {c.x(), c.y()};
  }
  if (op == "sph.to" && n == 3) { return sphTo<T>(a, false); }
  if (op == "sphh.to" && n == 3) { return sphTo<T>(a, true); }
  if (op == "sph.tos" && n == 3) {
    return {SphericalTransform::range(a[0], a[1], a[2]), SphericalTransform::azimut(a[0], a[1]),
      SphericalTransform::elevation(a[0], a[1], a[2])};
  }
  if (op == "sph.from" && n == 3) {
    CartesianCoordinates3<T> c = toCartesian(SphericalCoordinates<T>(a[0], a[1], a[2])); return {c.x(), c.y(), c.z()};
  }
  if (op == "sphh.from" && n == 3) {
    HomogeneousCoordinates3<T> c = toHomogeneous(SphericalCoordinates<T>(a[0], a[1], a[2]));
    if (c[3] != 1) { throw std::runtime_error("w"); }
    return {c.x(), c.y(), c.z()};
  }
  throw vp::BadOp();
}

static std::vector<double> evalD(const std::string & op, const std::vector<double> & a)
{
  if (op == "ang.fmod" && a.size() == 1) { checkPre(a[0]); return {std::fmod(a[0], M_2PI)}; }   // libm, validates the model's fmod
  if (op == "smart.ctor" && a.size() == 3) { smart.reset(new SmartRotation3D(a[0], a[1], a[2])); return mat3<double>(smart->R()); }
  if (op == "smart.init" && a.size() == 3) {
    if (!smart) { throw vp::BadOp(); }
    smart->init(a[0], a[1], a[2]); return mat3<double>(smart->R());
  }
  // the Eigen::Vector3d overloads (constructor and init): same model function, different C++ entry point
  if (op == "smart.ctorv" && a.size() == 3) { smart.reset(new SmartRotation3D(Eigen::Vector3d(a[0], a[1], a[2]))); return mat3<double>(smart->R()); }
  if (op == "smart.initv" && a.size() == 3) {
    if (!smart) { throw vp::BadOp(); }
    smart->init(Eigen::Vector3d(a[0], a[1], a[2])); return mat3<double>(smart->R());
  }
  return evalOp<double>(op, a);
}

template<typename T> static std::string fmtAll(const std::vector<T> & v)
{
  std::string o;
  for (size_t i = 0; i < v.size(); ++i) { if (i) { o += ' '; } o += vp::fmtF(v[i]); }
  return o;
}

static std::string handleInner(const Toks & t)
{
  const std::string & op = t[0];
  if (op == "smart.new" && t.size() == 1) { smart.reset(new SmartRotation3D()); lastType = 0; return "ok"; }
  if (op == "smart.R" && t.size() == 1) {
    if (!smart) { throw vp::BadOp(); }
    lastD = mat3<double>(smart->R()); lastType = 1; return fmtAll(lastD);
  }
  if (t.size() < 2) { throw vp::BadOp(); }
  int type = 0;
  std::vector<double> ad; std::vector<float> as;
  if (t.size() == 2 && t[1] == "@") {
    if (lastType == 0) { throw vp::BadOp(); }
    type = lastType; ad = lastD; as = lastS;
  } else {
    bool allD = true, allS = true;
    for (size_t i = 1; i < t.size(); ++i) { allD = allD && t[i][0] == 'd'; allS = allS && t[i][0] == 's'; }
    if (allD) { type = 1; for (size_t i = 1; i < t.size(); ++i) { ad.push_back(vp::parseD(t[i])); } }
    else if (allS) { type = 2; for (size_t i = 1; i < t.size(); ++i) { as.push_back(vp::parseS(t[i])); } }
    else { throw vp::BadOp(); }
  }
  if (type == 1) { lastD = evalD(op, ad); lastType = 1; return fmtAll(lastD); }
  lastS = evalOp<float>(op, as); lastType = 2; return fmtAll(lastS);
}

static std::string handle(const Toks & t)
{
  try { return handleInner(t); }
  catch (const Precond &) { lastType = 0; return "precond"; }
  catch (const vp::BadOp &) { lastType = 0; throw; }
}

int main() { return vp::run(reset, handle); }
