// C02 harness: drives ONE real ENUConverter object per case through an op sequence (binary64).
//   enu.new                         → ok            (default constructor)
//   enu.newat   lat lon alt         → ok            (constructor with anchor)
//   enu.anchor  lat lon alt         → ok            (setAnchor)
//   enu.reset                       → ok
//   enu.toenu_ecef x y z            → e n u         (toENU(Vector3d))
//   enu.toenu_geo  lat lon alt      → e n u         (toENU(GeodeticCoordinates), auto-anchors)
//   enu.toenu_wgs  lat lon          → e n u         (toENU(WGS84Coordinates), altitude of the stored anchor)
//   enu.toecef  e n u               → x y z         (toECEF(Vector3d))
//   enu.toecef3 e n u               → x y z         (toECEF(double,double,double))
//   enu.towgs   e n u               → lat lon alt   (toWGS84(Vector3d))
//   enu.towgs3  e n u               → lat lon alt   (toWGS84(double,double,double))
//   enu.rt_ecef e n u               → toENU(toECEF(v))            compositions on the same object
//   enu.rt_inv  x y z               → toECEF(toENU(p))
//   enu.rt_wgs  e n u               → toENU(toWGS84(v))           (GeodeticCoordinates overload)
//   enu.state                       → isAnchored, the 16 entries of getEnuToEcefTransform().matrix() (row-major),
//                                     getAnchor() (lat lon alt)
// An op before the first enu.new / enu.newat of a case is malformed (bad-op).
#include <memory>
#include "proto.hpp"
#include "romea_core_common/geodesy/ENUConverter.hpp"

using namespace romea::core;
using vp::Toks;

static std::unique_ptr<ENUConverter> conv;

static std::string fmtV(const Eigen::Vector3d & v)
{
  return vp::fmtD(v[0]) + " " + vp::fmtD(v[1]) + " " + vp::fmtD(v[2]);
}
static std::string fmtG(const GeodeticCoordinates & g)
{
  return vp::fmtD(g.latitude) + " " + vp::fmtD(g.longitude) + " " + vp::fmtD(g.altitude);
}
static GeodeticCoordinates geo(const Toks & t)
{
  GeodeticCoordinates g; g.latitude = vp::parseD(t[1]); g.longitude = vp::parseD(t[2]); g.altitude = vp::parseD(t[3]); return g;
}
static Eigen::Vector3d vec(const Toks & t)
{
  return Eigen::Vector3d(vp::parseD(t[1]), vp::parseD(t[2]), vp::parseD(t[3]));
}

static void reset() { conv.reset(); }

static std::string handle(const Toks & t)
{
  const std::string & op = t[0];
  if (op == "enu.new" && t.size() == 1) { conv.reset(new ENUConverter()); return "ok"; }
  if (op == "enu.newat" && t.size() == 4) { GeodeticCoordinates g = geo(t); conv.reset(new ENUConverter(g)); return "ok"; }
  if (!conv) { throw vp::BadOp(); }
  // VALUE SEMANTICS: every fourth op the converter is replaced by a copy of itself and the original destroyed
  { static unsigned long ops = 0; if (++ops % 4 == 0) { std::unique_ptr<ENUConverter> c(new ENUConverter(*conv)); conv = std::move(c); } }
  if (op == "enu.anchor" && t.size() == 4) { conv->setAnchor(geo(t)); return "ok"; }
  if (op == "enu.reset" && t.size() == 1) { conv->reset(); return "ok"; }
  if (op == "enu.toenu_ecef" && t.size() == 4) { return fmtV(static_cast<const ENUConverter &>(*conv).toENU(vec(t))); }
  if (op == "enu.toenu_geo" && t.size() == 4) { return fmtV(conv->toENU(geo(t))); }
  if (op == "enu.toenu_wgs" && t.size() == 3) {
    WGS84Coordinates w; w.latitude = vp::parseD(t[1]); w.longitude = vp::parseD(t[2]);
    return fmtV(conv->toENU(w));
  }
  if (op == "enu.toecef" && t.size() == 4) { return fmtV(conv->toECEF(vec(t))); }
  if (op == "enu.toecef3" && t.size() == 4) { return fmtV(conv->toECEF(vp::parseD(t[1]), vp::parseD(t[2]), vp::parseD(t[3]))); }
  if (op == "enu.towgs" && t.size() == 4) { return fmtG(conv->toWGS84(vec(t))); }
  if (op == "enu.towgs3" && t.size() == 4) { return fmtG(conv->toWGS84(vp::parseD(t[1]), vp::parseD(t[2]), vp::parseD(t[3]))); }
  if (op == "enu.rt_ecef" && t.size() == 4) { return fmtV(static_cast<const ENUConverter &>(*conv).toENU(conv->toECEF(vec(t)))); }
  if (op == "enu.rt_inv" && t.size() == 4) { return fmtV(conv->toECEF(static_cast<const ENUConverter &>(*conv).toENU(vec(t)))); }
  if (op == "enu.rt_wgs" && t.size() == 4) { return fmtV(conv->toENU(conv->toWGS84(vec(t)))); }
  if (op == "enu.state" && t.size() == 1) {
    std::string o = conv->isAnchored() ? "1" : "0";
    const Eigen::Affine3d & T = conv->getEnuToEcefTransform();
    for (int i = 0; i < 4; ++i) { for (int j = 0; j < 4; ++j) { o += " " + vp::fmtD(T.matrix()(i, j)); } }
    o += " " + fmtG(conv->getAnchor());
    return o;
  }
  throw vp::BadOp();
}

int main() { return vp::run(reset, handle); }
