// C04 harness: drives the real FindRigidTransformationBySVD (all eight point types, four find overloads)
// and appends, after the returned matrix, quantities evaluated in long double for the property probe:
//
//   ok <(D+1)^2 entries of H, row major> | q <ortho> <det> <bottom> <resid> <refscale> <dR> <dt> <costImpl> <costRef>
//                                            <svdContract> <detU*detV> <sigma ratios: s1/s0 [s2/s0]>
//
//   ortho   max |R^T R - I|                         det      det R            bottom  max |H(D,:) - (0..0 1)|
//   resid   max_i |H src_i - tgt_i|_inf over the correspondences (ORIGINAL, un-preconditioned sets)
//   refscale max |coordinate| of both sets          dR, dt   distance to an INDEPENDENT least-squares solution
//   (2D: closed form angle; 3D: Horn's quaternion method, 4x4 symmetric eigenproblem by cyclic Jacobi, long double)
//   costImpl/costRef  sums of squared residuals of the returned / the reference motion
//   svdContract  max contract residual of Eigen::JacobiSVD on the very matrix the estimator decomposes
//                (U,V orthogonal, S >= 0 descending, A = U S V^T relative to max|A|); monitored assumption
//   detU*detV    negative iff the estimator's determinant correction fires on this input (branch coverage)
// The model driver prints only the part before `|`.
#include <algorithm>
#include <vector>
#include "proto.hpp"
#include "romea_core_common/transform/estimation/FindRigidTransformationBySVD.hpp"

using namespace romea::core;
using vp::Toks;
typedef long double LD;

struct Set { int dim = 0; char kind = 0; std::vector<double> c; size_t n = 0; bool have = false; };
static Set SRC, TGT;

static void reset() { SRC = Set(); TGT = Set(); }

template<class PointType> PointType makePoint(const double * c)
{
  using S = typename PointType::Scalar;
  constexpr int DIM = PointTraits<PointType>::DIM;
  constexpr int SIZE = PointTraits<PointType>::SIZE;
  if constexpr (DIM == SIZE) {
    PointType p;
    for (int i = 0; i < DIM; ++i) { p(i) = static_cast<S>(c[i]); }
    return p;
  } else if constexpr (DIM == 2) {
    return PointType(static_cast<S>(c[0]), static_cast<S>(c[1]));
  } else {
    return PointType(static_cast<S>(c[0]), static_cast<S>(c[1]), static_cast<S>(c[2]));
  }
}

// ---------------------------------------------------------------- long double helpers
static void jacobiEig4(LD a[4][4], LD v[4][4])
{
  for (int i = 0; i < 4; ++i) { for (int j = 0; j < 4; ++j) { v[i][j] = (i == j); } }
  for (int sweep = 0; sweep < 60; ++sweep) {
    LD off = 0, dia = 0;
    for (int i = 0; i < 4; ++i) { for (int j = 0; j < 4; ++j) { (i == j ? dia : off) += a[i][j] * a[i][j]; } }
    if (off <= 1e-60L * dia || off == 0) { break; }
    for (int p = 0; p < 3; ++p) {
      for (int q = p + 1; q < 4; ++q) {
        if (a[p][q] == 0) { continue; }
        LD theta = (a[q][q] - a[p][p]) / (2 * a[p][q]);
        LD t = (theta >= 0 ? 1 : -1) / (std::fabs(theta) + std::sqrt(theta * theta + 1));
        LD c = 1 / std::sqrt(t * t + 1), s = t * c;
        for (int k = 0; k < 4; ++k) { LD x = a[k][p], y = a[k][q]; a[k][p] = c * x - s * y; a[k][q] = s * x + c * y; }
        for (int k = 0; k < 4; ++k) { LD x = a[p][k], y = a[q][k]; a[p][k] = c * x - s * y; a[q][k] = s * x + c * y; }
        for (int k = 0; k < 4; ++k) { LD x = v[k][p], y = v[k][q]; v[k][p] = c * x - s * y; v[k][q] = s * x + c * y; }
      }
    }
  }
}

// independent least-squares rigid motion (proper rotation) tgt ~ R src + t, long double
static void referenceMotion(int D, const std::vector<std::vector<LD>> & s, const std::vector<std::vector<LD>> & t,
  LD R[3][3], LD T[3])
{
  size_t n = s.size();
  LD sm[3] = {0, 0, 0}, tm[3] = {0, 0, 0};
  for (size_t i = 0; i < n; ++i) { for (int k = 0; k < D; ++k) { sm[k] += s[i][k]; tm[k] += t[i][k]; } }
  for (int k = 0; k < D; ++k) { sm[k] /= n; tm[k] /= n; }
  LD M[3][3] = {{0, 0, 0}, {0, 0, 0}, {0, 0, 0}};   // M = sum s~ t~^T
  for (size_t i = 0; i < n; ++i) {
    for (int a = 0; a < D; ++a) { for (int b = 0; b < D; ++b) { M[a][b] += (s[i][a] - sm[a]) * (t[i][b] - tm[b]); } }
  }
  for (int a = 0; a < 3; ++a) { for (int b = 0; b < 3; ++b) { R[a][b] = (a == b); } }
  if (D == 2) {
    LD th = std::atan2(M[0][1] - M[1][0], M[0][0] + M[1][1]);
    R[0][0] = std::cos(th); R[0][1] = -std::sin(th); R[1][0] = std::sin(th); R[1][1] = std::cos(th);
  } else {
    LD N[4][4] = {
      {M[0][0] + M[1][1] + M[2][2], M[1][2] - M[2][1], M[2][0] - M[0][2], M[0][1] - M[1][0]},
      {M[1][2] - M[2][1], M[0][0] - M[1][1] - M[2][2], M[0][1] + M[1][0], M[2][0] + M[0][2]},
      {M[2][0] - M[0][2], M[0][1] + M[1][0], -M[0][0] + M[1][1] - M[2][2], M[1][2] + M[2][1]},
      {M[0][1] - M[1][0], M[2][0] + M[0][2], M[1][2] + M[2][1], -M[0][0] - M[1][1] + M[2][2]}};
    LD V[4][4];
    jacobiEig4(N, V);
    int best = 0;
    for (int k = 1; k < 4; ++k) { if (N[k][k] > N[best][best]) { best = k; } }
    LD w = V[0][best], x = V[1][best], y = V[2][best], z = V[3][best];
    LD nn = std::sqrt(w * w + x * x + y * y + z * z);
    w /= nn; x /= nn; y /= nn; z /= nn;
    R[0][0] = w * w + x * x - y * y - z * z; R[0][1] = 2 * (x * y - w * z); R[0][2] = 2 * (x * z + w * y);
    R[1][0] = 2 * (x * y + w * z); R[1][1] = w * w - x * x + y * y - z * z; R[1][2] = 2 * (y * z - w * x);
    R[2][0] = 2 * (x * z - w * y); R[2][1] = 2 * (y * z + w * x); R[2][2] = w * w - x * x - y * y + z * z;
  }
  for (int a = 0; a < D; ++a) { T[a] = tm[a]; for (int b = 0; b < D; ++b) { T[a] -= R[a][b] * sm[b]; } }
}

static std::string fmtLD(LD x) { return vp::fmtD(static_cast<double>(x)); }

enum Mode { CORR, ALL, PCORR, PALL };

template<class PointType>
std::string runFind(Mode mode, const std::vector<std::pair<size_t, size_t>> & corr, double sSd, double sTd)
{
  using S = typename PointType::Scalar;
  constexpr int D = PointTraits<PointType>::DIM;
  constexpr int P = PointTraits<PointType>::SIZE;
  PointSet<PointType> src, tgt;
  for (size_t i = 0; i < SRC.n; ++i) { src.push_back(makePoint<PointType>(&SRC.c[i * D])); }
  for (size_t i = 0; i < TGT.n; ++i) { tgt.push_back(makePoint<PointType>(&TGT.c[i * D])); }
  std::vector<Correspondence> cs;
  for (const auto & c : corr) { cs.emplace_back(c.first, c.second); }
  S sS = static_cast<S>(sSd), sT = static_cast<S>(sTd);

  FindRigidTransformationBySVD<PointType> estimator;
  Eigen::Matrix<S, D + 1, D + 1> H;
  PreconditionedPointSet<PointType> psrc, ptgt;
  if (mode == PCORR || mode == PALL) { psrc.compute(src, sS); ptgt.compute(tgt, sT); }
  switch (mode) {
    case CORR: H = estimator.find(src, tgt, cs); break;
    case ALL: H = estimator.find(src, tgt); break;
    case PCORR: H = estimator.find(psrc, ptgt, cs); break;
    case PALL: H = estimator.find(psrc, ptgt); break;
  }
  std::string out = "ok";
  for (int i = 0; i <= D; ++i) { for (int j = 0; j <= D; ++j) { out += " " + vp::fmtF(H(i, j)); } }

  // ------------------------------------------------------------ probe quantities (long double)
  std::vector<std::pair<size_t, size_t>> pairs = corr;
  if (mode == ALL || mode == PALL) { pairs.clear(); for (size_t i = 0; i < SRC.n; ++i) { pairs.emplace_back(i, i); } }
  LD R[3][3], T[3];
  for (int a = 0; a < D; ++a) { T[a] = H(a, D); for (int b = 0; b < D; ++b) { R[a][b] = H(a, b); } }
  LD ortho = 0;
  for (int a = 0; a < D; ++a) {
    for (int b = 0; b < D; ++b) {
      LD x = 0; for (int k = 0; k < D; ++k) { x += R[k][a] * R[k][b]; }
      ortho = std::max(ortho, std::fabs(x - (a == b)));
    }
  }
  LD det = (D == 2) ? R[0][0] * R[1][1] - R[0][1] * R[1][0] :
    R[0][0] * (R[1][1] * R[2][2] - R[1][2] * R[2][1]) - R[0][1] * (R[1][0] * R[2][2] - R[1][2] * R[2][0]) +
    R[0][2] * (R[1][0] * R[2][1] - R[1][1] * R[2][0]);
  LD bottom = 0;
  for (int j = 0; j <= D; ++j) { bottom = std::max(bottom, std::fabs(static_cast<LD>(H(D, j)) - (j == D))); }
  std::vector<std::vector<LD>> ps, pt;
  LD refscale = 0;
  for (const auto & c : pairs) {
    std::vector<LD> a(D), b(D);
    for (int k = 0; k < D; ++k) {
      a[k] = static_cast<S>(SRC.c[c.first * D + k]); b[k] = static_cast<S>(TGT.c[c.second * D + k]);
      refscale = std::max(refscale, std::max(std::fabs(a[k]), std::fabs(b[k])));
    }
    ps.push_back(a); pt.push_back(b);
  }
  LD Rr[3][3], Tr[3];
  referenceMotion(D, ps, pt, Rr, Tr);
  LD resid = 0, costI = 0, costR = 0, dR = 0, dT = 0;
  for (size_t i = 0; i < ps.size(); ++i) {
    for (int a = 0; a < D; ++a) {
      LD x = T[a] - pt[i][a], y = Tr[a] - pt[i][a];
      for (int b = 0; b < D; ++b) { x += R[a][b] * ps[i][b]; y += Rr[a][b] * ps[i][b]; }
      resid = std::max(resid, std::fabs(x)); costI += x * x; costR += y * y;
    }
  }
  for (int a = 0; a < D; ++a) {
    dT = std::max(dT, std::fabs(T[a] - Tr[a]));
    for (int b = 0; b < D; ++b) { dR = std::max(dR, std::fabs(R[a][b] - Rr[a][b])); }
  }

  // ------------------------------------------------------------ contract of Eigen::JacobiSVD on the estimator's own input
  const PointSet<PointType> & es = (mode == PCORR || mode == PALL) ? psrc.get() : src;
  const PointSet<PointType> & et = (mode == PCORR || mode == PALL) ? ptgt.get() : tgt;
  PointType smean = PointType::Zero(), tmean = PointType::Zero();
  for (const auto & c : pairs) { smean += es[c.first]; tmean += et[c.second]; }
  smean /= S(pairs.size()); tmean /= S(pairs.size());
  Eigen::Matrix<S, P, P> cov = Eigen::Matrix<S, P, P>::Zero();
  for (const auto & c : pairs) { cov += (es[c.first] - smean) * (et[c.second] - tmean).transpose(); }
  Eigen::Matrix<S, -1, -1> A = cov.block(0, 0, D, D);
  Eigen::JacobiSVD<Eigen::Matrix<S, -1, -1>> svd(A, Eigen::ComputeThinU | Eigen::ComputeThinV);
  Eigen::Matrix<S, -1, -1> U = svd.matrixU(), V = svd.matrixV();
  Eigen::Matrix<S, -1, 1> sv = svd.singularValues();
  LD contract = 0, amax = 0;
  for (int a = 0; a < D; ++a) { for (int b = 0; b < D; ++b) { amax = std::max(amax, std::fabs(static_cast<LD>(A(a, b)))); } }
  for (int a = 0; a < D; ++a) {
    for (int b = 0; b < D; ++b) {
      LD uu = 0, vv = 0, rec = 0;
      for (int k = 0; k < D; ++k) {
        uu += static_cast<LD>(U(k, a)) * U(k, b); vv += static_cast<LD>(V(k, a)) * V(k, b);
        rec += static_cast<LD>(U(a, k)) * sv(k) * V(b, k);
      }
      contract = std::max(contract, std::fabs(uu - (a == b)));
      contract = std::max(contract, std::fabs(vv - (a == b)));
      if (amax > 0) { contract = std::max(contract, std::fabs(rec - static_cast<LD>(A(a, b))) / amax); }
    }
  }
  for (int k = 0; k < D; ++k) {
    if (!(sv(k) >= 0) || (k > 0 && !(sv(k) <= sv(k - 1)))) { contract = 1e30L; }
  }
  LD detUV = static_cast<LD>(U.determinant()) * static_cast<LD>(V.determinant());
  out += " | q " + fmtLD(ortho) + " " + fmtLD(det) + " " + fmtLD(bottom) + " " + fmtLD(resid) + " " + fmtLD(refscale) + " " +
    fmtLD(dR) + " " + fmtLD(dT) + " " + fmtLD(costI) + " " + fmtLD(costR) + " " + fmtLD(contract) + " " + fmtLD(detUV);
  for (int k = 1; k < D; ++k) { out += " " + fmtLD(sv(0) > 0 ? static_cast<LD>(sv(k)) / sv(0) : 0); }
  return out;
}

static std::vector<std::pair<size_t, size_t>> parsePairs(const Toks & t, size_t from, size_t k)
{
  std::vector<std::pair<size_t, size_t>> r;
  for (size_t i = 0; i < k; ++i) {
    size_t a = vp::parseU(t[from + 2 * i]), b = vp::parseU(t[from + 2 * i + 1]);
    if (a >= SRC.n || b >= TGT.n) { throw vp::BadOp(); }
    r.emplace_back(a, b);
  }
  return r;
}

static std::string handle(const Toks & t)
{
  const std::string & op = t[0];
  if (op == "svd.pts") {
    if (t.size() < 5) { throw vp::BadOp(); }
    if (t[1] != "src" && t[1] != "tgt") { throw vp::BadOp(); }
    uint64_t dim = vp::parseU(t[2]), n = vp::parseU(t[4]);
    if ((dim != 2 && dim != 3) || (t[3] != "f" && t[3] != "d") || t.size() != 5 + n * dim) { throw vp::BadOp(); }
    Set s; s.dim = static_cast<int>(dim); s.kind = t[3][0]; s.n = n; s.have = true;
    for (size_t i = 5; i < t.size(); ++i) { s.c.push_back(s.kind == 'd' ? vp::parseD(t[i]) : static_cast<double>(vp::parseS(t[i]))); }
    // a new dimension invalidates the other set
    if (SRC.have && SRC.dim != s.dim) { SRC = Set(); }
    if (TGT.have && TGT.dim != s.dim) { TGT = Set(); }
    (t[1] == "src" ? SRC : TGT) = s;
    return "ok";
  }
  if (op == "svd.find") {
    if (t.size() < 3 || (t[1] != "c" && t[1] != "h")) { throw vp::BadOp(); }
    if (!SRC.have || !TGT.have || SRC.kind != TGT.kind || SRC.dim != TGT.dim) { throw vp::BadOp(); }
    bool hom = t[1] == "h";
    Mode mode; std::vector<std::pair<size_t, size_t>> corr; double sS = 1, sT = 1;
    auto scale = [&](const std::string & s) { return SRC.kind == 'd' ? vp::parseD(s) : static_cast<double>(vp::parseS(s)); };
    if (t[2] == "corr" && t.size() >= 4) {
      size_t k = vp::parseU(t[3]);
      if (k == 0 || t.size() != 4 + 2 * k) { throw vp::BadOp(); }
      mode = CORR; corr = parsePairs(t, 4, k);
    } else if (t[2] == "all" && t.size() == 3) {
      if (SRC.n != TGT.n || SRC.n == 0) { throw vp::BadOp(); }
      mode = ALL;
    } else if (t[2] == "pcorr" && t.size() >= 4) {
      size_t k = vp::parseU(t[3]);
      if (k == 0 || t.size() != 4 + 2 * k + 2) { throw vp::BadOp(); }
      mode = PCORR; corr = parsePairs(t, 4, k); sS = scale(t[4 + 2 * k]); sT = scale(t[5 + 2 * k]);
    } else if (t[2] == "pall" && t.size() == 5) {
      if (SRC.n != TGT.n || SRC.n == 0) { throw vp::BadOp(); }
      mode = PALL; sS = scale(t[3]); sT = scale(t[4]);
    } else { throw vp::BadOp(); }
    int dim = SRC.dim; bool dbl = SRC.kind == 'd';
    if (dim == 2 && !hom && !dbl) { return runFind<Eigen::Vector2f>(mode, corr, sS, sT); }
    if (dim == 2 && !hom && dbl) { return runFind<Eigen::Vector2d>(mode, corr, sS, sT); }
    if (dim == 3 && !hom && !dbl) { return runFind<Eigen::Vector3f>(mode, corr, sS, sT); }
    if (dim == 3 && !hom && dbl) { return runFind<Eigen::Vector3d>(mode, corr, sS, sT); }
    if (dim == 2 && hom && !dbl) { return runFind<HomogeneousCoordinates2f>(mode, corr, sS, sT); }
    if (dim == 2 && hom && dbl) { return runFind<HomogeneousCoordinates2d>(mode, corr, sS, sT); }
    if (dim == 3 && hom && !dbl) { return runFind<HomogeneousCoordinates3f>(mode, corr, sS, sT); }
    return runFind<HomogeneousCoordinates3d>(mode, corr, sS, sT);
  }
  throw vp::BadOp();
}

int main() { return vp::run(reset, handle); }
