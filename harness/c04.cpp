// C04 harness: drives the real FindRigidTransformationBySVD (all eight point types, four find overloads)
// and appends, after the returned matrix, quantities evaluated in long double for the property probe:
//
//   ok <(D+1)^2 entries of H, row major> | q <ortho> <det> <bottom> <resid> <refscale> <dR> <dt> <costImpl> <costRef>
//                                            <svdContract> <detU*detV> <sigma ratios: s1/s0 [s2/s0]>
//
//   ortho   max |R^T R - I|                         det      det R            bottom  max |H(D,:) - (0..0 1)|
//   resid   max_i |H src_i - tgt_i|_inf over the correspondences (ORIGINAL, un-preconditioned sets)
//   refscale max |coordinate| of both sets          dR, dt   distance to an INDEPENDENT least-squares solution
//   (2D: closed form angle; 3D: Horn's quaternion method, 4x4 symmetric eigenproblem by cyclic Jacobi, long double)
//   costImpl/costRef  sums of squared residuals of the returned / the reference motion
//   svdContract  max contract residual of Eigen::JacobiSVD on the very matrix the estimator decomposes
//                (U,V orthogonal, S >= 0 descending, A = U S V^T relative to max|A|); monitored assumption
//   detU*detV    negative iff the estimator's determinant correction fires on this input (branch coverage)
// The model driver prints only the part before `|`.
//
// Long-lived objects (model: lean/RomeaModel/RegistrationObjects.lean).  Per point type the harness keeps, for the
// duration of a case, 2 x 4 numbered `PreconditionedPointSet` objects (source / target slots, default constructed at
// `#case`) and ONE `FindRigidTransformationBySVD` estimator object:
//   pps.compute  <src|tgt> <slot> <c|h> <scale>                 slot.compute(current raw set of that side, scale)
//   pps.computeT <src|tgt> <slot> <c|h> <scale> <dim transl.>   slot.compute(current raw set, scale, translation)
//        -> ok <get().size()> <(dim+1)^2 entries of getPreconditioningMatrix(), row major>
//   pps.get      <src|tgt> <slot> <c|h> <index>                 -> ok <POINT_SIZE coordinates of get()[index]>
//   svd.find <c|h> scorr <k> <2k indices> <srcSlot> <tgtSlot>   find(srcSlot object, tgtSlot object, correspondences)
//   svd.find <c|h> sall  <srcSlot> <tgtSlot>                    find(srcSlot object, tgtSlot object)
// The probe quantities of a slot find are evaluated on the raw sets that were LAST computed into the two slots (the
// harness keeps its own copy of them), i.e. on the registration problem the caller posed.  `svd.find C|H ...` (capital
// letter, any mode) uses the case-long estimator object instead of a fresh one.
// If the target object handed to the overload without correspondences holds fewer points than the source object, or a
// correspondence index is not below `get().size()`, the call would read out of bounds: the harness prints
// `ub-sizes <srcSize> <tgtSize>` instead of making it.
#include <algorithm>
#include <vector>
#include "proto.hpp"
#include "romea_core_common/transform/estimation/FindRigidTransformationBySVD.hpp"

using namespace romea::core;
using vp::Toks;
typedef long double LD;

struct Set { int dim = 0; char kind = 0; std::vector<double> c; size_t n = 0; bool have = false; };
static Set SRC, TGT;
static uint64_t GEN = 1;              // bumped at every `#case`: the per-type objects below are rebuilt lazily

static void reset() { SRC = Set(); TGT = Set(); ++GEN; }

constexpr size_t NSLOTS = 4;

template<class PointType> PointType makePoint(const double * c)
{
  using S = typename PointType::Scalar;
  constexpr int DIM = PointTraits<PointType>::DIM;
  constexpr int SIZE = PointTraits<PointType>::SIZE;
  if constexpr (DIM == SIZE) {
    PointType p;
    for (int i = 0; i < DIM; ++i) { p(i) = static_cast<S>(c[i]); }
    return p;
  } else if constexpr (DIM == 2) {
    return PointType(static_cast<S>(c[0]), static_cast<S>(c[1]));
  } else {
    return PointType(static_cast<S>(c[0]), static_cast<S>(c[1]), static_cast<S>(c[2]));
  }
}

// the long-lived objects of one point type (side 0 = source slots, side 1 = target slots)
template<class PointType> struct Objs
{
  FindRigidTransformationBySVD<PointType> estimator;
  PreconditionedPointSet<PointType> slot[2][NSLOTS];
  Set raw[2][NSLOTS];                // harness bookkeeping: the raw set last computed into the slot
  uint64_t gen = 0;
};
template<class PointType> Objs<PointType> & objs()
{
  static Objs<PointType> o;
  if (o.gen != GEN) { o = Objs<PointType>(); o.gen = GEN; }      // new case: default-constructed objects again
  return o;
}
template<class T> struct Tag { using type = T; };
template<class F> std::string dispatch(int dim, bool hom, bool dbl, F f)
{
  if (dim == 2 && !hom && !dbl) { return f(Tag<Eigen::Vector2f>()); }
  if (dim == 2 && !hom && dbl) { return f(Tag<Eigen::Vector2d>()); }
  if (dim == 3 && !hom && !dbl) { return f(Tag<Eigen::Vector3f>()); }
  if (dim == 3 && !hom && dbl) { return f(Tag<Eigen::Vector3d>()); }
  if (dim == 2 && hom && !dbl) { return f(Tag<HomogeneousCoordinates2f>()); }
  if (dim == 2 && hom && dbl) { return f(Tag<HomogeneousCoordinates2d>()); }
  if (dim == 3 && hom && !dbl) { return f(Tag<HomogeneousCoordinates3f>()); }
  return f(Tag<HomogeneousCoordinates3d>());
}

// ---------------------------------------------------------------- long double helpers
static void jacobiEig4(LD a[4][4], LD v[4][4])
{
  for (int i = 0; i < 4; ++i) { for (int j = 0; j < 4; ++j) { v[i][j] = (i == j); } }
  for (int sweep = 0; sweep < 60; ++sweep) {
    LD off = 0, dia = 0;
    for (int i = 0; i < 4; ++i) { for (int j = 0; j < 4; ++j) { (i == j ? dia : off) += a[i][j] * a[i][j]; } }
    if (off <= 1e-60L * dia || off == 0) { break; }
    for (int p = 0; p < 3; ++p) {
      for (int q = p + 1; q < 4; ++q) {
        if (a[p][q] == 0) { continue; }
        LD theta = (a[q][q] - a[p][p]) / (2 * a[p][q]);
        LD t = (theta >= 0 ? 1 : -1) / (std::fabs(theta) + std::sqrt(theta * theta + 1));
        LD c = 1 / std::sqrt(t * t + 1), s = t * c;
        for (int k = 0; k < 4; ++k) { LD x = a[k][p], y = a[k][q]; a[k][p] = c * x - s * y; a[k][q] = s * x + c * y; }
        for (int k = 0; k < 4; ++k) { LD x = a[p][k], y = a[q][k]; a[p][k] = c * x - s * y; a[q][k] = s * x + c * y; }
        for (int k = 0; k < 4; ++k) { LD x = v[k][p], y = v[k][q]; v[k][p] = c * x - s * y; v[k][q] = s * x + c * y; }
      }
    }
  }
}

// independent least-squares rigid motion (proper rotation) tgt ~ R src + t, long double
static void referenceMotion(int D, const std::vector<std::vector<LD>> & s, const std::vector<std::vector<LD>> & t,
  LD R[3][3], LD T[3])
{
  size_t n = s.size();
  LD sm[3] = {0, 0, 0}, tm[3] = {0, 0, 0};
  for (size_t i = 0; i < n; ++i) { for (int k = 0; k < D; ++k) { sm[k] += s[i][k]; tm[k] += t[i][k]; } }
  for (int k = 0; k < D; ++k) { sm[k] /= n; tm[k] /= n; }
  LD M[3][3] = {{0, 0, 0}, {0, 0, 0}, {0, 0, 0}};   // M = sum s~ t~^T
  for (size_t i = 0; i < n; ++i) {
    for (int a = 0; a < D; ++a) { for (int b = 0; b < D; ++b) { M[a][b] += (s[i][a] - sm[a]) * (t[i][b] - tm[b]); } }
  }
  for (int a = 0; a < 3; ++a) { for (int b = 0; b < 3; ++b) { R[a][b] = (a == b); } }
  if (D == 2) {
    LD th = std::atan2(M[0][1] - M[1][0], M[0][0] + M[1][1]);
    R[0][0] = std::cos(th); R[0][1] = -std::sin(th); R[1][0] = std::sin(th); R[1][1] = std::cos(th);
  } else {
    LD N[4][4] = {
      {M[0][0] + M[1][1] + M[2][2], M[1][2] - M[2][1], M[2][0] - M[0][2], M[0][1] - M[1][0]},
      {M[1][2] - M[2][1], M[0][0] - M[1][1] - M[2][2], M[0][1] + M[1][0], M[2][0] + M[0][2]},
      {M[2][0] - M[0][2], M[0][1] + M[1][0], -M[0][0] + M[1][1] - M[2][2], M[1][2] + M[2][1]},
      {M[0][1] - M[1][0], M[2][0] + M[0][2], M[1][2] + M[2][1], -M[0][0] - M[1][1] + M[2][2]}};
    LD V[4][4];
    jacobiEig4(N, V);
    int best = 0;
    for (int k = 1; k < 4; ++k) { if (N[k][k] > N[best][best]) { best = k; } }
    LD w = V[0][best], x = V[1][best], y = V[2][best], z = V[3][best];
    LD nn = std::sqrt(w * w + x * x + y * y + z * z);
    w /= nn; x /= nn; y /= nn; z /= nn;
    R[0][0] = w * w + x * x - y * y - z * z; R[0][1] = 2 * (x * y - w * z); R[0][2] = 2 * (x * z + w * y);
    R[1][0] = 2 * (x * y + w * z); R[1][1] = w * w - x * x + y * y - z * z; R[1][2] = 2 * (y * z - w * x);
    R[2][0] = 2 * (x * z - w * y); R[2][1] = 2 * (y * z + w * x); R[2][2] = w * w - x * x - y * y + z * z;
  }
  for (int a = 0; a < D; ++a) { T[a] = tm[a]; for (int b = 0; b < D; ++b) { T[a] -= R[a][b] * sm[b]; } }
}

static std::string fmtLD(LD x) { return vp::fmtD(static_cast<double>(x)); }

enum Mode { CORR, ALL, PCORR, PALL, SCORR, SALL };

template<class PointType>
std::string runFind(Mode mode, const std::vector<std::pair<size_t, size_t>> & corr, double sSd, double sTd,
  bool reuseEstimator, size_t slotS, size_t slotT)
{
  using S = typename PointType::Scalar;
  constexpr int D = PointTraits<PointType>::DIM;
  constexpr int P = PointTraits<PointType>::SIZE;
  Objs<PointType> & O = objs<PointType>();
  const bool slots = mode == SCORR || mode == SALL;
  // the registration problem posed: the current raw sets, or the raw sets last computed into the two slots
  const Set & SRC = slots ? O.raw[0][slotS] : ::SRC;
  const Set & TGT = slots ? O.raw[1][slotT] : ::TGT;
  PointSet<PointType> src, tgt;
  for (size_t i = 0; i < SRC.n; ++i) { src.push_back(makePoint<PointType>(&SRC.c[i * D])); }
  for (size_t i = 0; i < TGT.n; ++i) { tgt.push_back(makePoint<PointType>(&TGT.c[i * D])); }
  std::vector<Correspondence> cs;
  for (const auto & c : corr) { cs.emplace_back(c.first, c.second); }
  S sS = static_cast<S>(sSd), sT = static_cast<S>(sTd);

  FindRigidTransformationBySVD<PointType> freshEstimator;
  FindRigidTransformationBySVD<PointType> & estimator = reuseEstimator ? O.estimator : freshEstimator;
  Eigen::Matrix<S, D + 1, D + 1> H;
  PreconditionedPointSet<PointType> freshSrc, freshTgt;
  const PreconditionedPointSet<PointType> & psrc = slots ? O.slot[0][slotS] : freshSrc;
  const PreconditionedPointSet<PointType> & ptgt = slots ? O.slot[1][slotT] : freshTgt;
  if (mode == PCORR || mode == PALL) { freshSrc.compute(src, sS); freshTgt.compute(tgt, sT); }
  if (mode == SALL && psrc.get().size() > ptgt.get().size()) {      // estimate_ reads targetPoints[n] for n < sourcePoints.size()
    return "ub-sizes " + std::to_string(psrc.get().size()) + " " + std::to_string(ptgt.get().size());
  }
  if (mode == SCORR) {
    for (const auto & c : corr) {
      if (c.first >= psrc.get().size() || c.second >= ptgt.get().size()) {
        return "ub-sizes " + std::to_string(psrc.get().size()) + " " + std::to_string(ptgt.get().size());
      }
    }
  }
  switch (mode) {
    case CORR: H = estimator.find(src, tgt, cs); break;
    case ALL: H = estimator.find(src, tgt); break;
    case PCORR: case SCORR: H = estimator.find(psrc, ptgt, cs); break;
    case PALL: case SALL: H = estimator.find(psrc, ptgt); break;
  }
  std::string out = "ok";
  for (int i = 0; i <= D; ++i) { for (int j = 0; j <= D; ++j) { out += " " + vp::fmtF(H(i, j)); } }

  // ------------------------------------------------------------ probe quantities (long double)
  std::vector<std::pair<size_t, size_t>> pairs = corr;
  if (mode == ALL || mode == PALL || mode == SALL) { pairs.clear(); for (size_t i = 0; i < SRC.n; ++i) { pairs.emplace_back(i, i); } }
  LD R[3][3], T[3];
  for (int a = 0; a < D; ++a) { T[a] = H(a, D); for (int b = 0; b < D; ++b) { R[a][b] = H(a, b); } }
  LD ortho = 0;
  for (int a = 0; a < D; ++a) {
    for (int b = 0; b < D; ++b) {
      LD x = 0; for (int k = 0; k < D; ++k) { x += R[k][a] * R[k][b]; }
      ortho = std::max(ortho, std::fabs(x - (a == b)));
    }
  }
  LD det = (D == 2) ? R[0][0] * R[1][1] - R[0][1] * R[1][0] :
    R[0][0] * (R[1][1] * R[2][2] - R[1][2] * R[2][1]) - R[0][1] * (R[1][0] * R[2][2] - R[1][2] * R[2][0]) +
    R[0][2] * (R[1][0] * R[2][1] - R[1][1] * R[2][0]);
  LD bottom = 0;
  for (int j = 0; j <= D; ++j) { bottom = std::max(bottom, std::fabs(static_cast<LD>(H(D, j)) - (j == D))); }
  std::vector<std::vector<LD>> ps, pt;
  LD refscale = 0;
  for (const auto & c : pairs) {
    std::vector<LD> a(D), b(D);
    for (int k = 0; k < D; ++k) {
      a[k] = static_cast<S>(SRC.c[c.first * D + k]); b[k] = static_cast<S>(TGT.c[c.second * D + k]);
      refscale = std::max(refscale, std::max(std::fabs(a[k]), std::fabs(b[k])));
    }
    ps.push_back(a); pt.push_back(b);
  }
  LD Rr[3][3], Tr[3];
  referenceMotion(D, ps, pt, Rr, Tr);
  LD resid = 0, costI = 0, costR = 0, dR = 0, dT = 0;
  for (size_t i = 0; i < ps.size(); ++i) {
    for (int a = 0; a < D; ++a) {
      LD x = T[a] - pt[i][a], y = Tr[a] - pt[i][a];
      for (int b = 0; b < D; ++b) { x += R[a][b] * ps[i][b]; y += Rr[a][b] * ps[i][b]; }
      resid = std::max(resid, std::fabs(x)); costI += x * x; costR += y * y;
    }
  }
  for (int a = 0; a < D; ++a) {
    dT = std::max(dT, std::fabs(T[a] - Tr[a]));
    for (int b = 0; b < D; ++b) { dR = std::max(dR, std::fabs(R[a][b] - Rr[a][b])); }
  }

  // ------------------------------------------------------------ contract of Eigen::JacobiSVD on the estimator's own input
  const bool pre = mode == PCORR || mode == PALL || slots;
  const PointSet<PointType> & es = pre ? psrc.get() : src;
  const PointSet<PointType> & et = pre ? ptgt.get() : tgt;
  // (an object holding fewer points than the problem has pairs: only the pairs it does hold enter the monitored matrix)
  std::vector<std::pair<size_t, size_t>> held;
  for (const auto & c : pairs) { if (c.first < es.size() && c.second < et.size()) { held.push_back(c); } }
  PointType smean = PointType::Zero(), tmean = PointType::Zero();
  for (const auto & c : held) { smean += es[c.first]; tmean += et[c.second]; }
  smean /= S(held.size()); tmean /= S(held.size());
  Eigen::Matrix<S, P, P> cov = Eigen::Matrix<S, P, P>::Zero();
  for (const auto & c : held) { cov += (es[c.first] - smean) * (et[c.second] - tmean).transpose(); }
  Eigen::Matrix<S, -1, -1> A = cov.block(0, 0, D, D);
  Eigen::JacobiSVD<Eigen::Matrix<S, -1, -1>> svd(A, Eigen::ComputeThinU | Eigen::ComputeThinV);
  Eigen::Matrix<S, -1, -1> U = svd.matrixU(), V = svd.matrixV();
  Eigen::Matrix<S, -1, 1> sv = svd.singularValues();
  LD contract = 0, amax = 0;
  for (int a = 0; a < D; ++a) { for (int b = 0; b < D; ++b) { amax = std::max(amax, std::fabs(static_cast<LD>(A(a, b)))); } }
  for (int a = 0; a < D; ++a) {
    for (int b = 0; b < D; ++b) {
      LD uu = 0, vv = 0, rec = 0;
      for (int k = 0; k < D; ++k) {
        uu += static_cast<LD>(U(k, a)) * U(k, b); vv += static_cast<LD>(V(k, a)) * V(k, b);
        rec += static_cast<LD>(U(a, k)) * sv(k) * V(b, k);
      }
      contract = std::max(contract, std::fabs(uu - (a == b)));
      contract = std::max(contract, std::fabs(vv - (a == b)));
      if (amax > 0) { contract = std::max(contract, std::fabs(rec - static_cast<LD>(A(a, b))) / amax); }
    }
  }
  for (int k = 0; k < D; ++k) {
    if (!(sv(k) >= 0) || (k > 0 && !(sv(k) <= sv(k - 1)))) { contract = 1e30L; }
  }
  LD detUV = static_cast<LD>(U.determinant()) * static_cast<LD>(V.determinant());
  out += " | q " + fmtLD(ortho) + " " + fmtLD(det) + " " + fmtLD(bottom) + " " + fmtLD(resid) + " " + fmtLD(refscale) + " " +
    fmtLD(dR) + " " + fmtLD(dT) + " " + fmtLD(costI) + " " + fmtLD(costR) + " " + fmtLD(contract) + " " + fmtLD(detUV);
  for (int k = 1; k < D; ++k) { out += " " + fmtLD(sv(0) > 0 ? static_cast<LD>(sv(k)) / sv(0) : 0); }
  return out;
}

static std::vector<std::pair<size_t, size_t>> parsePairs(const Toks & t, size_t from, size_t k, size_t nS, size_t nT)
{
  std::vector<std::pair<size_t, size_t>> r;
  for (size_t i = 0; i < k; ++i) {
    size_t a = vp::parseU(t[from + 2 * i]), b = vp::parseU(t[from + 2 * i + 1]);
    if (a >= nS || b >= nT) { throw vp::BadOp(); }
    r.emplace_back(a, b);
  }
  return r;
}

// pps.compute / pps.computeT / pps.get on the slot object of one point type
template<class PointType>
std::string runObject(const std::string & op, int side, size_t slot, const Set & rawSet, const std::vector<double> & args)
{
  using S = typename PointType::Scalar;
  constexpr int D = PointTraits<PointType>::DIM;
  constexpr int P = PointTraits<PointType>::SIZE;
  Objs<PointType> & O = objs<PointType>();
  PreconditionedPointSet<PointType> & obj = O.slot[side][slot];
  if (op == "pps.get") {
    size_t i = static_cast<size_t>(args[0]);
    if (i >= obj.get().size()) { throw vp::BadOp(); }
    std::string out = "ok";
    for (int k = 0; k < P; ++k) { out += " " + vp::fmtF(obj.get()[i](k)); }
    return out;
  }
  PointSet<PointType> pts;
  for (size_t i = 0; i < rawSet.n; ++i) { pts.push_back(makePoint<PointType>(&rawSet.c[i * D])); }
  if (op == "pps.compute") {
    obj.compute(pts, static_cast<S>(args[0]));
  } else {
    Eigen::Matrix<S, D, 1> tr;
    for (int k = 0; k < D; ++k) { tr(k) = static_cast<S>(args[1 + k]); }
    obj.compute(pts, static_cast<S>(args[0]), tr);
  }
  O.raw[side][slot] = rawSet;
  std::string out = "ok " + std::to_string(obj.get().size());
  const auto & M = obj.getPreconditioningMatrix();
  for (int i = 0; i <= D; ++i) { for (int j = 0; j <= D; ++j) { out += " " + vp::fmtF(M(i, j)); } }
  return out;
}

static std::string handle(const Toks & t)
{
  const std::string & op = t[0];
  if (op == "pps.compute" || op == "pps.computeT" || op == "pps.get") {
    if (t.size() < 5 || (t[1] != "src" && t[1] != "tgt") || (t[3] != "c" && t[3] != "h")) { throw vp::BadOp(); }
    int side = t[1] == "src" ? 0 : 1;
    size_t slot = vp::parseU(t[2]);
    const Set & rawSet = side == 0 ? SRC : TGT;        // gives the input and the scalar type
    if (slot >= NSLOTS || !rawSet.have) { throw vp::BadOp(); }
    std::vector<double> args;
    if (op == "pps.get") {
      if (t.size() != 5) { throw vp::BadOp(); }
      args.push_back(static_cast<double>(vp::parseU(t[4])));
    } else {
      if (t.size() != 5 + (op == "pps.computeT" ? static_cast<size_t>(rawSet.dim) : 0)) { throw vp::BadOp(); }
      for (size_t i = 4; i < t.size(); ++i) {
        args.push_back(rawSet.kind == 'd' ? vp::parseD(t[i]) : static_cast<double>(vp::parseS(t[i])));
      }
    }
    return dispatch(rawSet.dim, t[3] == "h", rawSet.kind == 'd', [&](auto tag) {
        return runObject<typename decltype(tag)::type>(op, side, slot, rawSet, args);
      });
  }
  if (op == "svd.pts") {
    if (t.size() < 5) { throw vp::BadOp(); }
    if (t[1] != "src" && t[1] != "tgt") { throw vp::BadOp(); }
    uint64_t dim = vp::parseU(t[2]), n = vp::parseU(t[4]);
    if ((dim != 2 && dim != 3) || (t[3] != "f" && t[3] != "d") || t.size() != 5 + n * dim) { throw vp::BadOp(); }
    Set s; s.dim = static_cast<int>(dim); s.kind = t[3][0]; s.n = n; s.have = true;
    for (size_t i = 5; i < t.size(); ++i) { s.c.push_back(s.kind == 'd' ? vp::parseD(t[i]) : static_cast<double>(vp::parseS(t[i]))); }
    // a new dimension invalidates the other set
    if (SRC.have && SRC.dim != s.dim) { SRC = Set(); }
    if (TGT.have && TGT.dim != s.dim) { TGT = Set(); }
    (t[1] == "src" ? SRC : TGT) = s;
    return "ok";
  }
  if (op == "svd.find") {
    if (t.size() < 3 || (t[1] != "c" && t[1] != "h" && t[1] != "C" && t[1] != "H")) { throw vp::BadOp(); }
    if (!SRC.have || !TGT.have || SRC.kind != TGT.kind || SRC.dim != TGT.dim) { throw vp::BadOp(); }
    bool hom = t[1] == "h" || t[1] == "H";
    bool reuseEstimator = t[1] == "C" || t[1] == "H";
    int dim = SRC.dim; bool dbl = SRC.kind == 'd';
    size_t slotS = 0, slotT = 0;
    // number of points the two slot objects were last filled with (0: never computed into)
    auto slotSizes = [&](size_t a, size_t b) {
        if (a >= NSLOTS || b >= NSLOTS) { throw vp::BadOp(); }
        slotS = a; slotT = b;
        size_t nS = 0, nT = 0;
        dispatch(dim, hom, dbl, [&](auto tag) {
          auto & O = objs<typename decltype(tag)::type>();
          nS = O.raw[0][a].n; nT = O.raw[1][b].n;
          return std::string();
        });
        return std::make_pair(nS, nT);
      };
    Mode mode; std::vector<std::pair<size_t, size_t>> corr; double sS = 1, sT = 1;
    auto scale = [&](const std::string & s) { return SRC.kind == 'd' ? vp::parseD(s) : static_cast<double>(vp::parseS(s)); };
    if (t[2] == "corr" && t.size() >= 4) {
      size_t k = vp::parseU(t[3]);
      if (k == 0 || t.size() != 4 + 2 * k) { throw vp::BadOp(); }
      mode = CORR; corr = parsePairs(t, 4, k, SRC.n, TGT.n);
    } else if (t[2] == "all" && t.size() == 3) {
      if (SRC.n != TGT.n || SRC.n == 0) { throw vp::BadOp(); }
      mode = ALL;
    } else if (t[2] == "pcorr" && t.size() >= 4) {
      size_t k = vp::parseU(t[3]);
      if (k == 0 || t.size() != 4 + 2 * k + 2) { throw vp::BadOp(); }
      mode = PCORR; corr = parsePairs(t, 4, k, SRC.n, TGT.n); sS = scale(t[4 + 2 * k]); sT = scale(t[5 + 2 * k]);
    } else if (t[2] == "pall" && t.size() == 5) {
      if (SRC.n != TGT.n || SRC.n == 0) { throw vp::BadOp(); }
      mode = PALL; sS = scale(t[3]); sT = scale(t[4]);
    } else if (t[2] == "scorr" && t.size() >= 4) {
      size_t k = vp::parseU(t[3]);
      if (k == 0 || t.size() != 4 + 2 * k + 2) { throw vp::BadOp(); }
      auto n = slotSizes(vp::parseU(t[4 + 2 * k]), vp::parseU(t[5 + 2 * k]));
      mode = SCORR; corr = parsePairs(t, 4, k, n.first, n.second);
    } else if (t[2] == "sall" && t.size() == 5) {
      auto n = slotSizes(vp::parseU(t[3]), vp::parseU(t[4]));
      if (n.first != n.second || n.first == 0) { throw vp::BadOp(); }
      mode = SALL;
    } else { throw vp::BadOp(); }
    return dispatch(dim, hom, dbl, [&](auto tag) {
        return runFind<typename decltype(tag)::type>(mode, corr, sS, sT, reuseEstimator, slotS, slotT);
      });
  }
  throw vp::BadOp();
}

int main() { return vp::run(reset, handle); }
