// C15 harness: romea::core::WrappableGrid<int, 2> and <int, 3> driven through their public interface
// (constructor + setValue, operator(), translate, getIndexOffsetAlongAxes).
#include <memory>
#include <Eigen/Core>
#include "proto.hpp"
#include "romea_core_common/containers/grid/WrappableGrid.hpp"

using namespace romea::core;
using vp::Toks;

static const int DEFAULT_VALUE = -7777;        // value given to every cell right after construction
static const unsigned long long MAX_CELLS = 1000000ULL;   // same limit as the model driver

template<size_t DIM>
struct Slot
{
  using G = WrappableGrid<int, DIM>;
  using CI = typename G::CellIndexes;
  using CO = typename G::CellIndexesOffset;
  std::unique_ptr<G> g;
  std::unique_ptr<G> saved[3];               // wg.save k / wg.load k: copies made with the copy constructor
  CI n;

  void make(const std::vector<unsigned long long> & ns)
  {
    for (size_t a = 0; a < DIM; ++a) { n[a] = ns[a]; }
    g.reset(new G(n));
    g->setValue(DEFAULT_VALUE);
    for (auto & s : saved) { s.reset(); }
  }
  void clear() { g.reset(); for (auto & s : saved) { s.reset(); } }
  void feed(unsigned long long & h, unsigned long long P, G & x)
  {
    const unsigned long long M = (1ULL << 61) - 1;
    auto push = [&](unsigned long long v) { h = static_cast<unsigned long long>((static_cast<unsigned __int128>(h) * P + v) % M); };
    const CI & o = x.getIndexOffsetAlongAxes();
    for (size_t a = 0; a < DIM; ++a) { push(o[a]); }
    const G & cx = x;
    CI c = CI::Zero();
    size_t total = 1; for (size_t a = 0; a < DIM; ++a) { total *= n[a]; }
    for (size_t k = 0; k < total; ++k) {
      push(static_cast<unsigned long long>(static_cast<long long>(cx(c)) + 2147483648LL));
      for (size_t a = 0; a < DIM; ++a) { if (++c[a] < n[a]) { break; } c[a] = 0; }
    }
  }
  // translate a COPY of the grid by every offset with -(n+1) <= d_a <= n+1 (axis 0 fastest) and digest the results
  std::string fan(int e, unsigned long long P)
  {
    unsigned long long h = 0, count = 0;
    CO d; for (size_t a = 0; a < DIM; ++a) { d[a] = -static_cast<int>(n[a]) - 1; }
    for (bool done = false; !done; ) {
      G copy(*g);
      copy.translate(d, e);
      feed(h, P, copy);
      ++count;
      size_t a = 0;
      for (; a < DIM; ++a) { if (++d[a] <= static_cast<int>(n[a]) + 1) { break; } d[a] = -static_cast<int>(n[a]) - 1; }
      done = (a == DIM);
    }
    return "fan " + std::to_string(count) + " " + std::to_string(h);
  }
  bool inRange(const std::vector<long long> & v) const
  {
    for (size_t a = 0; a < DIM; ++a) { if (v[a] < 0 || static_cast<unsigned long long>(v[a]) >= n[a]) { return false; } }
    return true;
  }
  CI idx(const std::vector<long long> & v) const
  {
    CI c; for (size_t a = 0; a < DIM; ++a) { c[a] = static_cast<size_t>(v[a]); } return c;
  }
  std::string off()
  {
    const CI & o = g->getIndexOffsetAlongAxes();
    std::string s = "off";
    for (size_t a = 0; a < DIM; ++a) { s += " " + std::to_string(o[a]); }
    return s;
  }
  std::string dump()
  {
    std::string s = off() + " cells";
    const G & cg = *g;                       // const operator()
    CI c = CI::Zero();
    size_t total = 1; for (size_t a = 0; a < DIM; ++a) { total *= n[a]; }
    for (size_t k = 0; k < total; ++k) {     // logical odometer order, axis 0 fastest
      s += " " + std::to_string(cg(c));
      for (size_t a = 0; a < DIM; ++a) { if (++c[a] < n[a]) { break; } c[a] = 0; }
    }
    return s;
  }
};

static Slot<2> g2;
static Slot<3> g3;
static size_t dim = 0;

static void reset() { g2.clear(); g3.clear(); dim = 0; }

// same integer syntax as Lean's String.toInt?: optional '-', digits (no '+')
static long long parseInt(const std::string & s)
{
  if (!s.empty() && s[0] == '+') { throw vp::BadOp(); }
  if (s.size() > 18) {                       // cannot fit an int anyway; keep strtoll away from saturation
    vp::parseI(s); return (s[0] == '-') ? -4000000000000000000LL : 4000000000000000000LL;
  }
  return vp::parseI(s);
}
static unsigned long long parseNat(const std::string & s)
{
  if (s.size() > 19) { vp::parseU(s); return 18000000000000000000ULL; }   // 19 digits are exact in 64 bits
  return vp::parseU(s);
}
static bool fitsInt(long long x) { return x >= -2147483648LL && x <= 2147483647LL; }

static std::string handle(const Toks & t)
{
  const std::string & op = t[0];
  if (op == "wg.new") {
    if (t.size() < 2) { throw vp::BadOp(); }
    unsigned long long d = parseNat(t[1]);
    std::vector<unsigned long long> ns;
    for (size_t k = 2; k < t.size(); ++k) { ns.push_back(parseNat(t[k])); }
    if ((d != 2 && d != 3) || ns.size() != d) { throw vp::BadOp(); }
    unsigned long long prod = 1;
    for (auto n : ns) { if (n < 1 || n > MAX_CELLS) { throw vp::BadOp(); } }
    for (auto n : ns) { prod *= n; if (prod > MAX_CELLS * MAX_CELLS) { throw vp::BadOp(); } }
    if (prod > MAX_CELLS) { throw vp::BadOp(); }
    reset();
    dim = d;
    if (d == 2) { g2.make(ns); } else { g3.make(ns); }
    return "ok";
  }
  if (op == "wg.set" || op == "wg.tr" || op == "wg.trq") {
    std::vector<long long> xs;
    for (size_t k = 1; k < t.size(); ++k) { xs.push_back(parseInt(t[k])); }
    if (dim == 0 || xs.size() != dim + 1) { throw vp::BadOp(); }
    if (op == "wg.set") {
      if (!fitsInt(xs[dim])) { throw vp::BadOp(); }
      if (dim == 2) {
        if (!g2.inRange(xs)) { throw vp::BadOp(); }
        (*g2.g)(g2.idx(xs)) = static_cast<int>(xs[2]);
      } else {
        if (!g3.inRange(xs)) { throw vp::BadOp(); }
        (*g3.g)(g3.idx(xs)) = static_cast<int>(xs[3]);
      }
      return "ok";
    }
    for (long long x : xs) { if (!fitsInt(x)) { throw vp::BadOp(); } }
    // `wg.trq` (quiet): translate WITHOUT reading the index offset afterwards — a getter with a side effect (seeded change c15e:
    // the accumulated offset is reduced lazily, inside getIndexOffsetAlongAxes()) is only visible across unobserved translations
    const bool quiet = op == "wg.trq";
    if (dim == 2) {
      g2.g->translate(Slot<2>::CO(static_cast<int>(xs[0]), static_cast<int>(xs[1])), static_cast<int>(xs[2]));
      return quiet ? std::string("ok") : g2.off();
    }
    g3.g->translate(Slot<3>::CO(static_cast<int>(xs[0]), static_cast<int>(xs[1]), static_cast<int>(xs[2])), static_cast<int>(xs[3]));
    return quiet ? std::string("ok") : g3.off();
  }
  if (op == "wg.get") {
    std::vector<long long> xs;
    for (size_t k = 1; k < t.size(); ++k) {
      unsigned long long u = parseNat(t[k]);
      xs.push_back(static_cast<long long>(u));
    }
    if (dim == 0 || xs.size() != dim) { throw vp::BadOp(); }
    if (dim == 2) {
      if (!g2.inRange(xs)) { throw vp::BadOp(); }
      const WrappableGrid<int, 2> & cg = *g2.g;
      return "val " + std::to_string(cg(g2.idx(xs)));
    }
    if (!g3.inRange(xs)) { throw vp::BadOp(); }
    const WrappableGrid<int, 3> & cg = *g3.g;
    return "val " + std::to_string(cg(g3.idx(xs)));
  }
  if ((op == "wg.save" || op == "wg.load") && t.size() == 2) {
    unsigned long long k = parseNat(t[1]);
    if (dim == 0 || k >= 3) { throw vp::BadOp(); }
    if (op == "wg.save") {
      if (dim == 2) { g2.saved[k].reset(new WrappableGrid<int, 2>(*g2.g)); } else { g3.saved[k].reset(new WrappableGrid<int, 3>(*g3.g)); }
      return "ok";
    }
    if (dim == 2) {
      if (!g2.saved[k]) { throw vp::BadOp(); }
      g2.g.reset(new WrappableGrid<int, 2>(*g2.saved[k]));
    } else {
      if (!g3.saved[k]) { throw vp::BadOp(); }
      g3.g.reset(new WrappableGrid<int, 3>(*g3.saved[k]));
    }
    return "ok";
  }
  if (op == "wg.fan" && t.size() == 3) {
    long long e = parseInt(t[1]);
    unsigned long long P = parseNat(t[2]);
    if (dim == 0 || !fitsInt(e) || P < 2 || P >= ((1ULL << 61) - 1)) { throw vp::BadOp(); }
    return dim == 2 ? g2.fan(static_cast<int>(e), P) : g3.fan(static_cast<int>(e), P);
  }
  if (op == "wg.dump" && t.size() == 1) {
    if (dim == 0) { throw vp::BadOp(); }
    return dim == 2 ? g2.dump() : g3.dump();
  }
  throw vp::BadOp();
}

int main() { return vp::run(reset, handle); }
