// C01 harness: drives the real ECEFConverter / EarthEllipsoid (binary64).
//   ecef.grs80                → a b e2 e   of the static EarthEllipsoid::GRS80
//   ecef.ell  a b             → e2 e
//   ecef.fwd  a b lat lon h   → X Y Z
//   ecef.inv  a b X Y Z       → lat lon h
//   ecef.rt   a b lat lon h   → X Y Z lat' lon' h'   (toWGS84 applied to the exact output of toECEF)
//   ecef.rti  a b X Y Z       → lat lon h X' Y' Z'   (toECEF applied to the exact output of toWGS84)
// A loop that never exits is turned into the outcome `hang` by proto.hpp's watchdog.
#include <memory>
#include "proto.hpp"
#include "romea_core_common/geodesy/ECEFConverter.hpp"
#include "romea_core_common/geodesy/EarthEllipsoid.hpp"
#include "romea_core_common/geodesy/GeodeticCoordinates.hpp"

using namespace romea::core;
using vp::Toks;

static std::string fmtV(const Eigen::Vector3d & v)
{
  return vp::fmtD(v[0]) + " " + vp::fmtD(v[1]) + " " + vp::fmtD(v[2]);
}
static std::string fmtG(const GeodeticCoordinates & g)
{
  return vp::fmtD(g.latitude) + " " + vp::fmtD(g.longitude) + " " + vp::fmtD(g.altitude);
}
// bypasses the range asserts of makeGeodeticCoordinates on purpose: the generators stay inside them,
// and the struct is a plain aggregate the library itself fills member by member
static GeodeticCoordinates geo(double lat, double lon, double h)
{
  GeodeticCoordinates g; g.latitude = lat; g.longitude = lon; g.altitude = h; return g;
}

// one converter object that persists across ops of a case (`ecef.use a b` ... `ecef.p*`): a converter is a pure function of
// its ellipsoid, so anything it remembers between calls (result caches, "same as last time" shortcuts) shows up here
static std::unique_ptr<ECEFConverter> persistent;
static void reset() { persistent.reset(); }

static std::string handle(const Toks & t)
{
  const std::string & op = t[0];
  if (op == "ecef.grs80" && t.size() == 1) {
    const EarthEllipsoid & E = EarthEllipsoid::GRS80;
    return vp::fmtD(E.a) + " " + vp::fmtD(E.b) + " " + vp::fmtD(E.e2) + " " + vp::fmtD(E.e);
  }
  if (op == "ecef.ell" && t.size() == 3) {
    EarthEllipsoid E(vp::parseD(t[1]), vp::parseD(t[2]));
    return vp::fmtD(E.e2) + " " + vp::fmtD(E.e);
  }
  if ((op == "ecef.fwd" || op == "ecef.inv" || op == "ecef.rt" || op == "ecef.rti") && t.size() == 6) {
    double v[5];
    for (int i = 0; i < 5; ++i) { v[i] = vp::parseD(t[i + 1]); }
    ECEFConverter conv(EarthEllipsoid(v[0], v[1]));
    if (op == "ecef.fwd") { return fmtV(conv.toECEF(geo(v[2], v[3], v[4]))); }
    if (op == "ecef.inv") { return fmtG(conv.toWGS84(Eigen::Vector3d(v[2], v[3], v[4]))); }
    if (op == "ecef.rt") {
      Eigen::Vector3d p = conv.toECEF(geo(v[2], v[3], v[4]));
      return fmtV(p) + " " + fmtG(conv.toWGS84(p));
    }
    GeodeticCoordinates g = conv.toWGS84(Eigen::Vector3d(v[2], v[3], v[4]));
    return fmtG(g) + " " + fmtV(conv.toECEF(g));
  }
  if (op == "ecef.use" && t.size() == 3) {
    persistent.reset(new ECEFConverter(EarthEllipsoid(vp::parseD(t[1]), vp::parseD(t[2]))));
    return "ok";
  }
  if ((op == "ecef.pfwd" || op == "ecef.pinv" || op == "ecef.prt" || op == "ecef.prti") && t.size() == 4) {
    if (!persistent) { throw vp::BadOp(); }
    double v[3];
    for (int i = 0; i < 3; ++i) { v[i] = vp::parseD(t[i + 1]); }
    ECEFConverter & conv = *persistent;
    if (op == "ecef.pfwd") { return fmtV(conv.toECEF(geo(v[0], v[1], v[2]))); }
    if (op == "ecef.pinv") { return fmtG(conv.toWGS84(Eigen::Vector3d(v[0], v[1], v[2]))); }
    if (op == "ecef.prt") {
      Eigen::Vector3d p = conv.toECEF(geo(v[0], v[1], v[2]));
      return fmtV(p) + " " + fmtG(conv.toWGS84(p));
    }
    GeodeticCoordinates g = conv.toWGS84(Eigen::Vector3d(v[0], v[1], v[2]));
    return fmtG(g) + " " + fmtV(conv.toECEF(g));
  }
  throw vp::BadOp();
}

int main() { return vp::run(reset, handle); }
