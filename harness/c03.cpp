// C03 harness: drives the real LambertConverter / EarthEllipsoid (see lean/Drivers/C03.lean for the vocabulary).
//   lam.secant  a b lon0 lat0 lat1 lat2 x0 y0   -> p lon0 n c xs ys e     (converter built through the public
//   lam.tangent a b lat0 lon0 k0 x0 y0          -> p lon0 n c xs ys e      (parameters, ellipsoid) constructor)
//   lam.direct  lon0 n c xs ys e                -> ok
//   lam.fwd lat lon                             -> xy x y
//   lam.inv x y                                 -> ll lat lon       (a call that never returns: `hang`, by proto.hpp)
//   lam.rt lat lon                              -> rt x y lat' lon' (toWGS84(toLambert(.)))
//   lam.jac lat lon h                           -> jac + 16 numbers: toLambert at lat+-h, lat+-2h, lon+-h, lon+-2h
//   lam.isolat lat e | lam.lat L e | lam.gn lat a e -> v value
#include <memory>
#include "proto.hpp"
#include "romea_core_common/geodesy/LambertConverter.hpp"

using namespace romea::core;
using vp::Toks;

static std::unique_ptr<LambertConverter> cv;

static void reset() { cv.reset(); }

static std::string fmtParams(const LambertConverter::ProjectionParameters & p, double e)
{
  return "p " + vp::fmtD(p.longitude0) + " " + vp::fmtD(p.n) + " " + vp::fmtD(p.c) + " " + vp::fmtD(p.xs) + " " +
         vp::fmtD(p.ys) + " " + vp::fmtD(e);
}

static std::string handle(const Toks & t)
{
  const std::string & op = t[0];
  if (op == "lam.secant" && t.size() == 9) {
    double v[8];
    for (int i = 0; i < 8; ++i) { v[i] = vp::parseD(t[i + 1]); }
    EarthEllipsoid E(v[0], v[1]);
    LambertConverter::SecantProjectionParameters sp;
    sp.longitude0 = v[2]; sp.latitude0 = v[3]; sp.latitude1 = v[4]; sp.latitude2 = v[5]; sp.x0 = v[6]; sp.y0 = v[7];
    auto p = LambertConverter::computeProjectionParameters(sp, E);
    cv.reset(new LambertConverter(sp, E));      // the constructor chain under test, not a copy of `p`
    return fmtParams(p, E.e);
  }
  if (op == "lam.tangent" && t.size() == 8) {
    double v[7];
    for (int i = 0; i < 7; ++i) { v[i] = vp::parseD(t[i + 1]); }
    EarthEllipsoid E(v[0], v[1]);
    LambertConverter::TangentProjectionParameters tp;
    tp.latitude0 = v[2]; tp.longitude0 = v[3]; tp.k0 = v[4]; tp.x0 = v[5]; tp.y0 = v[6];
    auto p = LambertConverter::computeProjectionParameters(tp, E);
    cv.reset(new LambertConverter(tp, E));
    return fmtParams(p, E.e);
  }
  if (op == "lam.direct" && t.size() == 7) {
    double v[6];
    for (int i = 0; i < 6; ++i) { v[i] = vp::parseD(t[i + 1]); }
    cv.reset(new LambertConverter(v[0], v[1], v[2], v[3], v[4], v[5]));
    return "ok";
  }
  if (op == "lam.fwd" && t.size() == 3) {
    double lat = vp::parseD(t[1]), lon = vp::parseD(t[2]);
    if (!cv) { throw vp::BadOp(); }
    WGS84Coordinates w; w.latitude = lat; w.longitude = lon;
    Eigen::Vector2d r = cv->toLambert(w);
    return "xy " + vp::fmtD(r.x()) + " " + vp::fmtD(r.y());
  }
  if (op == "lam.inv" && t.size() == 3) {
    double x = vp::parseD(t[1]), y = vp::parseD(t[2]);
    if (!cv) { throw vp::BadOp(); }
    WGS84Coordinates w = cv->toWGS84(Eigen::Vector2d(x, y));
    return "ll " + vp::fmtD(w.latitude) + " " + vp::fmtD(w.longitude);
  }
  if (op == "lam.rt" && t.size() == 3) {
    double lat = vp::parseD(t[1]), lon = vp::parseD(t[2]);
    if (!cv) { throw vp::BadOp(); }
    WGS84Coordinates w; w.latitude = lat; w.longitude = lon;
    Eigen::Vector2d r = cv->toLambert(w);
    WGS84Coordinates back = cv->toWGS84(r);
    return "rt " + vp::fmtD(r.x()) + " " + vp::fmtD(r.y()) + " " + vp::fmtD(back.latitude) + " " + vp::fmtD(back.longitude);
  }
  if (op == "lam.jac" && t.size() == 4) {
    double lat = vp::parseD(t[1]), lon = vp::parseD(t[2]), h = vp::parseD(t[3]);
    if (!cv) { throw vp::BadOp(); }
    const double h2 = 2 * h;
    const double pts[8][2] = {{lat + h, lon}, {lat - h, lon}, {lat + h2, lon}, {lat - h2, lon},
      {lat, lon + h}, {lat, lon - h}, {lat, lon + h2}, {lat, lon - h2}};
    std::string o = "jac";
    for (const auto & p : pts) {
      WGS84Coordinates w; w.latitude = p[0]; w.longitude = p[1];
      Eigen::Vector2d r = cv->toLambert(w);
      o += " " + vp::fmtD(r.x()) + " " + vp::fmtD(r.y());
    }
    return o;
  }
  if (op == "lam.isolat" && t.size() == 3) {
    double lat = vp::parseD(t[1]), e = vp::parseD(t[2]);
    return "v " + vp::fmtD(LambertConverter::computeIsometricLatitude(lat, e));
  }
  if (op == "lam.lat" && t.size() == 3) {
    double iso = vp::parseD(t[1]), e = vp::parseD(t[2]);
    return "v " + vp::fmtD(LambertConverter::computeLatitude(iso, e));
  }
  if (op == "lam.gn" && t.size() == 4) {
    double lat = vp::parseD(t[1]), a = vp::parseD(t[2]), e = vp::parseD(t[3]);
    return "v " + vp::fmtD(LambertConverter::computeGrandeNormal(lat, a, e));
  }
  throw vp::BadOp();
}

int main() { return vp::run(reset, handle); }
