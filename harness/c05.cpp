// C05 harness: drives the real FindRigidTransformationByLeastSquares<PointType> (all eight point types) through
// the line protocol documented in lean/Drivers/C05.lean.
#include <memory>
#include "proto.hpp"
#include "romea_core_common/transform/estimation/FindRigidTransformationByLeastSquares.hpp"

using namespace romea::core;
using vp::Toks;

struct Base
{
  virtual ~Base() = default;
  virtual std::string handle(const Toks & t) = 0;
};

template<class PointType>
struct Driver : Base
{
  using Scalar = typename PointType::Scalar;
  static constexpr size_t SIZE = PointTraits<PointType>::SIZE;
  static constexpr size_t DIM = PointTraits<PointType>::DIM;
  FindRigidTransformationByLeastSquares<PointType> estimator;

  static size_t nat(const std::string & s)
  {
    uint64_t v = vp::parseU(s); if (v > 100000) { throw vp::BadOp(); } return static_cast<size_t>(v);
  }

  static PointSet<PointType> points(const Toks & t, size_t off, size_t n)
  {
    PointSet<PointType> ps(n);
    for (size_t k = 0; k < n; ++k) {
      for (size_t c = 0; c < SIZE; ++c) { ps[k](c) = vp::parseF<Scalar>(t[off + k * SIZE + c]); }
    }
    return ps;
  }

  static std::string fmt(const Eigen::Matrix<Scalar, DIM + 1, DIM + 1> & M)
  {
    std::string o = "M";
    for (size_t i = 0; i < DIM + 1; ++i) { for (size_t j = 0; j < DIM + 1; ++j) { o += " " + vp::fmtF(M(i, j)); } }
    return o;
  }

  std::string findAligned(const Toks & t, size_t i0, bool pre, Scalar scale)
  {
    if (t.size() < i0 + 1) { throw vp::BadOp(); }
    size_t n = nat(t[i0]);
    if (t.size() != i0 + 1 + 3 * n * SIZE) { throw vp::BadOp(); }
    PointSet<PointType> src = points(t, i0 + 1, n), tgt = points(t, i0 + 1 + n * SIZE, n);
    NormalSet<PointType> nrm = points(t, i0 + 1 + 2 * n * SIZE, n);
    if (pre) {
      PreconditionedPointSet<PointType> ps(src, scale), pt(tgt, scale);
      return fmt(estimator.find(ps, pt, nrm));
    }
    return fmt(estimator.find(src, tgt, nrm));
  }

  std::string findIndexed(const Toks & t, size_t i0, bool pre, Scalar scale)
  {
    if (t.size() < i0 + 3) { throw vp::BadOp(); }
    size_t ns = nat(t[i0]), nt = nat(t[i0 + 1]), m = nat(t[i0 + 2]);
    size_t nv = (ns + 2 * nt) * SIZE;
    if (t.size() != i0 + 3 + nv + m) { throw vp::BadOp(); }
    // parse everything (and reject) before touching the estimator
    std::vector<Correspondence> corr;
    PointSet<PointType> src = points(t, i0 + 3, ns), tgt = points(t, i0 + 3 + ns * SIZE, nt);
    NormalSet<PointType> nrm = points(t, i0 + 3 + (ns + nt) * SIZE, nt);
    for (size_t k = 0; k < m; ++k) {
      const std::string & w = t[i0 + 3 + nv + k];
      auto c = w.find(':'); if (c == std::string::npos) { throw vp::BadOp(); }
      uint64_t a = vp::parseU(w.substr(0, c)), b = vp::parseU(w.substr(c + 1));
      if (a >= ns || b >= nt) { throw vp::BadOp(); }
      corr.emplace_back(static_cast<size_t>(a), static_cast<size_t>(b));
    }
    if (pre) {
      PreconditionedPointSet<PointType> ps(src, scale), pt(tgt, scale);
      return fmt(estimator.find(ps, pt, nrm, corr));
    }
    return fmt(estimator.find(src, tgt, nrm, corr));
  }

  std::string handle(const Toks & t) override
  {
    const std::string & op = t[0];
    if (op == "lsq.setpre" && t.size() == 2) {
      Scalar sc = vp::parseF<Scalar>(t[1]);
      PointSet<PointType> empty;
      PreconditionedPointSet<PointType> ps(empty, sc), pt(empty, sc);
      estimator.setPreconditioner(ps, pt);
      return "ok";
    }
    if (op == "lsq.find" && t.size() >= 2) {
      if (t[1] == "a") { return findAligned(t, 2, false, Scalar(1)); }
      if (t[1] == "i") { return findIndexed(t, 2, false, Scalar(1)); }
      throw vp::BadOp();
    }
    if (op == "lsq.findp" && t.size() >= 3) {
      Scalar sc = vp::parseF<Scalar>(t[2]);
      if (t[1] == "a") { return findAligned(t, 3, true, sc); }
      if (t[1] == "i") { return findIndexed(t, 3, true, sc); }
      throw vp::BadOp();
    }
    throw vp::BadOp();
  }
};

static std::unique_ptr<Base> cur;

static void reset() { cur.reset(); }

static std::string handle(const Toks & t)
{
  if (t[0] == "lsq.new") {
    if (t.size() != 2) { throw vp::BadOp(); }
    const std::string & T = t[1];
    if (T == "c2d") { cur.reset(new Driver<Eigen::Vector2d>()); }
    else if (T == "c3d") { cur.reset(new Driver<Eigen::Vector3d>()); }
    else if (T == "h2d") { cur.reset(new Driver<HomogeneousCoordinates2d>()); }
    else if (T == "h3d") { cur.reset(new Driver<HomogeneousCoordinates3d>()); }
    else if (T == "c2f") { cur.reset(new Driver<Eigen::Vector2f>()); }
    else if (T == "c3f") { cur.reset(new Driver<Eigen::Vector3f>()); }
    else if (T == "h2f") { cur.reset(new Driver<HomogeneousCoordinates2f>()); }
    else if (T == "h3f") { cur.reset(new Driver<HomogeneousCoordinates3f>()); }
    else { throw vp::BadOp(); }
    return "ok";
  }
  if (!cur) { throw vp::BadOp(); }
  return cur->handle(t);
}

int main() { return vp::run(reset, handle); }
