// C09 harness: NormalAndCurvatureEstimation (six overloads, eight point types) + reference quantities for the probe.
//   nrm.compute T k overload init n coords...
//     T        c2d c3d h2d h3d c2f c3f h2f h3f
//     overload n | nt | c | ct | r | rt   (normals / +curvatures / +reliability; `t` = caller-supplied kd-tree)
//     init     default | zero | junk      (how the caller's NormalSet is initialised before the call)
//   -> ok n <per point: normal[DIM] [w if homogeneous] [curvature] [reliability]> | <per point: gap knngap lv res curv relinv tr l1>
//   nrm.cloud T n coords...    the case keeps ONE point set of type T and ONE KdTree<T> built on it (replacing the previous
//                              ones of that type)                                                         -> ok n
//   nrm.est T k                the case keeps ONE NormalAndCurvatureEstimation<T>(k) (replacing the previous one) -> ok
//   nrm.use T overload init    the kept estimator runs on the kept point set: `nt|ct|rt` through the KEPT tree (so one tree
//                              serves estimators with different k, one estimator serves several trees), `n|c|r` through
//                              the overloads that build their own tree        -> same answer format as nrm.compute
//                              (bad-op without point set / estimator, or when k >= n: the asserted precondition)
//   `#case` destroys all kept objects.
//   The part behind `|` is computed here in long double from a brute-force neighbourhood (own Jacobi iteration, no Eigen):
//   relative eigen-gap (l1-l0)/lmax of the reference covariance, relative gap between the k-th and (k+1)-th neighbour
//   distance, lv = (n' C n - l0)/trace (excess variance along the returned normal), res = eigen-pair residual of the
//   returned normal (monitors the eigen-solver contract on the library's actual output), reference curvature l0/trace and
//   inverse reliability l0/min(l1..), trace and second eigenvalue of the reference covariance.
#include <algorithm>
#include <array>
#include <memory>
#include <numeric>
#include "proto.hpp"
#include "romea_core_common/pointset/algorithms/NormalAndCurvatureEstimation.hpp"

using namespace romea::core;
using vp::Toks;
typedef long double LD;

// cyclic Jacobi eigenvalue iteration in long double (eigenvalues ascending); independent of Eigen
template<int DIM> static void jacobiEigenvalues(LD a[DIM][DIM], LD l[DIM])
{
  for (int sweep = 0; sweep < 100; ++sweep) {
    LD off = 0, diag = 0;
    for (int p = 0; p < DIM; ++p) { diag += a[p][p] * a[p][p]; for (int q = p + 1; q < DIM; ++q) { off += a[p][q] * a[p][q]; } }
    if (!(off > 0) || !(diag + off > diag)) { break; }
    for (int p = 0; p < DIM; ++p) {
      for (int q = p + 1; q < DIM; ++q) {
        if (a[p][q] == 0) { continue; }
        LD theta = (a[q][q] - a[p][p]) / (2 * a[p][q]);
        LD t = (theta < 0 ? -1 : 1) / (std::fabs(theta) + std::sqrt(theta * theta + 1));
        LD c = 1 / std::sqrt(t * t + 1), s = t * c;
        for (int r = 0; r < DIM; ++r) { LD x = a[r][p], y = a[r][q]; a[r][p] = c * x - s * y; a[r][q] = s * x + c * y; }
        for (int r = 0; r < DIM; ++r) { LD x = a[p][r], y = a[q][r]; a[p][r] = c * x - s * y; a[q][r] = s * x + c * y; }
      }
    }
  }
  for (int d = 0; d < DIM; ++d) { l[d] = a[d][d]; }
  std::sort(l, l + DIM);
}

// brute-force neighbourhoods, reference covariance and its eigenvalues in long double (depends on DIM only).
// per point: gap = (l1-l0)/lmax, knngap = (d_{k+1}-d_k)/d_{k+1}, lv = (n'Cn - l0)/trace,
//            res = |C n - (n'Cn) n| / |C|_F  (eigen-pair residual of the returned normal: the part of the IsEigSym
//            contract the library output exposes), curvature and reliability^-1 recomputed from the reference eigenvalues
template<int DIM> static std::string reference(
  const std::vector<std::array<LD, 3>> & pts, const std::vector<std::array<LD, 3>> & normals, size_t k)
{
  size_t n = pts.size();
  std::vector<std::pair<LD, size_t>> ds(n);
  std::string o;
  for (size_t i = 0; i < n; ++i) {
    for (size_t j = 0; j < n; ++j) {
      LD s = 0;
      for (int d = 0; d < DIM; ++d) { LD e = pts[j][d] - pts[i][d]; s += e * e; }
      ds[j] = {s, j};
    }
    std::partial_sort(ds.begin(), ds.begin() + k + 1, ds.end());
    LD dk = ds[k - 1].first, dk1 = ds[k].first;
    LD knngap = dk1 > 0 ? (dk1 - dk) / dk1 : 0;
    LD mean[DIM];
    for (int d = 0; d < DIM; ++d) { mean[d] = 0; }
    for (size_t a = 0; a < k; ++a) { for (int d = 0; d < DIM; ++d) { mean[d] += pts[ds[a].second][d]; } }
    for (int d = 0; d < DIM; ++d) { mean[d] /= static_cast<LD>(k); }
    LD C[DIM][DIM], A[DIM][DIM];
    for (int r = 0; r < DIM; ++r) { for (int c = 0; c < DIM; ++c) { C[r][c] = 0; } }
    for (size_t a = 0; a < k; ++a) {
      for (int r = 0; r < DIM; ++r) { for (int c = 0; c < DIM; ++c) {
        C[r][c] += (pts[ds[a].second][r] - mean[r]) * (pts[ds[a].second][c] - mean[c]); } }
    }
    LD tr = 0, fro = 0;
    for (int r = 0; r < DIM; ++r) { for (int c = 0; c < DIM; ++c) { C[r][c] /= static_cast<LD>(k); A[r][c] = C[r][c]; fro += C[r][c] * C[r][c]; } tr += C[r][r]; }
    fro = std::sqrt(fro);
    LD l[DIM];
    jacobiEigenvalues<DIM>(A, l);
    LD lmax = l[DIM - 1];
    LD gap = lmax > 0 ? (l[1] - l[0]) / lmax : 0;
    LD Cn[DIM], q = 0;
    for (int r = 0; r < DIM; ++r) { Cn[r] = 0; for (int c = 0; c < DIM; ++c) { Cn[r] += C[r][c] * normals[i][c]; } q += normals[i][r] * Cn[r]; }
    LD res = 0;
    for (int r = 0; r < DIM; ++r) { LD e = Cn[r] - q * normals[i][r]; res += e * e; }
    res = fro > 0 ? std::sqrt(res) / fro : 0;
    LD lv = tr > 0 ? (q - l[0]) / tr : 0;
    LD curv = tr > 0 ? l[0] / tr : 0;
    LD lrest = l[1]; for (int d = 2; d < DIM; ++d) { lrest = std::min(lrest, l[d]); }
    LD relinv = lrest > 0 ? l[0] / lrest : 0;
    o += " " + vp::fmtD(static_cast<double>(gap)) + " " + vp::fmtD(static_cast<double>(knngap)) + " " + vp::fmtD(static_cast<double>(lv)) +
         " " + vp::fmtD(static_cast<double>(res)) + " " + vp::fmtD(static_cast<double>(curv)) + " " + vp::fmtD(static_cast<double>(relinv)) +
         " " + vp::fmtD(static_cast<double>(tr)) + " " + vp::fmtD(static_cast<double>(l[1]));
  }
  return o;
}

template<class S, int DIM> static std::string post(const std::vector<std::array<S, 3>> & cs, const std::vector<std::array<S, 3>> & ns, size_t k)
{
  size_t n = cs.size();
  std::vector<std::array<LD, 3>> cl(n), nl(n);
  for (size_t i = 0; i < n; ++i) { for (int d = 0; d < 3; ++d) { cl[i][d] = static_cast<LD>(cs[i][d]); nl[i][d] = static_cast<LD>(ns[i][d]); } }
  return reference<DIM>(cl, nl, k);
}

template<class P> static NormalSet<P> makeNormals(const std::string & init, size_t n)
{
  using S = typename P::Scalar;
  if (init == "default") { return NormalSet<P>(n); }
  if (init == "zero") { return NormalSet<P>(n, P::Zero()); }
  if (init == "junk") { return NormalSet<P>(n, P::Constant(S(7.5))); }
  throw vp::BadOp();
}

template<class P> static PointSet<P> parsePoints(const Toks & t, size_t from, size_t n)
{
  using S = typename P::Scalar;
  constexpr int DIM = PointTraits<P>::DIM;
  constexpr int SIZE = PointTraits<P>::SIZE;
  PointSet<P> pts(n);
  for (size_t i = 0; i < n; ++i) {
    P p = P::Zero();
    for (int d = 0; d < DIM; ++d) { p[d] = vp::parseF<S>(t[from + i * DIM + d]); }
    if (SIZE > DIM) { p[DIM] = 1; }
    pts[i] = p;
  }
  return pts;
}

// one estimation with the given estimator object; `tree` (caller-owned) is used by the `t` overloads only
template<class P> static std::string estimate(
  NormalAndCurvatureEstimation<P> & est, size_t k, const PointSet<P> & pts, const KdTree<P> * tree,
  const std::string & ov, const std::string & init)
{
  using S = typename P::Scalar;
  constexpr int DIM = PointTraits<P>::DIM;
  constexpr int SIZE = PointTraits<P>::SIZE;
  size_t n = pts.size();
  NormalSet<P> normals = makeNormals<P>(init, n);
  std::vector<S> curv(n, S(-1)), rel(n, S(-1));
  bool hasC = false, hasR = false;
  if (ov == "n") { est.compute(pts, normals); }
  else if (ov == "nt") { est.compute(pts, *tree, normals); }
  else if (ov == "c") { est.compute(pts, normals, curv); hasC = true; }
  else if (ov == "ct") { est.compute(pts, *tree, normals, curv); hasC = true; }
  else if (ov == "r") { est.compute(pts, normals, curv, rel); hasC = hasR = true; }
  else if (ov == "rt") { est.compute(pts, *tree, normals, curv, rel); hasC = hasR = true; }
  else { throw vp::BadOp(); }

  std::string o = "ok " + std::to_string(n);
  for (size_t i = 0; i < n; ++i) {
    for (int d = 0; d < DIM; ++d) { o += " " + vp::fmtF(normals[i][d]); }
    if (SIZE > DIM) { o += " " + vp::fmtF(normals[i][DIM]); }
    if (hasC) { o += " " + vp::fmtF(curv[i]); }
    if (hasR) { o += " " + vp::fmtF(rel[i]); }
  }
  // ---------------------------------------------------------------- reference quantities / contract residuals
  std::vector<std::array<S, 3>> cs(n), ns(n);
  for (size_t i = 0; i < n; ++i) {
    cs[i] = {0, 0, 0}; ns[i] = {0, 0, 0};
    for (int d = 0; d < DIM; ++d) { cs[i][d] = pts[i][d]; ns[i][d] = normals[i][d]; }
  }
  o += " |" + post<S, DIM>(cs, ns, k);
  return o;
}

static bool knownOverload(const std::string & ov)
{
  return ov == "n" || ov == "nt" || ov == "c" || ov == "ct" || ov == "r" || ov == "rt";
}

template<class P> static std::string run(const Toks & t)
{
  constexpr int DIM = PointTraits<P>::DIM;
  size_t k = vp::parseU(t[2]);
  const std::string & ov = t[3];
  const std::string & init = t[4];
  size_t n = vp::parseU(t[5]);
  if (t.size() != 6 + n * DIM || n <= k || k == 0 || !knownOverload(ov)) { throw vp::BadOp(); }
  PointSet<P> pts = parsePoints<P>(t, 6, n);
  NormalAndCurvatureEstimation<P> est(k);
  if (ov.size() == 2) { KdTree<P> tree(pts); return estimate<P>(est, k, pts, &tree, ov, init); }
  return estimate<P>(est, k, pts, nullptr, ov, init);
}

// the objects a case keeps between ops (one set per point type)
template<class P> struct Kept
{
  std::unique_ptr<PointSet<P>> pts;           // the tree refers to it (NanoFlannAdaptor::m_data)
  std::unique_ptr<KdTree<P>> tree;
  std::unique_ptr<NormalAndCurvatureEstimation<P>> est;
  size_t k = 0;
  void clear() { est.reset(); tree.reset(); pts.reset(); k = 0; }
  static Kept & get() { static Kept kept; return kept; }
};

template<class P> static std::string session(const Toks & t)
{
  constexpr int DIM = PointTraits<P>::DIM;
  Kept<P> & kept = Kept<P>::get();
  if (t[0] == "nrm.cloud") {
    if (t.size() < 3) { throw vp::BadOp(); }
    size_t n = vp::parseU(t[2]);
    if (n == 0 || t.size() != 3 + n * DIM) { throw vp::BadOp(); }
    // the kept PointSet OBJECT is refilled in place (same address, like a scan buffer reused by a robot loop); the kept tree is rebuilt
    // on it. An estimator or tree that recognises "the same cloud" by address / size (seeded change c09c) sees new coordinates there.
    kept.tree.reset();
    if (kept.pts) { *kept.pts = parsePoints<P>(t, 3, n); } else { kept.pts = std::make_unique<PointSet<P>>(parsePoints<P>(t, 3, n)); }
    kept.tree = std::make_unique<KdTree<P>>(*kept.pts);
    return "ok " + std::to_string(n);
  }
  if (t[0] == "nrm.est") {
    if (t.size() != 3) { throw vp::BadOp(); }
    size_t k = vp::parseU(t[2]);
    if (k == 0) { throw vp::BadOp(); }
    kept.est.reset(new NormalAndCurvatureEstimation<P>(k));
    kept.k = k;
    return "ok";
  }
  if (t[0] == "nrm.use") {
    if (t.size() != 4 || !knownOverload(t[2])) { throw vp::BadOp(); }
    if (t[3] != "default" && t[3] != "zero" && t[3] != "junk") { throw vp::BadOp(); }
    if (!kept.pts || !kept.est || kept.k >= kept.pts->size()) { throw vp::BadOp(); }
    return estimate<P>(*kept.est, kept.k, *kept.pts, kept.tree.get(), t[2], t[3]);
  }
  throw vp::BadOp();
}

template<class P> static std::string dispatch(const Toks & t)
{
  return t[0] == "nrm.compute" ? run<P>(t) : session<P>(t);
}

static void reset()
{
  Kept<Eigen::Vector2d>::get().clear(); Kept<Eigen::Vector3d>::get().clear();
  Kept<HomogeneousCoordinates2d>::get().clear(); Kept<HomogeneousCoordinates3d>::get().clear();
  Kept<Eigen::Vector2f>::get().clear(); Kept<Eigen::Vector3f>::get().clear();
  Kept<HomogeneousCoordinates2f>::get().clear(); Kept<HomogeneousCoordinates3f>::get().clear();
}

static std::string handle(const Toks & t)
{
  if ((t[0] == "nrm.compute" && t.size() >= 6) || ((t[0] == "nrm.cloud" || t[0] == "nrm.est" || t[0] == "nrm.use") && t.size() >= 2)) {
    const std::string & ty = t[1];
    if (ty == "c2d") { return dispatch<Eigen::Vector2d>(t); }
    if (ty == "c3d") { return dispatch<Eigen::Vector3d>(t); }
    if (ty == "h2d") { return dispatch<HomogeneousCoordinates2d>(t); }
    if (ty == "h3d") { return dispatch<HomogeneousCoordinates3d>(t); }
    if (ty == "c2f") { return dispatch<Eigen::Vector2f>(t); }
    if (ty == "c3f") { return dispatch<Eigen::Vector3f>(t); }
    if (ty == "h2f") { return dispatch<HomogeneousCoordinates2f>(t); }
    if (ty == "h3f") { return dispatch<HomogeneousCoordinates3f>(t); }
  }
  throw vp::BadOp();
}

int main() { return vp::run(reset, handle); }
