// C11 harness: pose / twist reductions, covariance embedding, pose transformation (mean part),
// uncertainty ellipse — drives the real functions of romea_core_common.
#include <Eigen/Geometry>
#include <Eigen/SVD>
#include "proto.hpp"
#include "romea_core_common/geometry/Ellipse.hpp"
#include "romea_core_common/geometry/Pose2D.hpp"
#include "romea_core_common/geometry/Pose3D.hpp"
#include "romea_core_common/geometry/PoseAndTwist3D.hpp"
#include "romea_core_common/geometry/Position2D.hpp"
#include "romea_core_common/geometry/Twist3D.hpp"
#include "romea_core_common/math/Matrix.hpp"

using namespace romea::core;
using vp::Toks;

static bool haveLast = false;
static Pose3D last;

static void reset() { haveLast = false; last = Pose3D(); }

static std::vector<double> floats(const Toks & t, size_t n)
{
  if (t.size() != n + 1) { throw vp::BadOp(); }
  std::vector<double> v(n);
  for (size_t i = 0; i < n; ++i) { v[i] = vp::parseD(t[i + 1]); }
  return v;
}

template<typename M> static void fill(M & m, const std::vector<double> & a, size_t off)
{
  for (int i = 0; i < m.rows(); ++i) { for (int j = 0; j < m.cols(); ++j) { m(i, j) = a[off + i * m.cols() + j]; } }
}

template<typename M> static void emit(std::string & o, const M & m)
{
  for (int i = 0; i < m.rows(); ++i) { for (int j = 0; j < m.cols(); ++j) { o += (o.empty() ? "" : " ") + vp::fmtD(m(i, j)); } }
}
static void emit(std::string & o, double d) { o += (o.empty() ? "" : " ") + vp::fmtD(d); }

static Pose3D pose3(const std::vector<double> & a, size_t off)
{
  Pose3D p; fill(p.position, a, off); fill(p.orientation, a, off + 3); fill(p.covariance, a, off + 6); return p;
}
static Twist3D twist3(const std::vector<double> & a, size_t off)
{
  Twist3D t; fill(t.linearSpeeds, a, off); fill(t.angularSpeeds, a, off + 3); fill(t.covariance, a, off + 6); return t;
}
static void emitPose2(std::string & o, const Pose2D & p) { emit(o, p.position); emit(o, p.yaw); emit(o, p.covariance); }
static void emitTwist2(std::string & o, const Twist2D & t) { emit(o, t.linearSpeeds); emit(o, t.angularSpeed); emit(o, t.covariance); }
static std::string ellipse(const Ellipse & e)
{
  std::string o; emit(o, e.getCenterPosition()); emit(o, e.getOrientation()); emit(o, e.getMajorRadius()); emit(o, e.getMinorRadius());
  return o;
}

// run-time check of the oracle contracts the Lean theorems assume (monitored assumption):
// JacobiSVD on the 2x2 covariance returns orthonormal U, descending non-negative values and C = U diag(s) U^T
static std::string contractFlag(const Eigen::Matrix2d & c)
{
  Eigen::JacobiSVD<Eigen::MatrixXd> svd(c, Eigen::ComputeThinU);
  Eigen::Vector2d s = svd.singularValues();
  Eigen::Matrix2d U = svd.matrixU();
  double scale = c.cwiseAbs().sum();
  bool ok = (U.transpose() * U - Eigen::Matrix2d::Identity()).cwiseAbs().maxCoeff() <= 1e-12 &&
    (U * s.asDiagonal() * U.transpose() - c).cwiseAbs().maxCoeff() <= 1e-12 * scale && s(1) <= s(0) && 0 <= s(1);
  return ok ? " contract:1" : " contract:0";
}

static std::string mul(const std::vector<double> & a, const Pose3D & p)
{
  Eigen::Affine3d A = Eigen::Affine3d::Identity();
  Eigen::Matrix3d L; Eigen::Vector3d T; fill(L, a, 0); fill(T, a, 9);
  A.linear() = L; A.translation() = T;
  Pose3D in = p;
  in.covariance.setZero();
  last = A * in; haveLast = true;
  std::string o; emit(o, last.position); emit(o, last.orientation);
  // Affine3d::rotation() returns the linear part when that is a rotation matrix (contract of `rotOf`)
  bool ok = (A.rotation() - L).cwiseAbs().maxCoeff() <= 1e-12;
  return o + (ok ? " contract:1" : " contract:0");
}

static std::string handle(const Toks & t)
{
  const std::string & op = t[0];
  std::string o;
  if (op == "cov.se2") {
    auto a = floats(t, 36); Eigen::Matrix6d c; fill(c, a, 0);
    Eigen::Matrix3d r = toSe2Covariance(c); emit(o, r); return o;
  }
  if (op == "cov.se3") {
    auto a = floats(t, 9); Eigen::Matrix3d c; fill(c, a, 0);
    Eigen::Matrix6d r = toSe3Covariance(c); emit(o, r); return o;
  }
  // Every second conversion goes through the IN-PLACE overload into an output object that lives as long as the process and still
  // holds the result of an earlier conversion: the conversions are functions of their input, an output parameter is overwritten
  // entirely (seeded change c11e: the covariance selection skipped when the input covariance has zero trace — the reused output
  // keeps the previous call's covariance)
  static unsigned long conversions = 0;
  const bool inPlace = (++conversions % 2 == 0);
  if (op == "pose.to2d") {
    auto a = floats(t, 42);
    if (inPlace) { static Pose2D out; toPose2D(pose3(a, 0), out); emitPose2(o, out); } else { emitPose2(o, toPose2D(pose3(a, 0))); }
    return o;
  }
  if (op == "pose.topos3d") {
    auto a = floats(t, 42);
    static Position3D kept;
    Position3D p;
    if (inPlace) { toPosition3D(pose3(a, 0), kept); p = kept; } else { p = toPosition3D(pose3(a, 0)); }
    emit(o, p.position); emit(o, p.covariance); return o;
  }
  if (op == "twist.to2d") {
    auto a = floats(t, 42);
    if (inPlace) { static Twist2D out; toTwist2D(twist3(a, 0), out); emitTwist2(o, out); } else { emitTwist2(o, toTwist2D(twist3(a, 0))); }
    return o;
  }
  if (op == "pt.to2d") {
    auto a = floats(t, 84); PoseAndTwist3D pt; pt.pose = pose3(a, 0); pt.twist = twist3(a, 42);
    static PoseAndTwist2D kept;
    PoseAndTwist2D r;
    if (inPlace) { toPoseAndTwist2D(pt, kept); r = kept; } else { r = toPoseAndTwist2D(pt); }
    emitPose2(o, r.pose); emitTwist2(o, r.twist); return o;
  }
  if (op == "pose.mul") {
    auto a = floats(t, 18); Pose3D p; fill(p.position, a, 12); fill(p.orientation, a, 15); return mul(a, p);
  }
  if (op == "pose.mulprev") {
    auto a = floats(t, 12); if (!haveLast) { throw vp::BadOp(); } Pose3D p = last; return mul(a, p);
  }
  if (op == "ell.pos2d") {
    auto a = floats(t, 7); Position2D p; fill(p.position, a, 0); fill(p.covariance, a, 2);
    return ellipse(uncertaintyEllipse(p, a[6])) + contractFlag(p.covariance);
  }
  if (op == "ell.pose2d") {
    auto a = floats(t, 13); Pose2D p; fill(p.position, a, 0); p.yaw = a[2]; fill(p.covariance, a, 3);
    return ellipse(uncertaintyEllipse(p, a[12])) + contractFlag(p.covariance.block<2, 2>(0, 0));
  }
  throw vp::BadOp();
}

int main() { return vp::run(reset, handle); }
