// C14 harness: drives the real RayCasting<float|double, 2|3> on a real GridIndexMapping, one caster per case.
// Protocol: see lean/Drivers/C14.lean.  Undefined behaviour of the library (points outside the extent, an
// origin cell outside the centre table, non-positive resolution, absurd sizes) is refused as `bad-op`,
// with the same tests as the model driver.
#include <memory>
#include "proto.hpp"
#include "romea_core_common/containers/grid/GridIndexMapping.hpp"
#include "romea_core_common/containers/grid/RayTracing.hpp"

using namespace romea::core;
using vp::Toks;

struct SessBase
{
  virtual ~SessBase() = default;
  virtual std::string handle(const Toks & t) = 0;
};

template<typename S, size_t D>
struct Sess : SessBase
{
  using Map = GridIndexMapping<S, D>;
  using Caster = RayCasting<S, D>;
  using P = typename Map::PointType;
  using C = typename Map::CellIndexes;

  P lo, hi;
  std::unique_ptr<Map> map;
  std::unique_ptr<Caster> caster;
  C cur = C::Zero();
  std::string banner;

  static P parseP(const Toks & t, size_t at)
  {
    if (at + D > t.size()) { throw vp::BadOp(); }
    P p;
    for (size_t i = 0; i < D; ++i) { p[i] = vp::parseF<S>(t[at + i]); }
    return p;
  }

  Sess(const Toks & t)
  {
    if (t.size() != 3 + 2 * D + 1) { throw vp::BadOp(); }
    lo = parseP(t, 3); hi = parseP(t, 3 + D);
    S r = vp::parseF<S>(t[3 + 2 * D]);
    const S big = S(1000000);
    if (!(S(0) < r && r <= big)) { throw vp::BadOp(); }
    for (size_t i = 0; i < D; ++i) {
      if (!(S(0) - big <= lo[i] && lo[i] <= hi[i] && hi[i] <= big && (hi[i] - lo[i]) / r <= S(100000))) { throw vp::BadOp(); }
    }
    map.reset(new Map(Interval<S, D>(lo, hi), r));
    caster.reset(new Caster(map.get()));
    banner = "n" + idx(map->getNumberOfCellsAlongAxes()) + " c";
    for (size_t i = 0; i < D; ++i) {
      const std::vector<S> & c = map->getCellCentersPositionAlong(i);
      if (c.empty() || c.size() != map->getNumberOfCellsAlongAxes()[i]) { banner += " table-size-mismatch"; continue; }
      banner += " " + vp::fmtF(c.front()) + " " + vp::fmtF(c.back());
    }
  }

  static std::string idx(const C & c)
  {
    std::string o;
    for (size_t i = 0; i < D; ++i) { o += " " + std::to_string(static_cast<unsigned long long>(c[i])); }
    return o;
  }
  static std::string cell(const C & c)
  {
    std::string o;
    for (size_t i = 0; i < D; ++i) { if (i) { o += ":"; } o += std::to_string(static_cast<unsigned long long>(c[i])); }
    return o;
  }
  std::string chain(const VectorOfEigenVector<C> & ray) const
  {
    std::string o = "o " + cell(caster->getOriginPointIndexes()) + " e " + cell(caster->getEndPointIndexes()) +
      " c " + std::to_string(ray.size());
    for (const C & c : ray) { o += " " + cell(c); }
    return o;
  }
  bool inside(const P & p) const
  {
    for (size_t i = 0; i < D; ++i) { if (!(lo[i] <= p[i] && p[i] <= hi[i])) { return false; } }
    return true;
  }
  bool inGrid(const C & c) const
  {
    for (size_t i = 0; i < D; ++i) { if (!(c[i] < map->getNumberOfCellsAlongAxes()[i])) { return false; } }
    return true;
  }

  std::string handle(const Toks & t) override
  {
    const std::string & op = t[0];
    // VALUE SEMANTICS: every fifth op the caster is replaced by a copy of itself and the original destroyed (its whole traversal
    // state — origin, end, per-axis crossing parameters, remaining counts — is copied)
    { static unsigned long ops = 0; if (++ops % 5 == 0) { std::unique_ptr<Caster> c(new Caster(*caster)); caster = std::move(c); } }
    if (op == "ray.origin" && t.size() == 1 + D) {
      P p = parseP(t, 1); if (!inside(p)) { throw vp::BadOp(); }
      caster->setOriginPoint(p);
      return "o" + idx(caster->getOriginPointIndexes());
    }
    if (op == "ray.end" && t.size() == 1 + D) {
      P p = parseP(t, 1); if (!inside(p) || !inGrid(caster->getOriginPointIndexes())) { throw vp::BadOp(); }
      caster->setEndPoint(p);
      return "e" + idx(caster->getEndPointIndexes()) + " n " + std::to_string(caster->computeRayNumberOfCells());
    }
    if (op == "ray.ncells" && t.size() == 1) { return "n " + std::to_string(caster->computeRayNumberOfCells()); }
    if (op == "ray.cast" && t.size() == 1) { return chain(caster->cast()); }
    if (op == "ray.castto" && t.size() == 1 + D) {
      P p = parseP(t, 1); if (!inside(p) || !inGrid(caster->getOriginPointIndexes())) { throw vp::BadOp(); }
      return chain(caster->cast(p));
    }
    if (op == "ray.castoe" && t.size() == 1 + 2 * D) {
      P o = parseP(t, 1), e = parseP(t, 1 + D);
      if (!inside(o) || !inside(e) || !inGrid(map->computeCellIndexes(o))) { throw vp::BadOp(); }
      return chain(caster->cast(o, e));
    }
    if (op == "ray.cur" && t.size() == 1) { cur = caster->getOriginPointIndexes(); return "cur" + idx(cur); }
    if (op == "ray.next" && t.size() == 1) { caster->next(cur); return "cur" + idx(cur); }
    throw vp::BadOp();
  }
};

static std::unique_ptr<SessBase> sess;

static void reset() { sess.reset(); }

static std::string handle(const Toks & t)
{
  if (t[0] == "ray.new") {
    if (t.size() < 3) { throw vp::BadOp(); }
    std::unique_ptr<SessBase> s;
    std::string banner;
    if (t[1] == "f" && t[2] == "2") { auto * p = new Sess<float, 2>(t); s.reset(p); banner = p->banner; }
    else if (t[1] == "f" && t[2] == "3") { auto * p = new Sess<float, 3>(t); s.reset(p); banner = p->banner; }
    else if (t[1] == "d" && t[2] == "2") { auto * p = new Sess<double, 2>(t); s.reset(p); banner = p->banner; }
    else if (t[1] == "d" && t[2] == "3") { auto * p = new Sess<double, 3>(t); s.reset(p); banner = p->banner; }
    else { throw vp::BadOp(); }
    sess = std::move(s);
    return banner;
  }
  if (!sess) { throw vp::BadOp(); }
  return sess->handle(t);
}

int main() { return vp::run(reset, handle); }
