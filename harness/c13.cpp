// C13 harness: drives the real GridIndexMapping<float|double, 2|3> (same op vocabulary as lean/Drivers/C13.lean).
#include <memory>
#include "proto.hpp"
#include "romea_core_common/containers/grid/GridIndexMapping.hpp"

using namespace romea::core;
using vp::Toks;

struct IMap
{
  virtual ~IMap() = default;
  virtual std::string describe() const = 0;
  virtual std::string cells() const = 0;
  virtual std::string idx(const Toks & t) const = 0;
  virtual std::string centre(const Toks & t) const = 0;
  virtual std::string loc(const Toks & t) const = 0;
  virtual std::string fix(const Toks & t) const = 0;
  virtual std::string scan(size_t axis) const = 0;
};

template<typename S, size_t DIM>
struct Map : IMap
{
  using G = GridIndexMapping<S, DIM>;
  std::unique_ptr<G> g;

  explicit Map(const Toks & t, bool sym)
  {
    if (sym) {
      if (t.size() != 5) { throw vp::BadOp(); }
      g.reset(new G(vp::parseF<S>(t[3]), vp::parseF<S>(t[4])));
    } else {
      if (t.size() != 3 + 2 * DIM + 1) { throw vp::BadOp(); }
      typename G::PointType lo, hi;
      for (size_t i = 0; i < DIM; ++i) { lo(i) = vp::parseF<S>(t[3 + i]); hi(i) = vp::parseF<S>(t[3 + DIM + i]); }
      g.reset(new G(typename G::IntervalType(lo, hi), vp::parseF<S>(t[3 + 2 * DIM])));
    }
    // VALUE SEMANTICS: every second mapping the case works with is a COPY (copy construction / copy assignment in turn) of the one
    // just built, whose source is then re-assigned to an unrelated small mapping and destroyed — a copy must not depend on its
    // source (seeded change c13d: cached raw pointers into the object's own centre tables, shallow-copied by the implicit copies)
    static unsigned long made = 0;
    ++made;
    if (made % 2 == 0) {
      std::unique_ptr<G> src = std::move(g);
      if (made % 4 == 0) { g.reset(new G(*src)); } else { g.reset(new G(S(1), S(0.5))); *g = *src; }
      typename G::PointType a = G::PointType::Constant(S(100)), b = G::PointType::Constant(S(103));
      *src = G(typename G::IntervalType(a, b), S(0.25));
      src.reset();
    }
  }

  // The harness reads the centre TABLES only inside the protocol op `map.scan` and computes centres only inside protocol ops: an
  // observer with a side effect (seeded change c13f: tables filled lazily, by whichever accessor is called first) must not be
  // triggered behind the protocol's back. `map.newq` / `map.symq` construct WITHOUT computing any centre.
  std::string cells() const override
  {
    const auto & n = g->getNumberOfCellsAlongAxes();
    std::string o = "n";
    for (size_t i = 0; i < DIM; ++i) { o += " " + std::to_string(n(i)); }
    return o;
  }

  std::string describe() const override
  {
    const auto & n = g->getNumberOfCellsAlongAxes();
    std::string o = "n";
    for (size_t i = 0; i < DIM; ++i) { o += " " + std::to_string(n(i)); }
    typename G::CellIndexes first = G::CellIndexes::Zero(), last;
    bool ok = true;
    for (size_t i = 0; i < DIM; ++i) {
      ok = ok && n(i) >= 1;
      last(i) = n(i) - 1;
    }
    if (!ok) { return o + " malformed-table"; }
    auto cf = g->computeCellCenterPosition(first), cl = g->computeCellCenterPosition(last);
    o += " first";
    for (size_t i = 0; i < DIM; ++i) { o += " " + vp::fmtF(cf(i)); }
    o += " last";
    for (size_t i = 0; i < DIM; ++i) { o += " " + vp::fmtF(cl(i)); }
    return o;
  }

  std::string idx(const Toks & t) const override
  {
    if (t.size() != 1 + DIM) { throw vp::BadOp(); }
    typename G::PointType p;
    for (size_t i = 0; i < DIM; ++i) { p(i) = vp::parseF<S>(t[1 + i]); }
    auto k = g->computeCellIndexes(p);
    std::string o;
    // size_t printed as the signed value the model's Int carries (a negative quotient is UB in C++ anyway)
    for (size_t i = 0; i < DIM; ++i) { o += (i ? " " : "") + std::to_string(static_cast<long long>(k(i))); }
    return o;
  }

  std::string centre(const Toks & t) const override
  {
    if (t.size() != 1 + DIM) { throw vp::BadOp(); }
    typename G::CellIndexes k;
    for (size_t i = 0; i < DIM; ++i) {
      k(i) = vp::parseU(t[1 + i]);
      if (k(i) >= g->getNumberOfCellsAlongAxes()(i)) { throw vp::BadOp(); }
    }
    auto c = g->computeCellCenterPosition(k);
    std::string o;
    for (size_t i = 0; i < DIM; ++i) { o += (i ? " " : "") + vp::fmtF(c(i)); }
    return o;
  }

  // indexes of a point, then the centre of that cell (`oob` if an index is outside the table)
  std::string loc(const Toks & t) const override
  {
    std::string o = idx(t);
    typename G::PointType p;
    for (size_t i = 0; i < DIM; ++i) { p(i) = vp::parseF<S>(t[1 + i]); }
    auto k = g->computeCellIndexes(p);
    for (size_t i = 0; i < DIM; ++i) {
      if (k(i) >= g->getNumberOfCellsAlongAxes()(i)) { return o + " oob"; }
    }
    auto c = g->computeCellCenterPosition(k);
    for (size_t i = 0; i < DIM; ++i) { o += " " + vp::fmtF(c(i)); }
    return o;
  }

  // centre of a cell, then the indexes that centre maps to
  std::string fix(const Toks & t) const override
  {
    std::string o = centre(t);
    typename G::CellIndexes k;
    for (size_t i = 0; i < DIM; ++i) { k(i) = vp::parseU(t[1 + i]); }
    auto j = g->computeCellIndexes(g->computeCellCenterPosition(k));
    for (size_t i = 0; i < DIM; ++i) { o += " " + std::to_string(static_cast<long long>(j(i))); }
    return o;
  }

  std::string scan(size_t axis) const override
  {
    if (axis >= DIM) { throw vp::BadOp(); }
    const std::vector<S> & c = g->getCellCentersPositionAlong(axis);
    const S r = g->getCellResolution();
    // the other coordinates: centre of cell 0 (always a valid point of the grid)
    typename G::PointType p = g->computeCellCenterPosition(G::CellIndexes::Zero());
    S dev = 0; size_t bad = 0;
    for (size_t k = 0; k < c.size(); ++k) {
      p(axis) = c[k];
      if (g->computeCellIndexes(p)(axis) != k) { ++bad; }
      if (k + 1 < c.size()) {
        S step = c[k + 1] - c[k];
        S d = std::abs(step - r);
        if (dev < d) { dev = d; }
      }
    }
    return "dev " + vp::fmtF(dev) + " fixbad " + std::to_string(bad) + " cnt " + std::to_string(c.size());
  }
};

static std::unique_ptr<IMap> cur;

static void reset() { cur.reset(); }

static std::string handle(const Toks & t)
{
  const std::string & op = t[0];
  if ((op == "map.new" || op == "map.sym" || op == "map.newq" || op == "map.symq") && t.size() >= 3) {
    bool sym = op == "map.sym" || op == "map.symq";
    const bool quiet = op == "map.newq" || op == "map.symq";
    uint64_t d = vp::parseU(t[2]);
    if (t[1] == "f64" && d == 2) { cur.reset(new Map<double, 2>(t, sym)); }
    else if (t[1] == "f64" && d == 3) { cur.reset(new Map<double, 3>(t, sym)); }
    else if (t[1] == "f32" && d == 2) { cur.reset(new Map<float, 2>(t, sym)); }
    else if (t[1] == "f32" && d == 3) { cur.reset(new Map<float, 3>(t, sym)); }
    else { throw vp::BadOp(); }
    return quiet ? cur->cells() : cur->describe();
  }
  if (!cur) { throw vp::BadOp(); }
  if (op == "map.describe" && t.size() == 1) { return cur->describe(); }
  if (op == "map.idx") { return cur->idx(t); }
  if (op == "map.centre") { return cur->centre(t); }
  if (op == "map.loc") { return cur->loc(t); }
  if (op == "map.fix") { return cur->fix(t); }
  if (op == "map.scan" && t.size() == 2) { return cur->scan(vp::parseU(t[1])); }
  throw vp::BadOp();
}

int main() { return vp::run(reset, handle); }
