// Shared line-protocol plumbing for the C++ harnesses (implementation side of the
// correspondence check). One op per line in, one canonical line out; `#case` resets.
// A crash (assert, sanitizer abort, SIGSEGV, SIGFPE) or a time-out inside an op is an *outcome*:
// the handler prints `abort` / `hang` for that op and exits with status 3; tools/check.py then
// restarts the harness behind the failing case.
#pragma once
#include <unistd.h>
#include <cerrno>
#include <cfenv>
#include <csignal>
#include <cstdint>
#include <cstdio>
#include <cstdlib>
#include <cstring>
#include <cmath>
#include <functional>
#include <iostream>
#include <sstream>
#include <stdexcept>
#include <string>
#include <vector>

namespace vp
{
using Toks = std::vector<std::string>;
struct BadOp : std::runtime_error { BadOp() : std::runtime_error("bad-op") {} };

inline Toks split(const std::string & line)
{
  Toks t; std::istringstream is(line); std::string w;
  while (is >> w) { t.push_back(w); }
  return t;
}
inline uint64_t parseU(const std::string & s)
{
  if (s.empty()) { throw BadOp(); }
  for (char c : s) { if (c < '0' || c > '9') { throw BadOp(); } }
  return std::strtoull(s.c_str(), nullptr, 10);
}
inline long long parseI(const std::string & s)
{
  if (s.empty()) { throw BadOp(); }
  size_t i = (s[0] == '-' || s[0] == '+') ? 1 : 0;
  if (i == s.size()) { throw BadOp(); }
  for (size_t k = i; k < s.size(); ++k) { if (s[k] < '0' || s[k] > '9') { throw BadOp(); } }
  return std::strtoll(s.c_str(), nullptr, 10);
}
inline double parseD(const std::string & s)
{
  if (s.size() < 2 || s[0] != 'd') { throw BadOp(); }
  uint64_t b = parseU(s.substr(1)); double d; std::memcpy(&d, &b, 8); return d;
}
inline float parseS(const std::string & s)
{
  if (s.size() < 2 || s[0] != 's') { throw BadOp(); }
  uint32_t b = static_cast<uint32_t>(parseU(s.substr(1))); float f; std::memcpy(&f, &b, 4); return f;
}
inline std::string fmtD(double d)
{
  if (std::isnan(d)) { return "nan"; }
  uint64_t b; std::memcpy(&b, &d, 8); return "d" + std::to_string(b);
}
inline std::string fmtS(float f)
{
  if (std::isnan(f)) { return "nan"; }
  uint32_t b; std::memcpy(&b, &f, 4); return "s" + std::to_string(b);
}
template<typename T> T parseF(const std::string & s);
template<> inline double parseF<double>(const std::string & s) { return parseD(s); }
template<> inline float parseF<float>(const std::string & s) { return parseS(s); }
inline std::string fmtF(double d) { return fmtD(d); }
inline std::string fmtF(float f) { return fmtS(f); }

inline void onSignal(int sig)
{
  const char * m = (sig == SIGALRM) ? "hang\n" : "abort\n";
  ssize_t r = write(1, m, std::strlen(m)); (void)r;
  _exit(3);
}

inline int run(const std::function<void()> & reset, const std::function<std::string(const Toks &)> & handle)
{
  for (int s : {SIGALRM, SIGABRT, SIGSEGV, SIGFPE, SIGBUS, SIGILL}) { std::signal(s, onSignal); }
  unsigned hang = 20;
  if (const char * e = std::getenv("VP_HANG_SECS")) { hang = static_cast<unsigned>(std::atoi(e)); }
  std::string line;
  reset();
  while (std::getline(std::cin, line)) {
    Toks t = split(line);
    if (t.empty()) { continue; }
    if (t[0][0] == '#') { reset(); std::fputs("#\n", stdout); std::fflush(stdout); continue; }
    std::string out;
    alarm(hang);
    // ambient state the library must not depend on: `errno` may hold anything an earlier libm / libc call of the process left
    // there (e.g. ERANGE after a log(0) elsewhere). It is set to ERANGE / EDOM / 0 in turn before every op — results that change
    // with it are a correspondence disagreement or a probe failure (seeded change c03c guards on a stale `errno == ERANGE`).
    { static unsigned long opCounter = 0; static const int ambient[3] = {ERANGE, EDOM, 0}; errno = ambient[opCounter++ % 3];
      // likewise the sticky IEEE status flags of the thread (set by ANY earlier division by zero / invalid operation / overflow /
      // inexact result anywhere in the process): raised on two ops out of three, cleared on the third (seeded change c01e returns NaN
      // when `fetestexcept(FE_DIVBYZERO | FE_INVALID)` is set at the end of toWGS84 without having cleared the flags on entry)
      if (opCounter % 3 != 0) { std::feraiseexcept(FE_DIVBYZERO | FE_INVALID | FE_OVERFLOW | FE_UNDERFLOW | FE_INEXACT); } else { std::feclearexcept(FE_ALL_EXCEPT); } }
    try { out = handle(t); }
    catch (const BadOp &) { out = "bad-op"; }
    catch (const std::exception & e) { out = std::string("exception"); }
    alarm(0);
    std::fputs(out.c_str(), stdout); std::fputc('\n', stdout); std::fflush(stdout);
  }
  return 0;
}
}  // namespace vp
