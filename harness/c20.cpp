// C20 harness: drives the real Interval, AxisAlignedBoundingBox, OrientedBoundingBox, PointSetPreconditioner and the
// min / max / mean of Eigen containers (same op vocabulary as lean/Drivers/C20.lean).
#include <memory>
#include "proto.hpp"
#include "romea_core_common/math/Interval.hpp"
#include "romea_core_common/containers/boundingbox/AxisAlignedBoundingBox.hpp"
#include "romea_core_common/containers/boundingbox/OrientedBoundingBox.hpp"
#include "romea_core_common/containers/Eigen/EigenContainers.hpp"
#include "romea_core_common/pointset/algorithms/PointSetPreconditioner.hpp"

using namespace romea::core;
using vp::Toks;

template<typename V> static std::string fmtVec(const V & v)
{
  std::string o;
  for (Eigen::Index i = 0; i < v.size(); ++i) { o += (i ? " " : "") + vp::fmtF(v(i)); }
  return o;
}
template<typename S, int D> static Eigen::Matrix<S, D, 1> parseVec(const Toks & t, size_t at)
{
  if (at + D > t.size()) { throw vp::BadOp(); }
  Eigen::Matrix<S, D, 1> v;
  for (int i = 0; i < D; ++i) { v(i) = vp::parseF<S>(t[at + i]); }
  return v;
}

struct IObjs
{
  virtual ~IObjs() = default;
  virtual std::string op(const std::string & name, const Toks & t) = 0;   // non-constructor ops; t = full line
};

// ---------------------------------------------------------------- intervals of dimension 1 (std::min / std::max specialisation)
template<typename S>
struct Itv1 : IObjs
{
  Interval<S, 1> I;
  Itv1(S lo, S hi) : I(lo, hi) {}
  std::string op(const std::string & name, const Toks & t) override
  {
    if (name == "int.include" && t.size() == 3) {
      I.include(Interval<S, 1>(vp::parseF<S>(t[1]), vp::parseF<S>(t[2])));
      return vp::fmtF(I.lower()) + " " + vp::fmtF(I.upper());
    }
    if (name == "int.inside" && t.size() == 2) { return I.inside(vp::parseF<S>(t[1])) ? "1" : "0"; }
    throw vp::BadOp();
  }
};

// ---------------------------------------------------------------- dimension 2 / 3
template<typename S, int D>
struct Objs : IObjs
{
  using V = Eigen::Matrix<S, D, 1>;
  using M = Eigen::Matrix<S, D, D>;
  std::unique_ptr<Interval<S, D>> itv;
  std::unique_ptr<AxisAlignedBoundingBox<S, D>> aabb;
  std::unique_ptr<OrientedBoundingBox<S, D>> obb;

  std::string op(const std::string & name, const Toks & t) override
  {
    if (name == "int.include" && itv && t.size() == 1 + 2 * D) {
      itv->include(Interval<S, D>(parseVec<S, D>(t, 1), parseVec<S, D>(t, 1 + D)));
      return fmtVec(itv->lower()) + " " + fmtVec(itv->upper());
    }
    if (name == "int.inside" && itv && t.size() == 1 + D) { return itv->inside(parseVec<S, D>(t, 1)) ? "1" : "0"; }
    if (name == "int.hullbox" && itv && t.size() == 1) {
      // the box built from the KEPT interval object (after whatever include() calls it has seen) and converted back
      AxisAlignedBoundingBox<S, D> b(*itv);
      auto I = b.toInterval();
      return fmtVec(I.lower()) + " " + fmtVec(I.upper());
    }
    if (name == "aabb.toint" && aabb && t.size() == 1) {
      auto I = aabb->toInterval();
      return fmtVec(I.lower()) + " " + fmtVec(I.upper());
    }
    if (name == "aabb.in" && aabb && t.size() == 1 + D) { return aabb->isInside(parseVec<S, D>(t, 1)) ? "1" : "0"; }
    if (name == "obb.in" && obb && t.size() == 1 + D) { return obb->isInside(parseVec<S, D>(t, 1)) ? "1" : "0"; }
    if (name == "obb.toaabb" && obb && t.size() == 1) {
      auto a = obb->toAxisAlignedBoundingBox();
      return fmtVec(a.getCenterPosition()) + " " + fmtVec(a.getHalfWidthExtents());
    }
    throw vp::BadOp();
  }
};

static std::unique_ptr<IObjs> cur;
static void resetPre();
static void reset() { cur.reset(); resetPre(); }

// constructors: `t` = op T d args…
template<typename S, int D>
static std::string construct(const std::string & name, const Toks & t)
{
  using V = Eigen::Matrix<S, D, 1>;
  auto o = std::make_unique<Objs<S, D>>();
  std::string out = "ok";
  if (name == "obb.new") {
    if (t.size() != 3 + 2 * D + D * D) { throw vp::BadOp(); }
    V c = parseVec<S, D>(t, 3), h = parseVec<S, D>(t, 3 + D);
    Eigen::Matrix<S, D, D> R;
    for (int i = 0; i < D; ++i) { for (int j = 0; j < D; ++j) { R(i, j) = vp::parseF<S>(t[3 + 2 * D + i * D + j]); } }
    o->obb.reset(new OrientedBoundingBox<S, D>(c, h, R));
  } else {
    if (t.size() != 3 + 2 * D) { throw vp::BadOp(); }
    V a = parseVec<S, D>(t, 3), b = parseVec<S, D>(t, 3 + D);
    if (name == "int.new") { o->itv.reset(new Interval<S, D>(a, b)); }
    else if (name == "aabb.new") { o->aabb.reset(new AxisAlignedBoundingBox<S, D>(a, b)); }
    else if (name == "aabb.ofint") {
      o->aabb.reset(new AxisAlignedBoundingBox<S, D>(Interval<S, D>(a, b)));
      out = fmtVec(o->aabb->getCenterPosition()) + " " + fmtVec(o->aabb->getHalfWidthExtents());
    } else { throw vp::BadOp(); }
  }
  cur = std::move(o);
  return out;
}

// ---------------------------------------------------------------- PointSetPreconditioner
template<typename P>
static PointSetPreconditioner<P> & preObj(bool renew = false)
{
  static std::unique_ptr<PointSetPreconditioner<P>> o;
  if (renew || !o) { o.reset(new PointSetPreconditioner<P>()); }
  return *o;
}
static void resetPre()
{
  preObj<Eigen::Vector2d>(true); preObj<Eigen::Vector2f>(true); preObj<Eigen::Vector3d>(true); preObj<Eigen::Vector3f>(true);
  preObj<HomogeneousCoordinates2d>(true); preObj<HomogeneousCoordinates2f>(true);
  preObj<HomogeneousCoordinates3d>(true); preObj<HomogeneousCoordinates3f>(true);
}

template<typename P, int CART, bool HOM>
static std::string precond(const Toks & t)
{
  using S = typename P::Scalar;
  size_t n = vp::parseU(t[3]);
  if (n == 0 || t.size() != 4 + n * CART) { throw vp::BadOp(); }
  PointSet<P> pts;
  for (size_t k = 0; k < n; ++k) {
    S c[3] = {0, 0, 0};
    for (int i = 0; i < CART; ++i) { c[i] = vp::parseF<S>(t[4 + k * CART + i]); }
    if constexpr (HOM) {
      if constexpr (CART == 2) { pts.push_back(P(c[0], c[1])); } else { pts.push_back(P(c[0], c[1], c[2])); }
    } else {
      P p; for (int i = 0; i < CART; ++i) { p(i) = c[i]; } pts.push_back(p);
    }
  }
  // one preconditioner object per point type and case, re-used by successive `pre.compute` ops: compute() must not
  // depend on what the object computed before (the model is a pure function of the point set)
  PointSetPreconditioner<P> & pre = preObj<P>();
  pre.compute(pts);
  return fmtVec(pre.getPointSetMin()) + " " + fmtVec(pre.getPointSetMax()) + " " + fmtVec(pre.getPointSetMean()) + " " +
         vp::fmtF(pre.getScale()) + " " + fmtVec(pre.getTranslation());
}

// ---------------------------------------------------------------- containers
template<typename C, typename S, int D>
static C readPts(const Toks & t)
{
  size_t n = vp::parseU(t[4]);
  if (n == 0 || t.size() != 5 + n * D) { throw vp::BadOp(); }
  C pts;
  for (size_t k = 0; k < n; ++k) {
    typename C::value_type p;
    for (int i = 0; i < D; ++i) { p(i) = vp::parseF<S>(t[5 + k * D + i]); }
    pts.push_back(p);
  }
  return pts;
}

template<typename S, int D>
static std::string container(const std::string & name, const Toks & t)
{
  using A = Eigen::Array<S, D, 1>;
  using V = Eigen::Matrix<S, D, 1>;
  const std::string & c = t[3];
  if (name == "cont.min") {
    if (c == "vec") { return fmtVec(romea::core::min(readPts<VectorOfEigenVector<A>, S, D>(t))); }
    if (c == "deque") { return fmtVec(romea::core::min(readPts<DequeOfEigenVector<A>, S, D>(t))); }
    if (c == "list") { return fmtVec(romea::core::min(readPts<ListOfEigenVector<A>, S, D>(t))); }
  } else if (name == "cont.max") {
    if (c == "vec") { return fmtVec(romea::core::max(readPts<VectorOfEigenVector<A>, S, D>(t))); }
    if (c == "deque") { return fmtVec(romea::core::max(readPts<DequeOfEigenVector<A>, S, D>(t))); }
    if (c == "list") { return fmtVec(romea::core::max(readPts<ListOfEigenVector<A>, S, D>(t))); }
  } else if (name == "cont.mean") {
    if (c == "vec") { return fmtVec(romea::core::mean(readPts<VectorOfEigenVector<V>, S, D>(t))); }
    if (c == "deque") { return fmtVec(romea::core::mean(readPts<DequeOfEigenVector<V>, S, D>(t))); }
    if (c == "list") { return fmtVec(romea::core::mean(readPts<ListOfEigenVector<V>, S, D>(t))); }
    if (c == "avec") { return fmtVec(romea::core::mean(readPts<VectorOfEigenVector<A>, S, D>(t))); }
  }
  throw vp::BadOp();
}

static std::string handle(const Toks & t)
{
  const std::string & op = t[0];
  const bool ctor = op == "int.new" || op == "aabb.ofint" || op == "aabb.new" || op == "obb.new";
  if (ctor) {
    if (t.size() < 3) { throw vp::BadOp(); }
    const bool f64 = t[1] == "f64";
    if (!f64 && t[1] != "f32") { throw vp::BadOp(); }
    uint64_t d = vp::parseU(t[2]);
    if (d == 1 && op == "int.new" && t.size() == 5) {
      if (f64) { cur.reset(new Itv1<double>(vp::parseD(t[3]), vp::parseD(t[4]))); }
      else { cur.reset(new Itv1<float>(vp::parseS(t[3]), vp::parseS(t[4]))); }
      return "ok";
    }
    if (d == 2) { return f64 ? construct<double, 2>(op, t) : construct<float, 2>(op, t); }
    if (d == 3) { return f64 ? construct<double, 3>(op, t) : construct<float, 3>(op, t); }
    throw vp::BadOp();
  }
  if (op == "pre.compute") {
    if (t.size() < 5) { throw vp::BadOp(); }
    const bool f64 = t[1] == "f64";
    if (!f64 && t[1] != "f32") { throw vp::BadOp(); }
    const std::string & k = t[2];
    if (k == "c2") { return f64 ? precond<Eigen::Vector2d, 2, false>(t) : precond<Eigen::Vector2f, 2, false>(t); }
    if (k == "c3") { return f64 ? precond<Eigen::Vector3d, 3, false>(t) : precond<Eigen::Vector3f, 3, false>(t); }
    if (k == "h2") { return f64 ? precond<HomogeneousCoordinates2d, 2, true>(t) : precond<HomogeneousCoordinates2f, 2, true>(t); }
    if (k == "h3") { return f64 ? precond<HomogeneousCoordinates3d, 3, true>(t) : precond<HomogeneousCoordinates3f, 3, true>(t); }
    throw vp::BadOp();
  }
  if (op == "cont.min" || op == "cont.max" || op == "cont.mean") {
    if (t.size() < 6) { throw vp::BadOp(); }
    const bool f64 = t[1] == "f64";
    if (!f64 && t[1] != "f32") { throw vp::BadOp(); }
    uint64_t d = vp::parseU(t[2]);
    if (d == 2) { return f64 ? container<double, 2>(op, t) : container<float, 2>(op, t); }
    if (d == 3) { return f64 ? container<double, 3>(op, t) : container<float, 3>(op, t); }
    if (d == 4) { return f64 ? container<double, 4>(op, t) : container<float, 4>(op, t); }
    throw vp::BadOp();
  }
  if (!cur) { throw vp::BadOp(); }
  return cur->op(op, t);
}

int main() { return vp::run(reset, handle); }
