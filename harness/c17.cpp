// C17 harness: RateMonitoring and CheckupRate (equal-to and greater-than) on stamped-event histories.
#include <memory>
#include "proto.hpp"
#include "romea_core_common/monitoring/RateMonitoring.hpp"
#include "romea_core_common/diagnostic/CheckupRate.hpp"

// Ambient state the library must not depend on: format flags left behind on a stream by an EARLIER print in the same thread. The
// library's toStringInfoValue<T>() is called with this type before every op; with a fresh std::ostringstream per call (the
// unchanged code) that is invisible, with a stream object reused across calls (seeded change c18d: a thread_local ostringstream
// whose str("") / clear() reset does not restore the flags) every later value is printed with these flags.
#include <iomanip>
#include "romea_core_common/diagnostic/DiagnosticReport.hpp"
struct AmbientStreamState {};
inline std::ostream & operator<<(std::ostream & os, const AmbientStreamState &)
{
  return os << std::setprecision(3) << std::fixed << std::showpos << 1.5;
}
static void perturbAmbientStreamState() { (void)romea::core::toStringInfoValue(AmbientStreamState{}); }


using namespace romea::core;
using vp::Toks;

static const std::string NAME = "src";
static std::unique_ptr<RateMonitoring> mon;
static std::unique_ptr<CheckupEqualToRate> ceq;
static std::unique_ptr<CheckupGreaterThanRate> cgt;

static void reset() { mon.reset(); ceq.reset(); cgt.reset(); }

static std::string msgClass(const std::string & m)
{
  if (m == "no data received from " + NAME) { return "initial"; }
  const std::string q = NAME + "_rate";
  if (m.compare(0, q.size(), q) != 0) { return "badname"; }
  std::string e = m.substr(q.size());
  if (e == " is too low.") { return "too_low"; }
  if (e == " is too high.") { return "too_high"; }
  if (e == " is OK.") { return "is_ok"; }
  if (e == " timeout.") { return "timeout"; }
  return "other";
}

static std::string describe(const DiagnosticReport & r)
{
  if (r.diagnostics.size() != 1 || r.info.size() != 1 || r.info.begin()->first != NAME + "_rate") { return "malformed-report"; }
  const std::string & v = r.info.begin()->second;
  std::string info = v.empty() ? "empty" : v;
  for (char & c : info) { if (c == ' ') { c = '_'; } }
  return "st " + std::to_string(static_cast<int>(r.diagnostics.front().status)) + " msg " +
         msgClass(r.diagnostics.front().message) + " info:" + info;
}

static std::string handle(const Toks & t)
{
  perturbAmbientStreamState();
  const std::string & op = t[0];
  if (op == "rate.new" && t.size() == 2) {
    double r = vp::parseD(t[1]);
    reset(); mon.reset(new RateMonitoring(r));
    // the window size is private: observe it through behaviour on a scratch copy
    RateMonitoring probe(*mon);
    size_t w = 0; long long ts = 0;
    for (size_t i = 0; i < 200; ++i) { ts += 1000000; if (probe.update(Duration(ts)) != 0.) { w = i; break; } }
    return "W " + std::to_string(w);
  }
  if (op == "rate.stamp" && t.size() == 2) {
    if (!mon) { throw vp::BadOp(); }
    // VALUE SEMANTICS: every seventh stamp the monitor is replaced by a copy of itself (copy constructor) and the original destroyed
    { static unsigned long stamps = 0; if (++stamps % 7 == 0) { std::unique_ptr<RateMonitoring> c(new RateMonitoring(*mon)); mon = std::move(c); } }
    double r = mon->update(Duration(vp::parseI(t[1])));
    if (r != mon->getRate()) { return "update-vs-getRate-mismatch"; }
    return "rate " + vp::fmtD(r);
  }
  if (op == "rate.hb" && t.size() == 2) {
    if (!mon) { throw vp::BadOp(); }
    bool to = mon->timeout(Duration(vp::parseI(t[1])));
    return std::string("to ") + (to ? "1" : "0") + " rate " + vp::fmtD(mon->getRate());
  }
  if (op == "crate.new" && t.size() == 4) {
    double r = vp::parseD(t[2]), e = vp::parseD(t[3]);
    reset();
    if (t[1] == "eq") { ceq.reset(new CheckupEqualToRate(NAME, r, e)); return describe(ceq->getReport()); }
    if (t[1] == "gt") { cgt.reset(new CheckupGreaterThanRate(NAME, r, e)); return describe(cgt->getReport()); }
    throw vp::BadOp();
  }
  if (op == "crate.stamp" && t.size() == 2) {
    if (!ceq && !cgt) { throw vp::BadOp(); }
    Duration d(vp::parseI(t[1]));
    DiagnosticStatus s = ceq ? ceq->evaluate(d) : cgt->evaluate(d);
    return "ret " + std::to_string(static_cast<int>(s)) + " " + describe(ceq ? ceq->getReport() : cgt->getReport());
  }
  if (op == "crate.hb" && t.size() == 2) {
    if (!ceq && !cgt) { throw vp::BadOp(); }
    Duration d(vp::parseI(t[1]));
    bool alive = ceq ? ceq->heartBeatCallback(d) : cgt->heartBeatCallback(d);
    return std::string("alive ") + (alive ? "1" : "0") + " " + describe(ceq ? ceq->getReport() : cgt->getReport());
  }
  throw vp::BadOp();
}

int main() { return vp::run(reset, handle); }
