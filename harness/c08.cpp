// C08 harness: drives romea::core::KdTree<PointType> (all eight instantiations) and dumps the
// nanoflann index actually built, through the public `kdtree_.index->saveIndex(FILE*)`.
//
//   kd.build T n c...      T in {c2f,c2d,c3f,c3d,h2f,h2d,h3f,h3d}; n*CARTESIAN_DIM coordinates
//                          -> ok n DIM leafmax B (low high)*DIM V vind*n T preorder-tree
//   kd.nn c...             -> idx dist                (KdTree::findNearestNeighbor)
//   kd.knn k c...          -> k (idx dist)*k          (KdTree::findNearestNeighbors)
#include <cstdio>
#include <cstdlib>
#include <memory>
#include <vector>
#include "proto.hpp"
#include "romea_core_common/pointset/KdTree.hpp"

using namespace romea::core;
using vp::Toks;

namespace
{

// byte layout of nanoflann's (protected) KDTreeSingleIndexAdaptor::Node for IndexType = size_t
template<typename D>
struct NodeMirror
{
  union {
    struct { size_t left, right; } lr;
    struct { int divfeat; D divlow, divhigh; } sub;
  };
  void * child1, * child2;
};

struct Reader
{
  const char * p; size_t left;
  template<typename T> T get()
  {
    if (left < sizeof(T)) { throw std::runtime_error("short index dump"); }
    T v; std::memcpy(&v, p, sizeof(T)); p += sizeof(T); left -= sizeof(T); return v;
  }
};

struct Session
{
  virtual ~Session() {}
  virtual std::string dump() = 0;
  virtual std::string nn(const Toks & t, size_t from) = 0;
  virtual std::string knn(size_t k, const Toks & t, size_t from) = 0;
  size_t n = 0;
  size_t cdim = 0;
};

template<class PointType>
struct SessionT : Session
{
  using Scalar = typename PointType::Scalar;
  static constexpr size_t CDIM = KdTree<PointType>::CARTESIAN_DIM;
  static constexpr size_t SIZE = KdTree<PointType>::POINT_SIZE;
  PointSet<PointType> pts;                       // must outlive the tree (the adaptor keeps a reference)
  std::unique_ptr<KdTree<PointType>> tree;

  static PointType point(const Toks & t, size_t from)
  {
    PointType p;                                 // homogeneous types: unit last coordinate by construction
    if (SIZE > CDIM) { p = PointType(); }
    for (size_t i = 0; i < CDIM; ++i) {
      Scalar v = vp::parseF<Scalar>(t[from + i]);
      if (std::isnan(v)) { throw vp::BadOp(); }
      p[i] = v;
    }
    return p;
  }

  SessionT(const Toks & t, size_t count)
  {
    n = count; cdim = CDIM;
    pts.reserve(n);
    for (size_t k = 0; k < n; ++k) { pts.push_back(point(t, 3 + k * CDIM)); }
    tree.reset(new KdTree<PointType>(pts));
  }

  void dumpTree(Reader & r, std::string & o)
  {
    auto node = r.get<NodeMirror<Scalar>>();
    if (node.child1 == nullptr && node.child2 == nullptr) {
      o += " L " + std::to_string(node.lr.left) + " " + std::to_string(node.lr.right);
      return;
    }
    o += " N " + std::to_string(node.sub.divfeat) + " " + vp::fmtF(node.sub.divlow) + " " + vp::fmtF(node.sub.divhigh);
    // save_tree writes child1's subtree, then child2's (each only when non-null)
    if (node.child1 != nullptr) { dumpTree(r, o); } else { o += " NULL"; }
    if (node.child2 != nullptr) { dumpTree(r, o); } else { o += " NULL"; }
  }

  std::string dump() override
  {
    char * buf = nullptr; size_t len = 0;
    FILE * f = open_memstream(&buf, &len);
    if (!f) { throw std::runtime_error("open_memstream"); }
    tree->kdtree_.index->saveIndex(f);
    std::fclose(f);
    std::unique_ptr<char, decltype(&std::free)> hold(buf, &std::free);
    Reader r{buf, len};
    size_t m_size = r.get<size_t>();
    int dim = r.get<int>();
    std::string o = "ok " + std::to_string(m_size) + " " + std::to_string(dim);
    std::string bb;
    for (size_t i = 0; i < SIZE; ++i) {
      Scalar lo = r.get<Scalar>(); Scalar hi = r.get<Scalar>();
      bb += " " + vp::fmtF(lo) + " " + vp::fmtF(hi);
    }
    size_t leaf = r.get<size_t>();
    o += " " + std::to_string(leaf) + " B" + bb + " V";
    size_t nv = r.get<size_t>();
    for (size_t i = 0; i < nv; ++i) { o += " " + std::to_string(r.get<size_t>()); }
    o += " T";
    dumpTree(r, o);
    if (r.left != 0) { o += " TRAILING " + std::to_string(r.left); }
    return o;
  }

  std::string nn(const Toks & t, size_t from) override
  {
    PointType q = point(t, from);
    size_t idx = static_cast<size_t>(-1); Scalar d = -1;
    tree->findNearestNeighbor(q, idx, d);
    return std::to_string(idx) + " " + vp::fmtF(d);
  }

  std::string knn(size_t k, const Toks & t, size_t from) override
  {
    PointType q = point(t, from);
    std::vector<size_t> idx(k, static_cast<size_t>(-1)); std::vector<Scalar> d(k, Scalar(-1));
    tree->findNearestNeighbors(q, k, idx, d);
    std::string o = std::to_string(k);
    for (size_t i = 0; i < k; ++i) { o += " " + std::to_string(idx[i]) + " " + vp::fmtF(d[i]); }
    return o;
  }
};

std::unique_ptr<Session> session;

void reset() { session.reset(); }

size_t cartesianDim(const std::string & ty)
{
  if (ty.size() != 3 || (ty[0] != 'c' && ty[0] != 'h') || (ty[1] != '2' && ty[1] != '3') || (ty[2] != 'f' && ty[2] != 'd')) {
    throw vp::BadOp();
  }
  return ty[1] == '2' ? 2 : 3;
}

std::string handle(const Toks & t)
{
  const std::string & op = t[0];
  if (op == "kd.build" && t.size() >= 3) {
    const std::string & ty = t[1];
    size_t cd = cartesianDim(ty);
    size_t n = vp::parseU(t[2]);
    if (n == 0 || t.size() != 3 + n * cd) { throw vp::BadOp(); }
    std::unique_ptr<Session> s;
    if (ty == "c2f") { s.reset(new SessionT<CartesianCoordinates2f>(t, n)); }
    else if (ty == "c2d") { s.reset(new SessionT<CartesianCoordinates2d>(t, n)); }
    else if (ty == "c3f") { s.reset(new SessionT<CartesianCoordinates3f>(t, n)); }
    else if (ty == "c3d") { s.reset(new SessionT<CartesianCoordinates3d>(t, n)); }
    else if (ty == "h2f") { s.reset(new SessionT<HomogeneousCoordinates2f>(t, n)); }
    else if (ty == "h2d") { s.reset(new SessionT<HomogeneousCoordinates2d>(t, n)); }
    else if (ty == "h3f") { s.reset(new SessionT<HomogeneousCoordinates3f>(t, n)); }
    else { s.reset(new SessionT<HomogeneousCoordinates3d>(t, n)); }
    session = std::move(s);
    return session->dump();
  }
  if (op == "kd.nn") {
    if (!session || t.size() != 1 + session->cdim) { throw vp::BadOp(); }
    return session->nn(t, 1);
  }
  if (op == "kd.knn" && t.size() >= 2) {
    size_t k = vp::parseU(t[1]);
    if (!session || t.size() != 2 + session->cdim || k == 0 || k > session->n) { throw vp::BadOp(); }
    return session->knn(k, t, 2);
  }
  throw vp::BadOp();
}

}  // namespace

int main() { return vp::run(reset, handle); }
