// C08 harness: drives romea::core::KdTree<PointType> (all eight instantiations) and dumps the
// nanoflann index actually built, read through nanoflann's own typed members (`root_node`, `Node::sub.divfeat /
// divlow / divhigh`, `Node::lr.left / right`, `child1 / child2`, `root_bbox`, `vind`) -- see `Peek` below.
//
//   kd.build T n c...      T in {c2f,c2d,c3f,c3d,h2f,h2d,h3f,h3d}; n*CARTESIAN_DIM coordinates
//                          -> ok n DIM leafmax B (low high)*DIM V vind*n T preorder-tree
//   kd.nn c...             -> idx dist                (KdTree::findNearestNeighbor)
//   kd.knn k c...          -> k (idx dist)*k          (KdTree::findNearestNeighbors)
#include <cstdio>
#include <cstdlib>
#include <memory>
#include <vector>
#include "proto.hpp"
#include "romea_core_common/pointset/KdTree.hpp"

using namespace romea::core;
using vp::Toks;

namespace
{

// Typed view of nanoflann's PROTECTED index state (no byte-layout assumption: padding, field order and the
// width of a field may change without the observation changing).  `Peek<Index>` derives from the index class
// only to be allowed to form pointers to its protected members (`&Peek::root_node` has type
// `NodePtr Index::*` and may be applied to any `Index` object); no `Peek` object is ever created.
// Every accessor exists in two overloads: the first is viable iff the member exists with a usable type, the
// second reports "not observable" -- the dump then carries a `?name` token (a correspondence disagreement
// at stage B), never an exception.
template<class Index>
struct Peek : Index
{
  // ---- index-level members
  template<class P> static auto root(const Index & ix, int)->decltype(&*(ix.*(&P::root_node)))
  {return ix.*(&P::root_node);}
  template<class P> static const void * root(const Index &, long) {return nullptr;}
  template<class P> static constexpr auto hasRoot(int)->decltype(&P::root_node, true) {return true;}
  template<class P> static constexpr bool hasRoot(long) {return false;}

  template<class P> static auto size(const Index & ix, unsigned long long & v, int)
  ->decltype(static_cast<unsigned long long>(ix.*(&P::m_size)), true)
  {v = static_cast<unsigned long long>(ix.*(&P::m_size)); return true;}
  template<class P> static bool size(const Index &, unsigned long long &, long) {return false;}

  template<class P> static auto dimension(const Index & ix, long long & v, int)
  ->decltype(static_cast<long long>(ix.*(&P::dim)), true)
  {v = static_cast<long long>(ix.*(&P::dim)); return true;}
  template<class P> static bool dimension(const Index &, long long &, long) {return false;}

  template<class P> static auto leafMax(const Index & ix, unsigned long long & v, int)
  ->decltype(static_cast<unsigned long long>(ix.*(&P::m_leaf_max_size)), true)
  {v = static_cast<unsigned long long>(ix.*(&P::m_leaf_max_size)); return true;}
  template<class P> static bool leafMax(const Index &, unsigned long long &, long) {return false;}

  template<class P> static auto bbox(const Index & ix, size_t dims, std::vector<double> & v, int)
  ->decltype(static_cast<double>((ix.*(&P::root_bbox))[0].low), static_cast<double>((ix.*(&P::root_bbox))[0].high), true)
  {
    const auto & bb = ix.*(&P::root_bbox);
    if (bb.size() != dims) {return false;}
    for (size_t i = 0; i < dims; ++i) {
      v.push_back(static_cast<double>(bb[i].low)); v.push_back(static_cast<double>(bb[i].high));
    }
    return true;
  }
  template<class P> static bool bbox(const Index &, size_t, std::vector<double> &, long) {return false;}

  template<class P> static auto perm(const Index & ix, std::vector<unsigned long long> & v, int)
  ->decltype(static_cast<unsigned long long>((ix.*(&P::vind))[0]), true)
  {
    for (const auto & x : ix.*(&P::vind)) {v.push_back(static_cast<unsigned long long>(x));}
    return true;
  }
  template<class P> static bool perm(const Index &, std::vector<unsigned long long> &, long) {return false;}

  // ---- node fields (N = the node type, deduced from root_node; never named here)
  template<class N> static auto children(const N & n, const N * & c1, const N * & c2, int)
  ->decltype(static_cast<const N *>(n.child1), static_cast<const N *>(n.child2), true)
  {c1 = n.child1; c2 = n.child2; return true;}
  template<class N> static bool children(const N &, const N * &, const N * &, long) {return false;}

  template<class N> static auto range(const N & n, unsigned long long & l, unsigned long long & r, int)
  ->decltype(static_cast<unsigned long long>(n.lr.left), static_cast<unsigned long long>(n.lr.right), true)
  {l = static_cast<unsigned long long>(n.lr.left); r = static_cast<unsigned long long>(n.lr.right); return true;}
  template<class N> static bool range(const N &, unsigned long long &, unsigned long long &, long) {return false;}

  template<class N> static auto feat(const N & n, long long & f, int)
  ->decltype(static_cast<long long>(n.sub.divfeat), true)
  {f = static_cast<long long>(n.sub.divfeat); return true;}
  template<class N> static bool feat(const N &, long long &, long) {return false;}

  // the split bounds, whatever arithmetic type they are stored in, converted to double
  template<class N> static auto low(const N & n, double & v, int)->decltype(static_cast<double>(n.sub.divlow), true)
  {v = static_cast<double>(n.sub.divlow); return true;}
  template<class N> static bool low(const N &, double &, long) {return false;}
  template<class N> static auto high(const N & n, double & v, int)->decltype(static_cast<double>(n.sub.divhigh), true)
  {v = static_cast<double>(n.sub.divhigh); return true;}
  template<class N> static bool high(const N &, double &, long) {return false;}
};

struct Session
{
  virtual ~Session() {}
  virtual std::string dump() = 0;
  virtual std::string nn(const Toks & t, size_t from) = 0;
  virtual std::string knn(size_t k, const Toks & t, size_t from) = 0;
  size_t n = 0;
  size_t cdim = 0;
};

template<class PointType>
struct SessionT : Session
{
  using Scalar = typename PointType::Scalar;
  static constexpr size_t CDIM = KdTree<PointType>::CARTESIAN_DIM;
  static constexpr size_t SIZE = KdTree<PointType>::POINT_SIZE;
  PointSet<PointType> pts;                       // must outlive the tree (the adaptor keeps a reference)
  std::unique_ptr<KdTree<PointType>> tree;

  static PointType point(const Toks & t, size_t from)
  {
    PointType p;                                 // homogeneous types: unit last coordinate by construction
    if (SIZE > CDIM) { p = PointType(); }
    for (size_t i = 0; i < CDIM; ++i) {
      Scalar v = vp::parseF<Scalar>(t[from + i]);
      if (std::isnan(v)) { throw vp::BadOp(); }
      p[i] = v;
    }
    return p;
  }

  SessionT(const Toks & t, size_t count)
  {
    n = count; cdim = CDIM;
    pts.reserve(n);
    for (size_t k = 0; k < n; ++k) { pts.push_back(point(t, 3 + k * CDIM)); }
    tree.reset(new KdTree<PointType>(pts));
  }

  using Index = typename NanoFlannAdaptor<PointType, nanoflann::metric_L2>::Index;
  using View = Peek<Index>;

  // a stored value of whatever width, printed in the protocol's format for this point type (binary32 values
  // are exact in double, so the round trip through double changes nothing on the unchanged library)
  static std::string fmtStored(double v) {return vp::fmtF(static_cast<Scalar>(v));}

  template<class N>
  static void dumpTree(const N * node, size_t depth, std::string & o)
  {
    if (node == nullptr) {o += " NULL"; return;}
    if (depth > 20000) {o += " ?depth"; return;}
    const N * c1 = nullptr; const N * c2 = nullptr;
    if (!View::children(*node, c1, c2, 0)) {o += " ?children"; return;}
    if (c1 == nullptr && c2 == nullptr) {
      unsigned long long l = 0, r = 0;
      if (View::range(*node, l, r, 0)) {o += " L " + std::to_string(l) + " " + std::to_string(r);} else {o += " L ?lr";}
      return;
    }
    long long f = 0; double lo = 0, hi = 0;
    o += " N";
    if (View::feat(*node, f, 0)) {o += " " + std::to_string(f);} else {o += " ?divfeat";}
    if (View::low(*node, lo, 0)) {o += " " + fmtStored(lo);} else {o += " ?divlow";}
    if (View::high(*node, hi, 0)) {o += " " + fmtStored(hi);} else {o += " ?divhigh";}
    dumpTree(c1, depth + 1, o);     // preorder: child1's subtree, then child2's
    dumpTree(c2, depth + 1, o);
  }
  static void dumpTree(const void *, size_t, std::string & o) {o += " ?root_node";}

  std::string dump() override
  {
    const Index & ix = *tree->kdtree_.index;
    unsigned long long m_size = 0, leaf = 0; long long dim = 0;
    std::string o = "ok";
    if (View::template size<View>(ix, m_size, 0)) {o += " " + std::to_string(m_size);} else {o += " ?m_size";}
    if (View::template dimension<View>(ix, dim, 0)) {o += " " + std::to_string(dim);} else {o += " ?dim";}
    if (View::template leafMax<View>(ix, leaf, 0)) {o += " " + std::to_string(leaf);} else {o += " ?m_leaf_max_size";}
    o += " B";
    std::vector<double> bb;
    if (View::template bbox<View>(ix, SIZE, bb, 0)) {
      for (double v : bb) {o += " " + fmtStored(v);}
    } else {
      o += " ?root_bbox";
    }
    o += " V";
    std::vector<unsigned long long> vind;
    if (View::template perm<View>(ix, vind, 0)) {
      for (unsigned long long v : vind) {o += " " + std::to_string(v);}
    } else {
      o += " ?vind";
    }
    o += " T";
    if (View::template hasRoot<View>(0)) {dumpTree(View::template root<View>(ix, 0), 0, o);} else {o += " ?root_node";}
    return o;
  }

  std::string nn(const Toks & t, size_t from) override
  {
    PointType q = point(t, from);
    size_t idx = static_cast<size_t>(-1); Scalar d = -1;
    tree->findNearestNeighbor(q, idx, d);
    return std::to_string(idx) + " " + vp::fmtF(d);
  }

  std::string knn(size_t k, const Toks & t, size_t from) override
  {
    PointType q = point(t, from);
    std::vector<size_t> idx(k, static_cast<size_t>(-1)); std::vector<Scalar> d(k, Scalar(-1));
    tree->findNearestNeighbors(q, k, idx, d);
    std::string o = std::to_string(k);
    for (size_t i = 0; i < k; ++i) { o += " " + std::to_string(idx[i]) + " " + vp::fmtF(d[i]); }
    return o;
  }
};

std::unique_ptr<Session> session;

void reset() { session.reset(); }

size_t cartesianDim(const std::string & ty)
{
  if (ty.size() != 3 || (ty[0] != 'c' && ty[0] != 'h') || (ty[1] != '2' && ty[1] != '3') || (ty[2] != 'f' && ty[2] != 'd')) {
    throw vp::BadOp();
  }
  return ty[1] == '2' ? 2 : 3;
}

std::string handle(const Toks & t)
{
  const std::string & op = t[0];
  if (op == "kd.build" && t.size() >= 3) {
    const std::string & ty = t[1];
    size_t cd = cartesianDim(ty);
    size_t n = vp::parseU(t[2]);
    if (n == 0 || t.size() != 3 + n * cd) { throw vp::BadOp(); }
    std::unique_ptr<Session> s;
    if (ty == "c2f") { s.reset(new SessionT<CartesianCoordinates2f>(t, n)); }
    else if (ty == "c2d") { s.reset(new SessionT<CartesianCoordinates2d>(t, n)); }
    else if (ty == "c3f") { s.reset(new SessionT<CartesianCoordinates3f>(t, n)); }
    else if (ty == "c3d") { s.reset(new SessionT<CartesianCoordinates3d>(t, n)); }
    else if (ty == "h2f") { s.reset(new SessionT<HomogeneousCoordinates2f>(t, n)); }
    else if (ty == "h2d") { s.reset(new SessionT<HomogeneousCoordinates2d>(t, n)); }
    else if (ty == "h3f") { s.reset(new SessionT<HomogeneousCoordinates3f>(t, n)); }
    else { s.reset(new SessionT<HomogeneousCoordinates3d>(t, n)); }
    session = std::move(s);
    return session->dump();
  }
  if (op == "kd.nn") {
    if (!session || t.size() != 1 + session->cdim) { throw vp::BadOp(); }
    return session->nn(t, 1);
  }
  if (op == "kd.knn" && t.size() >= 2) {
    size_t k = vp::parseU(t[1]);
    if (!session || t.size() != 2 + session->cdim || k == 0 || k > session->n) { throw vp::BadOp(); }
    return session->knn(k, t, 2);
  }
  throw vp::BadOp();
}

}  // namespace

int main() { return vp::run(reset, handle); }
