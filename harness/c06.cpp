// C06 harness: RANSAC / ICP control skeleton (correspondence side) and the envelope probe.
//  single-phase ops (answered by the Lean driver too):
//    rit.run p nPts maxIter nDraw k inl*k            RansacIterations: bound after the constructor and each update
//    ransac.script sigma nPts nDraw minInl n (d c)*n Ransac::estimateModel on a scripted RansacModel subclass
//    rc.load T n (src tgt dist)*n                    RansacRigidTransformationModel: loadPointSets + loadCorrespondences
//    rc.count sigma (dx dy [dz] err)*n               candidate = identity, source_i = target(t_i) - d_i; countInliers
//    icp.filter n (src tgt dist)*n                   sort/unique with the repository's predicates
//  probe / two-phase ops (the Lean driver answers `probe-only`; tools/props/c06.py feeds the observed oracle outputs to
//  the model in a second pass):
//    icp.run T tx ty theta            fresh ICP on scan2d.txt displaced by (tx,ty,theta): flag, Frobenius error
//    icp.trace T tx ty theta          the same with iteration caps 1..10: per-cap flag, consensus RMSE, transformation
//    icp.match T n src.. m tgt..      find() capped at one iteration: raw nearest-neighbour pairs and the kept ones
//    ransac.synth T sigma n (s.. t..)*n H..  RANSAC (SVD inner estimator) on an explicit correspondence set
//    rr.real T sigma rounds n (s.. t..)*n    real draw() + countInliers() rounds; recomputed errors are printed
//  sampler ops (single-phase, answered bit-exactly by the Lean driver: lean/RomeaModel/Sampler.lean):
//    smp.new T                        a fresh RansacRandomCorrespondences<T> (default-seeded engine): engine state, scale_
//    smp.scale lo*DIM hi*DIM          computeScale(min, max) on the current object: scale_ (SIZE components)
//    smp.pts n (c*DIM)*n              the source point set handed to the following draws
//    smp.corr m (src tgt weight)*m    the correspondence list handed to the following draws
//    smp.draw k                       drawPoints(pts, corr, k) on the current object: drawn indexes (recovered from a tag in the
//                                     unused squareDistanceBetweenPoints field) with their src:tgt, weights_ and cumSumWeights_
//                                     after the call, engine state after the call
//    smp.reset                        resetWeights_() (private, dead code in /repo): weights_ and cumSumWeights_
//    smp.u k                          k values of uniformDistribution_(randomGenerator_) on the current object + engine state
//  private members of RansacRandomCorrespondences are reached through explicit template instantiation (no hook in /repo).
#include <algorithm>
#include <fstream>
#include <limits>
#include <memory>
#include "proto.hpp"
#include "romea_core_common/regression/ransac/Ransac.hpp"
#include "romea_core_common/regression/ransac/RansacIterations.hpp"
#include "romea_core_common/regression/ransac/RansacRandomCorrespondences.hpp"
#include "romea_core_common/transform/estimation/FindRigidTransformationByICP.hpp"
#include "romea_core_common/transform/estimation/RansacRigidTransformationModel.hpp"

#ifndef C06_SCAN_PATH
#define C06_SCAN_PATH "/repo/test/data/scan2d.txt"
#endif

using namespace romea::core;
using vp::Toks;

// ------------------------------------------------------------------------------------------------ helpers
static std::string fmtCorr(const Correspondence & c)
{
  return std::to_string(c.sourcePointIndex) + ":" + std::to_string(c.targetPointIndex) + ":" + vp::fmtD(c.squareDistanceBetweenPoints);
}

template<class P> struct PT
{
  using Scalar = typename P::Scalar;
  static constexpr int DIM = PointTraits<P>::DIM;
  static constexpr int SIZE = PointTraits<P>::SIZE;
  static P make(const double * c)
  {
    P p = P::Zero();
    for (int i = 0; i < DIM; ++i) { p[i] = static_cast<Scalar>(c[i]); }
    if (SIZE > DIM) { p[DIM] = 1; }
    return p;
  }
};

// ------------------------------------------------------------------------------------------------ scripted RansacModel
struct ScriptedModel : RansacModel
{
  size_t nPts = 0, nDraw = 0, minInl = 0;
  std::vector<std::pair<bool, size_t>> steps;
  size_t pos = 0, pending = 0, draws = 0, counts = 0, refines = 0;
  bool draw(const double &) override
  {
    ++draws;
    if (pos >= steps.size()) { pending = 0; return false; }
    pending = steps[pos].second; return steps[pos++].first;
  }
  size_t countInliers(const double &) override { ++counts; return pending; }
  void refine() override { ++refines; }
  size_t getNumberOfPoints() const override { return nPts; }
  size_t getNumberOfPointsToDrawModel() const override { return nDraw; }
  size_t getMinimalNumberOfInliers() const override { return minInl; }
  double getRootMeanSquareError() const override { return 0; }
};

// ------------------------------------------------------------------------------------------------ consensus bookkeeping
template<class P> struct ProbeModel : RansacRigidTransformationModel<P>
{
  void setIdentity() { this->transformation_.setIdentity(); }
  const std::vector<Correspondence> & sorted() const { return this->sortedCorrespondences_; }
  const std::vector<Correspondence> & inl() const { return this->inlierCorrespondences_; }
  const std::vector<Correspondence> & best() const { return this->bestInlierCorrespondences_; }
  // the model's own sampler member (protected): observed after every real draw() by rr.real
  RansacRandomCorrespondences<P> & sampler() { return this->randomCorrespondences_; }
};

struct RcBase
{
  virtual ~RcBase() = default;
  virtual std::string load(const Toks & t) = 0;
  virtual std::string count(const Toks & t) = 0;
};

template<class P> struct Rc : RcBase
{
  using S = typename P::Scalar;
  static constexpr int DIM = PointTraits<P>::DIM;
  PointSet<P> src, tgt;
  std::vector<Correspondence> corr;
  ProbeModel<P> model;

  static P targetPoint(size_t t)
  {
    double c[3] = {4.0 * static_cast<double>(t), 2.0 * static_cast<double>(t) - 100.0, static_cast<double>(t % 7)};
    return PT<P>::make(c);
  }

  std::string load(const Toks & t) override
  {
    size_t n = vp::parseU(t[2]);
    if (t.size() != 3 + 3 * n || n == 0) { throw vp::BadOp(); }
    corr.clear(); src.clear(); tgt.clear();
    for (size_t i = 0; i < n; ++i) {
      size_t s = vp::parseU(t[3 + 3 * i]), g = vp::parseU(t[4 + 3 * i]); double d = vp::parseD(t[5 + 3 * i]);
      if (s != i || g >= n) { throw vp::BadOp(); }
      corr.emplace_back(s, g, d);
    }
    for (size_t i = 0; i < n; ++i) { tgt.push_back(targetPoint(i)); }
    for (size_t i = 0; i < n; ++i) { src.push_back(tgt[corr[i].targetPointIndex]); }
    model.loadPointSets(&src, &tgt);
    model.loadCorrespondences(&corr, n);
    model.loadTargetNormalSet(nullptr);
    std::string o = "ok";
    for (const auto & c : model.sorted()) { o += " " + std::to_string(c.sourcePointIndex); }
    return o;
  }

  std::string count(const Toks & t) override
  {
    size_t n = corr.size();
    if (n == 0 || t.size() != 2 + (DIM + 1) * n) { throw vp::BadOp(); }
    double sigma = vp::parseD(t[1]);
    for (size_t i = 0; i < n; ++i) {
      P d = P::Zero();
      for (int k = 0; k < DIM; ++k) { d[k] = static_cast<S>(vp::parseD(t[2 + (DIM + 1) * i + k])); }
      src[i] = tgt[corr[i].targetPointIndex] - d;
      double err = vp::parseD(t[2 + (DIM + 1) * i + DIM]);
      S e = (tgt[corr[i].targetPointIndex] - src[i]).array().square().sum();
      if (static_cast<double>(e) != err) { return "err-mismatch " + std::to_string(i) + " " + vp::fmtD(e); }
    }
    model.setIdentity();
    size_t ret = model.countInliers(sigma);
    std::string o = "ret " + std::to_string(ret) + " inl " + std::to_string(model.inl().size());
    for (const auto & c : model.inl()) { o += " " + fmtCorr(c); }
    o += " bestrmse " + vp::fmtD(model.getRootMeanSquareError()) + " best " + std::to_string(model.best().size());
    for (const auto & c : model.best()) { o += " " + fmtCorr(c); }
    return o;
  }
};

static std::unique_ptr<RcBase> rc;
static std::string rcType;

static RcBase * makeRc(const std::string & ty)
{
  if (ty == "c2d") { return new Rc<Eigen::Vector2d>(); }
  if (ty == "c3d") { return new Rc<Eigen::Vector3d>(); }
  if (ty == "h2d") { return new Rc<HomogeneousCoordinates2d>(); }
  if (ty == "h3d") { return new Rc<HomogeneousCoordinates3d>(); }
  if (ty == "c2f") { return new Rc<Eigen::Vector2f>(); }
  if (ty == "c3f") { return new Rc<Eigen::Vector3f>(); }
  if (ty == "h2f") { return new Rc<HomogeneousCoordinates2f>(); }
  if (ty == "h3f") { return new Rc<HomogeneousCoordinates3f>(); }
  throw vp::BadOp();
}

// ------------------------------------------------------------------------------------------------ ICP probes
template<class P> struct ProbeIcp : FindRigidTransformationByICP<P>
{
  using FindRigidTransformationByICP<P>::FindRigidTransformationByICP;
  const std::vector<Correspondence> & corr() const { return this->correspondences_; }
  size_t matched() const { return this->matchedSourcePoints_.size(); }
  double rmse() const { return this->ransacModel_.getRootMeanSquareError(); }
};

static const std::vector<std::array<double, 2>> & scan()
{
  static std::vector<std::array<double, 2>> pts;
  if (pts.empty()) {
    std::ifstream f(C06_SCAN_PATH);
    double x, y;
    while (f >> x >> y) { pts.push_back({x, y}); }
  }
  return pts;
}

template<class P> static void displaced(double tx, double ty, double th, PointSet<P> & src, PointSet<P> & tgt, Eigen::Matrix3d & H)
{
  const auto & sc = scan();
  if (sc.size() < 100) { throw std::runtime_error("scan2d.txt not readable"); }
  double c = std::cos(th), s = std::sin(th);
  H << c, -s, tx, s, c, ty, 0, 0, 1;
  src.clear(); tgt.clear();
  for (const auto & p : sc) {
    double a[2] = {p[0], p[1]};
    double b[2] = {c * p[0] - s * p[1] + tx, s * p[0] + c * p[1] + ty};
    src.push_back(PT<P>::make(a)); tgt.push_back(PT<P>::make(b));
  }
}

template<class P> static std::string icpRun(const Toks & t)
{
  double tx = vp::parseD(t[2]), ty = vp::parseD(t[3]), th = vp::parseD(t[4]);
  PointSet<P> src, tgt; Eigen::Matrix3d H;
  displaced<P>(tx, ty, th, src, tgt, H);
  FindRigidTransformationByICP<P> icp(0.2);                      // sigma as in test/transform/test_transform.cpp
  bool found = icp.find(src, tgt, Eigen::Matrix<typename P::Scalar, 3, 3>::Identity());
  double err = (icp.getTransformation().template cast<double>() - H).norm();
  return std::string("found ") + (found ? "1" : "0") + " err " + vp::fmtD(err);
}

template<class P> static std::string icpTrace(const Toks & t)
{
  double tx = vp::parseD(t[2]), ty = vp::parseD(t[3]), th = vp::parseD(t[4]);
  PointSet<P> src, tgt; Eigen::Matrix3d H;
  displaced<P>(tx, ty, th, src, tgt, H);
  std::string o = "trace 10";
  for (size_t cap = 1; cap <= 10; ++cap) {
    ProbeIcp<P> icp(0.2);
    icp.setMaximalNumberOfIterations(cap);
    bool found = icp.find(src, tgt, Eigen::Matrix<typename P::Scalar, 3, 3>::Identity());
    double r = icp.rmse();
    o += std::string(" ") + (found ? "1" : "0") + " " + (r != std::numeric_limits<double>::max() ? "1" : "0") + " " + vp::fmtD(r);
    auto T = icp.getTransformation();
    for (int i = 0; i < 3; ++i) { for (int j = 0; j < 3; ++j) { o += " " + vp::fmtD(static_cast<double>(T(i, j))); } }
  }
  return o;
}

template<class P> static std::string icpMatch(const Toks & t)
{
  constexpr int DIM = PointTraits<P>::DIM;
  size_t i = 2;
  auto readSet = [&](PointSet<P> & set) {
      if (i >= t.size()) { throw vp::BadOp(); }
      size_t n = vp::parseU(t[i++]);
      if (i + DIM * n > t.size()) { throw vp::BadOp(); }
      for (size_t k = 0; k < n; ++k) {
        double c[3] = {0, 0, 0};
        for (int d = 0; d < DIM; ++d) { c[d] = vp::parseD(t[i++]); }
        set.push_back(PT<P>::make(c));
      }
    };
  PointSet<P> src, tgt;
  readSet(src); readSet(tgt);
  if (i != t.size() || src.size() < 12 || tgt.size() < 12) { throw vp::BadOp(); }
  // raw pairs, as lines 128-138 of FindRigidTransformationByICP.cpp obtain them at the first iteration
  // (identity guess: the projected target points are the target points)
  KdTree<P> tree(src);
  std::string o = "raw " + std::to_string(tgt.size());
  for (size_t j = 0; j < tgt.size(); ++j) {
    size_t s; typename P::Scalar d;
    tree.findNearestNeighbor(tgt[j], s, d);
    o += " " + fmtCorr(Correspondence(s, j, d));
  }
  ProbeIcp<P> icp(0.2);
  icp.setMaximalNumberOfIterations(1);
  icp.find(src, tgt, Eigen::Matrix<typename P::Scalar, DIM + 1, DIM + 1>::Identity());
  o += " kept " + std::to_string(icp.matched());
  for (size_t k = 0; k < icp.matched(); ++k) { o += " " + fmtCorr(icp.corr()[k]); }
  return o;
}

// ------------------------------------------------------------------------------------------------ RANSAC probes
template<class P> static size_t readPairs(const Toks & t, size_t i, size_t n, PointSet<P> & src, PointSet<P> & tgt)
{
  constexpr int DIM = PointTraits<P>::DIM;
  if (i + 2 * DIM * n > t.size()) { throw vp::BadOp(); }
  for (size_t k = 0; k < n; ++k) {
    double a[3] = {0, 0, 0}, b[3] = {0, 0, 0};
    for (int d = 0; d < DIM; ++d) { a[d] = vp::parseD(t[i++]); }
    for (int d = 0; d < DIM; ++d) { b[d] = vp::parseD(t[i++]); }
    src.push_back(PT<P>::make(a)); tgt.push_back(PT<P>::make(b));
  }
  return i;
}

template<class P> static std::string ransacSynth(const Toks & t)
{
  constexpr int DIM = PointTraits<P>::DIM;
  double sigma = vp::parseD(t[2]);
  size_t n = vp::parseU(t[3]);
  PointSet<P> src, tgt;
  size_t i = readPairs<P>(t, 4, n, src, tgt);
  if (t.size() != i + (DIM + 1) * (DIM + 1) || n < 10) { throw vp::BadOp(); }
  Eigen::Matrix<double, DIM + 1, DIM + 1> H;
  for (int r = 0; r <= DIM; ++r) { for (int c = 0; c <= DIM; ++c) { H(r, c) = vp::parseD(t[i++]); } }
  std::vector<Correspondence> corr;
  for (size_t k = 0; k < n; ++k) { corr.emplace_back(k, k); }
  RansacRigidTransformationModel<P> model;                       // freshly constructed
  model.loadPointSets(&src, &tgt);
  model.loadCorrespondences(&corr, n);
  model.loadTargetNormalSet(nullptr);                            // closed-form (SVD) inner estimator
  Ransac ransac(&model, sigma);
  bool ok = ransac.estimateModel();
  double err = (model.getTransformation().template cast<double>() - H).norm();
  return std::string("ret ") + (ok ? "1" : "0") + " err " + vp::fmtD(err) + " rmse " + vp::fmtD(model.getRootMeanSquareError());
}

// private members of the sampler, read through the access tags defined in the sampler section below
template<class P> static std::string dumpSamplerScale(RansacRandomCorrespondences<P> & o);
template<class P> static std::string dumpSamplerState(RansacRandomCorrespondences<P> & o);

template<class P> static std::string rrReal(const Toks & t)
{
  using S = typename P::Scalar;
  double sigma = vp::parseD(t[2]);
  size_t rounds = vp::parseU(t[3]), n = vp::parseU(t[4]);
  PointSet<P> src, tgt;
  size_t i = readPairs<P>(t, 5, n, src, tgt);
  if (i != t.size() || n < 10) { throw vp::BadOp(); }
  std::vector<Correspondence> corr;
  for (size_t k = 0; k < n; ++k) { corr.emplace_back(k, k); }
  ProbeModel<P> model;
  model.loadPointSets(&src, &tgt);
  model.loadCorrespondences(&corr, n);
  model.loadTargetNormalSet(nullptr);
  std::string o = "rounds " + std::to_string(rounds);
  // what the model's OWN sampler member holds behind loadPointSets (scale_) and behind every real draw(): weights_,
  // cumSumWeights_, engine state -- appended after the rounds, tied to the Lean sampler by the second pass
  std::string smpTrail = " sampler scale" + dumpSamplerScale<P>(model.sampler());
  for (size_t r = 0; r < rounds; ++r) {
    bool ok = model.draw(sigma);
    smpTrail += " smpdraw" + dumpSamplerState<P>(model.sampler());
    size_t ret = model.countInliers(sigma);
    o += std::string(" draw ") + (ok ? "1" : "0") + " errs";
    // errors of the sorted correspondences under the drawn candidate, recomputed from getTransformation()
    // with the repository's own projection()
    for (const auto & c : model.sorted()) {
      P proj; projection(model.getTransformation(), src[c.sourcePointIndex], proj);
      S e = (tgt[c.targetPointIndex] - proj).array().square().sum();
      o += " " + vp::fmtD(static_cast<double>(e));
    }
    o += " ret " + std::to_string(ret) + " inl " + std::to_string(model.inl().size());
    for (const auto & c : model.inl()) { o += " " + fmtCorr(c); }
    o += " bestrmse " + vp::fmtD(model.getRootMeanSquareError()) + " best " + std::to_string(model.best().size());
    for (const auto & c : model.best()) { o += " " + fmtCorr(c); }
  }
  return o + smpTrail;
}

#define DISPATCH2(fn, ty, t) \
  ((ty) == "c2d" ? fn<Eigen::Vector2d>(t) : (ty) == "h2d" ? fn<HomogeneousCoordinates2d>(t) : throw vp::BadOp())
#define DISPATCH4(fn, ty, t) \
  ((ty) == "c2d" ? fn<Eigen::Vector2d>(t) : (ty) == "h2d" ? fn<HomogeneousCoordinates2d>(t) : \
   (ty) == "c3d" ? fn<Eigen::Vector3d>(t) : (ty) == "h3d" ? fn<HomogeneousCoordinates3d>(t) : throw vp::BadOp())

// ------------------------------------------------------------------------------------------------ sampler
// Access to private members without touching /repo: the arguments of an explicit template instantiation may name private
// members ([temp.spec]); the instantiation defines a friend that hands the member pointer out.
template<class Tag, auto M> struct Rob { friend auto get(Tag) { return M; } };
// the member types are deduced (`auto`): a change of a member's declared type does not break the harness
template<class P> struct TagWeights { friend auto get(TagWeights); };
template<class P> struct TagCum { friend auto get(TagCum); };
template<class P> struct TagEngine { friend auto get(TagEngine); };
template<class P> struct TagDist { friend auto get(TagDist); };
template<class P> struct TagScale { friend auto get(TagScale); };
template<class P> struct TagReset { friend auto get(TagReset); };
#define ROB_SAMPLER(P) \
  template struct Rob<TagWeights<P>, &RansacRandomCorrespondences<P>::weights_>; \
  template struct Rob<TagCum<P>, &RansacRandomCorrespondences<P>::cumSumWeights_>; \
  template struct Rob<TagEngine<P>, &RansacRandomCorrespondences<P>::randomGenerator_>; \
  template struct Rob<TagDist<P>, &RansacRandomCorrespondences<P>::uniformDistribution_>; \
  template struct Rob<TagScale<P>, &RansacRandomCorrespondences<P>::scale_>; \
  template struct Rob<TagReset<P>, &RansacRandomCorrespondences<P>::resetWeights_>;
ROB_SAMPLER(Eigen::Vector2f) ROB_SAMPLER(Eigen::Vector2d) ROB_SAMPLER(Eigen::Vector3f) ROB_SAMPLER(Eigen::Vector3d)
ROB_SAMPLER(HomogeneousCoordinates2f) ROB_SAMPLER(HomogeneousCoordinates2d)
ROB_SAMPLER(HomogeneousCoordinates3f) ROB_SAMPLER(HomogeneousCoordinates3d)

template<class P> static std::string dumpSamplerScale(RansacRandomCorrespondences<P> & o)
{
  const auto & s = o.*get(TagScale<P>());
  std::string r;
  for (int i = 0; i < PointTraits<P>::SIZE; ++i) { r += " " + vp::fmtD(static_cast<double>(s[i])); }
  return r;
}

template<class P> static std::string dumpSamplerState(RansacRandomCorrespondences<P> & o)
{
  const auto & w = o.*get(TagWeights<P>());
  const auto & c = o.*get(TagCum<P>());
  std::string r = " w " + std::to_string(w.size());
  for (auto x : w) { r += " " + vp::fmtD(static_cast<double>(x)); }
  r += " c " + std::to_string(c.size());
  for (auto x : c) { r += " " + vp::fmtD(static_cast<double>(x)); }
  std::ostringstream os; os << o.*get(TagEngine<P>());
  return r + " eng " + os.str();
}

struct SmpBase
{
  virtual ~SmpBase() = default;
  virtual std::string fresh() = 0;
  virtual std::string scale(const Toks & t) = 0;
  virtual std::string pts(const Toks & t) = 0;
  virtual std::string corr(const Toks & t) = 0;
  virtual std::string draw(const Toks & t) = 0;
  virtual std::string resetW() = 0;
  virtual std::string uni(const Toks & t) = 0;
};

template<class P> struct Smp : SmpBase
{
  using S = typename P::Scalar;
  using R = RansacRandomCorrespondences<P>;
  static constexpr int DIM = PointTraits<P>::DIM;
  static constexpr int SIZE = PointTraits<P>::SIZE;
  std::unique_ptr<R> obj;
  PointSet<P> points;
  std::vector<Correspondence> corrs;

  std::string engine() const
  {
    std::ostringstream os; os << (*obj).*get(TagEngine<P>());        // libstdc++ prints the LCG state in decimal
    return os.str();
  }
  std::string scaleStr() const
  {
    const auto & s = (*obj).*get(TagScale<P>());
    std::string o;
    for (int i = 0; i < SIZE; ++i) { o += " " + vp::fmtD(static_cast<double>(s[i])); }
    return o;
  }
  std::string weightsStr() const
  {
    const auto & w = (*obj).*get(TagWeights<P>());
    const auto & c = (*obj).*get(TagCum<P>());
    std::string o = " w " + std::to_string(w.size());
    for (auto x : w) { o += " " + vp::fmtD(static_cast<double>(x)); }
    o += " c " + std::to_string(c.size());
    for (auto x : c) { o += " " + vp::fmtD(static_cast<double>(x)); }
    return o;
  }
  std::string fresh() override
  {
    obj.reset(new R());
    return "ok eng " + engine() + " scale" + scaleStr();
  }
  std::string scale(const Toks & t) override
  {
    if (!obj || t.size() != 1 + 2 * static_cast<size_t>(DIM)) { throw vp::BadOp(); }
    double lo[3] = {0, 0, 0}, hi[3] = {0, 0, 0};
    for (int i = 0; i < DIM; ++i) { lo[i] = vp::parseD(t[1 + i]); hi[i] = vp::parseD(t[1 + DIM + i]); }
    obj->computeScale(PT<P>::make(lo), PT<P>::make(hi));
    return "scale" + scaleStr();
  }
  std::string pts(const Toks & t) override
  {
    if (t.size() < 2) { throw vp::BadOp(); }
    size_t n = vp::parseU(t[1]);
    if (t.size() != 2 + DIM * n) { throw vp::BadOp(); }
    points.clear();
    for (size_t k = 0; k < n; ++k) {
      double c[3] = {0, 0, 0};
      for (int d = 0; d < DIM; ++d) { c[d] = vp::parseD(t[2 + DIM * k + d]); }
      points.push_back(PT<P>::make(c));
    }
    return "ok " + std::to_string(n);
  }
  std::string corr(const Toks & t) override
  {
    if (t.size() < 2) { throw vp::BadOp(); }
    size_t m = vp::parseU(t[1]);
    if (t.size() != 2 + 3 * m) { throw vp::BadOp(); }
    std::vector<Correspondence> c;
    for (size_t k = 0; k < m; ++k) {
      size_t s = vp::parseU(t[2 + 3 * k]), g = vp::parseU(t[3 + 3 * k]);
      double w = vp::parseD(t[4 + 3 * k]);
      if (s >= points.size()) { throw vp::BadOp(); }             // the sampler indexes the point set unchecked
      c.emplace_back(s, g, static_cast<double>(k), w);             // tag: position in the list (the sampler never reads it)
    }
    corrs.swap(c);
    return "ok " + std::to_string(m);
  }
  std::string draw(const Toks & t) override
  {
    if (!obj || t.size() != 2) { throw vp::BadOp(); }
    size_t k = vp::parseU(t[1]);
    if (corrs.size() <= k) { throw vp::BadOp(); }                  // the asserted precondition of drawPoints
    std::vector<Correspondence> d = obj->drawPoints(points, corrs, k);
    std::string o = "idx " + std::to_string(d.size());
    for (const auto & c : d) {
      o += " " + std::to_string(static_cast<size_t>(c.squareDistanceBetweenPoints)) + ":" + std::to_string(c.sourcePointIndex) + ":" +
        std::to_string(c.targetPointIndex);
    }
    return o + weightsStr() + " eng " + engine();
  }
  std::string resetW() override
  {
    if (!obj) { throw vp::BadOp(); }
    ((*obj).*get(TagReset<P>()))();
    return "reset" + weightsStr();
  }
  std::string uni(const Toks & t) override
  {
    if (!obj || t.size() != 2) { throw vp::BadOp(); }
    size_t k = vp::parseU(t[1]);
    if (k > 10000) { throw vp::BadOp(); }
    std::string o = "u " + std::to_string(k);
    auto & e = (*obj).*get(TagEngine<P>());
    auto & u = (*obj).*get(TagDist<P>());
    for (size_t i = 0; i < k; ++i) { o += " " + vp::fmtD(u(e)); }
    return o + " eng " + engine();
  }
};

static std::unique_ptr<SmpBase> smp;

static SmpBase * makeSmp(const std::string & ty)
{
  if (ty == "c2d") { return new Smp<Eigen::Vector2d>(); }
  if (ty == "c3d") { return new Smp<Eigen::Vector3d>(); }
  if (ty == "h2d") { return new Smp<HomogeneousCoordinates2d>(); }
  if (ty == "h3d") { return new Smp<HomogeneousCoordinates3d>(); }
  if (ty == "c2f") { return new Smp<Eigen::Vector2f>(); }
  if (ty == "c3f") { return new Smp<Eigen::Vector3f>(); }
  if (ty == "h2f") { return new Smp<HomogeneousCoordinates2f>(); }
  if (ty == "h3f") { return new Smp<HomogeneousCoordinates3f>(); }
  throw vp::BadOp();
}

// ------------------------------------------------------------------------------------------------ protocol
static void reset() { rc.reset(); rcType.clear(); smp.reset(); }

static std::string handle(const Toks & t)
{
  const std::string & op = t[0];
  if (op == "rit.run" && t.size() >= 6) {
    float p = vp::parseS(t[1]);
    size_t nPts = vp::parseU(t[2]), maxIter = vp::parseU(t[3]), nDraw = vp::parseU(t[4]), k = vp::parseU(t[5]);
    if (t.size() != 6 + k) { throw vp::BadOp(); }
    RansacIterations it(nPts, p, maxIter);
    std::string o = "ok " + vp::fmtD(it.get());
    for (size_t i = 0; i < k; ++i) { it.update(vp::parseU(t[6 + i]), nDraw); o += " " + vp::fmtD(it.get()); }
    return o;
  }
  if (op == "ransac.script" && t.size() >= 6) {
    double sigma = vp::parseD(t[1]);
    ScriptedModel m;
    m.nPts = vp::parseU(t[2]); m.nDraw = vp::parseU(t[3]); m.minInl = vp::parseU(t[4]);
    size_t n = vp::parseU(t[5]);
    if (t.size() != 6 + 2 * n) { throw vp::BadOp(); }
    for (size_t i = 0; i < n; ++i) {
      const std::string & d = t[6 + 2 * i];
      if (d != "0" && d != "1") { throw vp::BadOp(); }
      m.steps.emplace_back(d == "1", vp::parseU(t[7 + 2 * i]));
    }
    Ransac ransac(&m, sigma);
    bool r = ransac.estimateModel();
    // iterations == number of draw calls (one per loop pass); best is not observable from outside: the model's value is
    // cross-checked through `ret` and the refine count
    return std::string("ret ") + (r ? "1" : "0") + " draws " + std::to_string(m.draws) + " counts " + std::to_string(m.counts) +
           " refines " + std::to_string(m.refines);
  }
  if (op == "rc.load" && t.size() >= 3) {
    // a second load of the same point type within a case goes to the SAME model object (as the ICP loop does):
    // loadCorrespondences must forget the previous consensus
    if (!rc || rcType != t[1]) { rc.reset(makeRc(t[1])); rcType = t[1]; }
    return rc->load(t);
  }
  if (op == "rc.count" && t.size() >= 2) { if (!rc) { throw vp::BadOp(); } return rc->count(t); }
  if (op == "icp.filter" && t.size() >= 2) {
    size_t n = vp::parseU(t[1]);
    if (t.size() != 2 + 3 * n) { throw vp::BadOp(); }
    std::vector<Correspondence> c;
    for (size_t i = 0; i < n; ++i) { c.emplace_back(vp::parseU(t[2 + 3 * i]), vp::parseU(t[3 + 3 * i]), vp::parseD(t[4 + 3 * i])); }
    // FindRigidTransformationByICP.cpp:140-150
    std::sort(std::begin(c), std::end(c), sortBySourceIndexAndDistancePredicate);
    auto itEnd = std::unique(std::begin(c), std::end(c), equalSourceIndexesPredicate);
    size_t k = static_cast<size_t>(std::distance(std::begin(c), itEnd));
    std::string o = "kept " + std::to_string(k);
    for (size_t i = 0; i < k; ++i) { o += " " + fmtCorr(c[i]); }
    return o;
  }
  if (op == "smp.new" && t.size() == 2) {
    // the point set and the correspondence list of the case survive a new object of the same type (fresh-object replays)
    static std::string smpType;
    if (!smp || smpType != t[1]) { smp.reset(makeSmp(t[1])); smpType = t[1]; }
    return smp->fresh();
  }
  if (op.rfind("smp.", 0) == 0) {
    if (!smp) { throw vp::BadOp(); }
    if (op == "smp.scale") { return smp->scale(t); }
    if (op == "smp.pts") { return smp->pts(t); }
    if (op == "smp.corr") { return smp->corr(t); }
    if (op == "smp.draw") { return smp->draw(t); }
    if (op == "smp.reset" && t.size() == 1) { return smp->resetW(); }
    if (op == "smp.u") { return smp->uni(t); }
    throw vp::BadOp();
  }
  if (op == "c06.constants" && t.size() == 1) { return "constants"; }
  if (op == "icp.loop") { return "model-only"; }
  if (op == "icp.run" && t.size() == 5) { return DISPATCH2(icpRun, t[1], t); }
  if (op == "icp.trace" && t.size() == 5) { return DISPATCH2(icpTrace, t[1], t); }
  if (op == "icp.match" && t.size() >= 4) { return DISPATCH4(icpMatch, t[1], t); }
  if (op == "ransac.synth" && t.size() >= 5) { return DISPATCH4(ransacSynth, t[1], t); }
  if (op == "rr.real" && t.size() >= 6) { return DISPATCH4(rrReal, t[1], t); }
  throw vp::BadOp();
}

int main() { return vp::run(reset, handle); }
