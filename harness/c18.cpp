// C18 harness: drives the real check-up classes, status algebra and report concatenation.
#include <list>
#include <map>
#include <memory>
#include "proto.hpp"
#include "romea_core_common/diagnostic/CheckupEqualTo.hpp"
#include "romea_core_common/diagnostic/CheckupGreaterThan.hpp"
#include "romea_core_common/diagnostic/CheckupLowerThan.hpp"
#include "romea_core_common/diagnostic/CheckupReliability.hpp"

// Ambient state the library must not depend on: format flags left behind on a stream by an EARLIER print in the same thread. The
// library's toStringInfoValue<T>() is called with this type before every op; with a fresh std::ostringstream per call (the
// unchanged code) that is invisible, with a stream object reused across calls (seeded change c18d: a thread_local ostringstream
// whose str("") / clear() reset does not restore the flags) every later value is printed with these flags.
#include <iomanip>
#include "romea_core_common/diagnostic/DiagnosticReport.hpp"
struct AmbientStreamState {};
inline std::ostream & operator<<(std::ostream & os, const AmbientStreamState &)
{
  return os << std::setprecision(3) << std::fixed << std::showpos << 1.5;
}
static void perturbAmbientStreamState() { (void)romea::core::toStringInfoValue(AmbientStreamState{}); }


using namespace romea::core;
using vp::Toks;

// Two independent objects with DIFFERENT names live side by side (ops prefixed `sib.` drive the second one): check-ups share
// nothing, so whatever one object does must not show in the other's report (seeded change c18c: the "<name> timeout." text built
// once into a function-local static, i.e. shared by every check-up of the process).
struct Slot
{
  std::string name_;
  std::unique_ptr<Checkup<double>> chk_;
  std::unique_ptr<CheckupReliability> rel_;
  bool haveLast_ = false;
  double last_ = 0;
};
static Slot slots[2];
static Slot * cur = &slots[0];
#define NAME (cur->name_)
#define chk (cur->chk_)
#define rel (cur->rel_)
#define haveLast (cur->haveLast_)
#define last (cur->last_)

static std::string st(DiagnosticStatus s) { return std::to_string(static_cast<int>(s)); }

static std::string msgClass(const std::string & m)
{
  if (m.empty()) { return "initial"; }
  if (m.compare(0, NAME.size(), NAME) != 0) { return "badname"; }
  std::string e = m.substr(NAME.size());
  if (e == " is too low.") { return "too_low"; }
  if (e == " is too high.") { return "too_high"; }
  if (e == " is OK.") { return "is_ok"; }
  if (e == " is uncertain.") { return "uncertain"; }
  if (e == " is high.") { return "high"; }
  if (e == " timeout.") { return "timeout"; }
  return "other:" + e;
}

static std::string describe(const DiagnosticReport & r)
{
  if (r.diagnostics.size() != 1 || r.info.size() != 1 || r.info.begin()->first != NAME) { return "malformed-report"; }
  const std::string & v = r.info.begin()->second;
  std::string info = "other";
  if (v.empty()) { info = "empty"; } else if (haveLast) {
    std::ostringstream os; os << last; if (os.str() == v) { info = "val"; }
  }
  return "st " + st(r.diagnostics.front().status) + " msg " + msgClass(r.diagnostics.front().message) + " info " + info;
}

static DiagnosticStatus parseStatus(const std::string & s)
{
  auto v = vp::parseU(s); if (v > 3) { throw vp::BadOp(); } return static_cast<DiagnosticStatus>(v);
}

static DiagnosticReport parseReport(const Toks & t, size_t & i)
{
  DiagnosticReport r;
  if (i + 1 >= t.size() || t[i] != "D") { throw vp::BadOp(); }
  size_t n = vp::parseU(t[i + 1]); i += 2;
  for (size_t k = 0; k < n; ++k, ++i) {
    if (i >= t.size()) { throw vp::BadOp(); }
    auto c = t[i].find(':'); if (c == std::string::npos) { throw vp::BadOp(); }
    r.diagnostics.push_back(Diagnostic(parseStatus(t[i].substr(0, c)), "m" + std::to_string(vp::parseU(t[i].substr(c + 1)))));
  }
  if (i + 1 >= t.size() || t[i] != "I") { throw vp::BadOp(); }
  size_t m = vp::parseU(t[i + 1]); i += 2;
  for (size_t k = 0; k < m; ++k, ++i) {
    if (i >= t.size()) { throw vp::BadOp(); }
    auto c = t[i].find(':'); if (c == std::string::npos) { throw vp::BadOp(); }
    // zero-padded keys so that std::map's string order is the numeric order
    char key[32]; std::snprintf(key, sizeof key, "k%010llu", static_cast<unsigned long long>(vp::parseU(t[i].substr(0, c))));
    r.info.insert({key, "v" + std::to_string(vp::parseU(t[i].substr(c + 1)))});
  }
  return r;
}

static std::string fmtReport(const DiagnosticReport & r)
{
  std::string o = "D " + std::to_string(r.diagnostics.size());
  for (const auto & d : r.diagnostics) { o += " " + st(d.status) + ":" + d.message.substr(1); }
  o += " I " + std::to_string(r.info.size());
  for (const auto & [k, v] : r.info) { o += " " + std::to_string(std::stoull(k.substr(1))) + ":" + v.substr(1); }
  return o;
}

static void reset()
{
  slots[0].name_ = "qty"; slots[1].name_ = "aux_quantity";
  for (Slot & s : slots) { s.chk_.reset(); s.rel_.reset(); s.haveLast_ = false; }
  cur = &slots[0];
}

static std::string handleSlot(const Toks & t);
static std::string handle(const Toks & t0)
{
  perturbAmbientStreamState();
  if (t0[0].compare(0, 4, "sib.") == 0) {
    Toks t = t0; t[0] = t[0].substr(4);
    if (t[0].compare(0, 4, "chk.") != 0) { throw vp::BadOp(); }
    cur = &slots[1];
    try { std::string r = handleSlot(t); cur = &slots[0]; return r; } catch (...) { cur = &slots[0]; throw; }
  }
  cur = &slots[0];
  return handleSlot(t0);
}

static std::string handleSlot(const Toks & t)
{
  const std::string & op = t[0];
  if (op == "chk.new" && t.size() == 4) {
    double a = vp::parseD(t[2]), e = vp::parseD(t[3]);
    rel.reset(); haveLast = false;
    if (t[1] == "eq") { chk.reset(new CheckupEqualTo<double>(NAME, a, e)); }
    else if (t[1] == "gt") { chk.reset(new CheckupGreaterThan<double>(NAME, a, e)); }
    else if (t[1] == "lt") { chk.reset(new CheckupLowerThan<double>(NAME, a, e)); }
    else { throw vp::BadOp(); }
    return "ok";
  }
  if (op == "chk.newrel" && t.size() == 3) {
    double lo = vp::parseD(t[1]), hi = vp::parseD(t[2]);
    chk.reset(); haveLast = false; rel.reset(new CheckupReliability(NAME, lo, hi)); return "ok";
  }
  if (op == "chk.eval" && t.size() == 2) {
    double v = vp::parseD(t[1]);
    if (!chk && !rel) { throw vp::BadOp(); }
    DiagnosticStatus r = chk ? chk->evaluate(v) : rel->evaluate(v);
    last = v; haveLast = true;
    return "ret " + st(r) + " " + describe(chk ? chk->getReport() : rel->getReport());
  }
  if (op == "chk.timeout" && t.size() == 1) { if (!chk) { throw vp::BadOp(); } chk->timeout(); return "ok"; }
  if (op == "chk.report" && t.size() == 1) {
    if (!chk && !rel) { throw vp::BadOp(); }
    return describe(chk ? chk->getReport() : rel->getReport());
  }
  if (op == "st.worse" && t.size() == 3) { return st(worse(parseStatus(t[1]), parseStatus(t[2]))); }
  if ((op == "st.worst" || op == "st.allok") && t.size() >= 2) {
    std::list<Diagnostic> l;
    for (size_t i = 1; i < t.size(); ++i) { l.push_back(Diagnostic(parseStatus(t[i]), "")); }
    return op == "st.worst" ? st(worseStatus(l)) : std::string(allOK(l) ? "1" : "0");
  }
  if (op == "rep.append") {
    size_t i = 1; DiagnosticReport r1 = parseReport(t, i); DiagnosticReport r2 = parseReport(t, i);
    if (i != t.size()) { throw vp::BadOp(); }
    r1 += r2; return fmtReport(r1);
  }
  throw vp::BadOp();
}

int main() { return vp::run(reset, handle); }
