import re, sys
sys.path.insert(0, '/tmp/b1s/gen')
src = open('/tmp/vb_b1/lean/RomeaModel/Generated/SrcC11.lean').read()
def sig(name):
    m = re.search(r'/-- `[^\n]*\n    result: ([^\n]*?) -/\ndef %s \{[^\n]*?\}(?: \[[^\]]*\])*((?: \([^)]*\))*) :' % re.escape(name), src)
    outs = [o.strip().rstrip("'") for o in m.group(1).split(',')]
    params = re.findall(r'\((\w+) : α\)', m.group(2))
    return params, outs
def proj(i, n):
    s = ''
    for _ in range(i):
        s += '.2'
    if i < n - 1:
        s += '.1'
    return s
def wrap(s, ind):
    words, lines, cur = s.split(' '), [], ''
    for w in words:
        if len(cur) + len(w) + 1 > 118:
            lines.append(cur); cur = w
        else:
            cur = (cur + ' ' + w) if cur else w
    lines.append(cur)
    return ('\n' + ' ' * ind).join(lines)

p3, o3 = sig('toSe3Covariance')      # params se2Covariance_i_j, outs ret_i_j (36)
p2, o2 = sig('toSe2Covariance')      # params se3Covariance_i_j (9)
se3_call = 'Src.C11.toSe3Covariance ' + ' '.join('(C %s %s)' % tuple(x.split('_')[1:]) for x in p3)
pos = {o: k for k, o in enumerate(o3)}
args2 = ' '.join('(%s)%s' % (se3_call, proj(pos['ret_' + '_'.join(x.split('_')[1:])], len(o3))) for x in p2)
pp, po = sig('toPose2D_ret')
pose_args = ' '.join('(p.%s %s)' % (x.split('_')[1], ' '.join(x.split('_')[2:])) for x in pp)
sel = {'0': '0', '1': '1', '2': '5'}
def pose_out(o):
    parts = o.split('_')
    if parts[1] == 'covariance':
        return 'p.covariance %s %s' % (sel[parts[2]], sel[parts[3]])
    if parts[1] == 'position':
        return 'p.position %s' % parts[2]
    return 'p.orientation 2'
tp, to = sig('toTwist2D_ret')
twist_args = ' '.join('(t.%s %s)' % (x.split('_')[1], ' '.join(x.split('_')[2:])) for x in tp)
def twist_out(o):
    parts = o.split('_')
    if parts[1] == 'covariance':
        return 't.covariance %s %s' % (sel[parts[2]], sel[parts[3]])
    if parts[1] == 'linearSpeeds':
        return 't.linearSpeeds %s' % parts[2]
    return 't.angularSpeeds 2'
se2_call = 'Src.C11.toSe2Covariance ' + ' '.join('(C %s %s)' % tuple(x.split('_')[1:]) for x in p2)
txt = '''import RomeaProofs.Bridge.C11
import RomeaProofs.Properties.C11

/-!
# Bridge C11, part 2: headline theorems of `Properties/C11.lean` restated about the functions translated from today's source
(`Romea.Src.C11.*`, regenerated from `/repo` on every run), at the scalar type ℝ.
-/
set_option maxRecDepth 4000

namespace Romea.Bridge.C11
open Romea Romea.Pose Romea.C11

/-- `C11.se2_of_se3_of_se2` about the translated code: the translated `toSe2Covariance`, fed with the nine entries it reads of the
    thirty-six the translated `toSe3Covariance` returns, gives back the planar covariance -/
theorem src_se2_of_se3_of_se2 (C : Mat 3 3 ℝ) :
    Src.C11.toSe2Covariance
        %(args2)s
      = (C 0 0, C 0 1, C 0 2, C 1 0, C 1 1, C 1 2, C 2 0, C 2 1, C 2 2) := by
  rw [toSe3Covariance_bridge C]
  have h := toSe2Covariance_bridge (toSe3Covariance C)
  rw [se2_of_se3_of_se2 C] at h
  exact h

/-- `C11.psd_preserved_se2` about the translated `toSe2Covariance`: the nine numbers it returns for a symmetric positive
    semi-definite 6×6 covariance are the entries of a symmetric positive semi-definite 3×3 matrix -/
theorem src_psd_preserved_se2 (C : Mat 6 6 ℝ) (h : IsPSD C) :
    ∃ M : Mat 3 3 ℝ, IsPSD M ∧
      %(se2_call)s
        = (M 0 0, M 0 1, M 0 2, M 1 0, M 1 1, M 1 2, M 2 0, M 2 1, M 2 2) :=
  ⟨toSe2Covariance C, psd_preserved_se2 C h, toSe2Covariance_bridge C⟩

/-- `C11.pose_reduction` about the translated `Pose2D toPose2D(const Pose3D &)`: x, y, yaw and the covariance entries `(sel i, sel j)`,
    `sel = (0, 1, 5)` — and nothing else -/
theorem src_pose_reduction (p : Pose3D ℝ) :
    Src.C11.toPose2D_ret %(pose_args)s
      = (%(pose_outs)s) := by
  rw [toPose2D_ret_bridge p]
  obtain ⟨h0, h1, h2, hc⟩ := pose_reduction p
  simp only [h0, h1, h2, hc]
  rfl

/-- `C11.twist_reduction` about the translated `Twist2D toTwist2D(const Twist3D &)` -/
theorem src_twist_reduction (t : Twist3D ℝ) :
    Src.C11.toTwist2D_ret %(twist_args)s
      = (%(twist_outs)s) := by
  rw [toTwist2D_ret_bridge t]
  obtain ⟨h0, h1, h2, hc⟩ := twist_reduction t
  simp only [h0, h1, h2, hc]
  rfl

end Romea.Bridge.C11
''' % dict(args2=wrap(args2, 8), se2_call=wrap(se2_call, 8), pose_args=wrap(pose_args, 8), pose_outs=wrap(', '.join(pose_out(o) for o in po), 9),
           twist_args=wrap(twist_args, 8), twist_outs=wrap(', '.join(twist_out(o) for o in to), 9))
open('/tmp/vb_b1/lean/RomeaProofs/Bridge/C11Cor.lean', 'w').write(txt)
