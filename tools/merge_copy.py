#!/usr/bin/env python3
"""Coordinator aid: merges a builder's private copy of /verif back (3-way, base = the commit the copy was taken from).
usage: merge_copy.py <copy dir> <base commit> [--dry]"""
import os, subprocess, sys, tempfile
V = os.path.dirname(os.path.dirname(os.path.abspath(__file__)))
D, base = sys.argv[1].rstrip('/'), sys.argv[2]
dry = '--dry' in sys.argv
SKIP_DIRS = {'.lake', '.git', 'replays', '__pycache__', 'evidence', 'seeded'}
def base_of(rel):
    r = subprocess.run(['git', '-C', V, 'show', '%s:%s' % (base, rel)], stdout=subprocess.PIPE, stderr=subprocess.DEVNULL)
    return r.stdout if r.returncode == 0 else None
for dp, dns, fns in os.walk(D):
    dns[:] = [d for d in dns if d not in SKIP_DIRS]
    for fn in fns:
        p = os.path.join(dp, fn); rel = os.path.relpath(p, D)
        if fn.endswith(('.pyc', '.lock', '.log')) or rel in ('lean/lake-manifest.json', 'lean/.build.lock') or rel.startswith(('REPORT', 'mutations_')):
            continue
        new = open(p, 'rb').read(); b = base_of(rel)
        if b == new:
            continue
        cur_p = os.path.join(V, rel); cur = open(cur_p, 'rb').read() if os.path.exists(cur_p) else None
        if cur == new:
            continue
        if cur == b:
            print('COPY   ', rel)
            if not dry:
                os.makedirs(os.path.dirname(cur_p), exist_ok=True); open(cur_p, 'wb').write(new)
            continue
        if b is None:
            print('BOTH-ADDED (kept /verif, builder version at %s)' % p, rel); continue
        with tempfile.TemporaryDirectory() as t:
            open(t + '/b', 'wb').write(b); open(t + '/n', 'wb').write(new); open(t + '/c', 'wb').write(cur)
            r = subprocess.run(['git', 'merge-file', '-p', t + '/c', t + '/b', t + '/n'], stdout=subprocess.PIPE)
            print('MERGE  ' if r.returncode == 0 else 'CONFLICT(%d)' % r.returncode, rel)
            if not dry:
                open(cur_p, 'wb').write(r.stdout)
