#!/usr/bin/env python3
"""Regression tool for the C++ -> Lean translator (tools/cxx2lean.py).

    python3 tools/regen_all_bridges.py [-r REPO] [-o OUTDIR] [-j N] [Cxx ...]

Re-translates every bridged property (every plugin `tools/props/cXX.py` that declares `BRIDGE_SPEC`, plus the specs kept in
`tools/bridge.py:SPECS`) from REPO (default $VERIF_REPO or /repo) into a scratch directory and compares each result, byte for
byte, with the committed `lean/RomeaModel/Generated/Src<Cxx>.lean`. Nothing below `lean/` is written. Exit status 0 iff every
regenerated file is identical to the committed one and no function was untranslatable; otherwise a unified diff (first 60 lines
per file) is printed and the status is 1.

Use it after any change to the translator: on the unmodified /repo the generated files must not move (the bridge theorems in
`lean/RomeaProofs/Bridge/` are proved against them).
"""
import argparse
import concurrent.futures
import difflib
import importlib
import os
import shutil
import sys
import tempfile
import time

HERE = os.path.dirname(os.path.abspath(__file__))
VERIF = os.path.dirname(HERE)
sys.path.insert(0, HERE)

import bridge      # noqa: E402
import cxx2lean    # noqa: E402


def all_specs():
    specs = dict(bridge.SPECS)
    for f in sorted(os.listdir(os.path.join(HERE, 'props'))):
        if not (f.startswith('c') and f.endswith('.py')):
            continue
        plugin = importlib.import_module('props.' + f[:-3])
        spec = getattr(plugin, 'BRIDGE_SPEC', None)
        if spec:
            specs[spec['id']] = spec
    return specs


def one(args):
    pid, spec, repo, outdir = args
    t0 = time.time()
    scratch = tempfile.mkdtemp(prefix='regen_%s_' % pid.lower(), dir=outdir)
    try:
        text, info = cxx2lean.translate(repo, scratch, spec)
    finally:
        shutil.rmtree(scratch, ignore_errors=True)
    out = os.path.join(outdir, 'Src%s.lean' % pid)
    with open(out, 'w') as f:
        f.write(text)
    return pid, out, info, time.time() - t0


def main():
    ap = argparse.ArgumentParser(description=__doc__.split('\n')[0])
    ap.add_argument('ids', nargs='*', help='property ids (default: all bridged properties)')
    ap.add_argument('-r', '--repo', default=os.environ.get('VERIF_REPO', '/repo'))
    ap.add_argument('-o', '--out', default=None, help='keep the regenerated files in this directory')
    ap.add_argument('-j', '--jobs', type=int, default=min(8, os.cpu_count() or 1))
    ap.add_argument('--lean', default=os.environ.get('VERIF_LEAN', os.path.join(VERIF, 'lean')))
    a = ap.parse_args()
    specs = all_specs()
    ids = [i.upper() for i in a.ids] or sorted(specs)
    unknown = [i for i in ids if i not in specs]
    if unknown:
        sys.exit('no bridge spec for: %s (bridged: %s)' % (' '.join(unknown), ' '.join(sorted(specs))))
    outdir = a.out or tempfile.mkdtemp(prefix='regen_all_bridges_')
    os.makedirs(outdir, exist_ok=True)
    bad = 0
    try:
        with concurrent.futures.ProcessPoolExecutor(max_workers=max(1, a.jobs)) as ex:
            results = list(ex.map(one, [(pid, specs[pid], a.repo, outdir) for pid in ids]))
        for pid, out, info, secs in results:
            ref = os.path.join(a.lean, 'RomeaModel', 'Generated', 'Src%s.lean' % pid)
            new = open(out).read()
            old = open(ref).read() if os.path.exists(ref) else None
            nfun = len(info['translated'])
            if info['untranslatable']:
                bad += 1
                print('%s  UNTRANSLATABLE  %s' % (pid, '; '.join('%s: %s' % kv for kv in sorted(info['untranslatable'].items()))))
            if old is None:
                bad += 1
                print('%s  MISSING   %s does not exist' % (pid, ref))
            elif old == new:
                print('%s  identical  (%d functions, %d bytes, %.1fs)' % (pid, nfun, len(new.encode()), secs))
            else:
                bad += 1
                d = list(difflib.unified_diff(old.splitlines(), new.splitlines(), 'committed/Src%s.lean' % pid,
                                              'regenerated/Src%s.lean' % pid, lineterm='', n=1))
                print('%s  DIFFERENT  (%d diff lines)' % (pid, len(d)))
                for line in d[:60]:
                    print('    ' + line[:240])
                if len(d) > 60:
                    print('    ... (%d more lines)' % (len(d) - 60))
        print('%d/%d generated files identical to the committed ones%s' % (len(ids) - bad, len(ids),
              '' if a.out is None else ' (kept in %s)' % outdir))
    finally:
        if a.out is None:
            shutil.rmtree(outdir, ignore_errors=True)
    return 1 if bad else 0


if __name__ == '__main__':
    sys.exit(main())
