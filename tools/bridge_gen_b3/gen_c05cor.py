helpers='''/-- rows that hold `rowOf` / `rhsOf` have the linearised point-to-plane distance as residual, whatever the solution `x` -/
theorem residual_of_rows3 (J : Int → Int → ℝ) (Y : Int → ℝ) (x : Vec ℝ) (a : Nat) (s t n : Pt ℝ)
    (hJ : ∀ c : Nat, c < 6 → J (a : Int) (c : Int) = Vec.get (rowOf 3 s n) c) (hY : Y (a : Int) = rhsOf 3 s t n) :
    sumTo 6 (fun c => J (a : Int) (c : Int) * Vec.get x c) - Y (a : Int) = planeDist 3 (scatter 3 x) s t n := by
  rw [← residual_is_linearised_distance 3 (Or.inr rfl), hY]
  have e : estSize 3 = 6 := rfl
  rw [e]
  simp only [sumTo, hJ 0 (by norm_num), hJ 1 (by norm_num), hJ 2 (by norm_num), hJ 3 (by norm_num), hJ 4 (by norm_num), hJ 5 (by norm_num)]

theorem residual_of_rows2 (J : Int → Int → ℝ) (Y : Int → ℝ) (x : Vec ℝ) (a : Nat) (s t n : Pt ℝ)
    (hJ : ∀ c : Nat, c < 3 → J (a : Int) (c : Int) = Vec.get (rowOf 2 s n) c) (hY : Y (a : Int) = rhsOf 2 s t n) :
    sumTo 3 (fun c => J (a : Int) (c : Int) * Vec.get x c) - Y (a : Int) = planeDist 2 (scatter 2 x) s t n := by
  rw [← residual_is_linearised_distance 2 (Or.inl rfl), hY]
  have e : estSize 2 = 3 := rfl
  rw [e]
  simp only [sumTo, hJ 0 (by norm_num), hJ 1 (by norm_num), hJ 2 (by norm_num)]

'''
def leaves(D):
    n=D+1
    return ', '.join('Mat.get (scatter %d x) %d %d' % (D,i,j) for i in range(n) for j in range(n))
def tupT(n): return ' × '.join(['ℝ']*n)
def thm(kind, s, D, hom):
    P = D + (1 if hom else 0); est = 3 if D==2 else 6
    idx = kind=='indexed'
    os_ = ' '.join('o%d' % i for i in range(est))
    xs = ', '.join("o%d J' Y'" % i for i in range(est))
    if idx:
        corrb = '(corr : List (Int × Int × ℝ × ℝ)) (dc : Int × Int × ℝ × ℝ) '
        hyp = ('(hs : ∀ a, a < corr.length → 0 ≤ (corr.getD a dc).1 ∧ (corr.getD a dc).1.toNat < src.length)\n'
               '    (ht : ∀ a, a < corr.length → 0 ≤ (corr.getD a dc).2.1 ∧ (corr.getD a dc).2.1.toNat < tgt.length ∧ (corr.getD a dc).2.1.toNat < nrm.length)')
        args = 'corr '; bargs='corr dc src tgt nrm d hs ht'; N='corr.length'
        sA='(src.getD (corr.getD a dc).1.toNat d)'; tA='(tgt.getD (corr.getD a dc).2.1.toNat d)'; nA='(nrm.getD (corr.getD a dc).2.1.toNat d)'
    else:
        corrb=''; hyp='(h2 : tgt.length = src.length) (h3 : nrm.length = src.length)'; args=''; bargs='src tgt nrm d h2 h3'; N='src.length'
        sA='(src.getD a d)'; tA='(tgt.getD a d)'; nA='(nrm.getD a d)'
    homhyp = ''
    if hom:
        pr = '2.2' if P==3 else '2.2.2'
        homhyp = ' →\n        %s.%s = %s.%s' % (tA, pr, sA, pr)
    doc = '**residual_is_linearised_distance** about the translated `estimate_` (%s, `%s`)' % (kind, s)
    if hom:
        doc += ': homogeneous points whose source and target carry the same homogeneous coordinate'
    d = dict(doc=doc, kind=kind, s=s, os=os_, corrb=corrb, tP=tupT(P), hyp=hyp, args=args, leaves=leaves(D), xs=xs, N=N, homhyp=homhyp,
             est=est, D=D, P=P, sA=sA, tA=tA, nA=nA, bargs=bargs, hw=' hw' if hom else '', rhsstep='rhs%d_eq h0R' % P,
             homfin=('\n    exact rhsOf_homogeneous %d _ _ _ (by simpa [Vec.get, pt%d] using hw)' % (D, P)) if hom else '')
    return """/-- %(doc)s -/
theorem src_residual_is_linearised_distance_%(kind)s_%(s)s (%(os)s : (Int → Int → ℝ) → (Int → ℝ) → ℝ)
    (jJ : Int → Int → Int → ℝ) (jY : Int → Int → ℝ) (ret : Int → Bool) %(corrb)s(src tgt nrm : List (%(tP)s)) (d : %(tP)s)
    %(hyp)s :
    ∃ (J' : Int → Int → ℝ) (Y' : Int → ℝ) (x : Vec ℝ),
      Src.C05.FindRigidTransformationByLeastSquares.estimate__%(kind)s_%(s)s %(args)s%(os)s jJ jY ret src tgt nrm
        = some (%(leaves)s, J', Y') ∧
      x = #[%(xs)s] ∧
      ∀ a : Nat, a < %(N)s%(homhyp)s →
        sumTo %(est)d (fun c => J' (a : Int) (c : Int) * Vec.get x c) - Y' (a : Int)
          = planeDist %(D)d (scatter %(D)d x) (pt%(P)d %(sA)s) (pt%(P)d %(tA)s) (pt%(P)d %(nA)s) := by
  refine ⟨_, _, _, estimate__%(kind)s_%(s)s_bridge %(os)s jJ jY ret %(bargs)s, rfl, ?_⟩
  intro a ha%(hw)s
  apply residual_of_rows%(D)d
  · intro c hc
    exact fillJ_in _ _ _ _ a c ha hc
  · rw [fillY_in _ _ _ a ha, %(rhsstep)s]%(homfin)s
""" % d
body = helpers
for kind in ('aligned','indexed'):
    for (s_,D,hom) in (('v3d',3,False),('v2d',2,False),('h3d',3,True),('h2d',2,True)):
        body += thm(kind,s_,D,hom)+'\n'
print(body)
