def proj(r, i, n):
    s = r
    for _ in range(i): s += '.2'
    if i < n-1: s += '.1'
    return s
TYPES = [('v2f',2,False),('v2d',2,False),('v3f',3,False),('v3d',3,False),('h2f',2,True),('h2d',2,True),('h3f',3,True),('h3d',3,True)]
def tupT(n, a='α'): return ' × '.join([a]*n)
def gen(s, D, hom, real=False):
    P = D + (1 if hom else 0)
    m = D - 2
    homs = 'true' if hom else 'false'
    top = 'Src.C09.NormalAndCurvatureEstimation.compute_r_%s' % s
    nt = 1 + D + D*D + 1 + 1
    outs = '(%s, %s, %s)' % (proj('r',0,nt), proj('r',1+D+D*D,nt), proj('r',nt-1,nt))
    evfun = ' '.join('(fun i => (E i.toNat).vals %d)' % j for j in range(D))
    efun = ' '.join('(fun i => (E i.toNat).vecs %d %d)' % (a,b) for a in range(D) for b in range(D))
    pt = '(' + ', '.join(['P i %d' % j for j in range(D)] + (['((1 : Nat) : α)'] if hom else [])) + ')'
    avs = ' '.join(['a%d' % i for i in range(D)] + ['b%d%d' % (i,j) for i in range(D) for j in range(D)])
    rep = '(report %s (E i) (P i))' % homs
    nrm = '(' + ', '.join(['%s.normal %d' % (rep, j) for j in range(D)] + (['%s.w' % rep] if hom else [])) + ')'
    dflt = '(' + ', '.join(['((0 : Nat) : α)']*P) + ')'
    hyps = '(h0 : ∀ x : α, zero + x = x) (hneg : ∀ x : α, x * (-((1 : Nat) : α)) = -x)' + (' (h11 : ((1 : Nat) : α) * ((1 : Nat) : α) = ((1 : Nat) : α))' if hom else '')
    flipb = 'flip_%s_bridge h0 hneg%s (P i) (fun j => (E i).vecs j 0)' % (s, ' h11' if hom else '')
    sumlemma = 'lsum%d h0' % D
    txt = '''
/-- `compute(points, pointsKdTree, normals, curvatures, normalsReliability)` for `%(s)s` as translated, fed with the decompositions `E i`
    (what `planeEstimation_` leaves for point `i`) and the points `P i`: entry `i` of the three output vectors is the `curvature`, the
    `normal`%(wdoc)s and the `reliability` of the model's `report %(homs)s (E i) (P i)` -/
theorem src_compute_r_%(s)s_report %(hyps)s (N : Nat)
    (E : Nat → EigSym %(D)d α) (P : Nat → Vec %(D)d α) (curv : List α) (%(avs)s : α) (normals : List (%(tP)s)) (rel : List α)
    (h1 : curv.length = N) (h2 : normals.length = N) (h3 : rel.length = N) :
    (%(top)s curv %(avs)s normals rel %(evfun)s %(efun)s
        ((List.range N).map fun i => %(pt)s)).map (fun r => %(outs)s)
      = some ((List.range N).map (fun i => %(rep)s.curvature), (List.range N).map (fun i => %(nrm)s),
          (List.range N).map (fun i => %(rep)s.reliability)) := by
  have hlen : ((List.range N).map fun i => %(pt)s).length = N := by simp
  rw [compute_r_%(s)s_bridge _ _ _ _ _ _ %(under)s _ %(dflt)s%(dn)s curv %(avs)s normals rel (by rw [hlen]; exact h1) (by rw [hlen]; exact h2) (by rw [hlen]; exact h3)]
  rw [hlen]
  have hget : ∀ i, i < N → ((List.range N).map fun i => %(pt)s).getD i %(dflt)s = %(pt)s := by
    intro i hi
    simp [List.getD_eq_getElem?_getD, hi]
  congr 2
  · apply List.map_congr_left
    intro i hi
    simp only [Int.toNat_natCast, report, sumFin, List.finRange_succ, List.finRange_zero, List.map_cons, List.map_nil, %(sumlemma)s, Fin.succ_zero_eq_one, Fin.succ_one_eq_two, Fin.isValue]
  · congr 1
    · apply List.map_congr_left
      intro i hi
      rw [hget i (List.mem_range.mp hi)]
      simp only [Int.toNat_natCast]
      rw [%(flipb)s]
      simp only [report, flipped%(fw)s]
      all_goals (first | rfl | (split <;> rfl))
''' % dict(s=s, D=D, homs=homs, hyps=hyps, avs=avs, tP=tupT(P), top=top, evfun=evfun, efun=efun, pt=pt, outs=outs, rep=rep, nrm=nrm,
           dflt=dflt, dn=' '+dflt if hom else '', under=' '.join(['_']*(D*D+D-6)) if D*D+D>6 else '', flipb=flipb, sumlemma=sumlemma,
           fw=', flippedW' if hom else '', wdoc=' (with its homogeneous coordinate `w`)' if hom else '')
    return txt
import sys
for (s,D,hom) in TYPES:
    if sys.argv[1:] and s not in sys.argv[1:]: continue
    print(gen(s,D,hom))
