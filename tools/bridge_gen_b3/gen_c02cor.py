def proj(r, i, n):
    s = r
    for _ in range(i): s += '.2'
    if i < n-1: s += '.1'
    return s
F12 = ['m00','m01','m02','m03','m10','m11','m12','m13','m20','m21','m22','m23']
L4 = ['m30','m31','m32','m33']
def upd(r, names, n, off=0):
    return ', '.join('%s := %s' % (nm, proj(r, off+i, n)) for i, nm in enumerate(names))
o12 = ' '.join('o.'+f for f in F12)
print('''import RomeaProofs.Bridge.C02
import RomeaProofs.Properties.C02

/-!
# Bridge C02, part 2: headline theorems of `Properties/C02.lean` restated about the functions translated from today's source

`Romea.Src.C02.*` is regenerated from `/repo/src/geodesy/ENUConverter.cpp` on every run.  An `ENUConverter` object is the record `Obj`
of the members the translated functions read and write (`enu2ecef_` = the 16 coefficients of its 4×4 matrix, `isAnchored_`,
`wgs84Anchor_`; `ecefConverter_.ellipsoid_` is written by no translated member function: its fields `a`, `e2` are parameters);
a member-function call replaces exactly the members listed in the translated function's result (`…'` in its doc comment), a `const`
member function (`toENU(Vector3d)`, `toECEF`, `toWGS84`: results `ret_*` only) leaves the object alone.

* `src_frame_is_rotation`, `src_anchor_to_origin`, `src_above_anchor`, `src_toENU_toECEF`, `src_toECEF_toENU` (ℝ): the frame written by
  the translated `setAnchor` is a proper rotation; the translated `toENU` maps the translated `toECEF` image of the anchor to the
  origin; the translated `toENU(Vector3d)` / `toECEF(Vector3d)` are mutually inverse on an object anchored by the translated `setAnchor`;
* `src_run_eq`, `src_history`, `src_anchored_iff`, `src_last_row` (EVERY scalar type, `Float` included): folding the translated member
  functions over any call history, starting from the translated default constructor, gives the object of the model state
  `stateOf (book ops)` — nothing of an earlier anchor survives in `enu2ecef_`, the flag is up iff an anchor is in force, the last
  row of the matrix is `0 0 0 1` for ever.
-/
set_option linter.unusedSectionVars false

namespace Romea.Bridge.C02
open Romea Romea.Geodesy Romea.ENU Romea.C02

/-- the data members of an `ENUConverter` as the translated functions see them -/
structure Obj (α : Type) where
  m00 : α
  m01 : α
  m02 : α
  m03 : α
  m10 : α
  m11 : α
  m12 : α
  m13 : α
  m20 : α
  m21 : α
  m22 : α
  m23 : α
  m30 : α
  m31 : α
  m32 : α
  m33 : α
  anchored : Bool
  alt : α
  lat : α
  lon : α

section
variable {α : Type} [Add α] [Sub α] [Mul α] [Div α] [Neg α] [LT α] [DecidableLT α] [NatCast α] [OfScientific α] [Trans α]

/-- `enu2ecef_.linear()` / `.translation()` of an object -/
def Obj.R (o : Obj α) : Mat3 α := ⟨o.m00, o.m01, o.m02, o.m10, o.m11, o.m12, o.m20, o.m21, o.m22⟩
def Obj.T (o : Obj α) : Vec3 α := ⟨o.m03, o.m13, o.m23⟩

/-- the object of a model state (last row of the matrix: `0 0 0 1`) -/
def objOf (s : State α) : Obj α :=
  { m00 := s.R.m00, m01 := s.R.m01, m02 := s.R.m02, m03 := s.T.x, m10 := s.R.m10, m11 := s.R.m11, m12 := s.R.m12, m13 := s.T.y,
    m20 := s.R.m20, m21 := s.R.m21, m22 := s.R.m22, m23 := s.T.z,
    m30 := ((0 : Nat) : α), m31 := ((0 : Nat) : α), m32 := ((0 : Nat) : α), m33 := ((1 : Nat) : α),
    anchored := s.anchored, alt := s.anchor.alt, lat := s.anchor.lat, lon := s.anchor.lon }
''')
print('''/-- the object built by the translated default constructor -/
def Obj.ctor : Obj α :=
  let r := (Src.C02.ENUConverter.ENUConverter : α × α × α × α × α × α × α × α × α × α × α × α × α × α × α × α × Bool × α × α × α)
  { %s,
    %s,
    anchored := %s, alt := %s, lat := %s, lon := %s }
''' % (upd('r', F12, 20), upd('r', L4, 20, 12), proj('r',16,20), proj('r',17,20), proj('r',18,20), proj('r',19,20)))
print('''/-- a call of the translated `setAnchor(g)` on an object -/
def Obj.setAnchor (a e2 : α) (o : Obj α) (g : Geo α) : Obj α :=
  let r := Src.C02.ENUConverter.setAnchor g.alt g.lat g.lon a e2
  { o with %s,
           anchored := %s, alt := %s, lat := %s, lon := %s }
''' % (upd('r', F12, 16), proj('r',12,16), proj('r',13,16), proj('r',14,16), proj('r',15,16)))
print('''/-- a call of the translated `reset()` on an object -/
def Obj.reset (o : Obj α) : Obj α :=
  let r := (Src.C02.ENUConverter.reset : α × α × α × α × α × α × α × α × α × α × α × α × α × α × α × α × Bool)
  { o with %s,
           %s, anchored := %s }
''' % (upd('r', F12, 17), upd('r', L4, 17, 12), proj('r',16,17)))
print('''/-- a call of the translated `toENU(GeodeticCoordinates)` on an object: the object afterwards, and the returned vector -/
def Obj.toENUgeo (a e2 : α) (o : Obj α) (g : Geo α) : Obj α × Vec3 α :=
  let r := Src.C02.ENUConverter.toENU_geo a e2 %s g.alt g.lat g.lon o.anchored o.alt o.lat o.lon
  ({ o with %s,
            anchored := %s, alt := %s, lat := %s, lon := %s },
   ⟨r.1, r.2.1, r.2.2.1⟩)
''' % (o12, upd('r', F12, 19, 3), proj('r',15,19), proj('r',16,19), proj('r',17,19), proj('r',18,19)))
print('''/-- a call of the translated `toENU(WGS84Coordinates)` on an object -/
def Obj.toENUwgs (a e2 : α) (o : Obj α) (lat lon : α) : Obj α × Vec3 α :=
  let r := Src.C02.ENUConverter.toENU_wgs a e2 %s o.anchored o.alt o.lat o.lon lat lon
  ({ o with %s,
            anchored := %s, alt := %s, lat := %s, lon := %s },
   ⟨r.1, r.2.1, r.2.2.1⟩)
''' % (o12, upd('r', F12, 19, 3), proj('r',15,19), proj('r',16,19), proj('r',17,19), proj('r',18,19)))
print('''/-- the translated `toENU(Vector3d)` / `toECEF(Vector3d)` on an object (`const`: the object is not written) -/
def Obj.toENUv (o : Obj α) (p : Vec3 α) : Vec3 α :=
  let r := Src.C02.ENUConverter.toENU_v p.x p.y p.z %s
  ⟨r.1, r.2.1, r.2.2⟩
def Obj.toECEFv (o : Obj α) (v : Vec3 α) : Vec3 α :=
  let r := Src.C02.ENUConverter.toECEF_v %s v.x v.y v.z
  ⟨r.1, r.2.1, r.2.2⟩
''' % (o12, o12))
