def proj(r, i, n):
    s = r
    for _ in range(i): s += '.2'
    if i < n-1: s += '.1'
    return s
TYPES = [('v2f',2,False,True),('v2d',2,False,False),('v3f',3,False,True),('v3d',3,False,False),('h2f',2,True,True),('h2d',2,True,False),('h3f',3,True,True),('h3d',3,True,False)]
def tupT(n, a='α'): return ' × '.join([a]*n)
PRE = r'''
/-- one pass of the 2D loop: the three `J(n, c) = …` of the source = row `k` overwritten with `rowOf 2 s n` -/
theorem setRow3 (row : Nat → Vec α) (k : Nat) (J : Int → Int → α) :
    Src.C05.dynSet2 (Src.C05.dynSet2 (Src.C05.dynSet2 J (k : Int) 0 (Vec.get (row k) 0)) (k : Int) 1 (Vec.get (row k) 1))
      (k : Int) 2 (Vec.get (row k) 2) = fillJ 3 row k 1 J := by
  funext a c
  unfold fillJ Src.C05.dynSet2
  by_cases ha : a = (k : Int)
  · subst ha
    have hc : c = 0 ∨ c = 1 ∨ c = 2 ∨ (c < 0 ∨ 3 ≤ c) := by omega
    rcases hc with h | h | h | h
    all_goals first
      | (subst h; simp; intro hh; omega)
      | (rw [if_neg (by omega), if_neg (by omega), if_neg (by omega), if_neg (by omega)])
  · rw [if_neg (by omega), if_neg (by omega), if_neg (by omega), if_neg (by omega)]

/-- right-hand side of a row as the source adds it up (Eigen's `dot` over ALL stored components, no leading `0 +`) -/
def rhs2 (s t n : α × α) : α := (t.1 - s.1) * n.1 + (t.2 - s.2) * n.2
def rhs4 (s t n : α × α × α × α) : α :=
  (((t.1 - s.1) * n.1 + (t.2.1 - s.2.1) * n.2.1) + (t.2.2.1 - s.2.2.1) * n.2.2.1) + (t.2.2.2 - s.2.2.2) * n.2.2.2

theorem vecGet_ok' {β : Type} (l : List β) (i : Int) (d : β) (h0 : 0 ≤ i) (h : i.toNat < l.length) :
    Src.C05.vecGet? l i = some (l.getD i.toNat d) := by
  have := vecGet_ok l i.toNat d h
  rwa [Int.toNat_of_nonneg h0] at this
'''
def gen(kind, s, D, hom, flt):
    P = D + (1 if hom else 0)
    est = 3 if D == 2 else 6
    idx = kind == 'indexed'
    two = idx and flt      # a second scalar type variable (the doubles of Correspondence)
    loop = 'Src.C05.FindRigidTransformationByLeastSquares.estimate__%s_%s.loop1' % (kind, s)
    top = 'Src.C05.FindRigidTransformationByLeastSquares.estimate__%s_%s' % (kind, s)
    tP = tupT(P)
    ct = 'Int × Int × %s × %s' % (('δ','δ') if two else ('α','α'))
    dlt = '{δ : Type} ' if two else ''
    if idx:
        srcA = '(src.getD (corr.getD a dc).1.toNat d)'; tgtA = '(tgt.getD (corr.getD a dc).2.1.toNat d)'; nrmA = '(nrm.getD (corr.getD a dc).2.1.toNat d)'
    else:
        srcA = '(src.getD a d)'; tgtA = '(tgt.getD a d)'; nrmA = '(nrm.getD a d)'
    row = '(fun a => rowOf %d (pt%d %s) (pt%d %s))' % (D, P, srcA, P, nrmA)
    rhs = '(fun a => rhs%d %s %s %s)' % (P, srcA, tgtA, nrmA)
    corrarg = 'corr ' if idx else ''
    corrbind = '(corr : List (%s)) (dc : %s) ' % (ct, ct) if idx else ''
    if idx:
        hyps = ('k + cnt ≤ corr.length → (∀ a, k ≤ a → a < k + cnt → 0 ≤ (corr.getD a dc).1 ∧ (corr.getD a dc).1.toNat < src.length) →\n'
                '    (∀ a, k ≤ a → a < k + cnt → 0 ≤ (corr.getD a dc).2.1 ∧ (corr.getD a dc).2.1.toNat < tgt.length ∧ (corr.getD a dc).2.1.toNat < nrm.length) →')
        intro = 'h1 hs ht'
        gets = '''rw [vecGet_ok corr k dc (by omega)]
    simp only []
    rw [vecGet_ok' src _ d (hs k (by omega) (by omega)).1 (hs k (by omega) (by omega)).2]
    simp only []
    rw [vecGet_ok' tgt _ d (ht k (by omega) (by omega)).1 (ht k (by omega) (by omega)).2.1]
    simp only []
    rw [vecGet_ok' nrm _ d (ht k (by omega) (by omega)).1 (ht k (by omega) (by omega)).2.2]
    simp only []'''
        ihargs = '(by omega) (fun a ha hb => hs a (by omega) (by omega)) (fun a ha hb => ht a (by omega) (by omega))'
        zero_intro = 'intro k J Y _ _ _'
    else:
        hyps = 'k + cnt ≤ src.length → k + cnt ≤ tgt.length → k + cnt ≤ nrm.length →'
        intro = 'h1 h2 h3'
        gets = '''rw [vecGet_ok src k d (by omega)]
    simp only []
    rw [vecGet_ok tgt k d (by omega)]
    simp only []
    rw [vecGet_ok nrm k d (by omega)]
    simp only []'''
        ihargs = '(by omega) (by omega) (by omega)'
        zero_intro = 'intro k J Y _ _ _'
    os_ = ['o%d' % i for i in range(est)]
    n = D + 1
    leaves = ', '.join('Mat.get (scatter %d x) %d %d' % (D, i, j) for i in range(n) for j in range(n))
    Nexpr = 'corr.length' if idx else 'src.length'
    if idx:
        tophyps = ('(hs : ∀ a, a < corr.length → 0 ≤ (corr.getD a dc).1 ∧ (corr.getD a dc).1.toNat < src.length)\n'
                   '    (ht : ∀ a, a < corr.length → 0 ≤ (corr.getD a dc).2.1 ∧ (corr.getD a dc).2.1.toNat < tgt.length ∧ (corr.getD a dc).2.1.toNat < nrm.length)')
        loopargs = '(by omega) (fun a _ hb => hs a (by omega)) (fun a _ hb => ht a (by omega))'
    else:
        tophyps = '(h2 : tgt.length = src.length) (h3 : nrm.length = src.length)'
        loopargs = '(by omega) (by omega) (by omega)'
    return '''
/-- the loop of `estimate_` (%(kind)s, `%(s)s`), `cnt` passes from index `k`: rows `k … k + cnt - 1` of `J_` / `Y_` receive `rowOf` / the
    right-hand side of the correspondences, nothing else of `J_`, `Y_` changes, no index falls outside a vector -/
theorem estimate__%(kind)s_%(s)s_loop %(dlt)s(N : Int) %(corrbind)s(src tgt nrm : List (%(tP)s)) (d : %(tP)s) (cnt : Nat) :
    ∀ (k : Nat) (J : Int → Int → α) (Y : Int → α), %(hyps)s
    %(loop)s %(corrarg)sN src tgt nrm cnt J Y (k : Int)
      = some (fillJ %(est)d %(row)s k cnt J, fillY %(rhs)s k cnt Y, ((k + cnt : Nat) : Int)) := by
  induction cnt with
  | zero => %(zero_intro)s; rw [fillJ_zero, fillY_zero]; rfl
  | succ cnt ih =>
    intro k J Y %(intro)s
    unfold %(loop)s
    %(gets)s
    have hJ := setRow%(est)d %(row)s k J
    have hY := setY1 %(rhs)s k Y
    have hk : ((k : Int) + 1) = ((k + 1 : Nat) : Int) := by omega
    rw [hk]
    have := ih (k + 1) (fillJ %(est)d %(row)s k 1 J) (fillY %(rhs)s k 1 Y) %(ihargs)s
    rw [fillJ_succ, fillY_succ] at this
    rw [← hJ, ← hY] at this
    have hk2 : k + 1 + cnt = k + (cnt + 1) := by omega
    rw [hk2] at this
    exact this

/-- `estimate_` (%(kind)s, `%(s)s`) AS TRANSLATED = the model's formulas: `setDataSize` leaves junk (`jJ N`, `jY N`), every row `a < N` of `J_` / `Y_`
    is `rowOf %(D)d s n` / `(t - s)·n` of correspondence `a`, the solver oracle `o*` is applied to exactly these arrays, and the returned matrix
    is `scatter %(D)d` of its answer; never `none` -/
theorem estimate__%(kind)s_%(s)s_bridge %(dlt)s(%(os)s : (Int → Int → α) → (Int → α) → α) (jJ : Int → Int → Int → α) (jY : Int → Int → α)
    (ret : Int → Bool) %(corrbind)s(src tgt nrm : List (%(tP)s)) (d : %(tP)s)
    %(tophyps)s :
    %(top)s %(corrarg)s%(os)s jJ jY ret src tgt nrm
      = (let J' := fillJ %(est)d %(row)s 0 %(Nexpr)s (jJ %(Nexpr)s)
         let Y' := fillY %(rhs)s 0 %(Nexpr)s (jY %(Nexpr)s)
         let x : Vec α := #[%(xs)s]
         some (%(leaves)s, J', Y')) := by
  unfold %(top)s
  simp only []
  have hN : Int.toNat ((%(Nexpr)s : Int) - 0) = %(Nexpr)s := by omega
  rw [hN]
  have hl := estimate__%(kind)s_%(s)s_loop (%(Nexpr)s : Int) %(corrarg0)ssrc tgt nrm d %(Nexpr)s 0 (jJ %(Nexpr)s) (jY %(Nexpr)s) %(loopargs)s
  rw [show ((0 : Nat) : Int) = 0 from rfl] at hl
  rw [hl]
  rfl
''' % dict(kind=kind, s=s, dlt=dlt, corrbind=corrbind, tP=tP, hyps=hyps, loop=loop, corrarg=corrarg, est=est, row=row, rhs=rhs,
           zero_intro=zero_intro, intro=intro, gets=gets, ihargs=ihargs, D=D, os=' '.join(os_), top=top, tophyps=tophyps, Nexpr=Nexpr,
           xs=', '.join('%s J\' Y\'' % o for o in os_), leaves=leaves, corrarg0='corr dc ' if idx else '', loopargs=loopargs)
def genfind(kind, s, D, hom, flt):
    est = 3 if D == 2 else 6
    idx = kind == 'indexed'
    two = idx and flt
    P = D + (1 if hom else 0)
    ct = 'Int × Int × %s × %s' % (('δ','δ') if two else ('α','α'))
    os_ = ' '.join('o%d' % i for i in range(est))
    return '''
/-- `find(…)` (%(kind)s, `%(s)s`) forwards to `estimate_` -/
theorem find_%(kind)s_%(s)s_bridge %(dlt)s(%(os)s : (Int → Int → α) → (Int → α) → α) (jJ : Int → Int → Int → α) (jY : Int → Int → α)
    (ret : Int → Bool) %(corrbind)s(src tgt nrm : List (%(tP)s)) :
    Src.C05.FindRigidTransformationByLeastSquares.find_%(kind)s_%(s)s %(corrarg)s%(os)s jJ jY ret src tgt nrm
      = Src.C05.FindRigidTransformationByLeastSquares.estimate__%(kind)s_%(s)s %(corrarg)s%(os)s jJ jY ret src tgt nrm := by
  unfold Src.C05.FindRigidTransformationByLeastSquares.find_%(kind)s_%(s)s
  cases Src.C05.FindRigidTransformationByLeastSquares.estimate__%(kind)s_%(s)s %(corrarg)s%(os)s jJ jY ret src tgt nrm <;> rfl
''' % dict(kind=kind, s=s, dlt='{δ : Type} ' if two else '', os=os_, corrbind='(corr : List (%s)) ' % ct if idx else '', tP=tupT(P), corrarg='corr ' if idx else '')
import sys
print(PRE)
for kind in ('aligned', 'indexed'):
    for (s, D, hom, flt) in TYPES:
        if sys.argv[1:] and ('%s_%s' % (kind, s)) not in sys.argv[1:]: continue
        print(gen(kind, s, D, hom, flt))
        print(genfind(kind, s, D, hom, flt))
