def proj(r, i, n):
    s = r
    for _ in range(i): s += '.2'
    if i < n-1: s += '.1'
    return s
TYPES = [('v2f',2,False),('v2d',2,False),('v3f',3,False),('v3d',3,False),('h2f',2,True),('h2d',2,True),('h3f',3,True),('h3d',3,True)]
def tupT(n): return ' × '.join(['α']*n)
def gen(o, s, D, hom):
    P = D + (1 if hom else 0)
    hasC, hasR = o in ('c','r'), o == 'r'
    evs = ['ev%d' % i for i in range(D)]
    es = ['e%d%d' % (i,j) for i in range(D) for j in range(D)]
    avs = ['a%d' % i for i in range(D)]
    bs = ['b%d%d' % (i,j) for i in range(D) for j in range(D)]
    loop = 'Src.C09.NormalAndCurvatureEstimation.compute_%s_%s.loop1' % (o, s)
    top = 'Src.C09.NormalAndCurvatureEstimation.compute_%s_%s' % (o, s)
    flip = 'Src.C09.flipNormalTowardOriginCoordinate_%s' % s
    relf = 'Src.C09.NormalAndCurvatureEstimation.computeNormalReliability_%s' % s
    nl = (1 if hasC else 0) + D + D*D + 1 + 1 + (1 if hasR else 0)     # loop tuple size
    nt = (1 if hasC else 0) + D + D*D + 1 + (1 if hasR else 0)         # top-level tuple size
    iN_l = (1 if hasC else 0) + D + D*D + 1
    iN_t = (1 if hasC else 0) + D + D*D
    outs_l = ([proj('r',0,nl)] if hasC else []) + [proj('r',iN_l,nl)] + ([proj('r',nl-1,nl)] if hasR else [])
    outs_t = ([proj('r',0,nt)] if hasC else []) + [proj('r',iN_t,nt)] + ([proj('r',nt-1,nt)] if hasR else [])
    def tup(xs): return '(' + ', '.join(xs) + ')'
    curvF = '(fun i : Nat => ev0 (i : Int) / (%s))' % ('ev0 (i : Int) + ev1 (i : Int)' if D==2 else '(ev0 (i : Int) + ev1 (i : Int)) + ev2 (i : Int)')
    pcomp = [proj('(points.getD i d)', j, P) for j in range(P)]
    normF = '(fun i : Nat => %s %s %s)' % (flip, ' '.join('(e%d0 (i : Int))' % j for j in range(D)), ' '.join(pcomp))
    relF = '(fun i : Nat => %s %s)' % (relf, ' '.join('(ev%d (i : Int))' % j for j in range(D)))
    def ranges(k, cnt):
        xs = []
        if hasC: xs.append('setRange %s %s %s curv' % (curvF, k, cnt))
        xs.append('setRange %s %s %s normals' % (normF, k, cnt))
        if hasR: xs.append('setRange %s %s %s rel' % (relF, k, cnt))
        return tup(xs)
    def maps():
        xs = []
        if hasC: xs.append('(List.range points.length).map %s' % curvF)
        xs.append('(List.range points.length).map %s' % normF)
        if hasR: xs.append('(List.range points.length).map %s' % relF)
        return tup(xs)
    lens = (['k + cnt ≤ curv.length'] if hasC else []) + ['k + cnt ≤ normals.length'] + (['k + cnt ≤ rel.length'] if hasR else []) + ['k + cnt ≤ points.length']
    foralls = '(k : Nat)' + (' (curv : List α)' if hasC else '') + ' (%s : α) (normals : List (%s))' % (' '.join(avs+bs), tupT(P)) + (' (rel : List α)' if hasR else '')
    args_l = (['curv'] if hasC else []) + avs + bs + ['(k : Int)', 'normals'] + (['rel'] if hasR else [])
    dn = ' (dn : %s)' % tupT(P) if hom else ''
    # proof of succ
    pr = []
    if hasC:
        pr.append('rw [vecSet_ok curv k _ (by omega)]\n    simp only []')
    if hom:
        pr.append('rw [vecGet_ok normals k dn (by omega)]\n    simp only []')
    pr.append('rw [vecSet_ok normals k _ (by omega)]\n    simp only []')
    pr.append('rw [vecGet_set normals k _ (by omega), vecGet_ok points k d (by omega)]\n    simp only []')
    pr.append('rw [vecSet_ok (normals.set k _) k _ (by simp; omega)]\n    simp only []')
    if hasR:
        pr.append('rw [vecSet_ok rel k _ (by omega)]\n    simp only []')
    nunder = (1 if hasC else 0) + D + D*D + 1 + (1 if hasR else 0)
    side = ' '.join(['(by simp; omega)'] * ((1 if hasC else 0) + 1 + (1 if hasR else 0)) + ['(by omega)'])
    intro = 'k ' + ('curv ' if hasC else '') + ' '.join(avs+bs) + ' normals ' + ('rel ' if hasR else '') + ' '.join('h%d' % i for i in range(len(lens)))
    txt = '''
/-- the loop of `compute(points, pointsKdTree, normals%(extra)s)` for `%(s)s`, `cnt` passes from index `k`: entries `k … k + cnt - 1` of the
    output vectors are overwritten with the per-point values (the oracle `planeEstimation_` read at each index), never `none` -/
theorem compute_%(o)s_%(s)s_loop (N : Int) (%(fns)s : Int → α) (points : List (%(tP)s)) (d : %(tP)s)%(dn)s (cnt : Nat) :
    ∀ %(foralls)s,
    %(lens)s →
    (%(loop)s N %(fnargs)s points cnt %(args_l)s).map (fun r => %(outs_l)s)
      = some %(ranges)s := by
  induction cnt with
  | zero => intros; rfl
  | succ cnt ih =>
    intro %(intro)s
    unfold %(loop)s
    simp only []
    %(proof)s
    have hk : ((k : Int) + 1) = ((k + 1 : Nat) : Int) := by omega
    rw [hk, List.set_set]
    simp only [setRange]
    exact ih (k + 1) %(unders)s %(side)s

/-- `compute(points, pointsKdTree, normals%(extra)s)` for `%(s)s` as translated: with output vectors of the size of the cloud it returns (never
    `none`) the per-point values, index by index — for every value the oracle functions `ev*` / `e**` (what `planeEstimation_` leaves in
    `eigenValues_` / `eigenVectors_` at each index) may take and whatever the members and the output vectors held before -/
theorem compute_%(o)s_%(s)s_bridge (%(fns)s : Int → α) (points : List (%(tP)s)) (d : %(tP)s)%(dn)s
    %(topvars)s
    %(toplens)s :
    (%(top)s %(topargs)s).map (fun r => %(outs_t)s)
      = some %(maps)s := by
  unfold %(top)s
  simp only []
  have hN : Int.toNat ((points.length : Int) - 0) = points.length := by omega
  rw [hN]
  have hl := compute_%(o)s_%(s)s_loop (points.length : Int) %(fnargs)s points d%(dnarg)s points.length 0 %(loopinst)s %(lenargs)s
  rw [%(rwlens)s] at hl
  cases hc : %(loop)s (points.length : Int) %(fnargs)s points points.length %(args_l0)s with
  | none => rw [show ((0 : Nat) : Int) = 0 from rfl] at hl; rw [hc] at hl; exact absurd hl (by simp)
  | some r => rw [show ((0 : Nat) : Int) = 0 from rfl] at hl; rw [hc] at hl; simpa using hl
''' % dict(o=o, s=s, extra=(', curvatures' if hasC else '') + (', normalsReliability' if hasR else ''),
           fns=' '.join(evs+es), tP=tupT(P), dn=dn, foralls=foralls, lens=' → '.join(lens), loop=loop, fnargs=' '.join(evs+es),
           args_l=' '.join(args_l), outs_l=tup(outs_l), ranges=ranges('k','cnt'), intro=intro, proof='\n    '.join(pr),
           unders=' '.join(['_']*nunder), side=side, top=top,
           topvars=('(curv : List α) ' if hasC else '') + '(%s : α) (normals : List (%s))' % (' '.join(avs+bs), tupT(P)) + (' (rel : List α)' if hasR else ''),
           toplens=' '.join((['(h1 : curv.length = points.length)'] if hasC else []) + ['(h2 : normals.length = points.length)'] + (['(h3 : rel.length = points.length)'] if hasR else [])),
           topargs=' '.join((['curv'] if hasC else []) + avs + bs + ['normals'] + (['rel'] if hasR else []) + evs + es + ['points']),
           outs_t=tup(outs_t), maps=maps(), dnarg=' dn' if hom else '',
           loopinst=' '.join((['curv'] if hasC else []) + avs + bs + ['normals'] + (['rel'] if hasR else [])),
           lenargs=' '.join((['(by omega)'] if hasC else []) + ['(by omega)'] + (['(by omega)'] if hasR else []) + ['(by omega)']),
           rwlens=', '.join((['← h1, setRange_all, h1'] if hasC else []) + ['← h2, setRange_all, h2'] + (['← h3, setRange_all, h3'] if hasR else [])),
           args_l0=' '.join((['curv'] if hasC else []) + avs + bs + ['0', 'normals'] + (['rel'] if hasR else [])))
    return txt
import sys
which = sys.argv[1:] 
out = []
for (s, D, hom) in TYPES:
    for o in ('n','c','r'):
        if which and ('%s_%s' % (o,s)) not in which: continue
        out.append(gen(o, s, D, hom))
print('\n'.join(out))
