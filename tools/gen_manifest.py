#!/usr/bin/env python3
"""Writes /verif/MANIFEST.json from the table below (kept here so the manifest is always schema-valid)."""
import json
import os

VERIF = os.path.dirname(os.path.dirname(os.path.abspath(__file__)))

# property id -> (category, technique, level text, level note, design ref)
CLAIMED = {
    'C18': ('proof', 'Lean 4 theorems on a hand-written model + differential correspondence check + boundary probe',
            'Threshold laws (|v-t|<=eps, v>t-eps, v<t+eps, reliability bands), report consistency over every history of '
            'evaluations/timeouts, the status lattice (commutative, associative, idempotent, = max), worst-of-list = maximum, allOK '
            'and report concatenation/merge are Lean theorems about the model (RomeaProofs/Properties/C18.lean); the model is tied to '
            'the C++ on every run by executing both on generated evaluation sequences with values on the thresholds and +-1 ulp.',
            'Trusted: Lean kernel + {propext, Classical.choice, Quot.sound}; the correspondence check is a seeded differential test; '
            'theorems are over reals on the exact values of the doubles, rounding of t-eps/t+eps is only covered by the tie; '
            'strings are abstracted to classes by harness/c18.cpp.',
            'DESIGN.md section 6, C18'),
}

NOT_YET = {
}


def main():
    props = [json.loads(l)['id'] for l in open(os.path.join(VERIF, 'properties.jsonl'))]
    checks = []
    for pid in props:
        if pid not in CLAIMED:
            continue
        cat, tech, text, note, ref = CLAIMED[pid]
        checks.append({
            'property_id': pid,
            'quick_cmd': 'python3 tools/check.py %s --tier quick' % pid,
            'thorough_cmd': 'python3 tools/check.py %s --tier thorough' % pid,
            'evidence_file': 'evidence/%s.json' % pid,
            'replay_cmd_template': 'python3 tools/check.py %s --replay {path}' % pid,
            'engine': 'lean4-model+correspondence',
            'level_claimed': {'category': cat, 'text': text, 'design_ref': ref},
            'level_note': note,
            'technique': tech,
        })
    na = [{'property_id': p, 'reason': NOT_YET.get(p, 'not claimed yet: the Lean model, theorems and correspondence harness for this property '
                                                 'have not been built in this round (planned, see DESIGN.md section 6/8); no other technique is substituted')}
          for p in props if p not in CLAIMED]
    man = {
        'version': 1,
        'setup_cmd': 'bash tools/setup.sh',
        'hooks': {
            'guard': 'ROMEA_CORE_COMMON_VERIF',
            'enable': 'the harness build in tools/check.py passes -DROMEA_CORE_COMMON_VERIF to every translation unit it compiles from /repo; '
                      'no hook exists in /repo at present (all observation goes through the public API)',
            'baseline_off_cmd': 'bash tools/baseline_off.sh',
            'source_commits': [],
            'add_only': True,
        },
        'engines': [{
            'name': 'lean4-model+correspondence', 'path': 'tools/check.py',
            'serves_properties': [c['property_id'] for c in checks],
            'kind_free_text': 'Lean 4 model (lean/RomeaModel) with theorems (lean/RomeaProofs/Properties), executable drivers (lean/Drivers) '
                              'compared against C++ harnesses (harness/) built from /repo on every run; property probe as failing-input search',
        }],
        'checks': checks,
        'notes': 'See DESIGN.md. known_findings.json lists recorded defects (open) and repaired ones (fixed: <commit>).',
        'not_applicable': na,
    }
    json.dump(man, open(os.path.join(VERIF, 'MANIFEST.json'), 'w'), indent=1)
    print('wrote MANIFEST.json: %d checks, %d not claimed' % (len(checks), len(na)))


if __name__ == '__main__':
    main()
