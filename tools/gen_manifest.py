#!/usr/bin/env python3
"""Writes /verif/MANIFEST.json from the table below (kept here so the manifest is always schema-valid)."""
import json
import os

VERIF = os.path.dirname(os.path.dirname(os.path.abspath(__file__)))

# property id -> (category, technique, level text, level note, design ref)
TECH = 'Lean 4 theorems on a hand-written model + differential correspondence check + property probe'
TECH_BR = ('Lean 4 theorems on a hand-written model + the anchored C++ functions translated to Lean from the working tree on every run '
           '(clang AST -> Lean definitions) with bridge theorems "translated = model" and headline theorems restated on the translated code '
           '+ differential correspondence check + property probe')
BRIDGED = {'C01', 'C02', 'C03', 'C04', 'C05', 'C08', 'C06', 'C07', 'C09', 'C10', 'C11', 'C12', 'C13', 'C14', 'C15', 'C16', 'C17', 'C18', 'C20'}
NOTE = 'Trusted: Lean kernel + {propext, Classical.choice, Quot.sound} (audited per theorem on every run); the hand-written model is tied to the C++ by a seeded differential test, not by proof; '
CLAIMED = {
    'C05': ('proof', TECH,
            'Point-to-plane rows [n, s x n] and residual (t-s).n are the linearised point-to-plane distance; the returned matrix is '
            'scatter(A x + b) with x the least-squares solution of that system (normal equations, minimality among all identity + skew + '
            'translation matrices) from any reachable estimator state; a pure translation is recovered exactly when the normals span the '
            'space; exact identity and bound for the linearisation residual of an exact rotation; invariance under isotropic preconditioning, '
            'indexed vs aligned correspondences, homogeneous vs Cartesian points. 24 theorems in RomeaProofs/Properties/C05.lean (the final '
            'O(t^2) bound on the solution is `rotation_error_second_order_partial`: it still needs a bound on 1/sigma_min(J)). Differential on '
            'all eight point types and four overloads; probe against an independent Householder-QR solution.',
            NOTE + 'built on the C07 solver model; Eigen decompositions are oracle parameters with monitored contracts.',
            'DESIGN.md section 6, C05'),
    'C07': ('proof', TECH,
            'Solver as a state machine (grow-only buffers whose reallocated contents are arbitrary "junk" the theorems quantify over): '
            'normal equations + Pythagoras => minimiser; SVD and Cholesky paths return A (J^T J)^-1 J^T Y + b under their oracle contracts and '
            'agree; weighted variant minimises sum (w_i r_i)^2; covariance formula; and the HISTORY theorems by induction over every op '
            'sequence: the estimate depends only on the estimate size, the preconditioner and rows 0..n-1 of the current problem, so a '
            'smaller problem after a larger one equals a fresh solver. 34 theorems in RomeaProofs/Properties/C07.lean. Differential on problem '
            'sequences with shrinking/growing sizes and stale rows, float and double; probe against an independent QR solve.',
            NOTE + 'JacobiSVD / LDLT are oracle parameters (contracts monitored); the absolute singular-value cut makes badly scaled problems a '
            'separate matter (outside the stated domain, counted by the probe).',
            'DESIGN.md section 6, C07'),
    'C04': ('proof', TECH,
            'For every SVD oracle meeting the contract (U, V orthogonal, S diagonal non-negative descending, A = U S V^T), any dimension and both '
            'point sizes: the linear part is a proper rotation (R^T R = 1, det R = 1 exactly, with the determinant correction); exact recovery '
            'of the rigid motion when the source scatter has rank >= d-1 (coplanar 3D / collinear 2D included; via uniqueness of the PSD '
            'square root); every source is mapped onto its target; invariance under permutation of the correspondences, point '
            'representation and isotropic preconditioning; least-squares optimality among proper rigid motions for d = 2 and 3. '
            '17 theorems in RomeaProofs/Properties/C04.lean. Differential (driver: one-sided Jacobi SVD in Lean Float) within 1e-9 / 1e-4 on '
            'all eight point types; probe compares with an independent Kabsch/Horn solution in long double.',
            NOTE + 'Eigen\'s JacobiSVD is an oracle parameter (contract residual monitored on every call); optimality for d > 3 only under an '
            'unproved trace bound (not instantiated by the code); rounding and float covered by the tie only.',
            'DESIGN.md section 6, C04'),
    'C15': ('proof', TECH,
            'Refinement to an abstract sliding window, for any number of axes, sizes, offsets and history lengths (unbounded, strictly '
            'stronger than the property\'s bounded-exhaustive quantifier): translate keeps well-formedness and get after translate = '
            'Spec.translate of get before; set changes one cell; history theorem by induction over every op sequence; reported offset = '
            'accumulated offset mod n; no 64-bit overflow / negative size_t conversion / out-of-bounds buffer access; and the spec meets the '
            'English statement over absolute map coordinates (a cell undisturbed since it was written reads that value, a cell brought under '
            'the window reads the empty value of that translation). 11 theorems in RomeaProofs/Properties/C15.lean. Exact differential on op '
            'sequences with full dumps; thorough tier enumerates the property\'s bounded space completely (18.6 M state x offset pairs, '
            'compared through a seeded 61-bit digest).',
            NOTE + 'the odometer visiting order of the blanking loop is represented by the set of visited cells (order is irrelevant for the result).',
            'DESIGN.md section 6, C15'),
    'C01': ('proof', TECH,
            'Over RN (reals with absorbing NaN: every division/sqrt guard discharged) on the property\'s domain: toECEF lies on the ellipsoid '
            'normal at height h; longitude recovered for lon in (-pi, pi] (atan2, antimeridian included, -pi maps to pi); the true latitude '
            'is a fixed point of the iteration and the loop body contracts (q = 0.0099), so for fuel >= 8 the round trip is defined, exits, '
            'and returns latitude within 1e-13 rad, exact longitude, height within 0.38 mm; reverse composition within 0.38 mm; output ranges; '
            'the exit threshold is regenerated from the source and pinned (epsilon_bounds). 29 theorems in RomeaProofs/Properties/C01.lean. '
            'Bit-exact differential over 8 named ellipsoids + random ones, boundary lattice incl. both ends of the antimeridian.',
            NOTE + 'floating-point rounding in p/cos(lat) - N near the poles is covered by the tie and the probe only (worst observed 8.3e-5 m).',
            'DESIGN.md section 6, C01'),
    'C02': ('proof', TECH,
            'Frame matrix is a proper rotation with columns east/north/up (HasDerivAt statements identify east and north with the '
            'longitude/latitude derivatives of toECEF); Eigen\'s cofactor inverse of it is exactly its transpose; anchor -> origin, h above '
            'the anchor -> (0,0,h); isometry; toENU/toECEF exact mutual inverses, composition with toWGS84 within 1 mm via C01; and the '
            'history theorem for every op sequence and every scalar type: anchored flag, last anchor wins, reset gives the identity, '
            'auto-anchor on the first geodetic conversion maps that point to the origin. 31 theorems in RomeaProofs/Properties/C02.lean. '
            'Bit-exact differential on op sequences of one converter object.',
            NOTE + 'that every local point of the property\'s domain lies in C01\'s domain is a hypothesis of the 1 mm composition theorem.',
            'DESIGN.md section 6, C02'),
    'C11': ('proof', TECH,
            'Component selection (0,1,5) of mean and covariance and nothing else, embed-then-reduce = identity, symmetry and PSD preserved both '
            'ways, pose action on the position (identity neutral, composition), SmartRotation R = RzRyRx, and the uncertainty ellipse: for '
            'every symmetric PSD 2x2 covariance (rank-deficient included) and every eigen oracle meeting the contract (shown satisfiable '
            'everywhere), major >= minor >= 0 and R diag(major^2, minor^2) R^T / sigma^2 = C. 20 theorems in RomeaProofs/Properties/C11.lean.',
            NOTE + 'the attitude half of the composition law rests on C10\'s rotation round trip and is checked by the probe; Eigen\'s JacobiSVD '
            'is an oracle parameter whose contract is monitored at run time.',
            'DESIGN.md section 6, C11'),
    'C12': ('proof', TECH,
            'SmartRotation3D: reported derivative matrices = true derivative (HasDerivAt for every entry) + a specific non-zero constant term '
            '(characterisation + negative witnesses: the OPEN known finding pinned by the repo\'s tests; any other deviation is a new '
            'violation); dRTdAngles columns; pose covariance = J C J^T with J proved entry by entry (HasDerivAt) to be the Jacobian of the '
            'library\'s own pose map after the repair 67bbb47 (witness theorems against the old Jacobian); PSD preserved; solver covariance = '
            'variance * A (J^T J)^-1 A^T for diagonal A, on a fresh AND on a reused solver (for every history the reported covariance depends on the current problem only: Properties/C12Solver.lean). 27 + 9 theorems. Probe: Richardson finite '
            'differences of the implementation\'s own maps.',
            NOTE + 'the angle rows of the Jacobian hold where the normalised output angle is not 0 (the library\'s map jumps 0 <-> 2pi there).',
            'DESIGN.md section 6, C12'),
    'C09': ('proof', TECH,
            'For every eigen oracle meeting the symmetric-eigen contract and whatever neighbourhood the k-NN oracle returns: normal is unit, '
            'faces the sensor (n.p <= 0), is the direction of least variance, curvature in [0, 1/DIM], planar neighbourhoods give the exact '
            'surface normal and curvature 0, and rotating the cloud rotates every normal (simple smallest eigenvalue). 15 theorems in '
            'RomeaProofs/Properties/C09.lean. Differential (driver: brute-force k-NN + Jacobi eigen-solver) within tolerance on all 8 point '
            'types, 6 overloads, default/zero/junk-initialised normal sets.',
            NOTE + 'Eigen\'s SelfAdjointEigenSolver and the kd-tree are oracle parameters (contract residual monitored at run time; kd-tree is C08).',
            'DESIGN.md section 6, C09'),
    'C06': ('other', 'Lean 4 theorems on the control skeleton of RANSAC/ICP and on the RANSAC sampler with its random engine + scripted-model and bit-exact '
            'sampler differential + RansacIterations translated from the source with bridge theorems + envelope probe (partial)',
            'PARTIAL. Proved on the model of the control skeleton (geometry enters as oracle outputs): the adaptive iteration bound never '
            'increases and stays below the cap, estimateModel terminates and succeeds iff some counted consensus exceeded the draw size, a '
            'successful rigid-model estimate has a best set larger than the draw and at least twice it with RMSE < sigma and every member '
            'within 3 sigma of the candidate that selected it, the one-to-one filter keeps the closest pair per source with no source '
            'repeated or lost, the ICP flag is true iff the loop broke on the convergence test before the cap; literal thresholds are '
            'regenerated from the source and pinned. Proved on the model of the sampler (minstd_rand0 + generate_canonical + '
            'uniform_real_distribution + drawPoints/updateWeights_, exact integers / reals): the engine state never leaves [1, 2^31-2], every '
            'variate is in (0,1), cumulative weights are monotone ending at 1, the drawn index is in bounds with positive weight and is drawn '
            'exactly for u in (cum[i-1], cum[i]], weights stay within [0, initial], drawn TARGET indexes are pairwise distinct while some '
            'weight is positive (always on the ICP filter\'s one-to-one output), the all-zero collapse (0/0) is characterised, and for every '
            'scalar type: the engine is never reseeded and fresh objects given the same calls draw the same indexes. 30 theorems in '
            'RomeaProofs/Properties/C06.lean + bridge theorems for RansacIterations. The headline claim (error <= 0.015 over the whole '
            'displacement envelope; outliers never win) is NOT a theorem: it is probed on scan2d.txt (lattice + random displacements) and '
            'on synthetic outlier sets.',
            'Residue: numerical convergence of the full pipeline, Eigen; the sampler is not yet composed with the skeleton (draw is still an '
            'oracle of the loop theorems). One OPEN known finding: the (+,+,+) corner of the envelope does not converge (recorded region '
            'tx,ty >= 0.175, theta >= 0.045). Category "other" so the claim is not read as a proof of the envelope.',
            'DESIGN.md section 6, C06'),
    'C14': ('proof', TECH,
            'Model of RayCasting (setOrigin/setEnd/next/cast, 2D/3D, float/double decision trees) on its own copy of the grid index map. '
            'Over the reals (origin != end inside the extent): the chain has L1+1 entries, starts in the origin cell, every step is '
            'face-adjacent (the sentinel never wins while a real crossing remains), every visited cell is crossed by the segment and lies in '
            'the grid, the closed last cell contains the end point (= its own cell off borders); for every scalar type incl. Float: a cast '
            'that specifies its end point is independent of every prior state / op sequence (history independence by induction), and the '
            'coincident case (0/0 direction, RN) yields the single origin cell. 23 theorems in RomeaProofs/Properties/C14.lean (model of the repaired, count-bounded caster). Bit-exact '
            'differential on cast sequences reusing one caster (incl. exact-tie cases).',
            NOTE + 'floating-point rounding is outside the real-arithmetic theorems, except the counting theorems (length, face adjacency, in '
            'bounds, ends in the end cell), which hold for every scalar type incl. Float under the stated hypotheses on <; the former '
            'ill-conditioned-axis defect (ray parallel to an axis up to a few ulp straddling a cell border) was repaired in /repo (fix: 5c8bf28, '
            'count-bounded stepping) and is a corpus regression case; the bridge theorems for setOriginPoint/setEndPoint/next carry explicit '
            'no-wrap hypotheses (the translator\'s integers are unbounded); cast() itself is not translated.',
            'DESIGN.md section 6, C14'),
    'C19': ('other', 'Lean 4 theorems on lock-discipline semantics and on an interleaving semantics (reduction to serial execution / linearizability) + '
            'kernel-checked discipline and one-critical-section shape of a lock table regenerated from the clang AST on every run + '
            'ThreadSanitizer probe (partial)',
            'PARTIAL. Proved in Lean for any number of threads, any schedule, unbounded histories: (1) if every plain access of a field '
            'happens while the accessing thread holds the field\'s guard mutex, any two accesses of the same field by different threads are '
            'separated by release -> acquire of that mutex (no data race) and critical sections are serial; the decidable per-method check '
            'is sound. (2) On an executable interleaving semantics whose values are several words copied one step at a time (so torn values '
            'are expressible): if every method body is ONE critical section on the class guard containing all its store accesses, every '
            'reachable state - calls in flight included - equals the serial execution of the calls in guard-acquisition order (program '
            'order, return values, store); hence Herlihy-Wing linearizability to any sequential object the single calls refine; per class: '
            'a SharedVariable load is never torn, SharedOptionalVariable hands every stored value to at most one consumer in store order '
            '(overwritten values dropped), every getReport copy belongs to one evaluation, the online statistics return values of a serial '
            'order. The model of the code is the per-method lock/access event table regenerated from clang\'s AST (local aliases followed) '
            'on every run; `table_disciplined`, `table_lin_shaped`, `table_rate_monitoring_shaped`, `checkup_getReport_shape` are re-checked on it by the kernel '
            '(decide). (3) RateMonitoring (a mutex plus atomics read outside it): writers = one critical section writing the observable atomic '
            'word at most once, readers = one load => every schedule is explained by a serial order (writers in guard-acquisition order, each '
            'reader at its load). (4) For the four check-up classes whose evaluate / timeout are translated from the source, every getReport copy '
            'on every schedule is the initial report or the words of ONE evaluate / timeout call of today\'s source, whose status is the '
            'property\'s classification of that value. Stage C runs the real classes with real threads under ThreadSanitizer with value-consistency checks.',
            'Residue NOT carried by the theorems: the C++ memory model, std::mutex, compiler reordering, the scheduler - only exercised by '
            'the TSan probe; the data flow of the methods is quantified under sequential contracts (witness flows given), not extracted '
            'from the source; for RateMonitoring SharedVariable<Duration> is read as one atomic word and std::atomic load/store as single sequentially consistent steps; tools/gen_locktable.py (AST -> event '
            'table) is a trusted translator that errs towards reporting. Category "other" so that the claim is not read as a proof of the C++.',
            'DESIGN.md section 6, C19'),
    'C10': ('proof', TECH,
            'Over the reals with every asin/acos/division guard discharged: normalisers return a value congruent mod 2pi inside their interval '
            'for inputs in (-4pi,4pi); the quaternion-built matrix equals Rz*Ry*Rx for every association order Eigen uses; SmartRotation3D.R '
            'is the same matrix after any history of init calls; all produced matrices are proper rotations; angles->rotation->angles (mod '
            '2pi, |pitch| < pi/2) and rotation->angles->rotation (R in SO(3), |R20| < 1) round trips, quaternion scale invariance, 2D pair, '
            'polar and spherical round trips. 25 theorems in RomeaProofs/Properties/C10.lean. Bit-exact differential for float and double '
            '(model fmod validated against libm fmod on every run).',
            NOTE + 'floating point is modelled, not verified: oracle tolerances 1e-9 (double) / 1e-4 (float), scaled by the conditioning '
            '16 eps/cos(pitch) for extracted angles and 8 eps/max(sin el, 4 sqrt eps) for the acos-based elevation near the z axis; the '
            'closed upper end 2pi of between0And2Pi is allowed only within one ulp below a multiple of 2pi.',
            'DESIGN.md section 6, C10'),
    'C17': ('proof', TECH,
            'For EVERY interleaving of data stamps and heartbeats and every window W >= 1 (induction over event lists): the monitor\'s rate '
            'is 0 until W+1 stamps and then W*1e9/(s_n - s_(n-W)) unless a heartbeat timed out since the last stamp; a heartbeat times out iff '
            'a stamp exists and it is more than 0.5 s later, forcing the rate to 0, and otherwise changes nothing; the span is positive for '
            'strictly increasing stamps; the rate check-up holds after every event a status/message/value consistent with that rate (ERROR / '
            'no data before the first stamp, STALE / timeout / empty after a timeout, else the C18 classification of the current rate). '
            'The literal constants (4, 64, 0.5 s) are regenerated from the source on every run and pinned by a theorem. '
            'RomeaProofs/Properties/C17.lean; exact differential on event histories for RateMonitoring and both CheckupRate kinds.',
            NOTE + 'the rate is symbolic in the theorems (W*1e9/sum over the reals), its double evaluation and the %g value string are '
            'executed and compared; tools/props/c17.py regen() is a trusted regex translator.',
            'DESIGN.md section 6, C17'),
    'C08': ('proof', TECH,
            'Model of the vendored nanoflann index (build: bounding box, divideTree, middleSplit, planeSplit; search: initial distances, '
            'searchLevel with per-dimension bounds and pruning, KNNResultSet.addPoint). Theorems over any linearly ordered field: on every '
            'well-formed tree the k-NN search equals the exhaustive scan (tie order included), returns exactly the k smallest squared '
            'distances in ascending order each matching its index; the built tree is well-formed (build_wf) for every non-empty point set, '
            'hence kdtree_correct with no residual hypothesis except no overflow of the sentinel. RomeaProofs/Properties/C08.lean. Tie: the '
            'tree read through nanoflann\'s own typed members is identical to the model\'s on every generated set, query results identical on '
            'exact (dyadic/integer) inputs and within ulps otherwise; probe = exact brute force.',
            NOTE + 'floating-point rounding of distances (pruning bound) is covered by the correspondence check and the brute-force probe only.',
            'DESIGN.md section 6, C08'),
    'C13': ('proof', TECH,
            'Floor/ceil arithmetic of GridIndexMapping over the reals (r > 0, L <= U), per axis and for the d-dimensional product: index in '
            'range, point within half a cell of its cell centre, centres map to their own index, spacing = resolution, first/last cells '
            'cover the bounds, symmetric constructor = interval form. RomeaProofs/Properties/C13.lean (14 theorems). Bit-exact differential '
            '(float and double, 2D/3D, bounds at multiples/half-multiples, points on borders +-1 ulp, up to 1e7 cells).',
            NOTE + 'rounding of (p - origin)/resolution at exact cell borders is outside the theorems; the probe allows a few ulp of the '
            'coordinate magnitude on the half-cell bound and demands idx < N exactly.',
            'DESIGN.md section 6, C13'),
    'C20': ('proof', TECH,
            'Over the reals, any dimension: AABB <-> interval round trip, AABB/OBB containment characterisations, the AABB derived from an '
            'OBB encloses it and is tight (each face attained at a corner) for orthogonal R, interval hull is the least enclosing interval, '
            'point-set min/max/mean/scale are the true ones for every non-empty set given harmless initial constants (and a negative theorem '
            'for an initial maximum above the data, the repaired min() defect), container extents. RomeaProofs/Properties/C20.lean. '
            'Differential on boxes, rotations, point sets in every octant for all point types.',
            NOTE + 'containment of points exactly on faces of rotated boxes is decided by rounding: either answer accepted inside the '
            'rounding window only.',
            'DESIGN.md section 6, C20'),
    'C16': ('proof', TECH,
            'For EVERY history of updates/resets, window size and multiplier (unbounded, by induction): the stored window is exactly the last '
            'min(n,W) truncated samples since the last reset, the running sums are their exact sums (no drift), availability <-> n >= W, the '
            'variance formula equals the unbiased sample variance of the window, no 64-bit/32-bit overflow on the property\'s domain; the ring '
            'holds min(n,cap) items and get k is the k-th most recent for every capacity, also after clear (64-bit unsigned index arithmetic '
            'modelled). Theorems in RomeaProofs/Properties/C16.lean; model tied to OnlineAverage/OnlineVariance/RingOfEigenVector by exact '
            'differential runs of op sequences (integer state compared exactly, doubles within 4 ulp).',
            NOTE + 'the double->long long conversion and the final floating-point divisions are executed (at Float) and compared, not proved; '
            'harness reads protected members through subclasses.',
            'DESIGN.md section 6, C16'),
    'C03': ('proof', TECH,
            'Over exact reals with every partial operation guarded (RN): origin -> false origin, central meridian -> x = x0, scale 1 on both '
            'standard parallels / k0 on the tangent parallel, conformality (HasDerivAt of the isometric latitude; orthogonal images, equal '
            'meridian/parallel scale) for either sign of the cone constant, inverse longitude and isometric latitude for both hemispheres, the '
            'latitude loop contracts and the round trip returns the latitude within 1e-13 rad for e <= 0.1 (fuel >= 8). 25 theorems in '
            'RomeaProofs/Properties/C03.lean; model tied to LambertConverter by differential runs over the French zones and random cones of '
            'both hemispheres; probe checks round trip 1e-11 rad, finite-difference conformality and scale.',
            NOTE + 'libm functions are taken as the mathematical functions; floating-point rounding is covered only by the correspondence check '
            'and the probe.',
            'DESIGN.md section 6, C03'),
    'C18': ('proof', 'Lean 4 theorems on a hand-written model + differential correspondence check + boundary probe',
            'Threshold laws (|v-t|<=eps, v>t-eps, v<t+eps, reliability bands), report consistency over every history of '
            'evaluations/timeouts, the status lattice (commutative, associative, idempotent, = max), worst-of-list = maximum, allOK '
            'and report concatenation/merge are Lean theorems about the model (RomeaProofs/Properties/C18.lean); the model is tied to '
            'the C++ on every run by executing both on generated evaluation sequences with values on the thresholds and +-1 ulp.',
            'Trusted: Lean kernel + {propext, Classical.choice, Quot.sound}; the correspondence check is a seeded differential test; '
            'theorems are over reals on the exact values of the doubles, rounding of t-eps/t+eps is only covered by the tie; '
            'strings are abstracted to classes by harness/c18.cpp.',
            'DESIGN.md section 6, C18'),
}

NOT_YET = {
}


def main():
    props = [json.loads(l)['id'] for l in open(os.path.join(VERIF, 'properties.jsonl'))]
    checks = []
    for pid in props:
        if pid not in CLAIMED:
            continue
        cat, tech, text, note, ref = CLAIMED[pid]
        if pid in BRIDGED and tech == TECH:
            tech = TECH_BR
        # theorem counts quoted in the text are recounted from the property module (non-private `theorem`s)
        pm = os.path.join(VERIF, 'lean', 'RomeaProofs', 'Properties', pid + '.lean')
        if os.path.exists(pm):
            import re as _re
            n_thm = len(_re.findall(r'^theorem ', open(pm).read(), _re.M))
            text = _re.sub(r'\d+( \+ \d+)? theorems in RomeaProofs/Properties/%s\.lean' % pid, '%d theorems in RomeaProofs/Properties/%s.lean' % (n_thm, pid), text)
        # the number of audited theorems (property + bridge modules) is taken from the evidence of the last run of the check
        ev = os.path.join(VERIF, 'evidence', pid + '.json')
        if os.path.exists(ev):
            try:
                cov = json.load(open(ev)).get('coverage', {})
                if cov.get('obligations'):
                    text += (' Audited theorems on the last run (property, lemma-free bridge and restated-headline modules; axioms within '
                             '{propext, Classical.choice, Quot.sound}): %d, all discharged.' % cov['obligations'])
            except Exception:
                pass
        checks.append({
            'property_id': pid,
            'quick_cmd': 'python3 tools/check.py %s --tier quick' % pid,
            'thorough_cmd': 'python3 tools/check.py %s --tier thorough' % pid,
            'evidence_file': 'evidence/%s.json' % pid,
            'replay_cmd_template': 'python3 tools/check.py %s --replay {path}' % pid,
            'engine': 'lean4-model+correspondence',
            'level_claimed': {'category': cat, 'text': text, 'design_ref': ref},
            'level_note': note,
            'technique': tech,
        })
    na = [{'property_id': p, 'reason': NOT_YET.get(p, 'not claimed yet: the Lean model, theorems and correspondence harness for this property '
                                                 'have not been built in this round (planned, see DESIGN.md section 6/8); no other technique is substituted')}
          for p in props if p not in CLAIMED]
    man = {
        'version': 1,
        'setup_cmd': 'bash tools/setup.sh',
        'hooks': {
            'guard': 'ROMEA_CORE_COMMON_VERIF',
            'enable': 'the harness build in tools/check.py passes -DROMEA_CORE_COMMON_VERIF to every translation unit it compiles from /repo; '
                      'no hook exists in /repo at present (all observation goes through the public API)',
            'baseline_off_cmd': 'bash tools/baseline_off.sh',
            'source_commits': [],
            'add_only': True,
        },
        'engines': [{
            'name': 'lean4-model+correspondence', 'path': 'tools/check.py',
            'serves_properties': [c['property_id'] for c in checks],
            'kind_free_text': 'Lean 4 model (lean/RomeaModel) with theorems (lean/RomeaProofs/Properties), executable drivers (lean/Drivers) '
                              'compared against C++ harnesses (harness/) built from /repo on every run; property probe as failing-input search',
        }],
        'checks': checks,
        'notes': 'See DESIGN.md. known_findings.json lists recorded defects (open) and repaired ones (fixed: <commit>).',
        'not_applicable': na,
    }
    json.dump(man, open(os.path.join(VERIF, 'MANIFEST.json'), 'w'), indent=1)
    print('wrote MANIFEST.json: %d checks, %d not claimed' % (len(checks), len(na)))


if __name__ == '__main__':
    main()
