#!/usr/bin/env python3
"""Writes the prompts for one round of independent seeded changes: tools/prompts/mutants/<Cxx><round>.txt (and a copy under
/tmp/mutprompts/ that the sub-agents read, since they must not look into /verif). A sub-agent gets ONLY the property text, the
build/test recipe and — from round b on — one-line descriptions of the changes already produced for that property (so that it picks
another site and idea). usage: gen_mutant_prompts.py <round letter> [Cxx ...]"""
import json
import os
import sys

V = os.path.dirname(os.path.dirname(os.path.abspath(__file__)))
rnd = sys.argv[1]
only = sys.argv[2:]
tpl = open(os.path.join(V, 'tools', 'prompts', 'mutant.txt')).read()
props = [json.loads(l) for l in open(os.path.join(V, 'properties.jsonl'))]
prev = {}
for name in sorted(os.listdir(os.path.join(V, 'seeded'))):
    mp = os.path.join(V, 'seeded', name, 'meta.json')
    if os.path.exists(mp):
        m = json.load(open(mp))
        prev.setdefault(m['property'], []).append(m.get('summary') or name)
HARD = """
HARDER VARIANT — additional requirements for this round
- Make the trigger NARROW or DEEP: either the inputs on which behaviour changes occupy a tiny fraction (well under 1e-4) of the
  property's input domain under any natural sampling of that domain AND are not the obvious boundary values an ordinary
  boundary-value test would try (exact zero, exact +-pi, minimum/maximum sizes, exact thresholds), or the change needs a history of
  at least three specific steps on one object (or state shared between objects / calls), or two cooperating edits at different
  sites that each look harmless alone. Inside the trigger region the property must fail clearly (not by rounding noise).
- Use a different site and a different idea from these changes that were already produced for this property:
%s
- Prefer a site in the anchored files that the earlier changes did NOT touch, and a clause of the property's statement they did not
  break. State in notes.txt your estimate of the fraction of the input domain (or the kind of history) that triggers the failure.
"""
os.makedirs('/tmp/mutprompts', exist_ok=True)
for p in props:
    pid = p['id']
    if only and pid not in only:
        continue
    a = p['anchors']
    text = 'TITLE: %s\nSTATEMENT: %s\nQUANTIFIER: %s\nANCHORED FILES: %s\nMECHANISMS: %s' % (
        p['title'], p['statement'], p['quantifier']['text'], ', '.join(a['files']),
        '; '.join('%s (%s)' % (m['name'], m['where']) for m in a['mechanism']))
    tag = pid.lower() + rnd
    s = tpl
    for k, v in {'wt': '/tmp/mut_' + tag, 'out': '/tmp/mutout_' + tag, 'pid': pid, 'text': text}.items():
        s = s.replace('%(' + k + ')s', v)
    if rnd != 'a':
        hard = HARD % '\n'.join('    * ' + x for x in prev.get(pid, []))
        s = s.replace('\nThe property your change must break', hard + '\nThe property your change must break')
    for d in (os.path.join(V, 'tools', 'prompts', 'mutants'), '/tmp/mutprompts'):
        open(os.path.join(d, '%s%s.txt' % (pid, rnd)), 'w').write(s)
    print(pid + rnd)
