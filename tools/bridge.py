"""Stage-G hook for "tie no. 2" of numerical / decision code (DESIGN.md 2.5b).

A plugin declares `BRIDGE_SPEC` (which functions of which sources are translated) and calls

    info.update(bridge.regen_bridge(ctx, BRIDGE_SPEC))

from its `regen(ctx)` hook (stage G of tools/check.py, which runs it under the Lean build lock), and lists the bridge module
`RomeaProofs.Bridge.<Cxx>` in `PROOF_MODULES`. On every run `tools/cxx2lean.py` re-translates the CURRENT source of the
selected functions (from `ctx['repo']`) into `lean/RomeaModel/Generated/Src<Cxx>.lean`; stage A then re-checks the bridge
theorems (`translated function = hand-written model function`) against it. The generated file is rewritten only when its
content changes, so that `lake build` stays incremental. Nothing is cached across runs.
"""
import os
import time

import cxx2lean

# specs of properties whose plugin is owned by another builder: the plugin only has to call
#     info.update(bridge.regen_bridge(ctx, bridge.SPECS['C06']))      (inside its regen hook)
# and to list 'RomeaProofs.Bridge.C06' in PROOF_MODULES
SPECS = {
    'C06': {
        'id': 'C06',
        'extra_filters': ['EPSILON', 'MAXIMAL_NUMBER_OF_ITERATIONS'],      # anonymous-namespace constants
        'sources': ['src/regression/ransac/RansacIterations.cpp', 'src/regression/ransac/Ransac.cpp'],
        'abstract_classes': ['RansacModel'],      # the virtual RansacModel calls of estimateModel thread an abstract model state σ
        'imports': ['RomeaModel.Rotation'],       # DoubleConv: the constructor takes `const float & fittingProbability`
        'opens': ['Romea.Rotation'],
        'functions': [{'cxx': 'RansacIterations::RansacIterations'}, {'cxx': 'RansacIterations::update'},
                      {'cxx': 'RansacIterations::get'}, {'cxx': 'Ransac::estimateModel'}],
    },
}


def regen_bridge(ctx, spec):
    t0 = time.time()
    pid = spec['id']
    # one translator for every spec; the spec-wide options (`vector_encoding`, `incr_encoding`, `unsigned_wrap`, …) are described in
    # its module docstring; tools/regen_all_bridges.py re-translates every spec and compares with the committed generated files
    text, tinfo = cxx2lean.translate(ctx['repo'], ctx['scratch'], spec)
    rel = 'RomeaModel/Generated/Src%s.lean' % pid
    path = os.path.join(ctx['lean'], rel)
    old = open(path).read() if os.path.exists(path) else None
    info = {'file': rel, 'translated': sorted(tinfo['translated'].keys()), 'untranslatable': tinfo['untranslatable'],
            'rewritten': False}
    if old != text:
        os.makedirs(os.path.dirname(path), exist_ok=True)
        with open(path, 'w') as f:
            f.write(text)
        info['rewritten'] = True
    for name, why in tinfo['untranslatable'].items():
        ctx['notes'].append('bridge: `%s` could not be translated from the current source (%s): the generated file has no '
                            'definition of it, so the bridge theorems about it fail in stage A' % (name, why))
    info['seconds'] = round(time.time() - t0, 2)
    return {'bridge': info}
