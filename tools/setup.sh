#!/bin/bash
# MANIFEST.setup_cmd: builds the Lean model, all drivers and all proof modules from files on disk.
# Every check rebuilds (incrementally) what it needs and reports a broken obligation itself, so a
# failing module here is reported but does not abort the setup of the others.
cd "$(dirname "$0")/../lean" || exit 1
rc=0
lake build RomeaModel 2>&1 | tail -3 || rc=1
for f in Drivers/C*.lean; do
  [ -f "$f" ] || continue
  t="drv_$(basename "$f" .lean | tr 'A-Z' 'a-z')"
  lake build "$t" 2>&1 | tail -1
done
for f in RomeaProofs/Properties/C*.lean RomeaProofs/Bridge/C*.lean RomeaProofs/Hidden/C*.lean; do
  [ -f "$f" ] || continue
  m="RomeaProofs.$(basename "$(dirname "$f")").$(basename "$f" .lean)"
  if ! lake build "$m" > /tmp/romea_setup_$$.log 2>&1; then
    echo "setup: $m does NOT build:"; grep -E "^error" /tmp/romea_setup_$$.log | head -5
  else
    echo "setup: $m ok"
  fi
  rm -f /tmp/romea_setup_$$.log
done
exit 0
