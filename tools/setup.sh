#!/bin/bash
# MANIFEST.setup_cmd: builds the Lean model, all drivers and all proof modules from files on disk.
set -e
cd "$(dirname "$0")/../lean"
TARGETS="RomeaModel RomeaProofs"
for f in Drivers/C*.lean; do
  [ -f "$f" ] && TARGETS="$TARGETS drv_$(basename "$f" .lean | tr 'A-Z' 'a-z')"
done
echo "lake build $TARGETS"
lake build $TARGETS 2>&1 | tail -5
