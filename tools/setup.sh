#!/bin/bash
# MANIFEST.setup_cmd: builds the Lean model, all drivers and all proof modules from files on disk.
set -e
cd "$(dirname "$0")/../lean"
TARGETS="RomeaModel RomeaProofs $(grep -A1 '^\[\[lean_exe\]\]' lakefile.toml | grep '^name' | sed 's/name = "\(.*\)"/\1/' | tr '\n' ' ')"
echo "lake build $TARGETS"
lake build $TARGETS 2>&1 | tail -5
