import json,os
S={
'c04b-precond-grow-only': "`PreconditionedPointSet::allocate_()` made grow-only (`if (points_.size() < n) resize(n)`): after a re-`compute()` with fewer points the set keeps a stale tail — needs one preconditioned source/target pair re-computed with N2 < N1 points, then `find(precSrc, precTgt)` without a correspondence list (3-step history on reused objects)",
'c05b-svd-iszero-early-exit': "`if (JtY_.isZero()) return Bc_;` in `LeastSquares::estimateUsingSVD`: Eigen's `isZero()` is an absolute 1e-5 / 1e-12 threshold on preconditioned coordinates — needs a down-scaling preconditioner (1e-3..1e-2) and a motion below ~2.5e-3·dim/N of the cloud diameter (identity returned; ~1e-8 of the joint domain)",
'c07b-setdatasize-early-return': "`setDataSize` returns early when `Y_.rows() == dataSize` before `dataSize_` is updated: the active row count goes stale — needs solve N rows, then M < N, then exactly N again on one solver (third solve uses only M rows)",
'c08b-float-split-bounds': "nanoflann `Node::sub.divlow/divhigh` narrowed to `float`: for double point types whose coordinates are ≥ 1e6 × the point spacing (map / UTM frames) the split bounds are rounded to nearest and the search skips a subtree holding a closer point",
'c09b-knn-resultset-member': "`KdTree::findNearestNeighbors` keeps its k-NN result set as a lazily created member whose capacity stays at the k of the first query on that tree — needs one KdTree used by estimations with k1 then k2 > k1 (k2 < k1: heap overflow); fresh trees are bit-identical",
'c10b-smart-init-vector-cache': "`SmartRotation3D::init(const Vector3d &)` returns early when its argument equals a member recorded only by that overload; the scalar `init(x,y,z)` does not update it — needs `init(v); init(x,y,z); init(v)` with bit-identical v on one object",
'c11b-trace-fast-path': "'pure translation' fast path in `operator*(Affine3d, Pose3D)` taken when `|trace(R) − 3| < 1e-6`: the trace is quadratically insensitive, so every rotation below 1e-3 rad is silently dropped (~1e-11 of uniform Euler angles; exact identity still right)",
'c12b-stale-inverse-jtj': "two cooperating edits in LeastSquares.cpp: the Cholesky / weighted paths no longer store `inverseJtJ_`, `computeEstimateCovariance` inverts on demand only when the cache `isZero()` — needs estimate + covariance (or an SVD estimate), new J, Cholesky / weighted estimate, covariance (reports the covariance of the OLD problem)",
'c14b-epsilon-step-sign': "step sign in `RayCasting::setEndPoint` compared against ±`numeric_limits::epsilon()` instead of 0: a ray with 0 < |dir_i| ≤ eps whose ends straddle a cell border on axis i gets step 0 with one crossing left — chain repeats its last cell and ends one row off (~1e-12 of float rays)",
'c15b-linear-index-memo': "three cooperating sites in WrappableGrid.hpp: `computeCellLinearIndex_` memoises the last looked-up cell; `translate()` resets the memo before the blanking loop, which refills it under the old offset — needs a translate with non-zero wrapped offset followed by a FIRST access to one specific cell",
'c19b-timeout-unlocked-pair': "two cooperating edits: `CheckupRate::heartBeatCallback` calls `checkup_.timeout()` after releasing its mutex, and `Checkup<T>::timeout()` loses its `lock_guard` ('the only caller serialises it') — needs evaluate, then a heartbeat > 0.5 s later overlapping `getReport`/`evaluate` (torn report copies)",
'c20b-running-mean-stale': "`PointSetPreconditioner::compute` keeps a running mean `mean += (p − mean)/(n+1)` without resetting it: the first point is absorbed when the left-over mean is ≥ 1e5 (float) / 1e13 (double) times larger — needs compute() on a far-away cloud, then compute() on a small one, same object",
}
for n,s in S.items():
    p='/verif/seeded/%s/meta.json'%n
    if os.path.exists(p):
        m=json.load(open(p)); m['summary']=s; json.dump(m,open(p,'w'),indent=1)
print('done')
