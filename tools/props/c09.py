"""C09 — surface normals and curvature (DESIGN.md section 6, C09)."""
import math
from vlib import D, S, tok_val, to_f32

ID = 'C09'
LEVEL = 'proof'
DRIVER = 'drv_c09'
HARNESS = 'c09.cpp'
SOURCES = ['src/pointset/algorithms/NormalAndCurvatureEstimation.cpp', 'src/pointset/KdTree.cpp']
PROOF_MODULES = ['RomeaProofs.Properties.C09']
HANG_SECS = 120
TRUSTED = ['harness/c09.cpp: brute-force neighbourhoods, reference covariance and eigenvalues in long double (own Jacobi iteration)',
           'the k-NN query and Eigen::SelfAdjointEigenSolver are parameters of the model (contracts: C08 statement / IsEigSym); '
           'the driver plugs in a brute-force search and a Jacobi iteration in Lean Float, the harness monitors the eigen-pair '
           'residual of the normal the library actually returned']
ASSUMPTIONS = ['theorems over the reals for every oracle satisfying the contracts; floating-point rounding and the float '
               'instantiations are covered by the tolerance-checked correspondence and the probe only',
               'neighbourhoods with relative eigen-gap (l1-l0)/lmax <= 1e-6 or with (nearly) tied k-th / (k+1)-th neighbour '
               'distances are outside the property\'s quantifier: only unit length and orientation are checked there',
               'tolerances: 1e-9 (double) / 1e-4 (float) plus the first-order rounding bound 64 eps (tr + |p| sqrt(tr))/(l1-l0)']
EXPLANATION = ('proof (under the k-NN and eigen-solver contracts) of unit length, orientation, least variance, curvature range and '
               'planar exactness on the Lean model + differential correspondence within tolerance + property probe against '
               'long-double brute-force references')

TYPES = ['c2d', 'c3d', 'h2d', 'h3d', 'c2f', 'c3f', 'h2f', 'h3f']
OVERLOADS = ['n', 'nt', 'c', 'ct', 'r', 'rt']
INITS = ['default', 'zero', 'junk']
NDIAG = 8


def _dim(ty):
    return int(ty[1])


def _eps(ty):
    return 2.0 ** -23 if ty[2] == 'f' else 2.0 ** -52


def _base(ty):
    return 1e-4 if ty[2] == 'f' else 1e-9


# ------------------------------------------------------------------------------------------- generators
def _unit(rng, dim):
    while True:
        v = [rng.gauss() for _ in range(dim)]
        n = math.sqrt(sum(c * c for c in v))
        if n > 1e-3:
            return [c / n for c in v]


def _basis(u):
    """orthonormal vectors spanning the hyperplane orthogonal to the unit vector u"""
    dim = len(u)
    if dim == 2:
        return [[-u[1], u[0]]]
    a = [1.0, 0.0, 0.0] if abs(u[0]) < 0.9 else [0.0, 1.0, 0.0]
    d = sum(x * y for x, y in zip(a, u))
    e1 = [x - d * y for x, y in zip(a, u)]
    n1 = math.sqrt(sum(c * c for c in e1))
    e1 = [c / n1 for c in e1]
    e2 = [u[1] * e1[2] - u[2] * e1[1], u[2] * e1[0] - u[0] * e1[2], u[0] * e1[1] - u[1] * e1[0]]
    return [e1, e2]


def _plane_pts(rng, dim, n, u, c, extent, noise=0.0):
    """n irregularly placed points on the hyperplane u.x = c (|u| = 1), within `extent` of its foot point"""
    B = _basis(u)
    pts = []
    for _ in range(n):
        p = [c * ui for ui in u]
        for e in B:
            s = rng.uniform(-extent, extent)
            p = [pi + s * ei for pi, ei in zip(p, e)]
        if noise:
            g = rng.gauss() * noise
            p = [pi + g * ui for pi, ui in zip(p, u)]
        pts.append(p)
    return pts


def _cloud(rng, dim, n, shape):
    meta = {'shape': shape}
    if shape == 'planar':
        u = _unit(rng, dim)
        c = rng.uniform(0.5, 8.0) * rng.choice([-1, 1])
        pts = _plane_pts(rng, dim, n, u, c, rng.uniform(1.0, 6.0))
        meta.update(u=u, c=c)
    elif shape == 'piecewise':
        pts = []
        parts = rng.int(2, 4)
        for j in range(parts):
            u = _unit(rng, dim)
            c = rng.uniform(1.0, 6.0)
            m = n // parts + (1 if j < n % parts else 0)
            pts += _plane_pts(rng, dim, m, u, c, rng.uniform(1.0, 4.0))
    elif shape == 'curved':
        ctr = [rng.uniform(-3, 3) for _ in range(dim)]
        R = rng.uniform(2.0, 10.0)
        pts = []
        a0 = rng.uniform(0, 2 * math.pi)
        for _ in range(n):
            if dim == 2:
                a = a0 + rng.uniform(0, 1.5)
                pts.append([ctr[0] + R * math.cos(a), ctr[1] + R * math.sin(a)])
            else:
                a = a0 + rng.uniform(0, 1.0)
                b = rng.uniform(0.3, 1.2)
                pts.append([ctr[0] + R * math.cos(a) * math.sin(b), ctr[1] + R * math.sin(a) * math.sin(b), ctr[2] + R * math.cos(b)])
    elif shape == 'noisy':
        u = _unit(rng, dim)
        c = rng.uniform(1.0, 8.0) * rng.choice([-1, 1])
        pts = _plane_pts(rng, dim, n, u, c, rng.uniform(1.0, 6.0), noise=rng.choice([1e-3, 1e-2, 5e-2]))
    else:   # 'blob': isotropic scatter, small eigen-gaps occur
        pts = [[rng.gauss() + 4.0 for _ in range(dim)] for _ in range(n)]
    return pts, meta


def _rotation(rng, dim):
    if dim == 2:
        a = rng.uniform(-math.pi, math.pi)
        return [[math.cos(a), -math.sin(a)], [math.sin(a), math.cos(a)]]
    x, y, z = _unit(rng, 3)
    a = rng.uniform(-math.pi, math.pi)
    c, s, C = math.cos(a), math.sin(a), 1 - math.cos(a)
    return [[c + x * x * C, x * y * C - z * s, x * z * C + y * s],
            [y * x * C + z * s, c + y * y * C, y * z * C - x * s],
            [z * x * C - y * s, z * y * C + x * s, c + z * z * C]]


def _line(ty, k, ov, init, pts):
    if ty[2] == 'f':
        tok, pts = S, [[to_f32(c) for c in p] for p in pts]
    else:
        tok = D
    return 'nrm.compute %s %d %s %s %d %s' % (ty, k, ov, init, len(pts), ' '.join(tok(c) for p in pts for c in p)), pts


def gen_cases(rng, tier):
    cases = []
    n_clouds = 100 if tier == 'quick' else 2000
    for i in range(n_clouds):
        ty = TYPES[i % 8]
        dim = _dim(ty)
        k = rng.choice([3, 30]) if rng.chance(0.25) else rng.int(3, 30)
        r = rng.below(100)
        if r < 8:
            n = k + 1
        elif r < 12:
            n = 2000 if tier == 'thorough' or i % 25 == 0 else rng.int(300, 600)
        elif r < 60:
            n = rng.int(k + 1, 120)
        else:
            n = rng.int(k + 1, 600)
        shape = ['planar', 'planar', 'piecewise', 'curved', 'noisy', 'noisy', 'blob'][rng.below(7)]
        pts, meta = _cloud(rng, dim, n, shape)
        ov = rng.choice(OVERLOADS)
        lines, stored = [], []
        line, sp = _line(ty, k, ov, rng.choice(INITS), pts)
        lines.append(line)
        stored.append(sp)
        rots = []
        if rng.chance(0.4):
            for _ in range(rng.int(1, 3)):
                R = _rotation(rng, dim)
                rp = [[sum(R[a][b] * p[b] for b in range(dim)) for a in range(dim)] for p in pts]
                line, sp = _line(ty, k, ov, rng.choice(INITS), rp)
                lines.append(line)
                stored.append(sp)
                rots.append(R)
        meta.update(ty=ty, k=k, ov=ov, rots=rots)
        cases.append({'name': 'cloud-%s-%s-%d' % (ty, shape, i), 'lines': lines, 'meta': meta})
    return cases


# ------------------------------------------------------------------------------------------- parsing
def _parse(op, out, with_diag):
    """-> list of per-point dicts {n, w, curv, rel, [diag...]}"""
    tk = op.split()
    ty, ov, n = tk[1], tk[3], int(tk[5])
    dim, hom = _dim(ty), ty[0] == 'h'
    has_c, has_r = ov in ('c', 'ct', 'r', 'rt'), ov in ('r', 'rt')
    per = dim + (1 if hom else 0) + (1 if has_c else 0) + (1 if has_r else 0)
    f = out.split()
    if len(f) < 2 or f[0] != 'ok' or int(f[1]) != n:
        return None
    body = f[2:2 + per * n]
    if len(body) != per * n:
        return None
    diag = None
    if with_diag:
        rest = f[2 + per * n:]
        if len(rest) != 1 + NDIAG * n or rest[0] != '|':
            return None
        diag = [tok_val(x) for x in rest[1:]]
    elif len(f) != 2 + per * n:
        return None
    pts = []
    for i in range(n):
        r = [tok_val(x) for x in body[per * i: per * (i + 1)]]
        d = {'n': r[:dim]}
        j = dim
        if hom:
            d['w'] = r[j]
            j += 1
        if has_c:
            d['curv'] = r[j]
            j += 1
        if has_r:
            d['rel'] = r[j]
        if diag is not None:
            g = diag[NDIAG * i: NDIAG * (i + 1)]
            d.update(gap=g[0], knngap=g[1], lv=g[2], res=g[3], rcurv=g[4], rrelinv=g[5], tr=g[6], l1=g[7])
        pts.append(d)
    return pts


def _coords(op):
    tk = op.split()
    dim, n = _dim(tk[1]), int(tk[5])
    v = [tok_val(x) for x in tk[6:]]
    return [v[dim * i: dim * (i + 1)] for i in range(n)]


def _tol(ty, d, p):
    """comparison tolerance of one point: the property's base tolerance plus the first-order rounding bound of an eigenvector
    of a covariance accumulated in the scalar type (perturbation of C over the eigen-gap)"""
    lmax_gap = d['l1'] - (d['rcurv'] * d['tr'])          # l1 - l0 of the reference covariance
    pn = math.sqrt(sum(c * c for c in p))
    if not (lmax_gap > 0):
        return float('inf')
    return _base(ty) + 64.0 * _eps(ty) * (d['tr'] + pn * math.sqrt(max(d['tr'], 0.0))) / lmax_gap


def _rtol(ty, d, p):
    """tolerance on 1/reliability = l0 / min(l1, ..): eigenvalue perturbation over the second eigenvalue"""
    pn = math.sqrt(sum(c * c for c in p))
    if not (d['l1'] > 0):
        return float('inf')
    return 10 * _base(ty) + 64.0 * _eps(ty) * (d['tr'] + pn * math.sqrt(max(d['tr'], 0.0))) / d['l1']


def _in_scope(ty, d):
    """inside the property's quantifier and with an unambiguous neighbourhood"""
    return d['gap'] > 1e-6 and d['knngap'] > (1e-5 if ty[2] == 'f' else 1e-9)


def _inv(x):
    if math.isinf(x):
        return 0.0
    if x == 0 or math.isnan(x):
        return float('inf')
    return 1.0 / x


# ------------------------------------------------------------------------------------------- B: comparison
def compare(case, li, op, impl, model):
    if impl in ('bad-op',) or model in ('bad-op',):
        return impl == model
    a = _parse(op, impl, True)
    b = _parse(op, model, False)
    if a is None or b is None or len(a) != len(b):
        return False
    ty = op.split()[1]
    pts = _coords(op)
    for x, y, p in zip(a, b, pts):
        if not _in_scope(ty, x):
            continue
        tol = _tol(ty, x, p)
        if any(abs(u - v) > tol for u, v in zip(x['n'], y['n'])):
            # the orientation test itself is ambiguous when the point lies (nearly) in the estimated tangent plane
            pn = math.sqrt(sum(c * c for c in p)) or 1.0
            if abs(sum(u * c for u, c in zip(x['n'], p))) / pn < 10 * tol and all(abs(u + v) <= tol for u, v in zip(x['n'], y['n'])):
                continue
            return False
        if 'w' in x and not (x['w'] == 0 and y['w'] == 0):
            return False
        ctol = _base(ty) + 64.0 * _eps(ty) * (1.0 + math.sqrt(sum(c * c for c in p)) / math.sqrt(max(x['tr'], 1e-300)))
        if 'curv' in x and not abs(x['curv'] - y['curv']) <= ctol:
            return False
        if 'rel' in x and not abs(_inv(x['rel']) - _inv(y['rel'])) <= _rtol(ty, x, p):
            return False
    return True


# ------------------------------------------------------------------------------------------- C: oracle
def oracle(case, out, stats):
    fails = []
    meta = case['meta']
    parsed = []
    for line, o in zip(case['lines'], out):
        tk = line.split()
        ty, k = tk[1], int(tk[2])
        dim = _dim(ty)
        stats['clouds'] = stats.get('clouds', 0) + 1

        def bad(kind, detail, **fields):
            if len(fails) < 5:
                fails.append({'kind': kind, 'detail': '%s ... -> %s' % (' '.join(tk[:6]), detail), 'fields': dict(fields, type=ty, init=tk[4])})
        if o in ('abort', 'hang', 'exception', 'skipped', 'bad-op'):
            bad('outcome-' + o, 'unexpected outcome')
            parsed.append(None)
            continue
        recs = _parse(line, o, True)
        if recs is None:
            bad('malformed', 'unparsable output')
            parsed.append(None)
            continue
        pts = _coords(line)
        parsed.append((recs, pts))
        base = _base(ty)
        for i, (d, p) in enumerate(zip(recs, pts)):
            stats['points'] = stats.get('points', 0) + 1
            nn = math.sqrt(sum(c * c for c in d['n']))
            pn = math.sqrt(sum(c * c for c in p))
            if not abs(nn - 1.0) <= base:
                bad('unit', 'point %d: |n| = %r' % (i, nn))
            if not sum(u * c for u, c in zip(d['n'], p)) <= 8 * _eps(ty) * pn:
                bad('faces-sensor', 'point %d: n.p = %r > 0 (p = %r, n = %r)' % (i, sum(u * c for u, c in zip(d['n'], p)), p, d['n']))
            if 'w' in d and d['w'] != 0:
                bad('homogeneous-w', 'point %d: homogeneous coordinate of the normal is %r' % (i, d['w']))
            if 'curv' in d and not (-base <= d['curv'] <= 1.0 / dim + base):
                if not (d['tr'] == 0 and math.isnan(d['curv'])):
                    bad('curvature-range', 'point %d: curvature %r outside [0, 1/%d]' % (i, d['curv'], dim))
            if not _in_scope(ty, d):
                stats['out_of_scope'] = stats.get('out_of_scope', 0) + 1
                continue
            stats['in_scope'] = stats.get('in_scope', 0) + 1
            tol = _tol(ty, d, p)
            if not d['lv'] <= base + tol * tol:
                bad('least-variance', 'point %d: excess variance along the normal %r of the trace (gap %r)' % (i, d['lv'], d['gap']))
            if not d['res'] <= 4 * tol:
                bad('eigen-contract', 'point %d: eigen-pair residual of the returned normal %r (gap %r)' % (i, d['res'], d['gap']))
            ctol = base + 64.0 * _eps(ty) * (1.0 + pn / math.sqrt(max(d['tr'], 1e-300)))
            if 'curv' in d and not abs(d['curv'] - d['rcurv']) <= ctol:
                bad('curvature-value', 'point %d: curvature %r, reference l0/trace %r' % (i, d['curv'], d['rcurv']))
            if 'rel' in d and not abs(_inv(d['rel']) - d['rrelinv']) <= _rtol(ty, d, p):
                bad('reliability-value', 'point %d: reliability %r, reference inverse %r' % (i, d['rel'], d['rrelinv']))
            if meta.get('shape') == 'planar':
                # stored coordinates are rounded: allow for the actual distance of the stored points from the plane
                R = None
                li = case['lines'].index(line)
                u, c = meta['u'], meta['c']
                if li > 0:
                    R = meta['rots'][li - 1]
                    u = [sum(R[a][b] * u[b] for b in range(dim)) for a in range(dim)]
                off = 4 * _eps(ty) * pn
                ptol = tol + 4 * off * math.sqrt(max(d['tr'], 0.0)) / max(d['l1'], 1e-300)
                sgn = -1.0 if c > 0 else 1.0
                if any(abs(a - sgn * b) > ptol for a, b in zip(d['n'], u)):
                    bad('planar-exact', 'point %d: normal %r, plane normal %r (tol %r)' % (i, d['n'], [sgn * x for x in u], ptol))
                if 'curv' in d and not abs(d['curv']) <= ctol + (off * off) / max(d['tr'], 1e-300):
                    bad('planar-exact', 'point %d: curvature %r on a planar cloud' % (i, d['curv']))
                stats['planar_points'] = stats.get('planar_points', 0) + 1
    # rotational equivariance: line j > 0 is line 0 rotated by meta['rots'][j-1]
    if parsed and parsed[0] is not None and meta.get('rots'):
        ty = case['lines'][0].split()[1]
        dim = _dim(ty)
        base_recs, base_pts = parsed[0]
        for j, R in enumerate(meta.get('rots', [])):
            if j + 1 >= len(parsed) or parsed[j + 1] is None:
                continue
            recs, pts = parsed[j + 1]
            for i, (a, b) in enumerate(zip(base_recs, recs)):
                if not (_in_scope(ty, a) and _in_scope(ty, b)):
                    continue
                tol = 2 * (_tol(ty, a, base_pts[i]) + _tol(ty, b, pts[i]))
                rn = [sum(R[x][y] * a['n'][y] for y in range(dim)) for x in range(dim)]
                pn = math.sqrt(sum(c * c for c in base_pts[i])) or 1.0
                if abs(sum(u * c for u, c in zip(a['n'], base_pts[i]))) / pn < 10 * tol:
                    continue      # point in its own tangent plane: orientation not determined
                stats['rotation_pairs'] = stats.get('rotation_pairs', 0) + 1
                if any(abs(x - y) > tol for x, y in zip(rn, b['n'])) and len(fails) < 5:
                    fails.append({'kind': 'rotation-equivariance', 'detail': 'cloud %s point %d: R n = %r, normal of the rotated cloud %r (tol %r)' % (
                        case['name'], i, rn, b['n'], tol), 'fields': {'type': ty}})
                if 'curv' in a and abs(a['curv'] - b['curv']) > tol and len(fails) < 5:
                    fails.append({'kind': 'rotation-equivariance', 'detail': 'cloud %s point %d: curvature %r vs %r after rotation' % (
                        case['name'], i, a['curv'], b['curv']), 'fields': {'type': ty}})
    return fails
