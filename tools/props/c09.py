"""C09 — surface normals and curvature (DESIGN.md section 6, C09)."""
import math
from vlib import D, S, tok_val, to_f32

ID = 'C09'
LEVEL = 'proof'
DRIVER = 'drv_c09'
HARNESS = 'c09.cpp'
SOURCES = ['src/pointset/algorithms/NormalAndCurvatureEstimation.cpp', 'src/pointset/KdTree.cpp']
PROOF_MODULES = ['RomeaProofs.Properties.C09', 'RomeaProofs.Bridge.C09', 'RomeaProofs.Bridge.C09Cor',
                 'RomeaProofs.Bridge.C09Compute', 'RomeaProofs.Bridge.C09ComputeCor']
HANG_SECS = 120
TRUSTED = ['harness/c09.cpp: brute-force neighbourhoods, reference covariance and eigenvalues in long double (own Jacobi iteration)',
           'the k-NN query and Eigen::SelfAdjointEigenSolver are parameters of the model (contracts: C08 statement / IsEigSym); '
           'the driver plugs in a brute-force search and a Jacobi iteration in Lean Float, the harness monitors the eigen-pair '
           'residual of the normal the library actually returned']
ASSUMPTIONS = ['theorems over the reals for every oracle satisfying the contracts; floating-point rounding and the float '
               'instantiations are covered by the tolerance-checked correspondence and the probe only',
               'neighbourhoods with relative eigen-gap (l1-l0)/lmax <= 1e-6 or with (nearly) tied k-th / (k+1)-th neighbour '
               'distances are outside the property\'s quantifier: only unit length and orientation are checked there',
               'tolerances: 1e-9 (double) / 1e-4 (float) plus the first-order rounding bound 64 eps (tr + |p| sqrt(tr))/(l1-l0)',
               'histories (one caller-owned kd-tree serving estimators with different k, one estimator serving several point '
               'sets): `history` / `use_after_history` hold for every scalar type and every k-NN oracle answering a query with '
               'k indices (the length clause of IsKnn); the probe judges every estimation of a history as a call of its own']
EXPLANATION = ('proof (under the k-NN and eigen-solver contracts) of unit length, orientation, least variance, curvature range and '
               'planar exactness on the Lean model + differential correspondence within tolerance + property probe against '
               'long-double brute-force references')

# ------------------------------------------------------------------ stage G: the anchored functions themselves, translated (DESIGN.md 2.5b)
_PT = [('v2f', 'Eigen::Matrix<float, 2, 1, 0>'), ('v2d', 'Eigen::Matrix<double, 2, 1, 0>'),
       ('v3f', 'Eigen::Matrix<float, 3, 1, 0>'), ('v3d', 'Eigen::Matrix<double, 3, 1, 0>'),
       ('h2f', 'romea::core::HomogeneousCoordinates2<float>'), ('h2d', 'romea::core::HomogeneousCoordinates2<double>'),
       ('h3f', 'romea::core::HomogeneousCoordinates3<float>'), ('h3d', 'romea::core::HomogeneousCoordinates3<double>')]
_CLS = 'romea::core::NormalAndCurvatureEstimation<%s>'
BRIDGE_SPEC = {
    'id': 'C09',
    'sources': ['src/pointset/algorithms/NormalAndCurvatureEstimation.cpp'],
    # the orientation helper is a function template in an ANONYMOUS namespace (outside the `romea` filter): dumped by a second clang pass
    'extra_filters': ['flipNormalTowardOriginCoordinate'],
    # `planeEstimation_` (k-NN query + covariance + Eigen::SelfAdjointEigenSolver) stays an ORACLE, as in the model (parameters `knn`, `eig`):
    # what it leaves in `eigenValues_` / `eigenVectors_` is an uninterpreted function of the point index; the members it also touches
    # may not be read by a translated function
    'oracles': {'planeEstimation_': {'writes': ['eigenValues_', 'eigenVectors_'],
                                     'hides': ['neighborIndexes_', 'neighborSquareDistances_', 'eigenSolver_']}},
    'functions':
        [{'cxx': 'flipNormalTowardOriginCoordinate', 'targs': t, 'suffix': '_' + s_} for s_, t in _PT] +
        [{'cxx': 'NormalAndCurvatureEstimation::computeNormalReliability', 'record': 'NormalAndCurvatureEstimation<%s>' % t,
          'suffix': '_' + s_} for s_, t in _PT] +
        # the three `compute(points, pointsKdTree, …)` overloads (the per-point body after the decomposition: curvature, copy of the first
        # eigenvector, orientation, reliability; loop over the cloud by recursion on the trip count)
        [{'cxx': 'NormalAndCurvatureEstimation::compute', 'record': 'NormalAndCurvatureEstimation<%s>' % t,
          'sig': 'KdTreeType &, %s::NormalSetType &%s)' % (_CLS % t, ''.join(', %s::VectorType &' % (_CLS % t) for _ in range(k))),
          'suffix': '_%s_%s' % (o, s_)} for s_, t in _PT for o, k in (('n', 0), ('c', 1), ('r', 2))],
}


def regen(ctx):
    import bridge
    return bridge.regen_bridge(ctx, BRIDGE_SPEC)


# ops:  nrm.compute T k overload init n coords...   one call on objects built for it
#       nrm.cloud T n coords... | nrm.est T k | nrm.use T overload init   objects kept by the case (histories, see harness/c09.cpp)
TYPES = ['c2d', 'c3d', 'h2d', 'h3d', 'c2f', 'c3f', 'h2f', 'h3f']
OVERLOADS = ['n', 'nt', 'c', 'ct', 'r', 'rt']
INITS = ['default', 'zero', 'junk']
NDIAG = 8


def _dim(ty):
    return int(ty[1])


def _eps(ty):
    return 2.0 ** -23 if ty[2] == 'f' else 2.0 ** -52


def _base(ty):
    return 1e-4 if ty[2] == 'f' else 1e-9


# ------------------------------------------------------------------------------------------- generators
def _unit(rng, dim):
    while True:
        v = [rng.gauss() for _ in range(dim)]
        n = math.sqrt(sum(c * c for c in v))
        if n > 1e-3:
            return [c / n for c in v]


def _basis(u):
    """orthonormal vectors spanning the hyperplane orthogonal to the unit vector u"""
    dim = len(u)
    if dim == 2:
        return [[-u[1], u[0]]]
    a = [1.0, 0.0, 0.0] if abs(u[0]) < 0.9 else [0.0, 1.0, 0.0]
    d = sum(x * y for x, y in zip(a, u))
    e1 = [x - d * y for x, y in zip(a, u)]
    n1 = math.sqrt(sum(c * c for c in e1))
    e1 = [c / n1 for c in e1]
    e2 = [u[1] * e1[2] - u[2] * e1[1], u[2] * e1[0] - u[0] * e1[2], u[0] * e1[1] - u[1] * e1[0]]
    return [e1, e2]


def _plane_pts(rng, dim, n, u, c, extent, noise=0.0):
    """n irregularly placed points on the hyperplane u.x = c (|u| = 1), within `extent` of its foot point"""
    B = _basis(u)
    pts = []
    for _ in range(n):
        p = [c * ui for ui in u]
        for e in B:
            s = rng.uniform(-extent, extent)
            p = [pi + s * ei for pi, ei in zip(p, e)]
        if noise:
            g = rng.gauss() * noise
            p = [pi + g * ui for pi, ui in zip(p, u)]
        pts.append(p)
    return pts


def _cloud(rng, dim, n, shape):
    meta = {'shape': shape}
    if shape == 'planar':
        u = _unit(rng, dim)
        c = rng.uniform(0.5, 8.0) * rng.choice([-1, 1])
        pts = _plane_pts(rng, dim, n, u, c, rng.uniform(1.0, 6.0))
        meta.update(u=u, c=c)
    elif shape == 'piecewise':
        pts = []
        parts = rng.int(2, 4)
        for j in range(parts):
            u = _unit(rng, dim)
            c = rng.uniform(1.0, 6.0)
            m = n // parts + (1 if j < n % parts else 0)
            pts += _plane_pts(rng, dim, m, u, c, rng.uniform(1.0, 4.0))
    elif shape == 'curved':
        ctr = [rng.uniform(-3, 3) for _ in range(dim)]
        R = rng.uniform(2.0, 10.0)
        pts = []
        a0 = rng.uniform(0, 2 * math.pi)
        for _ in range(n):
            if dim == 2:
                a = a0 + rng.uniform(0, 1.5)
                pts.append([ctr[0] + R * math.cos(a), ctr[1] + R * math.sin(a)])
            else:
                a = a0 + rng.uniform(0, 1.0)
                b = rng.uniform(0.3, 1.2)
                pts.append([ctr[0] + R * math.cos(a) * math.sin(b), ctr[1] + R * math.sin(a) * math.sin(b), ctr[2] + R * math.cos(b)])
    elif shape == 'noisy':
        u = _unit(rng, dim)
        c = rng.uniform(1.0, 8.0) * rng.choice([-1, 1])
        pts = _plane_pts(rng, dim, n, u, c, rng.uniform(1.0, 6.0), noise=rng.choice([1e-3, 1e-2, 5e-2]))
    else:   # 'blob': isotropic scatter, small eigen-gaps occur
        pts = [[rng.gauss() + 4.0 for _ in range(dim)] for _ in range(n)]
    return pts, meta


def _rotation(rng, dim):
    if dim == 2:
        a = rng.uniform(-math.pi, math.pi)
        return [[math.cos(a), -math.sin(a)], [math.sin(a), math.cos(a)]]
    x, y, z = _unit(rng, 3)
    a = rng.uniform(-math.pi, math.pi)
    c, s, C = math.cos(a), math.sin(a), 1 - math.cos(a)
    return [[c + x * x * C, x * y * C - z * s, x * z * C + y * s],
            [y * x * C + z * s, c + y * y * C, y * z * C - x * s],
            [z * x * C - y * s, z * y * C + x * s, c + z * z * C]]


def _line(ty, k, ov, init, pts):
    if ty[2] == 'f':
        tok, pts = S, [[to_f32(c) for c in p] for p in pts]
    else:
        tok = D
    return 'nrm.compute %s %d %s %s %d %s' % (ty, k, ov, init, len(pts), ' '.join(tok(c) for p in pts for c in p)), pts


def gen_cases(rng, tier):
    cases = []
    n_clouds = 100 if tier == 'quick' else 2000
    for i in range(n_clouds):
        ty = TYPES[i % 8]
        dim = _dim(ty)
        k = rng.choice([3, 30]) if rng.chance(0.25) else rng.int(3, 30)
        r = rng.below(100)
        if r < 8:
            n = k + 1
        elif r < 12:
            n = 2000 if tier == 'thorough' or i % 25 == 0 else rng.int(300, 600)
        elif r < 60:
            n = rng.int(k + 1, 120)
        else:
            n = rng.int(k + 1, 600)
        shape = ['planar', 'planar', 'piecewise', 'curved', 'noisy', 'noisy', 'blob'][rng.below(7)]
        pts, meta = _cloud(rng, dim, n, shape)
        ov = rng.choice(OVERLOADS)
        lines, stored = [], []
        line, sp = _line(ty, k, ov, rng.choice(INITS), pts)
        lines.append(line)
        stored.append(sp)
        rots = []
        if rng.chance(0.4):
            for _ in range(rng.int(1, 3)):
                R = _rotation(rng, dim)
                rp = [[sum(R[a][b] * p[b] for b in range(dim)) for a in range(dim)] for p in pts]
                line, sp = _line(ty, k, ov, rng.choice(INITS), rp)
                lines.append(line)
                stored.append(sp)
                rots.append(R)
        meta.update(ty=ty, k=k, ov=ov, rots=rots)
        cases.append({'name': 'cloud-%s-%s-%d' % (ty, shape, i), 'lines': lines, 'meta': meta})
    for i in range(24 if tier == 'quick' else 480):
        cases.append(_history_case(rng, tier, i, TYPES[i % 8]))
    for i in range(16 if tier == 'quick' else 160):
        cases.append(_lattice_case(rng, i, TYPES[i % 8]))
    cases.append(_protocol_case(rng))
    return cases


def _lattice_case(rng, i, ty):
    """NEARLY isotropic neighbourhoods on exactly representable data: two clusters of k points with small-integer coordinates, far
    apart (k = cluster size, so the k nearest neighbours of every point are its own cluster); sums and squares stay below 2^24, the
    mean is an integer and the covariance exactly diagonal, so float and double arithmetic of the estimator is exact (up to one
    uniform division by k) and the direction of least variance is an axis. The relative eigen-gap is 4e-6 .. 1e-3: inside the
    property's domain (> 1e-6) but far below what rounding would let the check resolve on general data (seeded change c09d: the
    normal replaced by the line of sight when (l1 - l0) <= 100 * epsilon * l1 — 1.19e-5 for the float types)."""
    dim = _dim(ty)
    A = 1000.0
    a, b = rng.choice([(1, 3), (4, 5), (9, 10), (4, 6), (49, 50), (10, 46)])
    if rng.chance(0.5):
        swap = True
    else:
        swap = False
    pts = []
    centres = [(30000.0, 20000.0, 10000.0), (-20000.0, 30000.0, -10000.0)]
    if rng.chance(0.5):
        centres = [(3000.0, -2000.0, 1000.0), (-2000.0, -3000.0, 4000.0)]
    for c in centres:
        if dim == 2:
            offs = [(sx * A, sy * A) for sx in (-1, 1) for sy in (-1, 1)]
            ax, ay = ((a, 0.0), (0.0, b)) if not swap else ((b, 0.0), (0.0, a))
            offs += [(ax[0], 0.0), (-ax[0], 0.0), (0.0, ay[1]), (0.0, -ay[1])]
        else:
            B = 1100.0
            offs = [(sx * A, sy * A, sz * B) for sx in (-1, 1) for sy in (-1, 1) for sz in (-1, 1)]
            av, bv = (a, b) if not swap else (b, a)
            offs += [(float(av), 0.0, 0.0), (-float(av), 0.0, 0.0), (0.0, float(bv), 0.0), (0.0, -float(bv), 0.0)]
        pts += [[c[j] + o[j] for j in range(dim)] for o in offs]
    k = len(pts) // 2
    line, sp = _line(ty, k, rng.choice(OVERLOADS), rng.choice(INITS), pts)
    return {'name': 'lattice-%s-%d' % (ty, i), 'lines': [line], 'meta': {'shape': 'lattice', 'exact_lattice': True, 'ty': ty, 'k': k, 'rots': []}}


def _protocol_case(rng):
    """the kept objects at the edges of the protocol: nothing kept yet, k = 0, k >= n (outside the asserted precondition:
    refused on both sides), k + 1 = n, another point type's objects, unknown overload / initialisation; the objects
    survive a refused op"""
    ty = rng.choice(['c2d', 'c3f'])
    other = 'c3d' if ty == 'c2d' else 'c2f'
    dim = _dim(ty)
    tok = S if ty[2] == 'f' else D
    pts, _ = _cloud(rng, dim, 6, 'blob')
    c5 = 'nrm.cloud %s 5 %s' % (ty, ' '.join(tok(c) for p in pts[:5] for c in p))
    c6 = 'nrm.cloud %s 6 %s' % (ty, ' '.join(tok(c) for p in pts for c in p))
    u = 'nrm.use %s nt default' % ty
    lines = [u, 'nrm.est %s 0' % ty, 'nrm.est %s 5' % ty, u, c5, u, c6, u, 'nrm.use %s nt default' % other,
             'nrm.use %s xx default' % ty, 'nrm.use %s nt other' % ty, 'nrm.cloud %s 0' % ty, c6 + ' ' + tok(1.0), u]
    return {'name': 'history-protocol-' + ty, 'lines': lines,
            'meta': {'history': True, 'ty': ty, 'lm': [None] * len(lines), 'refused': [0, 1, 3, 5, 8, 9, 10, 11, 12]}}


def _history_case(rng, tier, i, ty):
    """ONE caller-owned kd-tree and ONE estimator object at a time, kept across the ops of the case: estimators with
    different k (growing and shrinking) run through the same tree, one estimator runs through several trees (a
    permutation of the same points, another cloud of the same size, a cloud of another size), tree and non-tree
    overloads interleaved.  The property is per call: every `nrm.use` is judged on the point set and k in force."""
    dim = _dim(ty)
    lines, lm = [], []

    def add(line, m=None):
        lines.append(line)
        lm.append(m)

    def cloud(n, shape):
        pts, m = _cloud(rng, dim, n, shape)
        return pts, m

    def put_cloud(pts):
        tok = S if ty[2] == 'f' else D
        add('nrm.cloud %s %d %s' % (ty, len(pts), ' '.join(tok(c) for p in pts for c in p)))

    def use(m, tree=None):
        if tree is None:
            tree = rng.chance(0.75)
        ov = rng.choice(['nt', 'ct', 'rt'] if tree else ['n', 'c', 'r'])
        add('nrm.use %s %s %s' % (ty, ov, rng.choice(INITS)), m)

    # the neighbourhood sizes of the successive estimators: both directions occur in every case
    pat = rng.below(4) if i >= 8 else 0            # every point type gets a history that grows first
    if pat == 0:                                   # grow, shrink
        a = rng.int(3, 14); b = rng.int(a + 2, 30); ks = [a, b, rng.int(3, b - 1)]
    elif pat == 1:                                 # shrink, grow beyond the first
        a = rng.int(6, 26); ks = [a, rng.int(3, a - 2), rng.int(a + 1, 30)]
    elif pat == 2:                                 # extremes
        ks = rng.choice([[3, 30, 3], [30, 3, 30], [3, 4, 3], [29, 30, 29]])
    else:
        ks = [rng.int(3, 30) for _ in range(rng.int(3, 4))]
        if len(set(ks)) == 1:
            ks[1] = 3 if ks[0] > 16 else 30
    kmax = max(ks)
    r = rng.below(10)
    n = kmax + 1 if r == 0 else (rng.int(kmax + 1, 300) if r < 3 else rng.int(kmax + 1, 120))
    shape = ['planar', 'piecewise', 'piecewise', 'curved', 'curved', 'noisy', 'noisy', 'blob'][rng.below(8)]
    pts, m = cloud(n, shape)
    if rng.chance(0.5):
        put_cloud(pts)
        add('nrm.est %s %d' % (ty, ks[0]))
    else:
        add('nrm.est %s %d' % (ty, ks[0]))
        put_cloud(pts)
    use(m, tree=True)
    for k in ks[1:]:
        add('nrm.est %s %d' % (ty, k))
        use(m, tree=True if rng.chance(0.8) else None)
        if rng.chance(0.25):
            use(m)                                 # the same estimator again, same tree or its own
    k = ks[-1]
    if rng.chance(0.7):
        # the estimator in hand meets other point sets / trees: only through the overloads that build their own tree
        # (first on the point set in hand), only through caller-owned trees, or mixed
        mode = rng.below(3)
        via = {0: False, 1: True, 2: None}[mode]
        if mode == 0:
            use(m, tree=False)
        for _ in range(rng.int(1, 2)):
            v = rng.below(3)
            if v == 0:                             # the same points in another order
                order = list(range(len(pts)))
                for j in range(len(order) - 1, 0, -1):
                    t = rng.below(j + 1)
                    order[j], order[t] = order[t], order[j]
                pts = [pts[j] for j in order]
            elif v == 1:                           # another cloud of the same size
                shape = ['planar', 'piecewise', 'curved', 'noisy', 'blob'][rng.below(5)]
                pts, m = cloud(len(pts), shape)
            else:                                  # another size
                shape = ['planar', 'piecewise', 'curved', 'noisy', 'blob'][rng.below(5)]
                pts, m = cloud(rng.int(k + 1, 140), shape)
            put_cloud(pts)
            use(m, tree=via)
        if rng.chance(0.6):
            k2 = rng.choice([3, 30, rng.int(3, 30)])
            if k2 < len(pts):
                add('nrm.est %s %d' % (ty, k2))
                use(m, tree=True)
    return {'name': 'history-%s-%d' % (ty, i), 'lines': lines, 'meta': {'history': True, 'ty': ty, 'ks': ks, 'lm': lm}}


# ------------------------------------------------------------------------------------------- histories
_VIRT = [None, None]


def _virtual(case):
    """per op of the case: the `nrm.compute` line it is to be judged as — `nrm.compute` itself; for `nrm.use` the point
    set of the last `nrm.cloud` and the k of the last `nrm.est` of that type (the property is about each call, whatever
    preceded it on the same objects); None for `nrm.cloud` / `nrm.est` (answer `ok ...`)"""
    if _VIRT[0] is case['lines']:
        return _VIRT[1]
    cloud, kk, out = {}, {}, []
    for l in case['lines']:
        tk = l.split()
        v = None
        if tk and tk[0] == 'nrm.compute':
            v = l
        elif len(tk) >= 3 and tk[0] == 'nrm.cloud' and tk[1] in TYPES and tk[2].isdigit():
            # refused ops (malformed: answered `bad-op` by both sides) leave the kept objects alone
            pre = 's' if tk[1][2] == 'f' else 'd'
            if int(tk[2]) > 0 and len(tk) == 3 + int(tk[2]) * _dim(tk[1]) and all(x[0] == pre and x[1:].isdigit() for x in tk[3:]):
                cloud[tk[1]] = (tk[2], tk[3:])
        elif len(tk) == 3 and tk[0] == 'nrm.est' and tk[1] in TYPES and tk[2].isdigit():
            if int(tk[2]) > 0:
                kk[tk[1]] = tk[2]
        elif len(tk) == 4 and tk[0] == 'nrm.use' and tk[1] in cloud and tk[1] in kk and tk[2] in OVERLOADS and tk[3] in INITS:
            if int(kk[tk[1]]) < int(cloud[tk[1]][0]):
                v = ' '.join(['nrm.compute', tk[1], kk[tk[1]], tk[2], tk[3], cloud[tk[1]][0]] + cloud[tk[1]][1])
        out.append(v)
    _VIRT[0], _VIRT[1] = case['lines'], out
    return out


# ------------------------------------------------------------------------------------------- parsing
def _parse(op, out, with_diag):
    """-> list of per-point dicts {n, w, curv, rel, [diag...]}"""
    tk = op.split()
    ty, ov, n = tk[1], tk[3], int(tk[5])
    dim, hom = _dim(ty), ty[0] == 'h'
    has_c, has_r = ov in ('c', 'ct', 'r', 'rt'), ov in ('r', 'rt')
    per = dim + (1 if hom else 0) + (1 if has_c else 0) + (1 if has_r else 0)
    f = out.split()
    if len(f) < 2 or f[0] != 'ok' or int(f[1]) != n:
        return None
    body = f[2:2 + per * n]
    if len(body) != per * n:
        return None
    diag = None
    if with_diag:
        rest = f[2 + per * n:]
        if len(rest) != 1 + NDIAG * n or rest[0] != '|':
            return None
        diag = [tok_val(x) for x in rest[1:]]
    elif len(f) != 2 + per * n:
        return None
    pts = []
    for i in range(n):
        r = [tok_val(x) for x in body[per * i: per * (i + 1)]]
        d = {'n': r[:dim]}
        j = dim
        if hom:
            d['w'] = r[j]
            j += 1
        if has_c:
            d['curv'] = r[j]
            j += 1
        if has_r:
            d['rel'] = r[j]
        if diag is not None:
            g = diag[NDIAG * i: NDIAG * (i + 1)]
            d.update(gap=g[0], knngap=g[1], lv=g[2], res=g[3], rcurv=g[4], rrelinv=g[5], tr=g[6], l1=g[7])
        pts.append(d)
    return pts


def _coords(op):
    tk = op.split()
    dim, n = _dim(tk[1]), int(tk[5])
    v = [tok_val(x) for x in tk[6:]]
    return [v[dim * i: dim * (i + 1)] for i in range(n)]


def _tol(ty, d, p, exact=False):
    """comparison tolerance of one point: the property's base tolerance plus the first-order rounding bound of an eigenvector
    of a covariance accumulated in the scalar type (perturbation of C over the eigen-gap); `exact`: the lattice stream, whose
    covariance is accumulated without rounding (only the uniform division by k rounds: entries relative eps)"""
    lmax_gap = d['l1'] - (d['rcurv'] * d['tr'])          # l1 - l0 of the reference covariance
    pn = math.sqrt(sum(c * c for c in p))
    if not (lmax_gap > 0):
        return float('inf')
    if exact:
        return _base(ty) + 4.0 * _eps(ty) * d['tr'] / lmax_gap
    return _base(ty) + 64.0 * _eps(ty) * (d['tr'] + pn * math.sqrt(max(d['tr'], 0.0))) / lmax_gap


def _rtol(ty, d, p):
    """tolerance on 1/reliability = l0 / min(l1, ..): eigenvalue perturbation over the second eigenvalue"""
    pn = math.sqrt(sum(c * c for c in p))
    if not (d['l1'] > 0):
        return float('inf')
    return 10 * _base(ty) + 64.0 * _eps(ty) * (d['tr'] + pn * math.sqrt(max(d['tr'], 0.0))) / d['l1']


def _in_scope(ty, d):
    """inside the property's quantifier and with an unambiguous neighbourhood"""
    return d['gap'] > 1e-6 and d['knngap'] > (1e-5 if ty[2] == 'f' else 1e-9)


def _inv(x):
    if math.isinf(x):
        return 0.0
    if x == 0 or math.isnan(x):
        return float('inf')
    return 1.0 / x


# ------------------------------------------------------------------------------------------- B: comparison
def compare(case, li, op, impl, model):
    if impl in ('bad-op',) or model in ('bad-op',):
        return impl == model
    if not op.startswith('nrm.compute'):
        op = _virtual(case)[li]
        if op is None:                      # nrm.cloud / nrm.est: `ok n` / `ok`
            return impl == model
    a = _parse(op, impl, True)
    b = _parse(op, model, False)
    if a is None or b is None or len(a) != len(b):
        return False
    ty = op.split()[1]
    pts = _coords(op)
    for x, y, p in zip(a, b, pts):
        if not _in_scope(ty, x):
            continue
        tol = _tol(ty, x, p, exact=bool(case.get('meta', {}).get('exact_lattice')))
        if any(abs(u - v) > tol for u, v in zip(x['n'], y['n'])):
            # the orientation test itself is ambiguous when the point lies (nearly) in the estimated tangent plane
            pn = math.sqrt(sum(c * c for c in p)) or 1.0
            if abs(sum(u * c for u, c in zip(x['n'], p))) / pn < 10 * tol and all(abs(u + v) <= tol for u, v in zip(x['n'], y['n'])):
                continue
            return False
        if 'w' in x and not (x['w'] == 0 and y['w'] == 0):
            return False
        ctol = _base(ty) + 64.0 * _eps(ty) * (1.0 + math.sqrt(sum(c * c for c in p)) / math.sqrt(max(x['tr'], 1e-300)))
        if 'curv' in x and not abs(x['curv'] - y['curv']) <= ctol:
            return False
        if 'rel' in x and not abs(_inv(x['rel']) - _inv(y['rel'])) <= _rtol(ty, x, p):
            return False
    return True


# ------------------------------------------------------------------------------------------- C: oracle
def oracle(case, out, stats):
    fails = []
    meta = case['meta']
    parsed = []
    virt = _virtual(case)
    for li, (raw, o) in enumerate(zip(case['lines'], out)):
        line = virt[li]
        if li in meta.get('refused', ()) and o == 'bad-op':
            stats['history_refused_ops'] = stats.get('history_refused_ops', 0) + 1
            parsed.append(None)
            continue
        if line is None:
            # nrm.cloud / nrm.est (objects kept by the case); a crash here is still a crash inside the property's domain
            stats['history_setup_ops'] = stats.get('history_setup_ops', 0) + 1
            if not o.startswith('ok') and len(fails) < 5:
                fails.append({'kind': 'outcome-' + o.split()[0] if o else 'outcome-empty', 'detail': 'op %d: %s ... -> %s' % (
                    li, ' '.join(raw.split()[:3]), o[:40]), 'fields': {'type': (raw.split() + ['', ''])[1], 'op': raw.split()[0]}})
            parsed.append(None)
            continue
        tk = line.split()
        ty, k = tk[1], int(tk[2])
        dim = _dim(ty)
        stats['clouds'] = stats.get('clouds', 0) + 1
        if raw is not line:
            stats['history_estimations'] = stats.get('history_estimations', 0) + 1
        where = ' '.join(tk[:6]) if raw is line else 'op %d of the history: %s (k = %d, n = %s)' % (li, raw, k, tk[5])

        def bad(kind, detail, **fields):
            if len(fails) < 5:
                fails.append({'kind': kind, 'detail': '%s ... -> %s' % (where, detail), 'fields': dict(fields, type=ty, init=tk[4])})
        if o in ('abort', 'hang', 'exception', 'skipped', 'bad-op'):
            bad('outcome-' + o, 'unexpected outcome')
            parsed.append(None)
            continue
        recs = _parse(line, o, True)
        if recs is None:
            bad('malformed', 'unparsable output')
            parsed.append(None)
            continue
        pts = _coords(line)
        parsed.append((recs, pts))
        base = _base(ty)
        for i, (d, p) in enumerate(zip(recs, pts)):
            stats['points'] = stats.get('points', 0) + 1
            nn = math.sqrt(sum(c * c for c in d['n']))
            pn = math.sqrt(sum(c * c for c in p))
            if not abs(nn - 1.0) <= base:
                bad('unit', 'point %d: |n| = %r' % (i, nn))
            if not sum(u * c for u, c in zip(d['n'], p)) <= 8 * _eps(ty) * pn:
                bad('faces-sensor', 'point %d: n.p = %r > 0 (p = %r, n = %r)' % (i, sum(u * c for u, c in zip(d['n'], p)), p, d['n']))
            if 'w' in d and d['w'] != 0:
                bad('homogeneous-w', 'point %d: homogeneous coordinate of the normal is %r' % (i, d['w']))
            if 'curv' in d and not (-base <= d['curv'] <= 1.0 / dim + base):
                if not (d['tr'] == 0 and math.isnan(d['curv'])):
                    bad('curvature-range', 'point %d: curvature %r outside [0, 1/%d]' % (i, d['curv'], dim))
            if not _in_scope(ty, d):
                stats['out_of_scope'] = stats.get('out_of_scope', 0) + 1
                continue
            stats['in_scope'] = stats.get('in_scope', 0) + 1
            tol = _tol(ty, d, p, exact=bool(meta.get('exact_lattice')))
            if meta.get('exact_lattice'):
                # exact data: the returned normal must be the least-variance AXIS itself — excess variance (as a fraction of the
                # trace) = gap * sin^2(angle to the axis); the bound 1e-3 (0.03 rad) is > 2000 times the largest ratio observed on the unchanged library
                # (3.6e-7: the float 3D case, whose division by k = 12 rounds)
                stats['exact_lattice_points'] = stats.get('exact_lattice_points', 0) + 1
                ratio = d['lv'] / d['gap'] if d['gap'] > 0 else 0.0
                stats['max_lv_over_gap_exact_lattice'] = max(stats.get('max_lv_over_gap_exact_lattice', 0.0), ratio)
                if ratio > 1e-3:
                    bad('least-variance', 'point %d (exactly representable lattice neighbourhood, relative eigen-gap %r): the normal is %.3g rad '
                        'away from the direction of least variance (excess variance %r of the trace)' % (i, d['gap'], math.sqrt(min(ratio, 1.0)), d['lv']))
            if not d['lv'] <= base + tol * tol:
                bad('least-variance', 'point %d: excess variance along the normal %r of the trace (gap %r)' % (i, d['lv'], d['gap']))
            if not d['res'] <= 4 * tol:
                bad('eigen-contract', 'point %d: eigen-pair residual of the returned normal %r (gap %r)' % (i, d['res'], d['gap']))
            ctol = base + 64.0 * _eps(ty) * (1.0 + pn / math.sqrt(max(d['tr'], 1e-300)))
            if 'curv' in d and not abs(d['curv'] - d['rcurv']) <= ctol:
                bad('curvature-value', 'point %d: curvature %r, reference l0/trace %r' % (i, d['curv'], d['rcurv']))
            if 'rel' in d and not abs(_inv(d['rel']) - d['rrelinv']) <= _rtol(ty, d, p):
                bad('reliability-value', 'point %d: reliability %r, reference inverse %r' % (i, d['rel'], d['rrelinv']))
            lmeta = meta['lm'][li] if meta.get('history') else meta
            if lmeta and lmeta.get('shape') == 'planar':
                # stored coordinates are rounded: allow for the actual distance of the stored points from the plane
                R = None
                u, c = lmeta['u'], lmeta['c']
                if li > 0 and not meta.get('history'):
                    R = meta['rots'][li - 1]
                    u = [sum(R[a][b] * u[b] for b in range(dim)) for a in range(dim)]
                off = 4 * _eps(ty) * pn
                ptol = tol + 4 * off * math.sqrt(max(d['tr'], 0.0)) / max(d['l1'], 1e-300)
                sgn = -1.0 if c > 0 else 1.0
                if any(abs(a - sgn * b) > ptol for a, b in zip(d['n'], u)):
                    bad('planar-exact', 'point %d: normal %r, plane normal %r (tol %r)' % (i, d['n'], [sgn * x for x in u], ptol))
                if 'curv' in d and not abs(d['curv']) <= ctol + (off * off) / max(d['tr'], 1e-300):
                    bad('planar-exact', 'point %d: curvature %r on a planar cloud' % (i, d['curv']))
                stats['planar_points'] = stats.get('planar_points', 0) + 1
    # rotational equivariance: line j > 0 is line 0 rotated by meta['rots'][j-1]
    if parsed and parsed[0] is not None and meta.get('rots') and not meta.get('history'):
        ty = case['lines'][0].split()[1]
        dim = _dim(ty)
        base_recs, base_pts = parsed[0]
        for j, R in enumerate(meta.get('rots', [])):
            if j + 1 >= len(parsed) or parsed[j + 1] is None:
                continue
            recs, pts = parsed[j + 1]
            for i, (a, b) in enumerate(zip(base_recs, recs)):
                if not (_in_scope(ty, a) and _in_scope(ty, b)):
                    continue
                tol = 2 * (_tol(ty, a, base_pts[i]) + _tol(ty, b, pts[i]))
                rn = [sum(R[x][y] * a['n'][y] for y in range(dim)) for x in range(dim)]
                pn = math.sqrt(sum(c * c for c in base_pts[i])) or 1.0
                if abs(sum(u * c for u, c in zip(a['n'], base_pts[i]))) / pn < 10 * tol:
                    continue      # point in its own tangent plane: orientation not determined
                stats['rotation_pairs'] = stats.get('rotation_pairs', 0) + 1
                if any(abs(x - y) > tol for x, y in zip(rn, b['n'])) and len(fails) < 5:
                    fails.append({'kind': 'rotation-equivariance', 'detail': 'cloud %s point %d: R n = %r, normal of the rotated cloud %r (tol %r)' % (
                        case['name'], i, rn, b['n'], tol), 'fields': {'type': ty}})
                if 'curv' in a and abs(a['curv'] - b['curv']) > tol and len(fails) < 5:
                    fails.append({'kind': 'rotation-equivariance', 'detail': 'cloud %s point %d: curvature %r vs %r after rotation' % (
                        case['name'], i, a['curv'], b['curv']), 'fields': {'type': ty}})
    return fails
