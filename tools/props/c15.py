"""C15 — scrolling (wrappable) grid keeps surviving cells and blanks entering cells (DESIGN.md section 6, C15).

Ops (value type int):
  wg.new <dim> <n...>      -> ok                 grid of dim 2|3, every cell set to -7777 with setValue
  wg.set i... v            -> ok                 write through operator()
  wg.tr d... e             -> off o...           translate(d, e); reported getIndexOffsetAlongAxes()
  wg.get i...              -> val v              read through the const operator()
  wg.dump                  -> off o... cells v...    offsets + all cells in logical order (axis 0 fastest)
  wg.save k / wg.load k    -> ok                 copy-construct the grid into / out of slot k (0..2)
  wg.fan e P               -> fan <count> <digest>   translate a COPY of the grid by EVERY offset with
                             -(n+1) <= d_a <= n+1 (axis 0 fastest) and fold offsets + all cells of every result,
                             exactly, into the polynomial digest  h <- (h*P + (v + 2^31)) mod (2^61 - 1)

Oracle = the property as stated: an unbounded map (dict: absolute map coordinate -> value) under a window whose
position is the accumulated offset; checked after every op against the implementation's answer, plus
reported offset = accumulated offset mod n.
"""
import itertools
from operator import mul

ID = 'C15'
LEVEL = 'proof'
DRIVER = 'drv_c15'
HARNESS = 'c15.cpp'
SOURCES = []            # header-only: WrappableGrid.hpp / Grid.hpp are compiled into the harness
PROOF_MODULES = ['RomeaProofs.Properties.C15', 'RomeaProofs.Bridge.C15', 'RomeaProofs.Lemmas.C15Odometer', 'RomeaProofs.Bridge.C15Loop', 'RomeaProofs.Bridge.C15Cor',
                 'RomeaProofs.Bridge.C15Loop3', 'RomeaProofs.Bridge.C15Cor3']
TRUSTED = ['tools/cxx2lean.py (Python over clang-14\'s JSON AST) translates Grid<int,DIM>::init, WrappableGrid<int,DIM>::wrapCellIndexes_ and '
           'computeCellLinearIndex_ (DIM = 2, 3) from the working tree into RomeaModel/Generated/SrcC15.lean on every run; '
           'RomeaProofs/Bridge/C15*.lean prove them equal to the model\'s wrap / coeffs / cellCount / linIdx (size_t arithmetic modulo 2^64, '
           'identity on the property\'s side conditions) and restate in-bounds / injectivity about the translated index; '
           'WrappableGrid<int,2>::translate is translated too (axis loops unrolled, the blanking loop as recursive functions on fuel) and its '
           'per-axis quantities (numberOfSlabs, firstSlab, lastSlab, wrappedOffset, new accumulated offset, zero-offset skip, axis order) are '
           'bridged to the model (translate_2_quantities); the blanking loop nest is bridged too (Bridge/C15Loop.lean: each generated loop '
           'function is the generic odometer, odometer induction, translate_2_bridge: translated translate_2 = the model\'s WGrid.translate '
           'for every offset pair, fuel >= cells + 1) and translate_refines / history are restated about the translated code '
           '(Bridge/C15Cor.lean part 3); WrappableGrid<int,3>::translate likewise (seven copies of the blanking loop = the three-level odometer '
           'odo3, translate_3_quantities, Bridge/C15Loop3.lean: translate_3_bridge, fuel >= cells + 1; Bridge/C15Cor3.lean: '
           'src_translate_refines_3, src_history_3); operator() const (a List.getD), the non-const operator() (translated as the LOCATION it '
           'returns by reference: the index into buffer_) and Grid::setValue (std::fill over the whole buffer = List.replicate) are translated '
           'and are what the DIM = 3 corollaries read and write through (for DIM = 2: srcRead2_is_operator_call, srcStep2_set_is_operator_ref)',
           'harness/c15.cpp drives WrappableGrid<int,2> / <int,3> through the public interface only; wg.save/wg.load use '
           'the implicit copy constructor',
           'the bounded-exhaustive space is enumerated with de-duplication of reachable states: the dump (offsets + all '
           'cells) determines every data member of the object, so the behaviour of the next translation is a function of it; '
           'every (reachable state at depth t, offset vector) pair for t = 0, 1, 2 is executed',
           'wg.fan results travel as a 61-bit polynomial digest (base drawn from the seed) of the exact outputs; the '
           'same sequences are also run as plain ops with full dumps for a sample (quick tier: only the sample)']
ASSUMPTIONS = ['every translation offset fits a C++ int, every axis has between 1 and 2^62 - 1 cells, indexes are in range '
               '(the asserted preconditions); value type int in the harness, arbitrary in the theorems',
               'DIM is 2 or 3 in the C++ (wrapCellIndexes_ / Grid::init are written for these); the model and the '
               'theorems are dimension-generic']
EXPLANATION = ('refinement proof on the Lean model (translate/set refine a window over an unbounded map, for all sizes, '
               'offsets and histories) + exact differential on op sequences + unbounded-map probe; the property\'s '
               'bounded space is enumerated completely in the thorough tier')

# ------------------------------------------------------------------ stage G: index arithmetic translated (DESIGN.md 2.5b)
BRIDGE_SPEC = {
    'vector_encoding': 'plain',         # buffer_[i] -> List.getD / List.set (total; indexes are in range by the asserted preconditions)
    'id': 'C15',
    'headers': ['romea_core_common/containers/grid/WrappableGrid.hpp'],
    'extra': ['template class romea::core::WrappableGrid<int, 2>;', 'template class romea::core::WrappableGrid<int, 3>;',
              'template class romea::core::Grid<int, 2>;', 'template class romea::core::Grid<int, 3>;'],
    'unsigned_wrap': True,      # size_t index arithmetic is arithmetic modulo 2^64
    'fold_constant_conditions': True,   # `if (DIM == 3)` is decided per instantiation
    'unroll_constant_loops': True,      # `for (size_t axis = 0; axis < DIM; ++axis)` is unrolled
    'incr_encoding': 'let',             # `if (++cellIndexes[a] < end)`: the incremented value is bound by a `let`
    'functions': [
        {'cxx': 'Grid::init', 'cls': 'Grid<int, 2>', 'suffix': '_2'},
        {'cxx': 'Grid::init', 'cls': 'Grid<int, 3>', 'suffix': '_3'},
        {'cxx': 'WrappableGrid::wrapCellIndexes_', 'cls': 'WrappableGrid<int, 2>', 'suffix': '_2'},
        {'cxx': 'WrappableGrid::wrapCellIndexes_', 'cls': 'WrappableGrid<int, 3>', 'suffix': '_3'},
        {'cxx': 'WrappableGrid::computeCellLinearIndex_', 'cls': 'WrappableGrid<int, 2>', 'suffix': '_2'},
        {'cxx': 'WrappableGrid::computeCellLinearIndex_', 'cls': 'WrappableGrid<int, 3>', 'suffix': '_3'},
        {'cxx': 'WrappableGrid::translate', 'cls': 'WrappableGrid<int, 2>', 'suffix': '_2'},
        {'cxx': 'WrappableGrid::translate', 'cls': 'WrappableGrid<int, 3>', 'suffix': '_3'},
        {'cxx': 'WrappableGrid::operator()', 'cls': 'WrappableGrid<int, 2>', 'sig': ') const', 'suffix': '_const_2'},
        {'cxx': 'WrappableGrid::operator()', 'cls': 'WrappableGrid<int, 3>', 'sig': ') const', 'suffix': '_const_3'},
        {'cxx': 'WrappableGrid::operator()', 'cls': 'WrappableGrid<int, 2>', 'nosig': ') const', 'suffix': '_ref_2'},
        {'cxx': 'WrappableGrid::operator()', 'cls': 'WrappableGrid<int, 3>', 'nosig': ') const', 'suffix': '_ref_3'},
        {'cxx': 'Grid::setValue', 'cls': 'Grid<int, 2>', 'suffix': '_2'},
        {'cxx': 'Grid::setValue', 'cls': 'Grid<int, 3>', 'suffix': '_3'},
    ],
}


def regen(ctx):
    import bridge
    return bridge.regen_bridge(ctx, BRIDGE_SPEC)


DEFAULT = -7777
FAN_M = (1 << 61) - 1
SHIFT = 1 << 31
BAD_OUT = ('abort', 'hang', 'exception', 'skipped', 'bad-op')

_EXPECT = {'tier': None, 'exh_pairs': 0, 'exh_complete': False}


def compare(case, li, op, a, b):
    return a.split() == b.split()


# ------------------------------------------------------------------ small helpers
def _cells(dims):
    """all logical multi-indexes, axis 0 running fastest"""
    return [tuple(reversed(r)) for r in itertools.product(*[range(n) for n in reversed(dims)])]


def _delta_box(dims):
    """every offset vector with -(n+1) <= d_a <= n+1, axis 0 running fastest"""
    return [tuple(reversed(r)) for r in itertools.product(*[range(-(n + 1), n + 2) for n in reversed(dims)])]


def _lin(dims, ix):
    k, m = 0, 1
    for a in range(len(dims)):
        k += ix[a] * m
        m *= dims[a]
    return k


def _header(dims, labels):
    lines = ['wg.new %d %s' % (len(dims), ' '.join(map(str, dims)))]
    for ix, v in zip(_cells(dims), labels):
        lines.append('wg.set %s %d' % (' '.join(map(str, ix)), v))
    return lines


def _tr(d, e):
    return 'wg.tr %s %d' % (' '.join(map(str, d)), e)


# ------------------------------------------------------------------ the unbounded-map oracle
class MapOracle:
    """The property's reading: `M` maps absolute map coordinates to values for the cells under the window, `A` is the
    accumulated offset (= map coordinate of logical cell 0). A translation slides the window; a cell whose map location
    was not under the window before reads the empty value of that translation."""

    def __init__(self, dims, default):
        self.dims = tuple(dims)
        self.cells = _cells(dims)
        self.A = tuple(0 for _ in dims)
        self.M = {c: default for c in self.cells}

    def copy(self):
        o = MapOracle.__new__(MapOracle)
        o.dims, o.cells, o.A, o.M = self.dims, self.cells, self.A, dict(self.M)
        return o

    def set(self, i, v):
        self.M[tuple(x + a for x, a in zip(i, self.A))] = v

    def translate(self, d, e):
        A = tuple(a + x for a, x in zip(self.A, d))
        old = self.M
        new = {}
        for i in self.cells:
            c = tuple(x + a for x, a in zip(i, A))
            new[c] = old.get(c, e)        # still under the window -> keeps its value; entering -> e
        self.A, self.M = A, new

    def get(self, i):
        return self.M[tuple(x + a for x, a in zip(i, self.A))]

    def offsets(self):
        return tuple(a % n for a, n in zip(self.A, self.dims))

    def logical(self):
        A = self.A
        M = self.M
        return [M[tuple(x + a for x, a in zip(i, A))] for i in self.cells]


_FAN_CACHE = {}


def _fan_tables(dims):
    """per offset vector of the bounded space: (offset mod n, source table) where the source of logical cell i is the
    linear index of i + d if that is inside the window, else N (the slot of the empty value)"""
    t = _FAN_CACHE.get(dims)
    if t is None:
        N = len(_cells(dims))
        t = []
        for d in _delta_box(dims):
            src = []
            for ix in _cells(dims):
                s = tuple(x + y for x, y in zip(ix, d))
                src.append(_lin(dims, s) if all(0 <= s[a] < dims[a] for a in range(len(dims))) else N)
            t.append((d, src))
        _FAN_CACHE[dims] = t
    return t


_POW_CACHE = {}


def _powers(P, L):
    key = P
    pw = _POW_CACHE.get(key)
    if pw is None or len(pw) < L:
        pw = [1]
        for _ in range(max(L, 1024)):
            pw.append(pw[-1] * P % FAN_M)
        _POW_CACHE.clear()
        _POW_CACHE[key] = pw
    return pw


def _fan_expected(orc, e, P, stats):
    """digest the property predicts for `wg.fan e P` in the oracle's current state"""
    dims = orc.dims
    cur = orc.logical()
    cur.append(e)
    off = orc.offsets()
    vals = []
    ext = vals.extend
    get = cur.__getitem__
    tabs = _fan_tables(dims)
    for k, (d, src) in enumerate(tabs):
        ext([(o + x) % n - SHIFT for o, x, n in zip(off, d, dims)])     # offsets enter the digest unshifted
        ext(map(get, src))
        if k % 97 == 0:        # cross-check the table shortcut against the dict oracle itself
            o2 = orc.copy()
            o2.translate(d, e)
            if o2.logical() != list(map(get, src)) or [x - SHIFT for x in o2.offsets()] != vals[-len(src) - len(dims):-len(src)]:
                raise AssertionError('fan table disagrees with the map oracle')
            stats['fan_table_crosschecks'] = stats.get('fan_table_crosschecks', 0) + 1
    L = len(vals)
    pw = _powers(P, L)
    rev = pw[L - 1::-1] if L else []
    h = (sum(map(mul, vals, rev)) + SHIFT * sum(rev)) % FAN_M
    return len(tabs), h


def oracle(case, out, stats):
    fails = []
    orc = None
    slots = {}
    nops = 0

    def bad(kind, line, o, detail, **fields):
        fields.setdefault('dims', list(orc.dims) if orc else None)
        fields['history_ops'] = nops
        fails.append({'kind': kind, 'detail': '%s -> %s : %s' % (line, o[:200], detail), 'fields': fields})

    for line, o in zip(case['lines'], out):
        tk = line.split()
        op = tk[0]
        stats[op] = stats.get(op, 0) + 1
        if o in BAD_OUT:
            bad('outcome-' + o, line, o, 'unexpected outcome')
            break
        if op == 'wg.new':
            dims = tuple(int(x) for x in tk[2:])
            orc = MapOracle(dims, DEFAULT)
            slots = {}
            nops = 0
            if o != 'ok':
                bad('new', line, o, 'expected ok')
            continue
        if orc is None:
            bad('no-grid', line, o, 'op before wg.new')
            break
        dim = len(orc.dims)
        if op == 'wg.set':
            xs = [int(x) for x in tk[1:]]
            orc.set(xs[:dim], xs[dim])
            nops += 1
            if o != 'ok':
                bad('set', line, o, 'expected ok')
        elif op == 'wg.tr':
            xs = [int(x) for x in tk[1:]]
            orc.translate(xs[:dim], xs[dim])
            nops += 1
            stats['translations_checked'] = stats.get('translations_checked', 0) + 1
            exp = 'off ' + ' '.join(map(str, orc.offsets()))
            if o.split() != exp.split():
                bad('offset', line, o, 'reported offset must be the accumulated offset %s modulo %s = %s' % (
                    list(orc.A), list(orc.dims), exp), delta=xs[:dim])
        elif op == 'wg.trq':
            xs = [int(x) for x in tk[1:]]
            orc.translate(xs[:dim], xs[dim])
            nops += 1
            stats['quiet_translations'] = stats.get('quiet_translations', 0) + 1
            if o != 'ok':
                bad('outcome', line, o, 'expected ok')
        elif op == 'wg.get':
            i = [int(x) for x in tk[1:]]
            exp = 'val %d' % orc.get(i)
            stats['cells_checked'] = stats.get('cells_checked', 0) + 1
            if o.split() != exp.split():
                bad('cell', line, o, 'map oracle says ' + exp, index=i)
        elif op == 'wg.dump':
            f = o.split()
            exp_off = list(map(str, orc.offsets()))
            exp_cells = list(map(str, orc.logical()))
            stats['dumps_checked'] = stats.get('dumps_checked', 0) + 1
            stats['cells_checked'] = stats.get('cells_checked', 0) + len(exp_cells)
            if len(f) != 2 + dim + len(exp_cells) or f[0] != 'off' or f[1 + dim] != 'cells':
                bad('malformed', line, o, 'bad dump')
                break
            if f[1:1 + dim] != exp_off:
                bad('offset', line, o, 'reported offset must be %s (accumulated %s mod %s)' % (exp_off, list(orc.A), list(orc.dims)))
            got = f[2 + dim:]
            if got != exp_cells:
                k = next(j for j in range(len(got)) if got[j] != exp_cells[j])
                ix = orc.cells[k]
                bad('cell', line, o, 'cell %s (map location %s) reads %s, the unbounded map holds %s; expected cells %s' % (
                    list(ix), [x + a for x, a in zip(ix, orc.A)], got[k], exp_cells[k], ' '.join(exp_cells)), index=list(ix))
        elif op == 'wg.save':
            slots[int(tk[1])] = orc.copy()
        elif op == 'wg.load':
            orc = slots[int(tk[1])].copy()
        elif op == 'wg.fan':
            e, P = int(tk[1]), int(tk[2])
            cnt, h = _fan_expected(orc, e, P, stats)
            stats['fan_pairs_checked'] = stats.get('fan_pairs_checked', 0) + cnt
            if case.get('meta', {}).get('exhaustive'):
                stats['exhaustive_pairs_checked'] = stats.get('exhaustive_pairs_checked', 0) + cnt
            exp = 'fan %d %d' % (cnt, h)
            if o.split() != exp.split():
                bad('fan-digest', line, o, 'the results of translating this state by every offset of the bounded space '
                    'do not all match the unbounded map (expected %s); state: offsets %s cells %s' % (
                        exp, list(orc.offsets()), orc.logical()), empty=e)
        else:
            bad('unknown-op', line, o, 'unknown op')
    return fails


def extra_probe(ctx, stats):
    """finalise the exhaustiveness claim (nothing is executed here)"""
    if _EXPECT['tier'] == 'thorough':
        done = stats.get('exhaustive_pairs_checked', 0)
        stats['exhaustive_pairs_expected'] = _EXPECT['exh_pairs']
        stats['exhaustive'] = bool(_EXPECT['exh_complete'] and done == _EXPECT['exh_pairs'])
        stats['exhaustive_space'] = ('every WrappableGrid<int,2> with 1..4 and <int,3> with 1..3 cells per axis, all cells '
                                     'labelled distinctly, every reachable state after 0, 1, 2 translations x every offset '
                                     'vector with per-axis offsets in [-(n+1), n+1], empty value -t for the t-th translation')
        if not stats['exhaustive']:
            return [{'kind': 'exhaustive-incomplete', 'case_index': 0,
                     'detail': 'bounded space not completely enumerated: %d of %d pairs' % (done, _EXPECT['exh_pairs']), 'fields': {}}]
    else:
        stats['exhaustive'] = False
        stats['exhaustive_note'] = 'quick tier samples the bounded space; the thorough tier enumerates it completely'
    return []


# ------------------------------------------------------------------ generators
def _bounded_grids():
    return [d for d in itertools.product(range(1, 5), repeat=2)] + [d for d in itertools.product(range(1, 4), repeat=3)]


def _apply(state, d, src, e, dims):
    off, cells = state
    ext = cells + (e,)
    return (tuple((o + x) % n for o, x, n in zip(off, d, dims)), tuple([ext[s] for s in src]))


def _exhaustive_cases(dims, P):
    """every (reachable state after 0/1/2 translations, offset vector) pair of one grid as wg.fan lines; states are
    de-duplicated per depth; the t-th translation uses the empty value -t"""
    N = len(_cells(dims))
    labels = tuple(range(1, N + 1))
    head = _header(dims, labels)
    tabs = _fan_tables(dims)
    s0 = (tuple(0 for _ in dims), labels)
    cases = []
    pairs = len(tabs)
    cases.append({'name': 'exh-%s-d0' % 'x'.join(map(str, dims)), 'lines': head + ['wg.dump', 'wg.fan -1 %d' % P],
                  'meta': {'exhaustive': True, 'dims': dims}})
    lvl1, seen1 = [], set()
    for d, src in tabs:
        s1 = _apply(s0, d, src, -1, dims)
        if s1 not in seen1:
            seen1.add(s1)
            lvl1.append((d, s1))
    seen2 = set()
    for d1, s1 in lvl1:
        lines = head + [_tr(d1, -1), 'wg.dump', 'wg.save 1', 'wg.fan -2 %d' % P]
        pairs += len(tabs)
        for d2, src in tabs:
            s2 = _apply(s1, d2, src, -2, dims)
            if s2 not in seen2:
                seen2.add(s2)
                lines += ['wg.load 1', _tr(d2, -2), 'wg.dump', 'wg.fan -3 %d' % P]
                pairs += len(tabs)
        cases.append({'name': 'exh-%s-d1-%s' % ('x'.join(map(str, dims)), '_'.join(map(str, d1))), 'lines': lines,
                      'meta': {'exhaustive': True, 'dims': dims}})
    return cases, pairs


def _sampled_bounded_case(rng, name):
    """one plain sequence of the bounded space (quick tier sample, and full dumps in the thorough tier)"""
    dims = rng.choice(_bounded_grids())
    N = len(_cells(dims))
    lines = _header(dims, range(1, N + 1)) + ['wg.dump']
    for t in range(1, rng.int(1, 3) + 1):
        d = [rng.int(-(n + 1), n + 1) for n in dims]
        lines += [_tr(d, -t), 'wg.dump']
    return {'name': name, 'lines': lines, 'meta': {'dims': dims, 'bounded_sample': True}}


def _rand_offset(rng, n):
    r = rng.below(10)
    if r < 3:
        return rng.choice([0, n, -n, n + 1, -(n + 1), 2 * n, -2 * n, 1, -1, n - 1, -(n - 1)])
    if r < 7:
        return rng.int(-2 * n, 2 * n)
    return rng.int(-max(1, n // 2), max(1, n // 2))


def _random_case(rng, name, max_tr=50, max_n=8):
    dim = rng.choice([2, 3])
    mode = rng.below(4)
    if mode == 0:
        dims = [rng.int(1, max_n) for _ in range(dim)]
    elif mode == 1:
        dims = [rng.choice([1, 2, max_n]) for _ in range(dim)]        # size-1 axes, extremes
    elif mode == 2:
        dims = [rng.int(1, 4) for _ in range(dim)]
    else:
        dims = [rng.int(3, max_n) for _ in range(dim)]
    dims = tuple(dims)
    lines = ['wg.new %d %s' % (dim, ' '.join(map(str, dims)))]
    nxt = 1
    if rng.chance(0.6):       # label every cell
        for ix in _cells(dims):
            lines.append('wg.set %s %d' % (' '.join(map(str, ix)), nxt))
            nxt += 1
    lines.append('wg.dump')
    n_tr = rng.int(1, max_tr)
    p_write = rng.choice([0.0, 0.3, 1.0, 3.0])
    e_mode = rng.below(3)
    for t in range(n_tr):
        d = [_rand_offset(rng, n) for n in dims]
        if rng.chance(0.25):                     # single-axis moves are the common use
            keep = rng.below(dim)
            d = [x if a == keep else 0 for a, x in enumerate(d)]
        e = 0 if e_mode == 0 else (-(t + 1) if e_mode == 1 else rng.choice([0, -1, DEFAULT, 2147483647, -2147483648, rng.int(-1000, 1000)]))
        # a third of the translations are "quiet" (the reported offset is not read after them): getters must not have side effects
        lines.append(_tr(d, e) if not rng.chance(0.33) else _tr(d, e).replace('wg.tr ', 'wg.trq ', 1))
        if rng.chance(0.8):
            lines.append('wg.dump')
        w = p_write
        while w > 0 and rng.chance(min(1.0, w)):
            w -= 1.0
            ix = [rng.below(n) for n in dims]
            lines.append('wg.set %s %d' % (' '.join(map(str, ix)), 1000 + nxt))
            nxt += 1
        if rng.chance(0.3):
            ix = [rng.below(n) for n in dims]
            lines.append('wg.get %s' % ' '.join(map(str, ix)))
    lines.append('wg.dump')
    return {'name': name, 'lines': lines, 'meta': {'dims': dims}}


def _regression_cases():
    """the histories that exposed the defects repaired in /repo (also kept as corpus/C15/*.ops)"""
    c = []
    h2 = _header((3, 3), range(1, 10))
    h3 = _header((3, 3, 3), range(1, 28))
    c.append({'name': 'regress-two-successive-plus-one', 'lines': h2 + [_tr((1, 0), -1), 'wg.dump', _tr((1, 0), -2), 'wg.dump']})
    c.append({'name': 'regress-3d-z-minus-one', 'lines': h3 + [_tr((0, 0, -1), -1), 'wg.dump', _tr((0, 0, -1), -2), 'wg.dump']})
    c.append({'name': 'regress-offset-below-minus-n', 'lines': h2 + [_tr((-4, 0), -1), 'wg.dump', _tr((0, -5), -2), 'wg.dump',
                                                                     'wg.set 1 1 77', _tr((-7, -3), -3), 'wg.dump']})
    c.append({'name': 'regress-offsets-after-wrap', 'lines': h2 + [_tr((2, 2), -1), 'wg.dump', 'wg.set 0 0 50', 'wg.set 2 2 51',
                                                                   _tr((2, 2), -2), 'wg.dump', _tr((-1, 1), -3), 'wg.dump',
                                                                   _tr((-1, -1), -4), 'wg.dump']})
    c.append({'name': 'repo-test-2d', 'lines': _header((3, 3), range(0, 9)) + [_tr((1, -1), 0), 'wg.get 0 1', 'wg.get 1 1', 'wg.get 0 2', 'wg.get 1 2', 'wg.dump']})
    c.append({'name': 'repo-test-3d', 'lines': _header((3, 3, 3), range(0, 27)) + ['wg.save 0', _tr((1, -1, 2), 0), 'wg.dump', 'wg.load 0',
                                                                                  _tr((1, -1, 4), 0), 'wg.dump', 'wg.load 0', _tr((3, -3, 3), 0), 'wg.dump']})
    for x in c:
        x['meta'] = {'regression': True}
    return c


def gen_cases(rng, tier):
    # order: regressions, plain sequences with full dumps (most informative failing inputs), then the wg.fan cases
    cases = _regression_cases()
    P = rng.int(1 << 40, FAN_M - 2)
    _EXPECT['tier'] = tier
    _EXPECT['exh_pairs'] = 0
    _EXPECT['exh_complete'] = False
    n_sample, n_random = (3000, 6000) if tier == 'thorough' else (2500, 2500)
    for i in range(n_sample):
        cases.append(_sampled_bounded_case(rng, 'bounded-sample-%d' % i))
    for i in range(n_random):
        cases.append(_random_case(rng, 'random-%d' % i))
    if tier == 'thorough':
        total = 0
        for dims in _bounded_grids():
            cs, pairs = _exhaustive_cases(dims, P)
            cases += cs
            total += pairs
        _EXPECT['exh_pairs'] = total
        _EXPECT['exh_complete'] = True
    else:
        # depth-0 fan of every grid of the bounded space (all first translations)
        for dims in _bounded_grids():
            N = len(_cells(dims))
            cases.append({'name': 'fan-d0-%s' % 'x'.join(map(str, dims)),
                          'lines': _header(dims, range(1, N + 1)) + ['wg.fan -1 %d' % P], 'meta': {'dims': dims}})
    return cases


def focused_cases(rng, disagreeing, tier):
    """plain sequences with full dumps on the grids of the disagreeing cases"""
    out = []
    for c in disagreeing[:10]:
        dims = None
        for l in c['lines']:
            if l.startswith('wg.new'):
                dims = tuple(int(x) for x in l.split()[2:])
                break
        if not dims:
            continue
        N = len(_cells(dims))
        for k in range(40):
            lines = _header(dims, range(1, N + 1)) + ['wg.dump']
            for t in range(1, rng.int(1, 4) + 1):
                lines += [_tr([_rand_offset(rng, n) for n in dims], -t), 'wg.dump']
            out.append({'name': 'focused-%d' % k, 'lines': lines, 'meta': {'dims': dims}})
    return out
