"""C20 — bounding volumes and point-set extents (DESIGN.md section 6, C20)."""
from fractions import Fraction as F
import itertools
import math
from vlib import D, S, tok_val, to_f32, f32_bits, bits_f32, is_float_tok, float_close

ID = 'C20'
LEVEL = 'proof'
DRIVER = 'drv_c20'
HARNESS = 'c20.cpp'
SOURCES = ['src/containers/boundingbox/AxisAlignedBoundingBox.cpp', 'src/containers/boundingbox/OrientedBoundingBox.cpp',
           'src/pointset/algorithms/PointSetPreconditioner.cpp']
PROOF_MODULES = ['RomeaProofs.Properties.C20', 'RomeaProofs.Bridge.C20', 'RomeaProofs.Bridge.C20Cor', 'RomeaProofs.Bridge.C20Homog', 'RomeaProofs.Bridge.C20HomogCor', 'RomeaProofs.Bridge.C20Cont', 'RomeaProofs.Bridge.C20ContCor']
TRUSTED = ['C++ harness harness/c20.cpp (builds the Eigen objects from the op tokens, prints members through the public getters)',
           'the order in which the compiled Eigen kernel adds the three terms of R^T (p - c) (model parameter Sum3; chosen per '
           'scalar type in the driver, irrelevant over the reals)']
ASSUMPTIONS = ['theorems are over the reals (no rounding, no overflow); in floating point the containment tests are decided by '
               'the rounding of p - c resp. R^T (p - c) for points within a few ulp of a face: there the probe accepts either answer '
               'unless the floating-point evaluation is exact (axis-aligned rotations, dyadic data), everywhere else it demands '
               'the exact answer',
               'a point set whose points all coincide has largest side 0: the reported scale is 1/0 = +inf (IEEE), accepted as '
               '"the reciprocal of the largest side"; the theorem carries the guard side != 0']
EXPLANATION = 'proof of the box / interval / extent laws on the Lean model + differential correspondence (float and double, all point types) + boundary probe'

EPS = {'f64': 2.0 ** -52, 'f32': 2.0 ** -23}


# ------------------------------------------------------------------ helpers
def rnd(T, x):
    return to_f32(x) if T == 'f32' else float(x)


def tok(T, x):
    return S(x) if T == 'f32' else D(x)


def toks(T, v):
    return ' '.join(tok(T, x) for x in v)


def nxt(T, x, up):
    if T == 'f64':
        return math.nextafter(x, math.inf if up else -math.inf)
    if x == 0.0:
        return bits_f32(1) if up else -bits_f32(1)
    b = f32_bits(x)
    b = b + 1 if (x > 0) == up else b - 1
    return bits_f32(b)


def vals(tk):
    return [tok_val(x) for x in tk]


def rotation(rng, T, d):
    """a proper rotation matrix (rows), entries rounded to T; includes exact ones (0, +-1 entries)"""
    m = rng.below(6)
    if d == 2:
        if m == 0:
            a = rng.choice([0.0, 0.5, 1.0, 1.5]) * math.pi
            c, s = round(math.cos(a)), round(math.sin(a))
            R = [[float(c), float(-s)], [float(s), float(c)]]
        else:
            a = rng.uniform(-math.pi, math.pi) if m < 4 else rng.choice([1e-9, math.pi / 4, math.pi / 2 - 1e-7, 1e-3])
            R = [[math.cos(a), -math.sin(a)], [math.sin(a), math.cos(a)]]
    else:
        if m == 0:      # signed axis permutation with determinant +1
            perm = rng.choice(list(itertools.permutations(range(3))))
            sg = [rng.choice([-1.0, 1.0]) for _ in range(3)]
            R = [[0.0] * 3 for _ in range(3)]
            for i in range(3):
                R[i][perm[i]] = sg[i]
            det = (R[0][0] * (R[1][1] * R[2][2] - R[1][2] * R[2][1]) - R[0][1] * (R[1][0] * R[2][2] - R[1][2] * R[2][0])
                   + R[0][2] * (R[1][0] * R[2][1] - R[1][1] * R[2][0]))
            if det < 0:
                R[0] = [-x for x in R[0]]
        elif m == 1:    # about one axis
            a = rng.uniform(-math.pi, math.pi)
            c, s = math.cos(a), math.sin(a)
            k = rng.below(3)
            i, j = [(1, 2), (2, 0), (0, 1)][k]
            R = [[1.0 if r == q else 0.0 for q in range(3)] for r in range(3)]
            R[i][i], R[i][j], R[j][i], R[j][j] = c, -s, s, c
        else:           # unit quaternion
            q = [rng.gauss() for _ in range(4)]
            n = math.sqrt(sum(x * x for x in q)) or 1.0
            w, x, y, z = [v / n for v in q]
            R = [[1 - 2 * (y * y + z * z), 2 * (x * y - z * w), 2 * (x * z + y * w)],
                 [2 * (x * y + z * w), 1 - 2 * (x * x + z * z), 2 * (y * z - x * w)],
                 [2 * (x * z - y * w), 2 * (y * z + x * w), 1 - 2 * (x * x + y * y)]]
    return [[rnd(T, v) + 0.0 for v in row] for row in R]


def magnitude(rng):
    return rng.choice([1.0, 1.0, 10.0, 100.0, 1e3, 1e-2, 0.5])


# ------------------------------------------------------------------ generators
def gen_aabb(rng, T, i, npts):
    d = rng.choice([2, 3])
    s = magnitude(rng)
    dy = rng.chance(0.35)          # dyadic data: every float operation of the code is exact

    def coord():
        return float(rng.int(-64, 64)) / 8 if dy else rnd(T, rng.uniform(-s, s))
    lo, hi = [], []
    for _ in range(d):
        a, b = coord(), coord()
        if rng.chance(0.12):
            b = a                   # zero extent
        lo.append(min(a, b))
        hi.append(max(a, b))
    lines = ['aabb.ofint %s %d %s %s' % (T, d, toks(T, lo), toks(T, hi)), 'aabb.toint']
    if rng.chance(0.3):             # (centre, half-extent) constructor
        c = [rnd(T, (a + b) / 2) for a, b in zip(lo, hi)]
        h = [rnd(T, (b - a) / 2) for a, b in zip(lo, hi)]
        lines = ['aabb.new %s %d %s %s' % (T, d, toks(T, c), toks(T, h)), 'aabb.toint']
        lo = [rnd(T, a - b) for a, b in zip(c, h)]
        hi = [rnd(T, a + b) for a, b in zip(c, h)]
    for _ in range(npts):
        m = rng.below(7)
        p = []
        for k in range(d):
            a, b = lo[k], hi[k]
            mk = m if rng.chance(0.75) else 0
            if mk == 0:
                x = rnd(T, rng.uniform(a, b))
            elif mk == 1:
                x = rng.choice([a, b])                                   # on a face / edge / corner
            elif mk == 2:
                x = nxt(T, b, True) if rng.chance(0.5) else nxt(T, a, False)   # one ulp outside
            elif mk == 3:
                x = nxt(T, b, False) if rng.chance(0.5) else nxt(T, a, True)   # one ulp inside
            elif mk == 4:
                x = rnd(T, rng.uniform(a - (b - a) - s * 0.1, b + (b - a) + s * 0.1))
            elif mk == 5:
                x = rnd(T, (a + b) / 2)
            else:
                x = rng.choice([a, b, nxt(T, b, True), nxt(T, a, False), rnd(T, rng.uniform(a, b))])
            p.append(x)
        lines.append('aabb.in ' + toks(T, p))
    return {'name': 'aabb-%d' % i, 'lines': lines, 'meta': {}}


def gen_obb(rng, T, i, npts):
    d = rng.choice([2, 3])
    s = magnitude(rng)
    dy = rng.chance(0.25)
    c = [float(rng.int(-64, 64)) / 8 if dy else rnd(T, rng.uniform(-s, s)) for _ in range(d)]
    h = [float(rng.int(0, 32)) / 8 if dy else rnd(T, rng.uniform(0, s)) for _ in range(d)]
    for k in range(d):
        if rng.chance(0.1):
            h[k] = 0.0
    R = rotation(rng, T, d)
    flat = [R[r][q] for r in range(d) for q in range(d)]
    lines = ['obb.new %s %d %s %s %s' % (T, d, toks(T, c), toks(T, h), toks(T, flat)), 'obb.toaabb']
    scale = max(max(map(abs, c)), max(h), 1e-30)
    margin = 256 * EPS[T] * scale * d
    for _ in range(npts):
        m = rng.below(8)
        y = []
        for k in range(d):
            mk = m if rng.chance(0.6) else 0
            sg = rng.choice([-1.0, 1.0])
            if mk == 0:
                v = rng.uniform(-0.95, 0.95) * h[k]
            elif mk == 1:
                v = sg * h[k]                                  # on a face (edge / corner when several axes)
            elif mk == 2:
                v = sg * (h[k] + margin)                       # just outside, beyond the rounding window
            elif mk == 3:
                v = sg * max(0.0, h[k] - margin)               # just inside
            elif mk == 4:
                v = sg * (h[k] + rng.uniform(0.05, 2.0) * (h[k] + 0.1 * s))
            elif mk == 5:
                v = 0.0
            elif mk == 6:
                v = sg * h[k] * (1 + rng.choice([-1, 1]) * 4 * EPS[T])     # inside the rounding window
            else:
                v = rng.uniform(-1.5, 1.5) * h[k]
            y.append(v)
        p = [rnd(T, c[r] + sum(R[r][q] * y[q] for q in range(d))) for r in range(d)]
        lines.append('obb.in ' + toks(T, p))
    return {'name': 'obb-%d' % i, 'lines': lines, 'meta': {}}


def gen_interval(rng, T, i, nops):
    d = rng.choice([1, 2, 3])
    s = magnitude(rng)

    def itv():
        lo, hi = [], []
        for _ in range(d):
            a, b = rnd(T, rng.uniform(-s, s)), rnd(T, rng.uniform(-s, s))
            if rng.chance(0.15):
                b = a
            lo.append(min(a, b))
            hi.append(max(a, b))
        return lo, hi
    lo, hi = itv()
    lines = ['int.new %s %d %s %s' % (T, d, toks(T, lo), toks(T, hi))]
    for _ in range(nops):
        if rng.chance(0.3):
            m = rng.below(5)
            l2, h2 = itv()
            if m == 0:       # nested inside
                l2 = [rnd(T, a + (b - a) * 0.25) for a, b in zip(lo, hi)]
                h2 = [rnd(T, a + (b - a) * 0.75) for a, b in zip(lo, hi)]
                l2, h2 = [min(a, b) for a, b in zip(l2, h2)], [max(a, b) for a, b in zip(l2, h2)]
            elif m == 1:     # identical
                l2, h2 = list(lo), list(hi)
            elif m == 2:     # touching at the upper bound
                l2 = list(hi)
                h2 = [rnd(T, b + abs(rng.uniform(0, s))) for b in hi]
            lines.append('int.include %s %s' % (toks(T, l2), toks(T, h2)))
            lo = [min(a, b) for a, b in zip(lo, l2)]
            hi = [max(a, b) for a, b in zip(hi, h2)]
            if d >= 2 and rng.chance(0.6):
                # "a box built from an interval reproduces that interval" — for the interval OBJECT as it is after its unions
                # (seeded change c20d: a cached width that the N-D include() does not refresh)
                lines.append('int.hullbox')
        else:
            v = []
            for k in range(d):
                m = rng.below(6)
                a, b = lo[k], hi[k]
                v.append([rnd(T, rng.uniform(a, b)), a, b, nxt(T, a, False), nxt(T, b, True), rnd(T, rng.uniform(-2 * s, 2 * s))][m])
            lines.append('int.inside ' + toks(T, v))
    return {'name': 'interval-%d' % i, 'lines': lines, 'meta': {}}


def point_set(rng, T, d, n):
    """n points of dimension d confined to one 'octant box' (possibly all-negative), with duplicates / degenerate sides"""
    s = magnitude(rng)
    box = []
    for _ in range(d):
        m = rng.below(6)
        if m == 0:
            a, b = -s, -s * rng.uniform(0.0, 0.9)            # strictly negative side
        elif m == 1:
            a, b = s * rng.uniform(0.0, 0.9), s
        elif m == 2:
            a, b = -s, s
        elif m == 3:
            a = b = rng.uniform(-s, s)                        # degenerate side
        elif m == 4:
            a, b = -s * 1e-3, -s * 1e-6
        else:
            a, b = sorted([rng.uniform(-s, s), rng.uniform(-s, s)])
        box.append((a, b))
    pts = []
    for _ in range(n):
        if pts and rng.chance(0.05):
            pts.append(list(rng.choice(pts)))
        else:
            pts.append([rnd(T, rng.uniform(a, b)) for a, b in box])
    return pts


def all_negative_set(rng, T, d, n):
    s = magnitude(rng)
    return [[rnd(T, -rng.uniform(1e-3, 1.0) * s) for _ in range(d)] for _ in range(n)]


def gen_points(rng, T, i, big):
    lines = []
    for _ in range(6):
        n = rng.choice([1, 1, 2, 3, 5, rng.int(4, 60), rng.int(60, 1000 if big else 200)])
        kind = rng.choice(['c2', 'c3', 'h2', 'h3'])
        d = int(kind[1])
        pts = all_negative_set(rng, T, d, n) if rng.chance(0.25) else point_set(rng, T, d, n)
        lines.append('pre.compute %s %s %d %s' % (T, kind, n, ' '.join(toks(T, p) for p in pts)))
    for _ in range(6):
        n = rng.choice([1, 2, 3, rng.int(4, 60), rng.int(60, 1000 if big else 200)])
        d = rng.choice([2, 3, 4])
        pts = all_negative_set(rng, T, d, n) if rng.chance(0.25) else point_set(rng, T, d, n)
        op = rng.choice(['cont.min', 'cont.max', 'cont.mean'])
        cont = rng.choice(['vec', 'deque', 'list'] + (['avec'] if op == 'cont.mean' else []))
        lines.append('%s %s %d %s %d %s' % (op, T, d, cont, n, ' '.join(toks(T, p) for p in pts)))
    return {'name': 'points-%d' % i, 'lines': lines, 'meta': {}}


def gen_aabb_far_thin(rng, T, i, npts):
    """a box FAR from the origin (centre 1e3 .. 1e7) that is THIN (or flat) along one axis, queried at points that are a few
    half-extents off the box on that axis yet — relative to the centre's distance from the origin — within any fuzzy "is this the
    centre?" test (seeded change c20e: `if (point.isApprox(centerPosition_)) return true`)"""
    d = rng.choice([2, 3])
    mag = rng.choice([1e3, 1e5, 1e6, 1e7]) if T == 'f64' else rng.choice([1e3, 1e5, 1e6])
    c = [rnd(T, mag * rng.choice([1.0, -1.0]) * rng.uniform(0.5, 1.0)) for _ in range(d)]
    h = [rnd(T, rng.uniform(10.0, 100.0)) for _ in range(d)]
    k = rng.below(d)
    # thin axis: far below the fuzzy tolerance (1e-5 / 1e-12 of |c|) but representable next to c[k]
    ulp = abs(c[k]) * EPS[T]
    h[k] = rng.choice([0.0, rnd(T, 8 * ulp), rnd(T, 64 * ulp), rnd(T, 1e-7 * mag if T == 'f64' else 4e-6 * mag)])
    lines = ['aabb.new %s %d %s %s' % (T, d, toks(T, c), toks(T, h)), 'aabb.toint']
    for _ in range(npts):
        p = [rnd(T, c[j] + rng.uniform(-0.5, 0.5) * h[j]) for j in range(d)]
        off = rng.choice([2.0, 5.0, 16.0, 50.0]) * max(h[k], 4 * ulp) * rng.choice([1.0, -1.0])
        p[k] = rnd(T, c[k] + off)
        if rng.chance(0.2):
            p[k] = c[k]                      # the centre plane itself: inside
        lines.append('aabb.in ' + toks(T, p))
    return {'name': 'aabb-far-thin-%d' % i, 'lines': lines, 'meta': {}}


def gen_obb_near_exact(rng, T, i, npts):
    """oriented boxes whose rotation is an EXACT one (identity / signed axis permutation) composed with a tiny rotation (1e-13 .. 1e-4
    rad): the matrix differs from the exact one by less than any fuzzy `isIdentity()` / `isApprox()` tolerance, yet on a long thin
    box the far end moves by angle * length — far more than rounding. Points sit beside the side faces at the far ends, displaced by a
    fraction of that movement (seeded change c20c: `if (rotation_.isIdentity()) return aabb_.isInside(point)`)."""
    d = rng.choice([2, 3])
    ang = rng.choice([1e-13, 5e-13, 1e-11, 1e-9, 1e-7, 3e-6, 8e-6, 5e-5, 1e-4]) * rng.choice([1.0, -1.0])
    if T == 'f32':
        ang = rng.choice([2e-7, 1e-6, 3e-6, 8e-6, 5e-5, 1e-4]) * rng.choice([1.0, -1.0])
    L = rng.choice([1e2, 1e3, 1e4, 1e6]) if T == 'f64' else rng.choice([1e2, 1e3])
    w = rng.choice([0.5, 1.0, 3.0])
    long_axis = rng.below(d)
    h = [w] * d
    h[long_axis] = L
    c = [0.0] * d if rng.chance(0.5) else [rnd(T, rng.uniform(-5, 5)) for _ in range(d)]
    co, si = math.cos(ang), math.sin(ang)
    if d == 2:
        R = [[co, -si], [si, co]]
        if rng.chance(0.3):      # quarter turn times the tiny rotation
            R = [[-si, -co], [co, -si]]
    else:
        k = rng.below(3)
        a_, b_ = [(1, 2), (2, 0), (0, 1)][k]
        R = [[1.0 if r == q else 0.0 for q in range(3)] for r in range(3)]
        R[a_][a_], R[a_][b_], R[b_][a_], R[b_][b_] = co, -si, si, co
    R = [[rnd(T, x) for x in row] for row in R]
    flat = [R[r][q] for r in range(d) for q in range(d)]
    lines = ['obb.new %s %d %s %s %s' % (T, d, toks(T, c), toks(T, h), toks(T, flat)), 'obb.toaabb']
    move = abs(ang) * L
    for _ in range(npts):
        y = [rng.uniform(-0.9, 0.9) * h[k] for k in range(d)]
        y[long_axis] = rng.choice([-1.0, 1.0]) * rng.uniform(0.9, 0.999) * L          # far end
        k = rng.choice([q for q in range(d) if q != long_axis])
        y[k] = rng.choice([-1.0, 1.0]) * (w + rng.choice([-1.0, 1.0]) * rng.uniform(0.2, 0.8) * move)   # beside a side face
        pt = [rnd(T, c[r] + sum(R[r][q] * y[q] for q in range(d))) for r in range(d)]
        lines.append('obb.in ' + toks(T, pt))
    return {'name': 'obb-near-exact-%d' % i, 'lines': lines, 'meta': {}}


def gen_cases(rng, tier):
    quick = tier == 'quick'
    cases = []
    n = 150 if quick else 4000
    npts = 30 if quick else 50
    for i in range(n):
        T = rng.choice(['f64', 'f32'])
        cases.append(gen_aabb(rng, T, i, npts))
        cases.append(gen_obb(rng, T, i, npts))
        cases.append(gen_interval(rng, T, i, npts))
        if i % 4 == 0:
            cases.append(gen_obb_near_exact(rng, T, i, 12))
        if i % 5 == 0:
            cases.append(gen_aabb_far_thin(rng, T, i, 12))
    for i in range(60 if quick else 1200):
        T = rng.choice(['f64', 'f32'])
        cases.append(gen_points(rng, T, i, big=(i % 10 == 0)))
    return cases


# ------------------------------------------------------------------ exact evaluation of the containment tests
def _fl(T):
    return (lambda x: to_f32(x)) if T == 'f32' else (lambda x: x)


def aabb_expect(T, c, h, p):
    """set of answers the property allows for AABB::isInside"""
    fl = _fl(T)
    exact = all(abs(F(pi) - F(ci)) <= F(hi) for pi, ci, hi in zip(p, c, h))
    asfloat = all(abs(fl(pi - ci)) <= hi for pi, ci, hi in zip(p, c, h))
    return {exact, asfloat}


def obb_expect(T, c, h, R, p):
    """set of answers the property allows for OBB::isInside: the exact one outside the rounding window of
       R^T (p - c); inside the window either, unless the floating-point evaluation is itself exact"""
    d = len(c)
    eps = EPS[T]
    fl = _fl(T)
    diff = [F(p[j]) - F(c[j]) for j in range(d)]
    y = [sum(F(R[j][i]) * diff[j] for j in range(d)) for i in range(d)]
    tol = [4 * F(eps) * sum(abs(F(R[j][i])) * abs(diff[j]) for j in range(d)) for i in range(d)]
    exact = all(abs(y[i]) <= F(h[i]) for i in range(d))
    if any(abs(y[i]) - F(h[i]) > tol[i] for i in range(d)):
        return {False}
    if all(F(h[i]) - abs(y[i]) > tol[i] for i in range(d)):
        return {True}
    # inside the window: emulate the float evaluation (left-to-right), and see whether anything was rounded
    inexact = False
    for i in range(d):
        acc = None
        accx = F(0)
        for j in range(d):
            dj = fl(p[j] - c[j])
            inexact = inexact or F(dj) != diff[j]
            t = fl(R[j][i] * dj)
            inexact = inexact or F(t) != F(R[j][i]) * F(dj)
            acc = t if acc is None else fl(acc + t)
            accx += F(t)
            inexact = inexact or F(acc) != accx
    return {True, False} if inexact else {exact}


def _ctor(case, li):
    """the latest constructor line at or before line li"""
    for k in range(li, -1, -1):
        tk = case['lines'][k].split()
        if tk[0] in ('int.new', 'aabb.ofint', 'aabb.new', 'obb.new'):
            return k, tk
    return None, None


def _box_of(case, li, impl_out=None):
    """(T, d, centre, half, R or None) of the current box at line li, centre/half as the implementation holds them"""
    k, tk = _ctor(case, li)
    if tk is None:
        return None
    T, d = tk[1], int(tk[2])
    v = vals(tk[3:])
    if tk[0] == 'aabb.new':
        return T, d, v[:d], v[d:2 * d], None
    if tk[0] == 'obb.new':
        m = v[2 * d:]
        return T, d, v[:d], v[d:2 * d], [m[r * d:(r + 1) * d] for r in range(d)]
    if tk[0] == 'aabb.ofint':
        if impl_out is not None and len(impl_out[k].split()) == 2 * d:
            r = vals(impl_out[k].split())
            return T, d, r[:d], r[d:], None
        fl = _fl(T)
        lo, hi = v[:d], v[d:]
        return T, d, [fl(fl(b + a) / 2) for a, b in zip(lo, hi)], [fl(fl(b - a) / 2) for a, b in zip(lo, hi)], None
    return None


# ------------------------------------------------------------------ correspondence comparison
def compare(case, li, op, a, b):
    if a == b:
        return True
    tk = op.split()
    x, y = a.split(), b.split()
    if len(x) != len(y):
        return False
    if tk[0] in ('aabb.in', 'obb.in') and a in ('0', '1') and b in ('0', '1'):
        bx = _box_of(case, li)
        if bx is None:
            return False
        T, d, c, h, R = bx
        p = vals(tk[1:])
        allowed = aabb_expect(T, c, h, p) if R is None else obb_expect(T, c, h, R, p)
        if len(allowed) == 2:             # model and implementation may differ only inside the rounding window
            return True
        k, ctk = _ctor(case, li)
        if ctk[0] == 'aabb.ofint':
            # centre and half extent were themselves computed (rounded) from the interval: a point within a few ulp
            # (of the size of the bounds) of a face may be classified either way
            v = vals(ctk[3:])
            for i in range(d):
                tol = 4 * EPS[T] * max(abs(v[i]), abs(v[d + i]))
                if abs(abs(F(p[i]) - F(c[i])) - F(h[i])) <= tol:
                    return True
        return False
    # floats: 64 ulp, or 4 ulp of the largest magnitude among the operands (sums that cancel)
    k, ctk = _ctor(case, li)
    src = tk if tk[0] in ('pre.compute', 'cont.min', 'cont.max', 'cont.mean', 'int.include') or ctk is None else ctk + tk
    T = 'f32' if any(t.startswith('s') and is_float_tok(t) for t in src) else 'f64'
    fv = [abs(tok_val(t)) for t in src if is_float_tok(t) and t != 'nan']
    fv = [v for v in fv if not math.isinf(v)]
    atol = 4 * EPS[T] * (max(fv) if fv else 0.0)
    for u, v in zip(x, y):
        if u == v:
            continue
        if is_float_tok(u) and is_float_tok(v):
            if not float_close(u, v, ulps=64, abs_tol=atol):
                return False
        else:
            return False
    return True


# ------------------------------------------------------------------ oracle (property probe on the implementation)
def oracle(case, out, stats):
    fails = []
    derived = None        # (centre, half) reported by obb.toaabb for the current oriented box
    itv = None            # expected current interval (exact componentwise hull)

    def st(k, v=1):
        stats[k] = stats.get(k, 0) + v

    for li, (line, o) in enumerate(zip(case['lines'], out)):
        tk = line.split()
        op = tk[0]
        st(op)

        def bad(kind, detail, **fields):
            fails.append({'kind': kind, 'detail': '%s -> %s : %s' % (line[:300], o[:300], detail), 'fields': fields})
        if o in ('abort', 'hang', 'exception', 'skipped', 'bad-op'):
            bad('outcome-' + o, 'unexpected outcome')
            break
        f = o.split()
        if op != 'pre.compute' and any(is_float_tok(x) and not math.isfinite(tok_val(x)) for x in f):
            bad('nonfinite-output', 'finite input, non-finite output')
            continue
        if op in ('int.new', 'aabb.new', 'obb.new'):
            derived = None
            if op == 'int.new':
                d = int(tk[2])
                v = vals(tk[3:])
                itv = (v[:d], v[d:])
            continue
        T = None
        if op == 'aabb.ofint':
            T, d = tk[1], int(tk[2])
            v = vals(tk[3:])
            lo, hi = v[:d], v[d:]
            r = vals(f)
            if len(r) != 2 * d:
                bad('malformed', 'bad output')
                continue
            for i in range(d):
                tol = 2 * EPS[T] * max(abs(lo[i]), abs(hi[i]))
                if abs(F(r[i]) - (F(hi[i]) + F(lo[i])) / 2) > tol or abs(F(r[d + i]) - (F(hi[i]) - F(lo[i])) / 2) > tol:
                    bad('aabb-of-interval', 'axis %d: centre / half extent are not (u+l)/2, (u-l)/2' % i, axis=i)
            st('aabb_of_interval_checked')
        elif op == 'aabb.toint':
            k, ctk = _ctor(case, li)
            T, d = ctk[1], int(ctk[2])
            v = vals(ctk[3:])
            r = vals(f)
            if len(r) != 2 * d:
                bad('malformed', 'bad output')
                continue
            if ctk[0] == 'aabb.ofint':       # round trip: the interval comes back
                lo, hi = v[:d], v[d:]
            else:                            # (centre, half) form: centre -+ half
                lo = [F(a) - F(b) for a, b in zip(v[:d], v[d:])]
                hi = [F(a) + F(b) for a, b in zip(v[:d], v[d:])]
            for i in range(d):
                tol = 4 * EPS[T] * max(abs(float(lo[i])), abs(float(hi[i])))
                if abs(F(r[i]) - F(lo[i])) > tol or abs(F(r[d + i]) - F(hi[i])) > tol:
                    bad('aabb-round-trip', 'axis %d: toInterval gives [%r, %r], expected [%r, %r]' % (
                        i, r[i], r[d + i], float(lo[i]), float(hi[i])), axis=i)
            st('aabb_round_trips_checked')
        elif op == 'aabb.in':
            T, d, c, h, _ = _box_of(case, li, out)
            p = vals(tk[1:])
            allowed = aabb_expect(T, c, h, p)
            if len(allowed) > 1:
                st('aabb_in_rounding_window')
            if (o == '1') not in allowed or o not in ('0', '1'):
                bad('aabb-inside', 'isInside = %s but |p - c| <= h is %s (c=%r h=%r p=%r)' % (o, sorted(allowed), c, h, p))
            st('aabb_in_checked')
            if any(pi in (rnd(T, ci - hi), rnd(T, ci + hi)) for pi, ci, hi in zip(p, c, h)) and len(allowed) == 1:
                st('aabb_in_exactly_on_face_demanded')
        elif op == 'obb.toaabb':
            T, d, c, h, R = _box_of(case, li)
            r = vals(f)
            if len(r) != 2 * d:
                bad('malformed', 'bad output')
                continue
            derived = (r[:d], r[d:])
            if r[:d] != c:
                bad('obb-aabb-centre', 'derived box has centre %r, oriented box %r' % (r[:d], c))
            # corners of the oriented box, in world coordinates relative to the centre (exact)
            for i in range(d):
                reach = max(sum(F(R[i][n]) * sg[n] * F(h[n]) for n in range(d)) for sg in itertools.product((-1, 1), repeat=d))
                tol = 4 * d * EPS[T] * max(float(reach), 0.0)
                if reach > F(r[d + i]) + F(tol):
                    bad('obb-not-enclosed', 'axis %d: a corner reaches %r, derived half extent %r' % (i, float(reach), r[d + i]), axis=i)
                if reach < F(r[d + i]) - F(tol):
                    bad('obb-not-tight', 'axis %d: no corner reaches the face: corners reach %r, derived half extent %r' % (
                        i, float(reach), r[d + i]), axis=i)
            st('obb_derived_boxes_checked')
        elif op == 'obb.in':
            T, d, c, h, R = _box_of(case, li)
            p = vals(tk[1:])
            allowed = obb_expect(T, c, h, R, p)
            if len(allowed) > 1:
                st('obb_in_rounding_window')
            elif True in allowed:
                st('obb_in_demanded_inside')
            else:
                st('obb_in_demanded_outside')
            if (o == '1') not in allowed or o not in ('0', '1'):
                bad('obb-inside', 'isInside = %s but R^T (p - c) in the box is %s (c=%r h=%r R=%r p=%r)' % (o, sorted(allowed), c, h, R, p))
            if o == '1' and derived is not None:
                for i in range(d):
                    tol = 8 * d * EPS[T] * (abs(p[i]) + abs(c[i]) + derived[1][i])
                    if abs(F(p[i]) - F(c[i])) > F(derived[1][i]) + F(tol):
                        bad('obb-point-outside-derived-aabb', 'axis %d: a point of the oriented box is outside the derived box' % i, axis=i)
                st('obb_points_checked_against_derived_box')
        elif op == 'int.include':
            d = len(itv[0])
            v = vals(tk[1:])
            itv = ([min(a, b) for a, b in zip(itv[0], v[:d])], [max(a, b) for a, b in zip(itv[1], v[d:])])
            r = vals(f)
            if r != itv[0] + itv[1]:
                bad('interval-hull', 'include gives %r, componentwise hull is %r' % (r, itv[0] + itv[1]))
            st('interval_hulls_checked')
        elif op == 'int.hullbox':
            r = vals(f)
            d = len(itv[0])
            if len(r) != 2 * d:
                bad('malformed', 'bad output')
                continue
            for i in range(d):
                tol = 4 * (EPS['f32'] if f[0].startswith('s') else EPS['f64']) * max(abs(itv[0][i]), abs(itv[1][i]))
                if abs(F(r[i]) - F(itv[0][i])) > tol or abs(F(r[d + i]) - F(itv[1][i])) > tol:
                    bad('aabb-round-trip', 'axis %d: the box built from the interval object (after its unions) gives back [%r, %r], the interval is '
                        '[%r, %r]' % (i, r[i], r[d + i], itv[0][i], itv[1][i]), axis=i)
            st('hull_boxes_checked')
        elif op == 'int.inside':
            v = vals(tk[1:])
            exp = all(a <= x <= b for x, a, b in zip(v, itv[0], itv[1]))
            if o != ('1' if exp else '0'):
                bad('interval-inside', 'inside = %s, expected %s (interval %r, value %r)' % (o, exp, itv, v))
            st('interval_inside_checked')
        elif op == 'pre.compute':
            T, kind, n = tk[1], tk[2], int(tk[3])
            cart = int(kind[1])
            hom = kind[0] == 'h'
            sz = cart + (1 if hom else 0)
            v = vals(tk[4:])
            pts = [v[k * cart:(k + 1) * cart] + ([1.0] if hom else []) for k in range(n)]
            r = vals(f)
            if len(r) != 3 * sz + 1 + cart:
                bad('malformed', 'bad output')
                continue
            mn, mx, mean, scale, tr = r[:sz], r[sz:2 * sz], r[2 * sz:3 * sz], r[3 * sz], r[3 * sz + 1:]
            if not all(math.isfinite(x) for x in mn + mx + mean):
                bad('pointset-nonfinite', 'minimum / maximum / mean of a finite point set is not finite: %r %r %r' % (mn, mx, mean))
                continue
            allneg = all(x < 0 for p in pts for x in p[:cart])
            for i in range(sz):
                col = [p[i] for p in pts]
                if mn[i] != min(col):
                    bad('pointset-min', 'component %d: reported %r, true minimum %r' % (i, mn[i], min(col)), component=i, all_negative=allneg)
                if mx[i] != max(col):
                    bad('pointset-max', 'component %d: reported %r, true maximum %r' % (i, mx[i], max(col)), component=i, all_negative=allneg)
                true = sum(F(x) for x in col) / n
                tol = n * EPS[T] * max(abs(x) for x in col)
                if not abs(F(mean[i]) - true) <= tol:
                    bad('pointset-mean', 'component %d: reported %r, centroid %r' % (i, mean[i], float(true)), component=i)
            side = max(F(max(p[i] for p in pts)) - F(min(p[i] for p in pts)) for i in range(sz))
            if side == 0:
                st('pointsets_with_zero_side')
                if not (math.isinf(scale) and scale > 0):
                    bad('pointset-scale', 'all points coincide: scale %r, expected +inf (1/0)' % scale, all_negative=allneg)
            else:
                if not math.isfinite(scale) or not abs(F(scale) - 1 / side) <= 4 * EPS[T] / side:
                    bad('pointset-scale', 'scale %r, reciprocal of the largest side is %r' % (scale, float(1 / side)), all_negative=allneg)
                    continue
                for i in range(cart):
                    if not math.isfinite(tr[i]):
                        bad('pointset-translation', 'component %d: translation %r' % (i, tr[i]), component=i)
                        continue
                    exp = -F(mean[i]) * F(scale)
                    if not abs(F(tr[i]) - exp) <= 2 * EPS[T] * abs(exp):
                        bad('pointset-translation', 'component %d: translation %r, -mean*scale = %r' % (i, tr[i], float(exp)), component=i)
            st('pointsets_checked')
            st('pointset_points', n)
            if allneg:
                st('pointsets_all_negative')
            if n == 1:
                st('pointsets_single_point')
        elif op in ('cont.min', 'cont.max', 'cont.mean'):
            T, d, n = tk[1], int(tk[2]), int(tk[4])
            v = vals(tk[5:])
            pts = [v[k * d:(k + 1) * d] for k in range(n)]
            r = vals(f)
            if len(r) != d or not all(math.isfinite(x) for x in r):
                bad('malformed', 'bad or non-finite output')
                continue
            for i in range(d):
                col = [p[i] for p in pts]
                if op == 'cont.min' and r[i] != min(col):
                    bad('container-min', 'component %d: reported %r, true minimum %r' % (i, r[i], min(col)), component=i)
                if op == 'cont.max' and r[i] != max(col):
                    bad('container-max', 'component %d: reported %r, true maximum %r' % (i, r[i], max(col)), component=i)
                if op == 'cont.mean':
                    true = sum(F(x) for x in col) / n
                    if not abs(F(r[i]) - true) <= n * EPS[T] * max(abs(x) for x in col):
                        bad('container-mean', 'component %d: reported %r, centroid %r' % (i, r[i], float(true)), component=i)
            st('containers_checked')
    return fails


# ------------------------------------------------------------------ stage G: the anchored functions themselves, translated (DESIGN.md 2.5b)
def _box(T, D, suf):
    return [
        {'cxx': 'Interval::include', 'record': 'Interval<%s, %d>' % (T, D), 'suffix': suf},
        {'cxx': 'Interval::inside', 'record': 'Interval<%s, %d>' % (T, D), 'suffix': suf},
        {'cxx': 'AxisAlignedBoundingBox::AxisAlignedBoundingBox', 'record': 'AxisAlignedBoundingBox<%s, %d>' % (T, D),
         'sig': 'IntervalType', 'suffix': '_interval' + suf},
        {'cxx': 'AxisAlignedBoundingBox::toInterval', 'record': 'AxisAlignedBoundingBox<%s, %d>' % (T, D), 'suffix': suf},
        {'cxx': 'AxisAlignedBoundingBox::isInside', 'record': 'AxisAlignedBoundingBox<%s, %d>' % (T, D), 'suffix': suf},
        {'cxx': 'OrientedBoundingBox::isInside', 'record': 'OrientedBoundingBox<%s, %d>' % (T, D), 'suffix': suf},
        {'cxx': 'OrientedBoundingBox::toAxisAlignedBoundingBox', 'record': 'OrientedBoundingBox<%s, %d>' % (T, D), 'suffix': suf},
    ]


_VEV = 'romea::core::VectorOfEigenVector'


def _vec_targs(kind, T, D):
    return 'std::vector<Eigen::%s<%s, %d, 1, 0>, Eigen::aligned_allocator<Eigen::%s<%s, %d, 1, 0>>>' % (kind, T, D, kind, T, D)


BRIDGE_SPEC = {
    'id': 'C20',
    # EigenContainers.hpp min / max / mean (round b4): `for (auto point : points)` is a structural recursion on the list of points
    'headers': ['romea_core_common/containers/Eigen/EigenContainers.hpp'],
    'range_for': True,
    'sources': ['src/containers/boundingbox/AxisAlignedBoundingBox.cpp', 'src/containers/boundingbox/OrientedBoundingBox.cpp',
                'src/pointset/algorithms/PointSetPreconditioner.cpp'],
    # the member functions of the header-only Interval are instantiated only when used
    'extra': ['template class romea::core::Interval<double, 1>;', 'template class romea::core::Interval<double, 2>;',
              'template class romea::core::Interval<double, 3>;', 'template class romea::core::Interval<float, 2>;',
              'template class romea::core::Interval<float, 3>;'] + [
        'template Eigen::Array%s romea::core::%s(const %s<Eigen::Array%s> &);' % (t, f, _VEV, t) for t in ('2d', '3d', '3f') for f in ('min', 'max')] + [
        'template Eigen::Vector%s romea::core::mean(const %s<Eigen::Vector%s> &);' % (t, _VEV, t) for t in ('2d', '3d', '3f')],
    'imports': ['RomeaModel.Rotation'],       # DoubleConv, should an edit introduce a float <-> double conversion
    'opens': ['Romea.Rotation'],
    'functions': _box('double', 2, '_d2') + _box('double', 3, '_d3') + _box('float', 2, '_f2') + _box('float', 3, '_f3') + [
        {'cxx': 'Interval::include', 'record': 'Interval<double, 1>', 'suffix': '_d1'},
        {'cxx': 'Interval::inside', 'record': 'Interval<double, 1>', 'suffix': '_d1'},
        {'cxx': 'PointSetPreconditioner::compute', 'record': 'PointSetPreconditioner<Eigen::Matrix<double, 2, 1, 0>>', 'suffix': '_2d'},
        {'cxx': 'PointSetPreconditioner::compute', 'record': 'PointSetPreconditioner<Eigen::Matrix<double, 3, 1, 0>>', 'suffix': '_3d'},
        {'cxx': 'PointSetPreconditioner::compute', 'record': 'PointSetPreconditioner<Eigen::Matrix<float, 2, 1, 0>>', 'suffix': '_2f'},
        {'cxx': 'PointSetPreconditioner::compute', 'record': 'PointSetPreconditioner<Eigen::Matrix<float, 3, 1, 0>>', 'suffix': '_3f'},
        # leftovers (round b4): the four homogeneous-coordinate instantiations
        {'cxx': 'PointSetPreconditioner::compute', 'record': 'PointSetPreconditioner<romea::core::HomogeneousCoordinates2<double>>', 'suffix': '_h2d'},
        {'cxx': 'PointSetPreconditioner::compute', 'record': 'PointSetPreconditioner<romea::core::HomogeneousCoordinates3<double>>', 'suffix': '_h3d'},
        {'cxx': 'PointSetPreconditioner::compute', 'record': 'PointSetPreconditioner<romea::core::HomogeneousCoordinates2<float>>', 'suffix': '_h2f'},
        {'cxx': 'PointSetPreconditioner::compute', 'record': 'PointSetPreconditioner<romea::core::HomogeneousCoordinates3<float>>', 'suffix': '_h3f'},
        # EigenContainers.hpp (round b4)
        {'cxx': 'min', 'targs': _vec_targs('Array', 'double', 2), 'suffix': '_a2d'},
        {'cxx': 'max', 'targs': _vec_targs('Array', 'double', 2), 'suffix': '_a2d'},
        {'cxx': 'mean', 'targs': _vec_targs('Matrix', 'double', 2), 'suffix': '_v2d'},
        {'cxx': 'min', 'targs': _vec_targs('Array', 'double', 3), 'suffix': '_a3d'},
        {'cxx': 'max', 'targs': _vec_targs('Array', 'double', 3), 'suffix': '_a3d'},
        {'cxx': 'mean', 'targs': _vec_targs('Matrix', 'double', 3), 'suffix': '_v3d'},
        {'cxx': 'min', 'targs': _vec_targs('Array', 'float', 3), 'suffix': '_a3f'},
        {'cxx': 'max', 'targs': _vec_targs('Array', 'float', 3), 'suffix': '_a3f'},
        {'cxx': 'mean', 'targs': _vec_targs('Matrix', 'float', 3), 'suffix': '_v3f'},
    ],
}


def regen(ctx):
    import bridge
    return bridge.regen_bridge(ctx, BRIDGE_SPEC)
