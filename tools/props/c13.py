"""C13 — grid index mapping (DESIGN.md section 6, C13)."""
from fractions import Fraction as F
import math
from vlib import D, S, tok_val, to_f32, f32_bits, bits_f32, lines_agree, float_close

ID = 'C13'
LEVEL = 'proof'
DRIVER = 'drv_c13'
HARNESS = 'c13.cpp'
SOURCES = ['src/containers/grid/GridIndexMapping.cpp']
PROOF_MODULES = ['RomeaProofs.Properties.C13', 'RomeaProofs.Bridge.C13', 'RomeaProofs.Bridge.C13Cor']
TRUSTED = ['C++ harness harness/c13.cpp (composite ops map.loc / map.fix / map.scan call computeCellIndexes and '
           'computeCellCenterPosition back to back; size_t indexes are printed as signed 64-bit values)']
ASSUMPTIONS = ['theorems are over the reals (exact floor/ceil arithmetic, r > 0, lower <= upper); the rounding of '
               'lower/r, upper/r, (p - origin)/r and of the centre table is covered by the correspondence check and the probe: '
               'the probe demands idx < N and idx(centre k) = k exactly and allows the half-cell and spacing bounds an excess '
               'of %d ulp of the coordinate magnitude',
               'floating -> size_t conversion of a negative value (point below the origin, upper < lower) is undefined '
               'behaviour in C++ and outside the domain of the property']
EXPLANATION = 'proof of the floor/ceil laws on the Lean model + differential correspondence (float and double) + boundary probe'

K_ULP = 8                       # "a few ulp of the coordinate magnitude"
ASSUMPTIONS[0] = ASSUMPTIONS[0] % K_ULP
EPS = {'f64': 2.0 ** -52, 'f32': 2.0 ** -23}
MAXCELLS = 10 ** 7


# ------------------------------------------------------------------ helpers
def rnd(T, x):
    return to_f32(x) if T == 'f32' else float(x)


def tok(T, x):
    return S(x) if T == 'f32' else D(x)


def nxt(T, x, up):
    if T == 'f64':
        return math.nextafter(x, math.inf if up else -math.inf)
    if x == 0.0:
        return bits_f32(1) if up else -bits_f32(1)
    b = f32_bits(x)
    if (x > 0) == up:
        b += 1
    else:
        b -= 1
    return bits_f32(b)


def clamp(x, lo, hi):
    return lo if x < lo else hi if x > hi else x


def real_axis(L, U, r):
    """exact-arithmetic mapping of one axis: (fl, N)"""
    fl = math.floor(F(L) / F(r))
    n = math.ceil(F(U) / F(r)) - fl + 1
    return fl, n


def total_cells(L, U, r):
    t = 1
    for lo, hi in zip(L, U):
        t *= real_axis(lo, hi, r)[1] + 1          # +1: rounding may add a cell
    return t


# ------------------------------------------------------------------ generators
DYADIC_R = [0.5, 0.25, 1.0, 2.0, 0.125, 1.5, 0.75, 3.0, 10.0, 5.0, 2.5, 2.0 ** -9, 0.375, 8.0, 6.0]
DECIMAL_R = [0.1, 0.01, 0.001, 0.3, 0.2, 0.05, 0.7, 1.1, 0.003, 9.99, 0.15, 0.025]


def _points(rng, T, L, U, r, n):
    """points inside the closed extent: uniform, corners, cell borders (exact and +-1 ulp), centres, bounds"""
    dim = len(L)
    ax = [real_axis(L[i], U[i], r) for i in range(dim)]
    pts = []
    for _ in range(n):
        m = rng.below(6)
        p = []
        for i in range(dim):
            lo, hi = L[i], U[i]
            fl, N = ax[i]
            mi = m if rng.chance(0.8) else rng.below(6)
            if mi == 0 or lo == hi:
                x = rnd(T, rng.uniform(lo, hi))
            elif mi == 1:
                x = rng.choice([lo, hi])
            elif mi == 2:      # on a cell border (exact real border rounded to T), and its neighbours
                k = rng.int(0, N)
                x = rnd(T, float((F(fl) - F(1, 2) + k) * F(r)))
                j = rng.below(4)
                if j == 1:
                    x = nxt(T, x, True)
                elif j == 2:
                    x = nxt(T, x, False)
            elif mi == 3:      # a cell centre
                k = rng.int(0, N - 1)
                x = rnd(T, float((F(fl) + k) * F(r)))
            elif mi == 4:      # just inside a bound
                x = nxt(T, lo, True) if rng.chance(0.5) else nxt(T, hi, False)
            else:              # border as the code computes it: origin + k r in T arithmetic (python double for f64)
                k = rng.int(0, N)
                o = rnd(T, r * rnd(T, (fl - 0.5)))
                x = rnd(T, o + rnd(T, k * r))
            p.append(clamp(x, lo, hi))
        pts.append(p)
    return pts


def _case(rng, name, T, L, U, r, npts, sym=None, scan=False, nfix=6):
    dim = len(L)
    if sym is not None:
        head = 'map.sym %s %d %s %s' % (T, dim, tok(T, sym), tok(T, r))
    else:
        head = 'map.new %s %d %s %s %s' % (T, dim, ' '.join(tok(T, x) for x in L), ' '.join(tok(T, x) for x in U), tok(T, r))
    lines = [head]
    if rng.chance(0.3):
        # QUIET construction, then the centre table of SOME axes read before any centre is computed, then the description: an
        # accessor with a side effect (seeded change c13f: tables filled lazily — `getCellCentersPositionAlong(axis)` fills only that
        # axis, `computeCellCenterPosition` fills all only when the LAST axis' table is empty) is visible only in this order
        lines = [head.replace('map.new ', 'map.newq ', 1).replace('map.sym ', 'map.symq ', 1)]
        axes = [dim - 1] if rng.chance(0.5) else [i for i in range(dim) if rng.chance(0.5)]
        lines += ['map.scan %d' % i for i in axes]
        lines.append('map.describe')
    for p in _points(rng, T, L, U, r, npts):
        op = 'map.loc' if rng.chance(0.85) else 'map.idx'
        lines.append('%s %s' % (op, ' '.join(tok(T, x) for x in p)))
    ax = [real_axis(L[i], U[i], r) for i in range(dim)]
    for _ in range(nfix):
        # a cell and its successor along every axis (indexes kept inside the smallest possible table: rounding of
        # lower/r and upper/r can each remove one cell with respect to exact arithmetic, so N >= N_real - 2)
        k = []
        for i in range(dim):
            nmin = max(1, ax[i][1] - 2)
            k.append(rng.choice([0, nmin - 1, rng.int(0, nmin - 1)]))
        lines.append(('map.fix ' if rng.chance(0.8) else 'map.centre ') + ' '.join(map(str, k)))
        k2 = [min(k[i] + 1, max(1, ax[i][1] - 2) - 1) for i in range(dim)]
        lines.append('map.fix ' + ' '.join(map(str, k2)))
    if scan:
        for i in range(dim):
            lines.append('map.scan %d' % i)
    return {'name': name, 'lines': lines, 'meta': {'T': T, 'dim': dim, 'L': L, 'U': U, 'r': r, 'sym': sym}}


def _random_extent(rng, T, dim, r):
    budget = MAXCELLS // 2
    L, U = [], []
    for i in range(dim):
        cap = min(2000.0 / r, budget ** (1.0 / (dim - i)))
        n = rng.loguniform(0.05, max(0.06, cap))
        budget = max(1, int(budget / max(1.0, n + 2)))
        w = min(n * r, 2000.0)
        lo = rng.uniform(-1000.0, 1000.0 - w)
        lo = clamp(rnd(T, lo), -1000.0, 1000.0)
        hi = clamp(rnd(T, lo + w), lo, 1000.0)
        L.append(lo)
        U.append(hi)
    return L, U


def _multiple_extent(rng, T, dim, r, half):
    """bounds at (k [+ 1/2]) * r, rounded to T (exact when r is dyadic)"""
    L, U = [], []
    budget = MAXCELLS // 4
    for i in range(dim):
        kmax = int(min(1000.0 / r, 1e9))
        cap = max(1, int(min(2 * kmax, budget ** (1.0 / (dim - i)))))
        n = rng.int(0, min(cap, rng.choice([3, 20, 200, cap])))
        budget = max(1, budget // (n + 3))
        kl = rng.int(-kmax, kmax - n) if kmax - n >= -kmax else -kmax
        ku = kl + n
        h = [F(1, 2) if (half and rng.chance(0.7)) else F(0) for _ in range(2)]
        lo = clamp(rnd(T, float((kl + h[0]) * F(r))), -1000.0, 1000.0)
        hi = clamp(rnd(T, float((ku + h[1]) * F(r))), -1000.0, 1000.0)
        if hi < lo:
            lo, hi = hi, lo
        L.append(lo)
        U.append(hi)
    return L, U


def gen_cases(rng, tier):
    cases = []
    quick = tier == 'quick'
    n_rand = 260 if quick else 6000
    n_bound = 260 if quick else 6000
    npts = 24 if quick else 40
    for i in range(n_rand):
        T = rng.choice(['f64', 'f32'])
        dim = rng.choice([2, 3])
        r = rnd(T, rng.loguniform(1e-3, 10.0))
        r = clamp(r, rnd(T, 1.0000001e-3), 10.0)
        if rng.chance(0.2):
            m = rnd(T, rng.loguniform(r, min(1000.0, r * (MAXCELLS / 8.0) ** (1.0 / dim) / 2)))
            cases.append(_case(rng, 'rand-sym-%d' % i, T, [-m] * dim, [m] * dim, r, npts, sym=m, scan=rng.chance(0.3)))
        else:
            L, U = _random_extent(rng, T, dim, r)
            cases.append(_case(rng, 'rand-%d' % i, T, L, U, r, npts, scan=rng.chance(0.15) and total_cells(L, U, r) < 10 ** 6))
            if rng.chance(0.25):
                # the NEXT mapping built in the process shares resolution and lower corner with this one and is larger / smaller
                # along some axes: objects share nothing (seeded change c13e: a per-thread memo of the centre tables keyed on
                # resolution and snapped origin, not on the cell count)
                for tag, f in (('grown', rng.uniform(1.3, 3.0)), ('shrunk', rng.uniform(0.3, 0.8))):
                    U2 = [rnd(T, clamp(L[j] + (U[j] - L[j]) * (f if rng.chance(0.7) else 1.0), L[j], 1000.0)) for j in range(dim)]
                    if total_cells(L, U2, r) < MAXCELLS / 8:
                        cases.append(_case(rng, 'rand-%d-%s' % (i, tag), T, L, U2, r, npts, scan=total_cells(L, U2, r) < 10 ** 5))
    for i in range(n_bound):
        T = rng.choice(['f64', 'f32'])
        dim = rng.choice([2, 3])
        mode = rng.below(6)
        r = rnd(T, rng.choice(DYADIC_R if mode in (0, 1, 4) else DECIMAL_R if mode in (2, 3) else DYADIC_R + DECIMAL_R))
        if mode == 5:                      # symmetric form at multiples / half multiples
            kmax = int(min(1000.0 / r, (MAXCELLS / 8.0) ** (1.0 / dim) / 2))
            k = rng.int(0, max(0, min(kmax, rng.choice([2, 30, kmax]))))
            m = clamp(rnd(T, float((k + rng.choice([F(0), F(1, 2)])) * F(r))), 0.0, 1000.0)
            cases.append(_case(rng, 'bnd-sym-%d' % i, T, [-m] * dim, [m] * dim, r, npts, sym=m, scan=rng.chance(0.3)))
            continue
        L, U = _multiple_extent(rng, T, dim, r, half=mode in (1, 3))
        if mode == 4 and rng.chance(0.5):  # degenerate axes
            j = rng.below(dim)
            U[j] = L[j]
        cases.append(_case(rng, 'bnd-%d-%d' % (mode, i), T, L, U, r, npts, scan=total_cells(L, U, r) < 3 * 10 ** 5 and rng.chance(0.5)))
    # axes that share their extent bit for bit (every pairing, and all three) while the remaining axis differs:
    # per-axis tables / counts must come from the axis they belong to, whatever the other axes look like
    for i in range(24 if quick else 600):
        T = rng.choice(['f64', 'f32'])
        r = rnd(T, rng.choice(DYADIC_R + DECIMAL_R) if rng.chance(0.5) else clamp(rnd(T, rng.loguniform(1e-2, 5.0)), 1e-3, 10.0))
        for _ in range(20):
            L, U = _random_extent(rng, T, 3, r) if rng.chance(0.6) else _multiple_extent(rng, T, 3, r, half=rng.chance(0.5))
            pair = [(0, 1), (0, 2), (1, 2), (0, 1, 2)][i % 4]
            for j in pair[1:]:
                L[j], U[j] = L[pair[0]], U[pair[0]]
            if total_cells(L, U, r) < MAXCELLS / 8:
                break
        else:
            continue
        cases.append(_case(rng, 'axes-shared-%s-%d' % (''.join(map(str, pair)), i), T, L, U, r, npts,
                           scan=total_cells(L, U, r) < 3 * 10 ** 5))
    # the largest grids the property allows: one long axis of 2e6 cells (r = 1e-3 over [-1000, 1000])
    big = [('f64', 2), ('f32', 3)] if quick else [('f64', 2), ('f32', 2), ('f64', 3), ('f32', 3)]
    for T, dim in big:
        r = rnd(T, 1e-3)
        if r < 1e-3:
            r = nxt(T, r, True)
        L = [-1000.0] + [rnd(T, rng.uniform(-1, 0))] * (dim - 1)
        U = [1000.0] + [L[1] + r * 0.25] * (dim - 1)
        U = [rnd(T, u) for u in U]
        cases.append(_case(rng, 'big-%s-%d' % (T, dim), T, L, U, r, 200 if quick else 2000, scan=True, nfix=20))
        m = rnd(T, 100.0)
        r2 = rnd(T, 0.94 if dim == 3 else 0.0633)       # 215^3 resp. 3161^2 cells: just below 1e7
        cases.append(_case(rng, 'bigsym-%s-%d' % (T, dim), T, [-m] * dim, [m] * dim, r2, 200, sym=m, scan=True))
    return cases


# ------------------------------------------------------------------ correspondence comparison
def _meta(case):
    """extent / resolution of a case; corpus cases carry no meta: recover it from the constructor line"""
    m = case.get('meta', {})
    if 'T' in m:
        return m
    tk = case['lines'][0].split()
    T, dim = tk[1], int(tk[2])
    if tk[0] in ('map.sym', 'map.symq'):
        mr, r = tok_val(tk[3]), tok_val(tk[4])
        m = {'T': T, 'dim': dim, 'L': [-mr] * dim, 'U': [mr] * dim, 'r': r, 'sym': mr}
    else:
        v = [tok_val(x) for x in tk[3:]]
        m = {'T': T, 'dim': dim, 'L': v[:dim], 'U': v[dim:2 * dim], 'r': v[2 * dim], 'sym': None}
    case.setdefault('meta', {}).update(m)
    return case['meta']


def _near_border(p, r, tol):
    """distance of p to the nearest cell border; borders are the half-multiples (j + 1/2) r"""
    q = F(p) / F(r) - F(1, 2)
    d = abs(q - round(q)) * F(r)
    return d <= tol


def compare(case, li, op, a, b):
    """exact on integers, 64 ulp on floats, except that
       * the index of a point that lies within a few ulp of a cell border may differ by one between model and
         implementation (there the result is decided by the rounding of (p - origin)/r: DESIGN C13 "not carried"), and
       * the worst spacing deviation of `map.scan` (a difference of nearly equal numbers) is compared absolutely."""
    tk = op.split()
    m = _meta(case)
    if a == b:
        return True
    # centres next to zero are differences of numbers of the size of the bounds: compare them with an absolute
    # tolerance of 2 ulp of that size (a quarter of what the property itself tolerates) besides the 64 ulp
    atol = 2 * EPS[m['T']] * (max(max(map(abs, m['L'])), max(map(abs, m['U']))) + m['r'])
    if tk[0] == 'map.scan' and a.split()[:1] == ['dev'] and b.split()[:1] == ['dev']:
        x, y = a.split(), b.split()
        if len(x) != 6 or len(y) != 6 or x[2:] != y[2:]:
            return False
        mag = max(max(map(abs, m['L'])), max(map(abs, m['U']))) + m['r']
        return float_close(x[1], y[1], ulps=64, abs_tol=64 * EPS[m['T']] * mag)
    if tk[0] in ('map.idx', 'map.loc'):
        x, y = a.split(), b.split()
        dim = m['dim']
        if len(x) != len(y) or len(x) < dim or len(tk) != 1 + dim:
            return False
        try:
            ia, ib = [int(v) for v in x[:dim]], [int(v) for v in y[:dim]]
        except ValueError:
            return False
        for i in range(dim):
            tol = K_ULP * EPS[m['T']] * (max(abs(m['L'][i]), abs(m['U'][i])) + m['r'])
            if ia[i] != ib[i]:
                if abs(ia[i] - ib[i]) != 1 or not _near_border(tok_val(tk[1 + i]), m['r'], tol):
                    return False
            if len(x) == 2 * dim:
                ca, cb = x[dim + i], y[dim + i]
                if ia[i] == ib[i]:
                    if not float_close(ca, cb, abs_tol=atol):
                        return False
                elif abs(F(tok_val(ca)) - F(tok_val(cb)) - (ia[i] - ib[i]) * F(m['r'])) > tol:
                    return False
            elif len(x) != dim and x[dim:] != y[dim:]:
                return False
        return True
    return lines_agree(a, b, abs_tol=atol)


# ------------------------------------------------------------------ oracle (property probe on the implementation)
def oracle(case, out, stats):
    fails = []
    m = _meta(case)
    T, dim, L, U, r = m['T'], m['dim'], m['L'], m['U'], m['r']
    eps = EPS[T]
    Fr = F(r)
    N = None
    known = [dict() for _ in range(dim)]      # axis -> {k: centre}

    def st(k, v=1):
        stats[k] = stats.get(k, 0) + v

    def stmax(k, v):
        if v > stats.get(k, 0):
            stats[k] = v

    for line, o in zip(case['lines'], out):
        tk = line.split()
        op = tk[0]
        st(op)

        def bad(kind, detail, **fields):
            fields.update(T=T, dim=dim)
            fails.append({'kind': kind, 'detail': '%s -> %s : %s [L=%r U=%r r=%r]' % (line, o, detail, L, U, r), 'fields': fields})
        if o in ('abort', 'hang', 'exception', 'skipped', 'bad-op') or 'malformed' in o:
            bad('outcome-' + o.split()[-1], 'unexpected outcome')
            break
        f = o.split()
        if op in ('map.newq', 'map.symq'):
            if len(f) != 1 + dim or f[0] != 'n':
                bad('malformed', 'bad output')
                break
            N = [int(x) for x in f[1:1 + dim]]
            continue
        if op in ('map.new', 'map.sym', 'map.describe'):
            if len(f) != 3 + 3 * dim or f[0] != 'n' or f[1 + dim] != 'first' or f[2 + 2 * dim] != 'last':
                bad('malformed', 'bad output')
                break
            N = [int(x) for x in f[1:1 + dim]]
            first = [tok_val(x) for x in f[2 + dim:2 + 2 * dim]]
            last = [tok_val(x) for x in f[3 + 2 * dim:3 + 3 * dim]]
            for i in range(dim):
                tol = K_ULP * eps * (max(abs(L[i]), abs(U[i])) + r)
                if N[i] < 1:
                    bad('cell-count', 'axis %d has %d cells' % (i, N[i]), axis=i)
                    continue
                known[i][0] = first[i]
                known[i][N[i] - 1] = last[i]
                # first and last cells cover the bounds
                if not (F(first[i]) - Fr / 2 < F(L[i])):
                    bad('covers-lower', 'axis %d: centre0 - r/2 = %r is not below lower = %r' % (i, first[i] - r / 2, L[i]), axis=i)
                if not (F(U[i]) < F(last[i]) + Fr / 2):
                    bad('covers-upper', 'axis %d: upper = %r is not below centre(N-1) + r/2 = %r' % (i, U[i], last[i] + r / 2), axis=i)
                # whole-table spacing: (last - first) = (N - 1) r   [implied by exact spacing]
                if abs(F(last[i]) - F(first[i]) - (N[i] - 1) * Fr) > 2 * tol:
                    bad('spacing-span', 'axis %d: last - first differs from (N-1) r' % i, axis=i)
                st('axes_checked')
                fl, nreal = real_axis(L[i], U[i], r)
                if N[i] != nreal:
                    st('cell_count_differs_from_exact_arithmetic')
        elif op in ('map.idx', 'map.loc'):
            p = [tok_val(x) for x in tk[1:]]
            if len(f) < dim:
                bad('malformed', 'bad output')
                continue
            idx = [int(x) for x in f[:dim]]
            inr = True
            for i in range(dim):
                if not (0 <= idx[i] < N[i]):
                    inr = False
                    bad('index-out-of-range', 'axis %d: index %d, cells %d' % (i, idx[i], N[i]), axis=i)
            st('points_checked')
            if op == 'map.loc' and inr:
                if len(f) != 2 * dim:
                    bad('malformed', 'bad output')
                    continue
                c = [tok_val(x) for x in f[dim:]]
                for i in range(dim):
                    tol = K_ULP * eps * (max(abs(L[i]), abs(U[i])) + r)
                    known[i][idx[i]] = c[i]
                    excess = abs(F(p[i]) - F(c[i])) - Fr / 2
                    if excess > 0:
                        st('half_cell_excess_within_tolerance')
                        stmax('max_half_cell_excess_in_ulp_of_magnitude_' + T, float(excess / F(eps * (max(abs(L[i]), abs(U[i])) + r))))
                    if excess > tol:
                        bad('half-cell', 'axis %d: |p - centre| = %r exceeds r/2 by %r (tolerance %r)' % (
                            i, float(abs(F(p[i]) - F(c[i]))), float(excess), tol), axis=i)
                    # informative: how often the float index differs from the exact-arithmetic one (points on borders)
                    fl, _ = real_axis(L[i], U[i], r)
                    if math.floor((F(p[i]) - (F(fl) - F(1, 2)) * Fr) / Fr) != idx[i]:
                        st('index_differs_from_exact_arithmetic')
                st('half_cell_checked')
        elif op in ('map.centre', 'map.fix'):
            k = [int(x) for x in tk[1:]]
            if len(f) < dim:
                bad('malformed', 'bad output')
                continue
            c = [tok_val(x) for x in f[:dim]]
            for i in range(dim):
                known[i][k[i]] = c[i]
            if op == 'map.fix':
                if len(f) != 2 * dim:
                    bad('malformed', 'bad output')
                    continue
                j = [int(x) for x in f[dim:]]
                for i in range(dim):
                    if j[i] != k[i]:
                        bad('centre-not-fixed', 'axis %d: centre of cell %d maps to cell %d' % (i, k[i], j[i]), axis=i)
                st('centres_checked')
        elif op == 'map.scan':
            i = int(tk[1])
            if len(f) != 6:
                bad('malformed', 'bad output')
                continue
            dev, fixbad, cnt = tok_val(f[1]), int(f[3]), int(f[5])
            tol = K_ULP * eps * (max(abs(L[i]), abs(U[i])) + r)
            if cnt != N[i]:
                bad('table-size', 'axis %d: table has %d entries, %d cells' % (i, cnt, N[i]), axis=i)
            if fixbad != 0:
                bad('centre-not-fixed', 'axis %d: %d cell centres do not map back to their own index' % (i, fixbad), axis=i)
            if not dev <= tol:
                bad('spacing', 'axis %d: neighbouring centres differ from r by up to %r (tolerance %r)' % (i, dev, tol), axis=i)
            stmax('max_spacing_dev_in_ulp_of_magnitude_' + T, dev / (eps * (max(abs(L[i]), abs(U[i])) + r)))
            st('tables_scanned')
            st('table_entries_scanned', cnt)
    # spacing between every pair of neighbouring centres seen in this case
    for i in range(dim):
        tol = K_ULP * eps * (max(abs(L[i]), abs(U[i])) + r)
        for k, c in known[i].items():
            if k + 1 in known[i]:
                st('spacing_pairs_checked')
                if abs(F(known[i][k + 1]) - F(c) - Fr) > tol:
                    fails.append({'kind': 'spacing', 'detail': 'axis %d: centres of cells %d and %d are %r apart, r = %r [L=%r U=%r]' % (
                        i, k, k + 1, known[i][k + 1] - c, r, L, U), 'fields': {'T': T, 'dim': dim, 'axis': i}})
    return fails


# ------------------------------------------------------------------ stage G: the anchored functions themselves, translated (DESIGN.md 2.5b)
def _inst(rec, suf):
    return [
        {'cxx': 'GridIndexMapping::GridIndexMapping', 'record': rec, 'sig': 'IntervalType', 'suffix': '_interval' + suf},
        {'cxx': 'GridIndexMapping::GridIndexMapping', 'record': rec, 'sig': '(const %s &, const %s &)' % ((rec.split('<')[1].split(',')[0],) * 2),
         'suffix': '_range' + suf},
        {'cxx': 'GridIndexMapping::computeCellIndexes', 'record': rec, 'suffix': suf},
        {'cxx': 'GridIndexMapping::computeCellCenterPosition', 'record': rec, 'suffix': suf},
    ]


BRIDGE_SPEC = {
    'id': 'C13',
    'sources': ['src/containers/grid/GridIndexMapping.cpp'],
    # DoubleConv (float <-> double conversions): not needed for today's source (the float instantiations convert only the literal
    # 0.5, which is exact), but an edit introducing a genuine conversion must still give a generated file that compiles
    'imports': ['RomeaModel.Rotation'],
    'opens': ['Romea.Rotation'],
    'functions': _inst('GridIndexMapping<double, 2>', '_d2') + _inst('GridIndexMapping<double, 3>', '_d3') +
                 _inst('GridIndexMapping<float, 2>', '_f2') + _inst('GridIndexMapping<float, 3>', '_f3'),
}


def regen(ctx):
    import bridge
    return bridge.regen_bridge(ctx, BRIDGE_SPEC)
