"""C10 — angle, rotation and coordinate parametrisations are mutually consistent (DESIGN.md section 6, C10).

Line protocol (harness/c10.cpp, lean/Drivers/C10.lean): the scalar type of an op is the type of its value tokens
(`d…` double, `s…` float); the single argument `@` means "the values the previous op of this case printed", so
round trips are chains:  eul.toR r p y | eul.fromR @ | eul.toR @.
"""
import math
from vlib import D, S, tok_val, to_f32, f32_bits, bits_f32, is_float_tok, ulp_dist

ID = 'C10'
LEVEL = 'proof'
DRIVER = 'drv_c10'
HARNESS = 'c10.cpp'
SOURCES = ['src/transform/SmartRotation3D.cpp']
PROOF_MODULES = ['RomeaProofs.Properties.C10', 'RomeaProofs.Bridge.C10', 'RomeaProofs.Bridge.C10Cor']
TRUSTED = ['harness/c10.cpp calls the library functions and prints their results as bit patterns; it also checks the normalisers\' '
           'assert precondition itself (the library is built with NDEBUG) and prints `precond`',
           'the model\'s fmod (repeated exact subtraction) is compared with libm\'s std::fmod(v, 2*pi) on every run (op ang.fmod)',
           'tools/cxx2lean.py (Python over clang-14\'s JSON AST) translates between0And2Pi / betweenMinusPiAndPi / rotation2DToEulerAngle / '
           'rotation3DToEulerAngles (float and double instantiations), toPolar / toSpherical / toCartesian (both, float and double) and the '
           'R_ part of SmartRotation3D::init from the working tree into RomeaModel/Generated/SrcC10.lean on every run; '
           'RomeaProofs/Bridge/C10*.lean prove them equal to the hand-written model for every scalar type. Trusted inside the translator: '
           'std::fmod is mapped to the model\'s fmod (not translated), Eigen\'s Vector::norm() is read as sqrt of the left-to-right sum of '
           'squares and the fixed-size 3x3 product as (a0*b0 + a1*b1) + a2*b2 per coefficient (the bit-exact differential check confirms both)']
ASSUMPTIONS = ['bridge (tie no. 2): translation of the -DNDEBUG build (the normalisers\' asserts are compiled out); quaternion-based functions '
               '(eulerAnglesToQuaternion, quaternionToEulerAngles, eulerAngleToRotation2D\'s comma initialiser, rigid_transformation3) and the '
               'homogeneous-coordinate overloads are Eigen expression templates and are NOT translated: they stay tied by the differential check only',
               'theorems are over the reals (libm functions = the mathematical functions, atan2 = Complex.arg, no rounding, no overflow); '
               'every guard of a partial operation (asin/acos argument in [-1,1], non-zero divisor, sqrt of a non-negative) is a proved conjunct '
               'or hypothesis-discharged side lemma of the theorem that crosses it',
               'floating point (float and double instantiations, the value a normaliser returns when value + 2*pi rounds to 2*pi) is covered '
               'by the correspondence check and the probe only',
               'tolerances of the probe: 1e-9 (double) / 1e-4 (float) on angles, matrix entries and relative to the norm for the coordinate maps; '
               'where the mathematical map itself is ill-conditioned the allowance is scaled by the conditioning: angles extracted from a rotation '
               'max(base, 16*eps/cos(pitch)) (gimbal-lock neighbourhood, the property excludes only |pitch| > pi/2 - 1e-3), and the spherical round '
               'trips base + 8*eps/max(sin(elevation), 4*sqrt(eps)) (elevation = acos(z/range) is ill-conditioned at +-1: sqrt(eps)-level loss next '
               'to the z axis is the conditioning of acos, not counted as a defect; eps = 2^-52 / 2^-23)']
EXPLANATION = ('Lean theorems on the executable model (normalisers, quaternion = Rz*Ry*Rx, SmartRotation3D.R, proper rotations, both round trips, '
               'scale invariance, 2D pair, polar/spherical inverses) + bit-level differential correspondence of the same model with the C++ '
               '(float and double) + probe of the property on the C++ outputs')

PI = math.pi
M_2PI = 2 * math.pi
M_4PI = 4 * math.pi
EPS = {'d': 2.0 ** -52, 's': 2.0 ** -23}
ANG_TOL = {'d': 1e-9, 's': 1e-4}          # property tolerance on angles / matrix entries
REL_TOL = {'d': 1e-9, 's': 1e-4}          # relative (to the norm) for the coordinate maps
CORR_ABS = {'d': 1e-11, 's': 1e-6}        # correspondence: 1/100 of the property tolerance
ULP_2PI = {'d': 2.0 ** -50, 's': 2.0 ** -21}   # spacing of the scalar type just below 2*pi


# ------------------------------------------------------------------------------------------------ small linear algebra
def rot_zyx(r, p, y):
    cr, sr, cp, sp, cy, sy = math.cos(r), math.sin(r), math.cos(p), math.sin(p), math.cos(y), math.sin(y)
    return [cy * cp, cy * sp * sr - sy * cr, cy * sp * cr + sy * sr,
            sy * cp, sy * sp * sr + cy * cr, sy * sp * cr - cy * sr,
            -sp, cp * sr, cp * cr]


def rot_xyz(ax, ay, az):
    """Rx * Ry * Rz (the order rigid_transformation3 applies its rotations)"""
    cx, sx, cy, sy, cz, sz = math.cos(ax), math.sin(ax), math.cos(ay), math.sin(ay), math.cos(az), math.sin(az)
    rx = [1, 0, 0, 0, cx, -sx, 0, sx, cx]
    ry = [cy, 0, sy, 0, 1, 0, -sy, 0, cy]
    rz = [cz, -sz, 0, sz, cz, 0, 0, 0, 1]
    return mat_mul(mat_mul(rx, ry), rz)


def mat_mul(a, b):
    return [sum(a[3 * i + k] * b[3 * k + j] for k in range(3)) for i in range(3) for j in range(3)]


def quat_matrix(w, x, y, z):
    n = w * w + x * x + y * y + z * z
    w, x, y, z = (c / math.sqrt(n) for c in (w, x, y, z))
    return [1 - 2 * (y * y + z * z), 2 * (x * y - w * z), 2 * (x * z + w * y),
            2 * (x * y + w * z), 1 - 2 * (x * x + z * z), 2 * (y * z - w * x),
            2 * (x * z - w * y), 2 * (y * z + w * x), 1 - 2 * (x * x + y * y)]


def ortho_defect3(m):
    d = 0.0
    for i in range(3):
        for j in range(3):
            s = sum(m[3 * k + i] * m[3 * k + j] for k in range(3))
            d = max(d, abs(s - (1.0 if i == j else 0.0)))
    return d


def det3(m):
    return (m[0] * (m[4] * m[8] - m[5] * m[7]) - m[1] * (m[3] * m[8] - m[5] * m[6]) + m[2] * (m[3] * m[7] - m[4] * m[6]))


def maxdiff(a, b):
    return max(abs(x - y) for x, y in zip(a, b))


def ang_diff(a, b):
    d = math.fmod(a - b, M_2PI)
    if d < 0:
        d += M_2PI
    return min(d, M_2PI - d)


# ------------------------------------------------------------------------------------------------ generator helpers
def fprev(x):
    """next float32 towards zero"""
    b = f32_bits(x)
    return bits_f32(b - 1) if (b & 0x7FFFFFFF) else x


def rnd(x, k):
    return to_f32(x) if k == 's' else float(x)


def tk(x, k):
    return S(x) if k == 's' else D(x)


def toks(vals, k):
    return ' '.join(tk(v, k) for v in vals)


def inside(x, bound, k):
    """largest-magnitude value of the scalar type with |value| < bound that is nearest to x"""
    x = rnd(x, k)
    while not abs(x) < bound:
        x = fprev(x) if k == 's' else math.nextafter(x, 0.0)
    return x


def clamp_abs(x, bound, k):
    """|value| <= bound in the scalar type"""
    x = rnd(x, k)
    while abs(x) > bound:
        x = fprev(x) if k == 's' else math.nextafter(x, 0.0)
    return x


PITCH_MAX = PI / 2 - 1e-3
ANGLE_SPECIAL = [0.0, -0.0, PI, -PI, PI / 2, -PI / 2, M_2PI, -M_2PI, 3 * PI, -3 * PI, 1e-17, -1e-17, 1e-8, -1e-8, 1e-300, -1e-300,
                 5e-324, -5e-324, 3 * PI / 2, -3 * PI / 2, 1.0, -1.0]


def norm_angle_value(rng, k):
    """an input of the normalisers: inside (-4pi, 4pi)"""
    m = rng.below(10)
    if m <= 4:
        v = rng.uniform(-M_4PI, M_4PI)
    elif m == 5:
        v = rng.choice(ANGLE_SPECIAL)
    elif m == 6:       # a few ulps around a multiple of pi/2
        v = rnd(rng.int(-7, 7) * PI / 2, k)
        for _ in range(rng.int(0, 4)):
            v = (fprev(v) if rng.chance(0.5) else bits_f32(f32_bits(v) + 1)) if k == 's' else math.nextafter(v, rng.choice([-math.inf, math.inf]))
    elif m == 7:       # just inside +-4pi
        v = rng.choice([1, -1]) * (M_4PI - abs(rng.gauss()) * rng.choice([0.0, 1e-15, 1e-12, 1e-6]))
    elif m == 8:       # tiny negatives / positives: the 2*pi rounding artefact
        v = rng.choice([1, -1, -1]) * rng.loguniform(1e-20, 1e-5)
    else:
        v = rng.gauss() * rng.loguniform(1e-3, 3.0)
    return inside(v, M_4PI, k)


def roll_yaw(rng, k):
    m = rng.below(8)
    if m <= 4:
        v = rng.uniform(-M_2PI, M_2PI)
    elif m == 5:
        v = rng.choice([0.0, PI, -PI, PI / 2, -PI / 2, 3 * PI / 2, -3 * PI / 2, 1e-9, -1e-9, -1e-17])
    elif m == 6:
        v = rng.choice([1, -1]) * (M_2PI - rng.loguniform(1e-15, 1e-3))
    else:
        v = rng.int(-3, 3) * PI / 2 + rng.gauss() * 1e-6
    return inside(v, M_2PI, k)


def pitch(rng, k):
    m = rng.below(6)
    if m <= 2:
        v = rng.uniform(-PITCH_MAX, PITCH_MAX)
    elif m == 3:
        v = rng.choice([1, -1]) * PITCH_MAX
    elif m == 4:
        v = rng.choice([1, -1]) * (PITCH_MAX - rng.loguniform(1e-9, 1e-1))
    else:
        v = rng.choice([0.0, -0.0, 1e-17, -1e-17, 1e-6, -1e-6, 0.5, -0.5])
    return clamp_abs(v, PITCH_MAX, k)


def euler(rng, k):
    return [roll_yaw(rng, k), pitch(rng, k), roll_yaw(rng, k)]


def rand_quat(rng):
    while True:
        q = [rng.gauss() for _ in range(4)]
        n = math.sqrt(sum(c * c for c in q))
        if n > 1e-3:
            return [c / n for c in q]


def rotation_matrix(rng, k):
    """a rotation matrix with |R20| <= 1 - 1e-6 (entries rounded to the scalar type)"""
    while True:
        m = rng.below(4)
        if m <= 1:
            R = quat_matrix(*rand_quat(rng))
        elif m == 2:   # at the edge of the domain
            p = rng.choice([1, -1]) * math.asin(1 - 1e-6 * rng.choice([1.0, 1.0, 1.5, 10.0, 1e3]))
            R = rot_zyx(rng.uniform(-PI, PI), p, rng.uniform(-PI, PI))
        else:          # axis-aligned / sparse matrices
            R = rot_zyx(rng.int(-4, 4) * PI / 2, rng.choice([0.0, 0.3, -0.3, 1.0, -1.0]), rng.int(-4, 4) * PI / 2)
            R = [0.0 if abs(c) < 1e-15 else c for c in R]
        R = [rnd(c, k) for c in R]
        if abs(R[6]) <= 1 - 1e-6:
            return R


def point_norm(rng):
    m = rng.below(6)
    if m == 0:
        return rng.choice([1e-6, 1e6, 1.0])
    return rng.loguniform(1e-6, 1e6)


def scale_into(vals, k, lo=1e-6, hi=1e6):
    """round to the scalar type and make sure the norm stays inside [lo, hi]"""
    vals = [rnd(v, k) for v in vals]
    n = math.sqrt(sum(v * v for v in vals))
    if n < lo:
        vals = [rnd(v * (1 + 1e-5) * lo / n, k) for v in vals] if n > 0 else vals
    elif n > hi:
        vals = [rnd(v * (1 - 1e-5) * hi / n, k) for v in vals]
    return vals


# ------------------------------------------------------------------------------------------------ generator
def gen_cases(rng, tier):
    n = 60 if tier == 'quick' else 6000
    cases = []

    def add(name, lines, **meta):
        cases.append({'name': '%s-%d' % (name, len(cases)), 'lines': lines, 'meta': meta})

    for k in ('d', 's'):
        # ---- normalisers (and libm fmod against the model's fmod, double only)
        for i in range(4 * n):
            lines = []
            for _ in range(rng.int(4, 10)):
                v = norm_angle_value(rng, k)
                lines.append('ang.n02pi ' + tk(v, k))
                lines.append('ang.npipi ' + tk(v, k))
                if k == 'd':
                    lines.append('ang.fmod ' + tk(v, k))
                if rng.chance(0.2):
                    lines += ['ang.n02pi ' + tk(v, k), 'ang.npipi @', 'ang.n02pi @']
            add('norm-' + k, lines, stream='norm')
        # boundary values, every run
        lines = []
        for v in ANGLE_SPECIAL + [M_4PI, -M_4PI] + [j * PI / 2 for j in range(-7, 8)]:
            v = inside(v, M_4PI, k)
            for w in ([v, fprev(v), -fprev(-v) if v else v] if k == 's' else [v, math.nextafter(v, 0.0), math.nextafter(v, math.inf), math.nextafter(v, -math.inf)]):
                if abs(w) < M_4PI:
                    lines += ['ang.n02pi ' + tk(w, k), 'ang.npipi ' + tk(w, k)] + (['ang.fmod ' + tk(w, k)] if k == 'd' else [])
        add('norm-boundary-' + k, lines, stream='norm')

        # ---- angles -> rotation -> angles -> rotation, and the quaternion route; SmartRotation3D on the same angles
        for i in range(3 * n):
            e = euler(rng, k)
            lines = ['eul.toR ' + toks(e, k), 'eul.fromR @', 'eul.toR @',
                     'eul.toQ ' + toks(e, k), 'eul.fromQ @', 'eul.toQ @']
            if k == 'd':
                lines += ['smart.ctor ' + toks(e, k), 'eul.fromR @']
            add('euler-' + k, lines, stream='euler')
        # ---- rotation -> angles -> rotation
        for i in range(3 * n):
            R = rotation_matrix(rng, k)
            add('rot-' + k, ['eul.fromR ' + toks(R, k), 'eul.toR @', 'eul.fromR @', 'eul.toQ @', 'eul.fromQ @'], stream='rot')
        # ---- quaternions, unit and non-unit, scale invariance
        for i in range(2 * n):
            while True:
                q = rand_quat(rng)
                if abs(quat_matrix(*q)[6]) <= 1 - 1e-6 - 1e-4 * (k == 's'):
                    break
            lines = []
            for _ in range(rng.int(2, 4)):
                # scale factors incl. ALMOST unit ones: |q|^2 within 1e-10 .. 1e-3 of 1 (seeded change c10c: "already normalised"
                # shortcut when | |q|^2 - 1 | < 1e-6 — Eigen's toRotationMatrix assumes a unit quaternion)
                near1 = 1.0 + rng.choice([-1.0, 1.0]) * 10.0 ** -rng.uniform(3.0, 10.0 if k == 'd' else 6.5)
                s = rng.choice([1.0, 1.0, -1.0, 2.0, 0.5, rng.loguniform(1e-6, 1e6), -rng.loguniform(1e-3, 1e3), near1, near1, -near1])
                lines.append('eul.fromQ ' + toks([c * s for c in q], k))
            lines += ['eul.toQ @', 'eul.fromQ @', 'eul.toR @']
            add('quat-' + k, lines, stream='quat')
        # ---- 2D pair
        for i in range(n):
            a = roll_yaw(rng, k)
            b = rng.uniform(-PI, PI)
            m2 = [math.cos(b), -math.sin(b), math.sin(b), math.cos(b)]
            if rng.chance(0.3):
                b = rng.int(-4, 4) * PI / 2
                m2 = [float(round(math.cos(b))), float(-round(math.sin(b))), float(round(math.sin(b))), float(round(math.cos(b)))]
            add('rot2-' + k, ['rot2.to ' + tk(a, k), 'rot2.from @', 'rot2.to @',
                              'rot2.from ' + toks(m2, k), 'rot2.to @', 'rot2.from @'], stream='rot2')
        # ---- rigid_transformation3
        for i in range(n):
            t = [rng.gauss() * rng.choice([1.0, 100.0]) for _ in range(3)]
            a = [rng.uniform(-M_2PI, M_2PI) if rng.chance(0.8) else rng.int(-4, 4) * PI / 2 for _ in range(3)]
            add('rt3-' + k, ['rt3 ' + toks(t + a, k)], stream='rt3')
        # ---- polar
        for i in range(2 * n):
            lines = []
            for _ in range(rng.int(1, 4)):
                r, az = point_norm(rng), rng.uniform(-PI, PI)
                m = rng.below(6)
                if m == 0:
                    az = rng.choice([0.0, PI / 2, -PI / 2, PI, -PI, PI / 4, 3 * PI / 4])
                p = [r * math.cos(az), r * math.sin(az)]
                if m == 1:
                    p = rng.choice([[r, 0.0], [-r, 0.0], [-r, -0.0], [0.0, r], [0.0, -r], [r, -0.0]])
                p = scale_into(p, k)
                op = rng.choice(['pol', 'polh'])
                lines += ['%s.to %s' % (op, toks(p, k)), '%s.from @' % rng.choice(['pol', 'polh']), 'pol.tos @']
                az = clamp_abs(az, PI, k)
                lines += ['pol.from ' + toks([rnd(min(max(r, 1.001e-6), 0.999e6), k), az], k), '%s.to @' % op, 'pol.from @']
            add('polar-' + k, lines, stream='polar')
        # ---- spherical, away from the z axis (sin(elevation) >= 1e-2)
        for i in range(3 * n):
            lines = []
            for _ in range(rng.int(1, 3)):
                r, az = point_norm(rng), rng.uniform(-PI, PI)
                el = math.acos(rng.uniform(-1, 1))
                if rng.chance(0.2):
                    el = rng.choice([PI / 2, PI / 4, 3 * PI / 4, 1e-2, PI - 1e-2, 0.1])
                    az = rng.choice([0.0, PI / 2, -PI / 2, PI, 1.0, -3.0])
                if math.sin(el) < 1e-2:
                    el = PI / 2 - (PI / 2 - el) * 0.9
                    if math.sin(el) < 1e-2:
                        el = 1e-2 if el < 1 else PI - 1e-2
                p = scale_into([r * math.cos(az) * math.sin(el), r * math.sin(az) * math.sin(el), r * math.cos(el)], k)
                to = rng.choice(['sph.to', 'sphh.to', 'sph.tos'])
                lines += ['%s %s' % (to, toks(p, k)), '%s @' % rng.choice(['sph.from', 'sphh.from']), 'sph.tos @']
                lines += ['sph.from ' + toks([rnd(min(max(r, 1.001e-6), 0.999e6), k), clamp_abs(az, PI, k), clamp_abs(el, PI, k)], k),
                          '%s @' % to, 'sph.from @']
            add('sph-' + k, lines, stream='sph')
        # ---- spherical, on and near the z axis (elevation = acos(z / range) is ill-conditioned there)
        for i in range(max(4, n // 4)):
            lines = []
            for _ in range(3):
                r, az = point_norm(rng), rng.uniform(-PI, PI)
                d = rng.choice([0.0, rng.loguniform(1e-12, 1e-2)])
                el = rng.choice([d, PI - d])
                p = scale_into([r * math.cos(az) * math.sin(el), r * math.sin(az) * math.sin(el), r * math.cos(el)], k)
                to = rng.choice(['sph.to', 'sphh.to', 'sph.tos'])
                lines += ['%s %s' % (to, toks(p, k)), 'sph.from @']
                if d > 0:
                    lines += ['sph.from ' + toks([rnd(min(max(r, 1.001e-6), 0.999e6), k), clamp_abs(az, PI, k), clamp_abs(el, PI, k)], k), '%s @' % to]
            add('sph-pole-' + k, lines, stream='sph-pole')

    # ---- SmartRotation3D: several init calls on one object (state carried between calls), double only
    for i in range(2 * n):
        # both overload families (three scalars / one Eigen::Vector3d) are mixed on one object, and earlier angle triples are
        # re-issued bit-identically after other calls (seeded change c10b: a "same argument as last time" shortcut in one overload
        # that the other overload does not invalidate needs initv(v); init(w); initv(v))
        first = euler(rng, 'd')
        seen = [first]
        lines = (['smart.new', 'smart.R'] if rng.chance(0.5)
                 else ['%s %s' % (rng.choice(['smart.ctor', 'smart.ctorv']), toks(first, 'd'))])
        for _ in range(rng.int(1, 6)):
            if rng.chance(0.35):
                e = rng.choice(seen)
            else:
                e = euler(rng, 'd') if rng.chance(0.7) else [rng.choice([0.0, PI / 2, -PI / 2, PI, 1.0]) for _ in range(3)]
                seen.append(e)
            lines += ['%s %s' % (rng.choice(['smart.init', 'smart.initv']), toks(e, 'd'))]
            if rng.chance(0.5):
                lines += ['smart.R']
            if rng.chance(0.5):
                lines += ['eul.toR ' + toks(e, 'd')]
        add('smart', lines, stream='smart')
    return cases


# ------------------------------------------------------------------------------------------------ correspondence tolerance
def _vals(line):
    t = line.split()
    if t and all(is_float_tok(x) for x in t):
        return [tok_val(x) for x in t], (t[0][0] if t[0] != 'nan' else 'd')
    return None, None


def compare(case, li, op, a, b):
    """exact for non-numeric outcomes; numbers within 64 ulp or 1/100 of the property tolerance, the latter scaled by the
    conditioning the chain has accumulated (1/cos(pitch) after an angle extraction, 1/sin(elevation) after acos)"""
    if a == b:
        return True
    va, k = _vals(a)
    vb, _ = _vals(b)
    if va is None or vb is None or len(va) != len(vb):
        return False
    tk_ = op.split()
    if li == 0 or tk_[1:] != ['@']:
        case['_cond'] = 1.0
    cond = case.get('_cond', 1.0)
    name = tk_[0]
    if name in ('eul.fromR', 'eul.fromQ') and len(va) == 3:
        cond = max(cond, 1.0 / max(abs(math.cos(va[1])), 1e-6))
    if name in ('sph.to', 'sphh.to', 'sph.tos') and len(va) == 3:
        cond = max(cond, 1.0 / max(abs(math.sin(va[2])), math.sqrt(EPS[k])))
    case['_cond'] = cond
    scale = max(1.0, max((abs(x) for x in va if not math.isinf(x) and not math.isnan(x)), default=1.0)) if name.split('.')[0] in ('pol', 'polh', 'sph', 'sphh', 'rt3') else 1.0
    tol = CORR_ABS[k] * cond * scale
    for x, y in zip(a.split(), b.split()):
        if x == y or ulp_dist(x, y) <= 64:
            continue
        if x == 'nan' or y == 'nan':
            return False
        if not abs(tok_val(x) - tok_val(y)) <= tol:
            return False
    return True


# ------------------------------------------------------------------------------------------------ oracle
def _angle_in_0_2pi(a, k, raw):
    """0 <= a < 2*pi; the closed end (the scalar's 2*pi) only when the exact angle is within one ulp below a multiple of 2*pi"""
    two_pi_t = rnd(M_2PI, k)
    if 0.0 <= a < two_pi_t:
        return True
    if a == two_pi_t and raw is not None:
        m = math.fmod(raw, M_2PI)
        return -ULP_2PI[k] <= m < 0.0
    return False


def _sph_tol(k, sin_el):
    """base tolerance + conditioning of elevation = acos(z / range): 8*eps / max(sin(elevation), 4*sqrt(eps))"""
    return REL_TOL[k] + 8 * EPS[k] / max(abs(sin_el), 4 * math.sqrt(EPS[k]))


def oracle(case, out, stats):
    fails = []
    prev = None          # dict(op, ins, outs, k) of the previous op
    smart_last = None
    toR_seen = {}

    def count(key, n=1):
        stats[key] = stats.get(key, 0) + n

    def peak(key, ratio, k):
        """largest observed error / tolerance per check and scalar type (margin of the oracle, recorded in the evidence)"""
        key = 'max_err_over_tol:%s:%s' % (key, 'f32' if k == 's' else 'f64')
        stats[key] = max(stats.get(key, 0.0), round(ratio, 4))

    for line, o in zip(case['lines'], out):
        t = line.split()
        op = t[0]

        def bad(kind, detail, **fields):
            fails.append({'kind': kind, 'detail': '%s -> %s : %s' % (line[:160], o[:200], detail), 'fields': fields})
        if o in ('abort', 'hang', 'exception', 'skipped', 'bad-op', 'precond'):
            bad('outcome-' + o, 'unexpected outcome')
            break
        if op == 'smart.new':
            prev = None
            continue
        chained = t[1:] == ['@']
        outs, k = _vals(o)
        if outs is None:
            bad('malformed', 'non numeric output')
            break
        if any(math.isnan(x) or math.isinf(x) for x in outs):
            bad('non-finite', 'NaN or infinity in the result', scalar=k)
            break
        if op == 'smart.R':
            ins = []
        elif chained:
            if prev is None:
                bad('malformed', '@ without a previous result')
                break
            ins = prev['outs']
        else:
            ins = [tok_val(x) for x in t[1:]]
        atol, rtol = ANG_TOL[k], REL_TOL[k]
        sc = 'f32' if k == 's' else 'f64'
        count(op)

        if op in ('ang.n02pi', 'ang.npipi', 'ang.fmod'):
            v, r = ins[0], outs[0]
            kk = round((r - v) / M_2PI)
            if abs(r - v - kk * M_2PI) > atol:
                bad('normaliser-congruence', 'result %r is not congruent to %r modulo 2*pi' % (r, v), scalar=sc)
            if op == 'ang.n02pi':
                if not _angle_in_0_2pi(r, k, v):
                    bad('normaliser-range', 'result %r outside [0, 2*pi) for input %r' % (r, v), scalar=sc)
                if r == rnd(M_2PI, k):
                    count('closed_upper_end_2pi')
            elif op == 'ang.npipi':
                if not (-rnd(PI, k) <= r <= rnd(PI, k)):
                    bad('normaliser-range', 'result %r outside [-pi, pi] for input %r' % (r, v), scalar=sc)
            else:
                if not (abs(r) < M_2PI and (r == 0 or (r < 0) == (v < 0))):
                    bad('fmod', 'not a remainder with the sign of the dividend', scalar=sc)

        elif op == 'rot2.to':
            c, ms, s, c2 = outs
            if max(abs(c * c + s * s - 1), abs(c - c2), abs(s + ms)) > atol:
                bad('rot2-proper', 'not a proper 2D rotation', scalar=sc)
            if max(abs(c - math.cos(ins[0])), abs(s - math.sin(ins[0]))) > atol:
                bad('rot2-definition', 'not the rotation of the given angle', scalar=sc)
            if chained and prev['op'] == 'rot2.from':
                if maxdiff(outs, prev['ins']) > atol:
                    bad('rot2-roundtrip', 'rotation -> angle -> rotation differs from the rotation', scalar=sc)
                count('checked_rot2_R_a_R')
        elif op == 'rot2.from':
            a = outs[0]
            raw = math.atan2(ins[2] - ins[1], ins[0] + ins[3])
            if not _angle_in_0_2pi(a, k, raw):
                bad('rot2-range', 'angle outside [0, 2*pi)', scalar=sc)
            if chained and prev['op'] == 'rot2.to':
                if ang_diff(a, prev['ins'][0]) > atol:
                    bad('rot2-roundtrip', 'angle -> rotation -> angle differs modulo 2*pi', scalar=sc)
                count('checked_rot2_a_R_a')

        elif op in ('eul.toR', 'smart.ctor', 'smart.init', 'smart.ctorv', 'smart.initv', 'smart.R'):
            if op == 'smart.R':
                if smart_last is None:
                    if outs != [1, 0, 0, 0, 1, 0, 0, 0, 1]:
                        bad('smart-default', 'default-constructed R is not the identity')
                elif outs != smart_last:
                    bad('smart-R', 'R() differs from the matrix computed by the last init')
                prev = dict(op=op, ins=ins, outs=outs, k=k)
                continue
            cond = 1.0
            if chained and prev['op'] in ('eul.fromR', 'eul.fromQ'):
                cond = 1.0 / max(abs(math.cos(ins[1])), 1e-6)
            tol = max(atol, 16 * EPS[k] * cond)
            if ortho_defect3(outs) > atol or abs(det3(outs) - 1) > atol:
                bad('proper-rotation', 'R^T R != 1 or det != 1 (defect %.3g, det %.17g)' % (ortho_defect3(outs), det3(outs)), scalar=sc, op=op)
            if maxdiff(outs, rot_zyx(*ins)) > atol:
                bad('zyx-definition', 'matrix differs from Rz(yaw)*Ry(pitch)*Rx(roll) by %.3g' % maxdiff(outs, rot_zyx(*ins)), scalar=sc, op=op)
            count('checked_proper')
            key = tuple(ins)
            if op == 'eul.toR':
                toR_seen[key] = outs
            if op.startswith('smart'):
                smart_last = outs
            other = toR_seen.get(key)
            if op.startswith('smart') and other is not None:
                if maxdiff(outs, other) > atol:
                    bad('smart-vs-euler', 'SmartRotation3D::R differs from eulerAnglesToRotation3D on the same angles', scalar=sc)
                count('checked_smart_vs_euler')
            if op == 'eul.toR' and smart_last is not None and prev and prev['op'].startswith('smart') and prev['ins'] == ins:
                if maxdiff(outs, smart_last) > atol:
                    bad('smart-vs-euler', 'SmartRotation3D::R differs from eulerAnglesToRotation3D on the same angles', scalar=sc)
                count('checked_smart_vs_euler')
            if chained and prev['op'] == 'eul.fromR':
                d = maxdiff(outs, prev['ins'])
                peak('R_angles_R', d / tol, k)
                if ortho_defect3(prev['ins']) < 100 * EPS[k] and d > tol:
                    bad('rotation-roundtrip', 'rotation -> angles -> rotation differs by %.3g (tol %.3g)' % (d, tol), scalar=sc)
                count('checked_R_angles_R')
            if chained and prev['op'] == 'eul.fromQ':
                d = maxdiff(outs, quat_matrix(*prev['ins']))
                if d > tol:
                    bad('quaternion-roundtrip', 'quaternion -> angles -> rotation differs from the quaternion\'s rotation by %.3g' % d, scalar=sc)
                count('checked_q_angles_R')

        elif op == 'eul.toQ':
            w, x, y, z = outs
            if abs(w * w + x * x + y * y + z * z - 1) > atol:
                bad('quaternion-unit', 'eulerAnglesToQuaternion is not a unit quaternion', scalar=sc)
            cond = 1.0
            if chained and prev['op'] in ('eul.fromR', 'eul.fromQ'):
                cond = 1.0 / max(abs(math.cos(ins[1])), 1e-6)
            tol = max(atol, 16 * EPS[k] * cond)
            if maxdiff(quat_matrix(*outs), rot_zyx(*ins)) > atol:
                bad('zyx-definition', 'quaternion does not represent Rz(yaw)*Ry(pitch)*Rx(roll)', scalar=sc, op=op)
            if chained and prev['op'] == 'eul.fromQ':
                q0 = prev['ins']
                n0 = math.sqrt(sum(c * c for c in q0))
                q0 = [c / n0 for c in q0]
                d = min(maxdiff(outs, q0), maxdiff(outs, [-c for c in q0]))
                if d > tol:
                    bad('quaternion-roundtrip', 'quaternion -> angles -> quaternion differs from +-q/|q| by %.3g' % d, scalar=sc)
                count('checked_q_angles_q')

        elif op in ('eul.fromR', 'eul.fromQ'):
            R = ins if op == 'eul.fromR' else quat_matrix(*ins)
            cp = math.sqrt(max(0.0, 1 - min(1.0, R[6] * R[6])))
            cond = 1.0 / max(cp, 1e-6)
            tol = max(atol, 16 * EPS[k] * cond)
            raws = [math.atan2(R[7], R[8]), -math.asin(max(-1.0, min(1.0, R[6]))), math.atan2(R[3], R[0])]
            for a, raw in zip(outs, raws):
                # closed upper end: only when the exact angle is within one ulp below 0.  For eul.fromQ the matrix the C++ decodes is
                # not observable (the oracle recomputes it, with its own rounding), so there "exact angle" is known only up to the
                # rounding of the matrix entries, 16*eps/cos(pitch)
                ok = _angle_in_0_2pi(a, k, raw)
                if not ok and op == 'eul.fromQ' and a == rnd(M_2PI, k):
                    ok = ang_diff(raw, 0.0) <= 16 * EPS[k] * cond
                if not ok:
                    bad('euler-range', 'angle %r outside [0, 2*pi)' % a, scalar=sc)
            in_domain = abs(R[6]) <= 1 - 1e-6 + 4 * EPS[k]
            if in_domain and ortho_defect3(R) < 100 * EPS[k]:
                d = maxdiff(rot_zyx(*outs), R)
                if d > tol:
                    bad('rotation-roundtrip', 'Rz*Ry*Rx of the extracted angles differs from the rotation by %.3g (tol %.3g)' % (d, tol), scalar=sc, op=op)
                count('checked_angles_reproduce_R')
            if chained and prev['op'] in ('eul.toR', 'smart.ctor', 'eul.toQ') and abs(prev['ins'][1]) <= PITCH_MAX:
                a0 = prev['ins']
                tol2 = max(atol, 16 * EPS[k] / max(math.cos(a0[1]), 1e-6))
                d = max(ang_diff(x, y) for x, y in zip(outs, a0))
                peak('angles_R_angles', d / tol2, k)
                if d > tol2:
                    bad('angles-roundtrip', 'angles -> rotation -> angles differs modulo 2*pi by %.3g (tol %.3g)' % (d, tol2), scalar=sc, via=prev['op'])
                count('checked_angles_R_angles')
            if op == 'eul.fromQ' and not chained and prev and prev['op'] == 'eul.fromQ' and not prev['chained']:
                # same direction, different scale (generator): same angles
                q0, q1 = prev['ins'], ins
                n0, n1 = math.sqrt(sum(c * c for c in q0)), math.sqrt(sum(c * c for c in q1))
                if abs(abs(sum(x * y for x, y in zip(q0, q1))) / (n0 * n1) - 1) < 1e-5:
                    d = max(ang_diff(x, y) for x, y in zip(outs, prev['outs']))
                    if d > tol:
                        bad('quaternion-scale', 'angles change by %.3g when the quaternion is rescaled' % d, scalar=sc)
                    count('checked_scale_invariance')

        elif op == 'rt3':
            L = [outs[0], outs[1], outs[2], outs[4], outs[5], outs[6], outs[8], outs[9], outs[10]]
            tr = [outs[3], outs[7], outs[11]]
            if len(outs) != 12:
                bad('rt3-last-row', 'last row is not 0 0 0 1')
            if ortho_defect3(L) > atol or abs(det3(L) - 1) > atol:
                bad('proper-rotation', 'linear part of rigid_transformation3 is not a proper rotation', scalar=sc, op=op)
            Rx = rot_xyz(ins[3], ins[4], ins[5])
            if maxdiff(L, Rx) > atol:
                bad('rt3-definition', 'linear part is not Rx*Ry*Rz', scalar=sc)
            ex = [sum(Rx[3 * i + j] * ins[j] for j in range(3)) for i in range(3)]
            if maxdiff(tr, ex) > rtol * max(1.0, max(abs(c) for c in ins[:3])):
                bad('rt3-definition', 'translation is not R*t', scalar=sc)

        elif op in ('pol.to', 'polh.to', 'pol.tos'):
            x, y = ins
            r, az = outs
            n = math.hypot(x, y)
            if not (r >= 0 and -rnd(PI, k) <= az <= rnd(PI, k)):
                bad('polar-range', 'range < 0 or azimuth outside [-pi, pi]', scalar=sc)
            if abs(r - n) > rtol * n or (n > 0 and ang_diff(az, math.atan2(y, x)) > atol):
                bad('polar-definition', 'not (|p|, atan2(y, x))', scalar=sc)
            if chained and prev['op'] in ('pol.from', 'polh.from') and prev['ins'][0] > 0:
                r0, az0 = prev['ins']
                if abs(r - r0) > rtol * r0 or ang_diff(az, az0) > atol:
                    bad('polar-roundtrip', 'polar -> Cartesian -> polar differs', scalar=sc)
                count('checked_polar_p_c_p')
        elif op in ('pol.from', 'polh.from'):
            r, az = ins
            if maxdiff(outs, [r * math.cos(az), r * math.sin(az)]) > rtol * abs(r):
                bad('polar-definition', 'not (r cos az, r sin az)', scalar=sc)
            if chained and prev['op'] in ('pol.to', 'polh.to', 'pol.tos'):
                p0 = prev['ins']
                n = math.hypot(*p0)
                if maxdiff(outs, p0) > rtol * n:
                    bad('polar-roundtrip', 'Cartesian -> polar -> Cartesian differs by %.3g of the norm' % (maxdiff(outs, p0) / n), scalar=sc)
                count('checked_polar_c_p_c')

        elif op in ('sph.to', 'sphh.to', 'sph.tos'):
            x, y, z = ins
            r, az, el = outs
            n = math.sqrt(x * x + y * y + z * z)
            if not (r >= 0 and -rnd(PI, k) <= az <= rnd(PI, k) and 0 <= el <= rnd(PI, k)):
                bad('spherical-range', 'range < 0, azimuth outside [-pi, pi] or elevation outside [0, pi]', scalar=sc)
            if abs(r - n) > rtol * n:
                bad('spherical-definition', 'range is not the norm', scalar=sc)
            if chained and prev['op'] in ('sph.from', 'sphh.from') and prev['ins'][0] > 0:
                r0, az0, el0 = prev['ins']
                near = min(el0, PI - el0)
                tol_el = _sph_tol(k, math.sin(el0))
                e = max(abs(r - r0) / r0 - rtol, abs(el - el0) - tol_el, (ang_diff(az, az0) if math.sin(el0) > 0 else 0.0) - atol)
                peak('sph_s_c_s_elevation' + ('_pole' if near < 1e-2 else ''), abs(el - el0) / tol_el, k)
                if e > 0:
                    bad('spherical-roundtrip', 'spherical -> Cartesian -> spherical: (r, az, el) %r -> %r exceeds the tolerance by %.3g '
                        '(elevation tolerance %.3g)' % (prev['ins'], outs, e, tol_el), scalar=sc)
                count('checked_sph_s_c_s' + ('_pole' if near < 1e-2 else ''))
        elif op in ('sph.from', 'sphh.from'):
            r, az, el = ins
            ex = [r * math.cos(az) * math.sin(el), r * math.sin(az) * math.sin(el), r * math.cos(el)]
            if maxdiff(outs, ex) > rtol * abs(r):
                bad('spherical-definition', 'not (r cos az sin el, r sin az sin el, r cos el)', scalar=sc)
            if chained and prev['op'] in ('sph.to', 'sphh.to', 'sph.tos'):
                p0 = prev['ins']
                n = math.sqrt(sum(c * c for c in p0))
                e = maxdiff(outs, p0) / n
                near = math.hypot(p0[0], p0[1]) / n
                tol = _sph_tol(k, near)
                peak('sph_c_s_c' + ('_pole' if near < 1e-2 else ''), e / tol, k)
                if e > tol:
                    bad('spherical-roundtrip', 'Cartesian -> spherical -> Cartesian differs by %.3g of the norm (tolerance %.3g), point %r'
                        % (e, tol, p0), scalar=sc)
                count('checked_sph_c_s_c' + ('_pole' if near < 1e-2 else ''))
        else:
            bad('malformed', 'unknown op')
        prev = dict(op=op, ins=ins, outs=outs, k=k, chained=chained)
    return fails


# ------------------------------------------------------------------------------------------------ focused search
def focused_cases(rng, disagreeing, tier):
    """re-run the generator densely (the disagreeing inputs come from the same streams)"""
    return gen_cases(rng, 'quick')


# ------------------------------------------------------------------ stage G: the anchored functions themselves, translated (DESIGN.md 2.5b)
_INST = """namespace romea { namespace core {
template float between0And2Pi<float>(float);
template double between0And2Pi<double>(double);
template float betweenMinusPiAndPi<float>(float);
template double betweenMinusPiAndPi<double>(double);
template double rotation2DToEulerAngle<double>(const Eigen::Matrix<double, 2, 2> &);
template float rotation2DToEulerAngle<float>(const Eigen::Matrix<float, 2, 2> &);
template Eigen::Matrix<double, 3, 1> rotation3DToEulerAngles<double>(const Eigen::Matrix<double, 3, 3> &);
template Eigen::Matrix<float, 3, 1> rotation3DToEulerAngles<float>(const Eigen::Matrix<float, 3, 3> &);
template PolarCoordinates<double> toPolar<double>(const CartesianCoordinates2<double> &);
template CartesianCoordinates2<double> toCartesian<double>(const PolarCoordinates<double> &);
template SphericalCoordinates<double> toSpherical<double>(const CartesianCoordinates3<double> &);
template CartesianCoordinates3<double> toCartesian<double>(const SphericalCoordinates<double> &);
template PolarCoordinates<float> toPolar<float>(const CartesianCoordinates2<float> &);
template CartesianCoordinates2<float> toCartesian<float>(const PolarCoordinates<float> &);
template SphericalCoordinates<float> toSpherical<float>(const CartesianCoordinates3<float> &);
template CartesianCoordinates3<float> toCartesian<float>(const SphericalCoordinates<float> &);
}}"""
BRIDGE_SPEC = {
    'id': 'C10',
    'headers': ['romea_core_common/math/EulerAngles.hpp', 'romea_core_common/coordinates/PolarCoordinates.hpp',
                'romea_core_common/coordinates/SphericalCoordinates.hpp'],
    'sources': ['src/transform/SmartRotation3D.cpp'],
    'extra': _INST.split('\n'),
    'imports': ['RomeaModel.Rotation'],
    'opens': ['Romea.Rotation'],
    # std::fmod is not in Lean's core: the model's exact-subtraction fmod (compared with libm's on every run, op ang.fmod)
    'externs': {'fmod': {'lean': 'Romea.Rotation.fmod', 'classes': ['Sub', 'Neg', 'LT', 'DecidableLT', 'NatCast']}},
    'functions': [
        {'cxx': 'between0And2Pi', 'targs': 'float', 'suffix': '_f32'},
        {'cxx': 'between0And2Pi', 'targs': 'double'},
        {'cxx': 'betweenMinusPiAndPi', 'targs': 'float', 'suffix': '_f32'},
        {'cxx': 'betweenMinusPiAndPi', 'targs': 'double'},
        {'cxx': 'rotation2DToEulerAngle', 'targs': 'float', 'suffix': '_f32'},
        {'cxx': 'rotation2DToEulerAngle', 'targs': 'double'},
        {'cxx': 'rotation3DToEulerAngles', 'targs': 'float', 'suffix': '_f32'},
        {'cxx': 'rotation3DToEulerAngles', 'targs': 'double'},
        {'cxx': 'SmartRotation3D::init', 'sig': '(const double &, const double &, const double &)', 'outputs': ['R_'], 'suffix': '_R'},
        {'cxx': 'toPolar', 'targs': 'double'},
        {'cxx': 'toCartesian', 'targs': 'double', 'sig': 'PolarCoordinates'},
        {'cxx': 'toSpherical', 'targs': 'double', 'sig': 'CartesianCoordinates3'},
        {'cxx': 'toCartesian', 'targs': 'double', 'sig': 'SphericalCoordinates', 'suffix': '_spherical'},
        {'cxx': 'toPolar', 'targs': 'float', 'suffix': '_f32'},
        {'cxx': 'toCartesian', 'targs': 'float', 'sig': 'PolarCoordinates', 'suffix': '_f32'},
        {'cxx': 'toSpherical', 'targs': 'float', 'sig': 'CartesianCoordinates3', 'suffix': '_f32'},
        {'cxx': 'toCartesian', 'targs': 'float', 'sig': 'SphericalCoordinates', 'suffix': '_spherical_f32'},
    ],
}


def regen(ctx):
    import bridge
    return bridge.regen_bridge(ctx, BRIDGE_SPEC)
