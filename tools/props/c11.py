"""C11 — pose / twist conversions, covariance embedding, pose transformation (mean), uncertainty ellipse
(DESIGN.md section 6, C11)."""
import math
from fractions import Fraction
from vlib import D, tok_val

ID = 'C11'
LEVEL = 'proof'
DRIVER = 'drv_c11'
HARNESS = 'c11.cpp'
SOURCES = ['src/geometry/Pose3D.cpp', 'src/geometry/Pose2D.cpp', 'src/geometry/Position2D.cpp', 'src/geometry/Position3D.cpp',
           'src/geometry/Twist2D.cpp', 'src/geometry/Twist3D.cpp', 'src/geometry/PoseAndTwist2D.cpp',
           'src/geometry/PoseAndTwist3D.cpp', 'src/geometry/Ellipse.cpp', 'src/transform/SmartRotation3D.cpp']
PROOF_MODULES = ['RomeaProofs.Properties.C11', 'RomeaProofs.Bridge.C11', 'RomeaProofs.Bridge.C11Cor',
                 'RomeaProofs.Bridge.C11Ellipse', 'RomeaProofs.Bridge.C11EllipseCor']
TRUSTED = ['Eigen::Affine3d::rotation() (polar factor via JacobiSVD) is a model parameter: the theorems assume it returns a '
           'rotation matrix unchanged; the driver uses the identity function and the tie compares within 1e-10 relative',
           'Eigen::JacobiSVD on the 2x2 covariance is a model parameter with the contract IsEig2 (orthonormal U, descending '
           'non-negative values, C = U diag(s) U^T); the driver uses a closed-form symmetric 2x2 eigen-decomposition; '
           'orientation is compared modulo pi with a tolerance proportional to 1/(relative eigen-gap)',
           'tools/cxx2lean.py (clang-14 AST -> Lean) translates the covariance selections, pose / twist reductions, Ellipse.cpp and both '
           'uncertaintyEllipse overloads on every run; the local JacobiSVD is an uninterpreted oracle record (matrixU, singularValues as '
           'functions of the constructor arguments); a fixed-size Eigen local initialised from a dynamic-size value is read at the '
           'local\'s indices (sizes not compared)']
ASSUMPTIONS = ['theorems are over exact reals (no rounding/overflow); libm atan2/asin/sin/cos/sqrt are the mathematical functions',
               'the attitude part of the group action (composition compared as a rotation) is checked by the probe on the '
               'implementation; the Lean theorems cover the position part and the orientation definition '
               '(rotation3DToEulerAngles of R*R(pose)); the Euler round trip itself belongs to C10']
EXPLANATION = ('Lean theorems on the model (selection, round trip, symmetry/PSD, position action laws, ellipse reconstruction for '
               'every oracle meeting the eigen contract; restated on the functions translated from the current source) + differential correspondence with the C++ + property probe')

TWO_PI = 2 * math.pi
SEL = (0, 1, 5)


# ------------------------------------------------------------------ small linear algebra on lists
def matmul(a, b):
    return [[sum(a[i][k] * b[k][j] for k in range(len(b))) for j in range(len(b[0]))] for i in range(len(a))]


def transpose(a):
    return [list(r) for r in zip(*a)]


def matvec(a, v):
    return [sum(a[i][k] * v[k] for k in range(len(v))) for i in range(len(a))]


def rzyx(r, p, y):
    cx, sx, cy, sy, cz, sz = math.cos(r), math.sin(r), math.cos(p), math.sin(p), math.cos(y), math.sin(y)
    rx = [[1, 0, 0], [0, cx, -sx], [0, sx, cx]]
    ry = [[cy, 0, sy], [0, 1, 0], [-sy, 0, cy]]
    rz = [[cz, -sz, 0], [sz, cz, 0], [0, 0, 1]]
    return matmul(matmul(rz, ry), rx)


def maxabs(a):
    return max(abs(x) for r in a for x in r)


def maxdiff(a, b):
    return max(abs(x - y) for r, s in zip(a, b) for x, y in zip(r, s))


def random_orthogonal(rng, n):
    while True:
        m = [[rng.gauss() for _ in range(n)] for _ in range(n)]
        q = []
        ok = True
        for v in m:
            for u in q:
                d = sum(x * y for x, y in zip(u, v))
                v = [x - d * y for x, y in zip(v, u)]
            nrm = math.sqrt(sum(x * x for x in v))
            if nrm < 1e-3:
                ok = False
                break
            q.append([x / nrm for x in v])
        if ok:
            return transpose(q)


def psd(rng, n, rank=None, cond=None, scale=None):
    """random symmetric PSD matrix with prescribed rank / condition number; exactly symmetric"""
    if scale is None:
        scale = rng.loguniform(1e-6, 1e4)
    if cond is None:
        cond = rng.loguniform(1.0, 1e8)
    if rank is None:
        rank = n
    lam = [scale * (cond ** -rng.unit()) for _ in range(n)]
    if n > 1:
        lam[0] = scale
        lam[1] = scale / cond
    for k in range(rank, n):
        lam[n - 1 - (k - rank)] = 0.0
    rng.shuffle(lam)
    q = random_orthogonal(rng, n)
    c = matmul(matmul(q, [[lam[i] if i == j else 0.0 for j in range(n)] for i in range(n)]), transpose(q))
    for i in range(n):
        for j in range(i):
            c[i][j] = c[j][i]
    return c


def jacobi_eigs(a):
    """eigenvalues of a small symmetric matrix (cyclic Jacobi)"""
    n = len(a)
    a = [list(r) for r in a]
    for _ in range(60):
        off = sum(a[i][j] ** 2 for i in range(n) for j in range(n) if i != j)
        if off < 1e-300:
            break
        for p in range(n):
            for q in range(p + 1, n):
                if a[p][q] == 0.0:
                    continue
                th = (a[q][q] - a[p][p]) / (2 * a[p][q])
                t = (1 if th >= 0 else -1) / (abs(th) + math.sqrt(th * th + 1))
                c = 1 / math.sqrt(t * t + 1)
                s = t * c
                for k in range(n):
                    akp, akq = a[k][p], a[k][q]
                    a[k][p], a[k][q] = c * akp - s * akq, s * akp + c * akq
                for k in range(n):
                    apk, aqk = a[p][k], a[q][k]
                    a[p][k], a[q][k] = c * apk - s * aqk, s * apk + c * aqk
    return sorted(a[i][i] for i in range(n))


def flat(m):
    return [x for r in m for x in r]


def toks(xs):
    return ' '.join(D(x) for x in xs)


# ------------------------------------------------------------------ generators
def rand_angles(rng, boundary=False):
    lim = math.pi / 2 - 1e-3
    if boundary:
        r = rng.choice([0.0, math.pi, -math.pi, TWO_PI, rng.uniform(-math.pi, math.pi)])
        p = rng.choice([0.0, lim, -lim, rng.uniform(-lim, lim)])
        y = rng.choice([0.0, math.pi, -math.pi, TWO_PI, rng.uniform(0, TWO_PI)])
    else:
        r = rng.uniform(-math.pi, math.pi)
        p = rng.uniform(-lim, lim) if rng.chance(0.8) else rng.choice([-1, 1]) * (lim - rng.loguniform(1e-6, 1e-1))
        y = rng.uniform(-math.pi, TWO_PI)
    return [r, p, y]


def rand_vec(rng, n=3):
    m = rng.below(4)
    if m == 0:
        return [rng.uniform(-1e4, 1e4) for _ in range(n)]
    if m == 1:
        return [rng.gauss() * rng.loguniform(1e-3, 1e3) for _ in range(n)]
    if m == 2:
        return [float(rng.int(-20, 20)) for _ in range(n)]
    return [rng.choice([0.0, 1e4, -1e4, 1.0, rng.uniform(-1, 1)]) for _ in range(n)]


def rand_rigid(rng, identity=False):
    if identity:
        return [[1.0, 0.0, 0.0], [0.0, 1.0, 0.0], [0.0, 0.0, 1.0]], [0.0, 0.0, 0.0]
    m = rng.below(5)
    if m == 0:
        a = [rng.choice([0.0, math.pi / 2, math.pi, -math.pi / 2]) for _ in range(3)]
    elif m == 1:
        a = [0.0, 0.0, rng.uniform(-math.pi, math.pi)]
    else:
        a = [rng.uniform(-math.pi, math.pi), rng.uniform(-math.pi / 2, math.pi / 2), rng.uniform(-math.pi, math.pi)]
    return rzyx(*a), (rand_vec(rng) if rng.chance(0.9) else [0.0, 0.0, 0.0])


def away_from_lock(lin, ang, margin=1e-3):
    m = matmul(lin, rzyx(*ang))
    return abs(m[2][0]) < math.cos(margin)


def rand_pose_for(rng, lins, boundary=False):
    """pose angles such that the attitude stays 1e-3 rad away from gimbal lock before and after each transform in `lins`"""
    for _ in range(200):
        ang = rand_angles(rng, boundary)
        if all(away_from_lock(l, ang) for l in lins):
            return ang
    return [0.3, 0.2, 0.1]


def cov66(rng, tier_boundary=False):
    m = rng.below(6)
    if m == 0:
        return psd(rng, 6, rank=rng.int(0, 5))
    if m == 1:
        return [[float(6 * i + j + 1) for j in range(6)] for i in range(6)]       # not symmetric: pure selection test
    return psd(rng, 6)


def gen_cases(rng, tier):
    cases = []
    quick = tier == 'quick'
    # --- selection / embedding / reductions
    n = 250 if quick else 12000
    for i in range(n):
        lines, meta = [], {}
        c6 = cov66(rng)
        c3 = psd(rng, 3, rank=rng.choice([3, 3, 2, 1, 0])) if rng.chance(0.8) else [[float(3 * a + b + 1) for b in range(3)] for a in range(3)]
        lines.append('cov.se2 ' + toks(flat(c6)))
        lines.append('cov.se3 ' + toks(flat(c3)))
        # round trip: the exact embedding of c3 (checked against the cov.se3 output by the oracle) reduced again
        emb = [[0.0] * 6 for _ in range(6)]
        for a in range(3):
            for b in range(3):
                emb[SEL[a]][SEL[b]] = c3[a][b]
        lines.append('cov.se2 ' + toks(flat(emb)))
        meta['c3'] = c3
        pos, ori = rand_vec(rng), rand_angles(rng, rng.chance(0.2))
        lines.append('pose.to2d ' + toks(pos + ori + flat(c6)))
        lines.append('pose.topos3d ' + toks(pos + ori + flat(c6)))
        lin, ang = rand_vec(rng), rand_vec(rng)
        c6b = cov66(rng)
        lines.append('twist.to2d ' + toks(lin + ang + flat(c6b)))
        lines.append('pt.to2d ' + toks(pos + ori + flat(c6) + lin + ang + flat(c6b)))
        if rng.chance(0.3):
            # degenerate covariances right after ordinary ones (the harness converts every second time IN PLACE into an output that
            # still holds the previous result): exactly zero, zero except one entry, zero selected block
            z6 = [[0.0] * 6 for _ in range(6)]
            one = [list(r) for r in z6]
            k = rng.choice([2, 3, 4])
            one[k][k] = 1.0                  # trace > 0, selected (0,1,5) block exactly zero
            for cz in (z6, one):
                lines.append('twist.to2d ' + toks(rand_vec(rng) + rand_vec(rng) + flat(cz)))
                lines.append('twist.to2d ' + toks(rand_vec(rng) + rand_vec(rng) + flat(cz)))
                lines.append('pose.to2d ' + toks(rand_vec(rng) + rand_angles(rng, False) + flat(cz)))
                lines.append('pose.to2d ' + toks(rand_vec(rng) + rand_angles(rng, False) + flat(cz)))
                lines.append('pt.to2d ' + toks(pos + ori + flat(cz) + lin + ang + flat(cz)))
                lines.append('pt.to2d ' + toks(pos + ori + flat(cz) + lin + ang + flat(cz)))
        cases.append({'name': 'select-%d' % i, 'lines': lines, 'meta': meta})
    # --- pose transformation: single, identity, composition
    n = 400 if quick else 20000
    for i in range(n):
        mode = rng.below(10)
        l1, t1 = rand_rigid(rng, identity=(mode == 0))
        l2, t2 = rand_rigid(rng, identity=(mode == 1))
        l21 = matmul(l2, l1)
        t21 = [a + b for a, b in zip(matvec(l2, t1), t2)]
        ang = rand_pose_for(rng, [[[1.0, 0, 0], [0, 1.0, 0], [0, 0, 1.0]], l1, l21], boundary=(mode == 2))
        pos = rand_vec(rng)
        lines = ['pose.mul ' + toks(flat(l1) + t1 + pos + ang),
                 'pose.mulprev ' + toks(flat(l2) + t2),
                 'pose.mul ' + toks(flat(l21) + t21 + pos + ang)]
        cases.append({'name': 'mul-%d' % i, 'lines': lines, 'meta': {'compose': True, 'identity1': mode == 0}})
    # --- ellipses
    n = 600 if quick else 30000
    for i in range(n):
        mode = rng.below(10)
        if mode == 0:
            c = psd(rng, 2, rank=1)
        elif mode == 1:
            s = rng.loguniform(1e-6, 1e4)
            c = [[s, 0.0], [0.0, s]]                                    # isotropic
        elif mode == 2:
            c = [[0.0, 0.0], [0.0, 0.0]]
        elif mode == 3:
            a, d = rng.loguniform(1e-4, 1e4), rng.loguniform(1e-4, 1e4)
            c = [[a, 0.0], [0.0, d]]                                    # axis aligned (either order)
        elif mode == 4:
            c = psd(rng, 2, cond=rng.choice([1e8, 1e7, 1 + 1e-6, 1 + 1e-3]))
        elif mode in (5, 6):
            # entries tied by an equality a 'fast path' would test: EQUAL (mode 5) or equal-to-rounding (mode 6) variances with a
            # non-zero correlation — principal axes at exactly / nearly +-45 degrees, a set of measure zero under psd() (seeded change
            # c11f: 'circle' shortcut on isApproximatelyEqual(cxx, cyy) that never looks at cxy); also /cxy/ = cxx (rank one) and
            # the mirrored case cxx = -cxy
            a = rng.choice([1.0, 2.0, 41.0, rng.loguniform(1e-4, 1e4)])
            r = rng.choice([0.5, -0.5, 1.0, -1.0, 40.0 / 41.0, rng.uniform(-1.0, 1.0), rng.uniform(-1.0, 1.0) * 1e-3])
            d = a if mode == 5 else a * (1.0 + rng.choice([1.0, -1.0]) * rng.choice([2.3e-16, 1e-15, 1e-12, 1e-9, 1e-6]))
            if mode == 6 and abs(r) >= 1.0:
                r *= 0.5                                                # stay inside the quantifier: cond < 1e8 or exactly rank-deficient
            b = r * min(a, d)
            c = [[a, b], [b, d]]
        else:
            c = psd(rng, 2)
        sigma = rng.choice([10.0, 1.0, 3.0, rng.uniform(1e-3, 10.0), rng.loguniform(1e-3, 10.0)])
        ctr = rand_vec(rng, 2)
        if rng.chance(0.5):
            lines = ['ell.pos2d ' + toks(ctr + flat(c) + [sigma])]
        else:
            # embed into a PSD 3x3 pose covariance: [[c, k],[k^T, v]] with k in the range of c
            w = [rng.gauss(), rng.gauss()]
            k = matvec(c, w)
            v = sum(a * b for a, b in zip(w, k)) + abs(rng.gauss())
            c3 = [[c[0][0], c[0][1], k[0]], [c[1][0], c[1][1], k[1]], [k[0], k[1], v]]
            lines = ['ell.pose2d ' + toks(ctr + [rng.uniform(-math.pi, math.pi)] + flat(c3) + [sigma])]
        if rng.chance(0.4):
            # the ellipse is a pure function of (position, covariance, sigma): the same call again with ONE argument changed and the
            # others re-issued bit-identically (seeded change c11d: a thread_local memo keyed on the covariance only keeps the radii
            # of the earlier sigma)
            first = lines[0].split()
            for _ in range(rng.int(1, 3)):
                t = list(first)
                m = rng.below(3)
                if m == 0:
                    t[-1] = toks([rng.choice([1.0, 2.0, 3.0, rng.uniform(1e-3, 10.0)])])
                elif m == 1:
                    t[1:3] = toks(rand_vec(rng, 2)).split()
                lines.append(' '.join(t))
        cases.append({'name': 'ellipse-%d' % i, 'lines': lines, 'meta': {}})
    return cases


# ------------------------------------------------------------------ correspondence comparison
def _ang_close(a, b, tol, period=TWO_PI):
    d = abs(a - b) % period
    return min(d, period - d) <= tol


def compare(case, li, op, impl, model):
    if impl == model:
        return True
    a, b = impl.split(), model.split()
    if len(a) != len(b) or not a or a[0] in ('bad-op', 'abort', 'hang', 'exception', 'skipped') or b[0] in ('bad-op', 'diverged'):
        return False
    name = op.split()[0]
    if name in ('pose.mul', 'pose.mulprev', 'ell.pos2d', 'ell.pose2d'):
        if a[-1] != b[-1]:
            return False
        a, b = a[:-1], b[:-1]
    try:
        x, y = [tok_val(t) for t in a], [tok_val(t) for t in b]
    except ValueError:
        return False
    if any(math.isnan(v) for v in x + y):
        return False
    if name in ('pose.mul', 'pose.mulprev'):
        scale = max(1.0, max(abs(v) for v in x[:3]))
        if any(abs(p - q) > 1e-10 * scale for p, q in zip(x[:3], y[:3])):
            return False
        return all(_ang_close(p, q, 1e-9) for p, q in zip(x[3:], y[3:]))
    if name in ('ell.pos2d', 'ell.pose2d'):
        if a[:2] != b[:2]:
            return False
        maj_i, min_i, maj_m, min_m = x[3], x[4], y[3], y[4]
        if abs(maj_i - maj_m) > 1e-12 * max(maj_i, maj_m):
            return False
        if abs(min_i * min_i - min_m * min_m) > 1e-12 * maj_i * maj_i:
            return False
        if maj_i == 0:
            return True
        gap = (maj_i * maj_i - min_i * min_i) / (maj_i * maj_i)
        if gap < 1e-6:
            return True                       # (nearly) isotropic: the principal direction is not determined
        return _ang_close(x[2], y[2], 1e-12 + 4e-14 / gap, math.pi)
    return False                              # selection ops: bit-exact or nothing


# ------------------------------------------------------------------ oracle (property probe on the implementation)
def _sel_expect(src6, idx):
    return [src6[SEL[i] * 6 + SEL[j]] for i in range(3) for j in range(3)]


def _is_sym(vals, n):
    return all(vals[i * n + j] == vals[j * n + i] for i in range(n) for j in range(n))


def _psd_ok(vals, n):
    m = [[vals[i * n + j] for j in range(n)] for i in range(n)]
    s = maxabs(m)
    if s == 0:
        return True, 0.0
    lo = jacobi_eigs(m)[0]
    return lo >= -1e-12 * s, lo / s


def oracle(case, out, stats):
    fails = []
    prev = None          # (input tokens, output values) of the previous pose.mul*
    first = None
    for line, o in zip(case['lines'], out):
        tk = line.split()
        op, args = tk[0], tk[1:]
        stats[op] = stats.get(op, 0) + 1

        def bad(kind_, detail, **fields):
            fails.append({'kind': kind_, 'detail': '%s -> %s : %s' % (line[:400], o[:400], detail), 'fields': fields})
        if o in ('abort', 'hang', 'exception', 'skipped', 'bad-op'):
            bad('outcome-' + o, 'unexpected outcome')
            break
        ot = o.split()
        if ot and ot[-1].startswith('contract:'):
            stats['oracle_contract_checked'] = stats.get('oracle_contract_checked', 0) + 1
            if ot[-1] != 'contract:1':
                bad('oracle-contract', 'Eigen output violates the contract the theorems assume (JacobiSVD / Affine3d::rotation)')
            ot = ot[:-1]
        if 'nan' in ot:
            bad('nan', 'NaN in the output for an in-domain input')
            continue
        if op == 'cov.se2':
            if ot != _sel_expect(args, SEL):
                bad('selection', 'se2 covariance is not the (0,1,5) selection of the input')
            vin = [tok_val(t) for t in args]
            if _is_sym(vin, 6):
                vo = [tok_val(t) for t in ot]
                if not _is_sym(vo, 3):
                    bad('symmetry', 'symmetric input, asymmetric output')
                okin, _ = _psd_ok(vin, 6)
                if okin:
                    ok, lo = _psd_ok(vo, 3)
                    stats['psd_checked'] = stats.get('psd_checked', 0) + 1
                    if not ok:
                        bad('psd', 'PSD input, output has relative eigenvalue %g' % lo)
            if 'c3' in case.get('meta', {}) and line == case['lines'][2]:
                if ot != case['lines'][1].split()[1:]:
                    bad('roundtrip', 'toSe2Covariance(toSe3Covariance(C)) differs from C')
                stats['roundtrip_checked'] = stats.get('roundtrip_checked', 0) + 1
        elif op == 'cov.se3':
            exp = ['d0'] * 36
            for i in range(3):
                for j in range(3):
                    exp[SEL[i] * 6 + SEL[j]] = args[i * 3 + j]
            if ot != exp:
                bad('selection', 'se3 covariance is not the embedding at (0,1,5) with zeros elsewhere')
            vin = [tok_val(t) for t in args]
            if _is_sym(vin, 3):
                vo = [tok_val(t) for t in ot]
                if not _is_sym(vo, 6):
                    bad('symmetry', 'symmetric input, asymmetric output')
                if _psd_ok(vin, 3)[0]:
                    ok, lo = _psd_ok(vo, 6)
                    stats['psd_checked'] = stats.get('psd_checked', 0) + 1
                    if not ok:
                        bad('psd', 'PSD input, output has relative eigenvalue %g' % lo)
        elif op == 'pose.to2d':
            exp = [args[0], args[1], args[5]] + _sel_expect(args[6:], SEL)
            if ot != exp:
                bad('reduction', 'Pose2D is not (x, y, yaw) + selected covariance')
        elif op == 'pose.topos3d':
            exp = args[0:3] + [args[6 + i * 6 + j] for i in range(3) for j in range(3)]
            if ot != exp:
                bad('reduction', 'Position3D is not the position + its 3x3 covariance block')
        elif op == 'twist.to2d':
            exp = [args[0], args[1], args[5]] + _sel_expect(args[6:], SEL)
            if ot != exp:
                bad('reduction', 'Twist2D is not (vx, vy, yaw rate) + selected covariance')
        elif op == 'pt.to2d':
            exp = [args[0], args[1], args[5]] + _sel_expect(args[6:42], SEL) + \
                  [args[42], args[43], args[47]] + _sel_expect(args[48:84], SEL)
            if ot != exp:
                bad('reduction', 'PoseAndTwist2D is not the two reductions')
        elif op in ('pose.mul', 'pose.mulprev'):
            v = [tok_val(t) for t in args]
            r = [tok_val(t) for t in ot]
            lin = [v[0:3], v[3:6], v[6:9]]
            tr = v[9:12]
            if op == 'pose.mul':
                pos, ang = v[12:15], v[15:18]
            else:
                if prev is None:
                    continue
                pos, ang = prev[:3], prev[3:]
            # position: exact rational evaluation of lin * pos + tr
            scale = max(1.0, sum(abs(x) for x in pos) + sum(abs(x) for x in tr))
            for i in range(3):
                e = sum(Fraction(lin[i][k]) * Fraction(pos[k]) for k in range(3)) + Fraction(tr[i])
                if abs(Fraction(r[i]) - e) > Fraction(1e-9) * Fraction(scale):
                    bad('pose-position', 'component %d: %r, expected %r' % (i, r[i], float(e)))
            # attitude, compared as a rotation
            if not all(0 <= a < TWO_PI + 1e-12 for a in r[3:]):
                bad('angle-range', 'orientation outside [0, 2pi)')
            if maxdiff(rzyx(*r[3:]), matmul(lin, rzyx(*ang))) > 1e-9:
                bad('pose-attitude', 'R(out angles) differs from R * R(in angles) by %g' % maxdiff(rzyx(*r[3:]), matmul(lin, rzyx(*ang))))
            stats['action_checked'] = stats.get('action_checked', 0) + 1
            ident = lin == [[1.0, 0.0, 0.0], [0.0, 1.0, 0.0], [0.0, 0.0, 1.0]] and tr == [0.0, 0.0, 0.0]
            if ident:
                stats['identity_checked'] = stats.get('identity_checked', 0) + 1
                if any(abs(a - b) > 1e-12 * scale for a, b in zip(r[:3], pos)):
                    bad('identity-neutral', 'identity transform moved the position')
                if not all(_ang_close(a, b, 1e-9) for a, b in zip(r[3:], ang)):
                    bad('identity-neutral', 'identity transform changed the attitude (mod 2pi)')
            if op == 'pose.mul' and first is not None and case.get('meta', {}).get('compose') and prev is not None:
                # third line: the composite transform applied to the original pose vs. the two successive ones
                stats['composition_checked'] = stats.get('composition_checked', 0) + 1
                sc = max(1.0, max(abs(x) for x in r[:3]), scale)
                if any(abs(a - b) > 1e-9 * sc for a, b in zip(r[:3], prev[:3])):
                    bad('composition', 'A2*(A1*p) = %r but (A2 A1)*p = %r' % (prev[:3], r[:3]))
                if maxdiff(rzyx(*r[3:]), rzyx(*prev[3:])) > 1e-9:
                    bad('composition', 'attitudes of A2*(A1*p) and (A2 A1)*p differ as rotations')
            if first is None:
                first = r
            prev = r
        elif op in ('ell.pos2d', 'ell.pose2d'):
            v = [tok_val(t) for t in args]
            r = [tok_val(t) for t in ot]
            if op == 'ell.pos2d':
                c = [[v[2], v[3]], [v[4], v[5]]]
                sigma = v[6]
            else:
                c = [[v[3], v[4]], [v[6], v[7]]]
                sigma = v[12]
            if ot[:2] != args[:2]:
                bad('ellipse-center', 'centre is not the position')
            th, mj, mn = r[2], r[3], r[4]
            if not (mj >= mn >= 0):
                bad('ellipse-order', 'major >= minor >= 0 violated: %r %r' % (mj, mn))
            ct, st_ = math.cos(th), math.sin(th)
            rot = [[ct, -st_], [st_, ct]]
            rec = matmul(matmul(rot, [[mj * mj, 0.0], [0.0, mn * mn]]), transpose(rot))
            rec = [[x / (sigma * sigma) for x in row] for row in rec]
            s = maxabs(c)
            if maxdiff(rec, c) > 1e-9 * s + 1e-300:
                bad('ellipse-covariance', 'R diag(major^2, minor^2) R^T / sigma^2 = %r, covariance %r' % (rec, c))
            stats['ellipse_checked'] = stats.get('ellipse_checked', 0) + 1
            if s > 0 and c[0][0] * c[1][1] - c[0][1] * c[1][0] <= 1e-12 * s * s:
                stats['ellipse_rank_deficient'] = stats.get('ellipse_rank_deficient', 0) + 1
    return fails


# ------------------------------------------------------------------ stage G: the anchored functions themselves, translated (DESIGN.md 2.5b)
BRIDGE_SPEC = {
    'id': 'C11',
    'headers': ['romea_core_common/math/Matrix.hpp'],
    'sources': ['src/geometry/Pose3D.cpp', 'src/geometry/Twist3D.cpp', 'src/geometry/PoseAndTwist3D.cpp',
                'src/geometry/Ellipse.cpp', 'src/geometry/Position2D.cpp', 'src/geometry/Pose2D.cpp'],
    # the ellipse: `Eigen::JacobiSVD<Eigen::MatrixXd> svd(covarianceMatrix, Eigen::ComputeThinU)` of Ellipse.cpp is an ORACLE record (its
    # constructor arguments: the 2x2 matrix as a dynamic-size value with literal sizes, the flag as source text); `singularValues()` /
    # `matrixU()` are uninterpreted functions of them (parameters of the translated functions), any other method is untranslatable
    'dyn_sizes': True,
    'oracle_classes': {'JacobiSVD': {'methods': {'singularValues': ['(min {r0} {c0})'], 'matrixU': ['{r0}', '(min {r0} {c0})']}}},
    'extra': ['namespace romea { namespace core {',
              'template Eigen::Matrix<double, 3, 3> toSe2Covariance<double>(const Eigen::Matrix<double, 6, 6> &);',
              'template Eigen::Matrix<double, 6, 6> toSe3Covariance<double>(const Eigen::Matrix<double, 3, 3> &);', '}}'],
    'functions': [
        {'cxx': 'toSe2Covariance', 'targs': 'double'},
        {'cxx': 'toSe3Covariance', 'targs': 'double'},
        {'cxx': 'toPose2D', 'sig': 'void (const romea::core::Pose3D &, romea::core::Pose2D &)'},
        {'cxx': 'toPose2D', 'sig': 'romea::core::Pose2D (const romea::core::Pose3D &)', 'suffix': '_ret'},
        {'cxx': 'toPosition3D', 'sig': 'void (const romea::core::Pose3D &, romea::core::Position3D &)'},
        {'cxx': 'toPosition3D', 'sig': 'romea::core::Position3D (const romea::core::Pose3D &)', 'suffix': '_ret'},
        {'cxx': 'toTwist2D', 'sig': 'void (const romea::core::Twist3D &, romea::core::Twist2D &)'},
        {'cxx': 'toTwist2D', 'sig': 'romea::core::Twist2D (const romea::core::Twist3D &)', 'suffix': '_ret'},
        {'cxx': 'toPoseAndTwist2D', 'sig': 'void ('},
        {'cxx': 'Ellipse::Ellipse', 'sig': 'Matrix2d'},
        {'cxx': 'Ellipse::Ellipse', 'sig': 'void (const double &, const double &, const double &, const double &, const double &)', 'suffix': '_xy'},
        {'cxx': 'Ellipse::Ellipse', 'sig': 'void (const Eigen::Vector2d &, const double &, const double &, const double &)', 'suffix': '_center'},
        {'cxx': 'Ellipse::getCenterPosition'}, {'cxx': 'Ellipse::getOrientation'},
        {'cxx': 'Ellipse::getMajorRadius'}, {'cxx': 'Ellipse::getMinorRadius'},
        {'cxx': 'uncertaintyEllipse', 'sig': 'Position2D', 'suffix': '_position'},
        {'cxx': 'uncertaintyEllipse', 'sig': 'Pose2D', 'suffix': '_pose'},
    ],
}


def regen(ctx):
    import bridge
    return bridge.regen_bridge(ctx, BRIDGE_SPEC)
