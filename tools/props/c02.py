"""C02 — local tangent-plane (ENU) converter (DESIGN.md section 6, C02)."""
import math
from vlib import D, tok_val
import vlib

ID = 'C02'
LEVEL = 'proof'
DRIVER = 'drv_c02'
HARNESS = 'c02.cpp'
SOURCES = ['src/geodesy/ENUConverter.cpp', 'src/geodesy/ECEFConverter.cpp', 'src/geodesy/EarthEllipsoid.cpp',
           'src/geodesy/GeodeticCoordinates.cpp', 'src/geodesy/WGS84Coordinates.cpp']
# ECEFConverter.cpp is an anchored file of C02 too (toWGS84 / toECEF are called by every geodetic overload): the C01 bridge —
# ECEFConverter as translated from today's source = the model — is therefore an obligation of this check as well
# (stage G below regenerates Generated/SrcC01.lean through c01.regen)
PROOF_MODULES = ['RomeaProofs.Properties.C02', 'RomeaProofs.Bridge.C01', 'RomeaProofs.Bridge.C01Cor',
                 'RomeaProofs.Bridge.C02', 'RomeaProofs.Bridge.C02Cor']
TRUSTED = ['the model mirrors Eigen 3.4 fixed-size code paths (Transform*Vector3d, Transform::inverse by 3x3 cofactors); that they '
           'are what the compiled code does is checked by the correspondence run (bit-exact on this image), not proved',
           'the probe computes its reference frame (up = ellipsoid normal, east = z x up normalised, north = up x east; anchor '
           'position from the normal-line formula) in binary64']
ASSUMPTIONS = ['theorems are over the reals (exact arithmetic, no overflow, libm = mathematical functions); the only partial '
               'operations are the division by the determinant of the frame matrix (proved to be 1) and those of toECEF '
               '(discharged in C01 over RN); rounding (cancellation of 6.4e6 m magnitudes) is covered by the correspondence check '
               'and the probe with the 1 mm tolerance of the property',
               'the composition through toWGS84 (toENU_toWGS84_within_1mm) is proved for local points whose ECEF image lies in '
               'C01\'s property domain, via C01.reverse_composition_real; that every point within 100 km / 10 km of an anchor '
               'with |lat| <= 85 deg, h in [-500 m, 9000 m] is such a point is geometrically evident but not a theorem here']
EXPLANATION = ('Lean theorems (frame matrix is a proper rotation with columns east/north/up, anchor -> origin, h above anchor -> '
               '(0,0,h), isometry, exact mutual inverses with toECEF, 1 mm inverse with toWGS84 via C01, history theorem by induction '
               'over op sequences incl. the flag characterisation and the auto-anchor) on a state-machine model '
               'tied to the C++ by differential correspondence on op sequences of one converter object, plus a probe of the '
               'implementation against an independent reference frame')

# stage G: the GRS80 axes (and EPSILON of the latitude loop used by toWGS84) are regenerated exactly as for C01
from props import c01 as _c01
import bridge


# stage G, tie no. 2 (DESIGN.md 2.5b): the ENUConverter member functions themselves, translated from today's source
# (Eigen::Affine3d = the coefficients of its 4x4 matrix; `.linear() .translation()` views, comma initialisers, `Transform * vector`,
# `Transform::inverse()` are read as Eigen 3.4 computes them — tools/cxx2lean.py, phase 3)
V3 = '(const Eigen::Vector3d &) const'
BRIDGE_SPEC = {
    'id': 'C02',
    'extra_filters': ['EPSILON'],      # the latitude loop of ECEFConverter::toWGS84 (called by ENUConverter::toWGS84)
    'sources': ['src/geodesy/ENUConverter.cpp', 'src/geodesy/ECEFConverter.cpp', 'src/geodesy/EarthEllipsoid.cpp',
                'src/geodesy/GeodeticCoordinates.cpp', 'src/geodesy/WGS84Coordinates.cpp'],
    'functions': [
        # the default constructor restricted to the three members of the model's state (`ecefConverter_()` takes the default
        # argument EarthEllipsoid::GRS80: the ellipsoid is a parameter of every translated function, as in the model)
        {'cxx': 'ENUConverter::ENUConverter', 'sig': 'void ()', 'outputs': ['wgs84Anchor_', 'enu2ecef_', 'isAnchored_']},
        {'cxx': 'ENUConverter::setAnchor'},
        {'cxx': 'ENUConverter::reset'},
        {'cxx': 'ENUConverter::isAnchored'},
        {'cxx': 'ENUConverter::toECEF', 'sig': 'Eigen::Vector3d ' + V3, 'suffix': '_v'},
        {'cxx': 'ENUConverter::toECEF', 'sig': '(double, double, double)', 'suffix': '_xyz'},
        {'cxx': 'ENUConverter::toWGS84', 'sig': 'GeodeticCoordinates ' + V3, 'suffix': '_v'},
        {'cxx': 'ENUConverter::toWGS84', 'sig': '(double, double, double)', 'suffix': '_xyz'},
        {'cxx': 'ENUConverter::toENU', 'sig': 'Eigen::Vector3d ' + V3, 'suffix': '_v'},
        {'cxx': 'ENUConverter::toENU', 'sig': '(const romea::core::GeodeticCoordinates &)', 'suffix': '_geo'},
        {'cxx': 'ENUConverter::toENU', 'sig': '(const romea::core::WGS84Coordinates &)', 'suffix': '_wgs'},
    ],
}


def regen(ctx):
    ctx['notes'].append('observation (not a finding): ENUConverter::reset() does not clear the stored anchor (getAnchor()), and '
                        'toENU(WGS84Coordinates) takes its altitude from it, so after reset() the height of the next auto-anchor '
                        'through that overload is inherited from the previous anchor; the point still maps to the origin, the '
                        'property as stated is met (modelled in Book.step / theorem auto_anchor_wgs_maps_to_origin, exercised by '
                        'the reset-scenario cases)')
    info = _c01.regen(ctx)
    c01_bridge = info.get('bridge')
    info.update(bridge.regen_bridge(ctx, BRIDGE_SPEC))      # Generated/SrcC02.lean (key 'bridge'); C01's info is kept as 'bridge_c01'
    info['bridge_c01'] = c01_bridge
    return info

A, B = 6378137.0, 6356752.314
LATMAX = math.radians(85.0)
HMIN, HMAX = -500.0, 9000.0
TOL = 1e-3


# ------------------------------------------------------------------ reference geometry (independent of the library's formulas)
def _up(lat, lon):
    return (math.cos(lat) * math.cos(lon), math.cos(lat) * math.sin(lon), math.sin(lat))


def _cross(a, b):
    return (a[1] * b[2] - a[2] * b[1], a[2] * b[0] - a[0] * b[2], a[0] * b[1] - a[1] * b[0])


def _dot(a, b):
    return a[0] * b[0] + a[1] * b[1] + a[2] * b[2]


def _point(lat, lon, h):
    """surface point whose outward normal is up(lat,lon) (gradient of the quadric parallel to it), plus h*up"""
    n = _up(lat, lon)
    s = math.sqrt(A * A * (n[0] * n[0] + n[1] * n[1]) + B * B * n[2] * n[2])
    return (A * A * n[0] / s + h * n[0], A * A * n[1] / s + h * n[1], B * B * n[2] / s + h * n[2])


def _frame(lat, lon):
    up = _up(lat, lon)
    e = _cross((0.0, 0.0, 1.0), up)
    ne = math.sqrt(_dot(e, e))
    e = (e[0] / ne, e[1] / ne, e[2] / ne)
    return e, _cross(up, e), up


def _to_local(anchor, p):
    e, n, u = _frame(anchor[0], anchor[1])
    t = _point(*anchor)
    d = (p[0] - t[0], p[1] - t[1], p[2] - t[2])
    return (_dot(e, d), _dot(n, d), _dot(u, d))


def _to_ecef(anchor, v):
    e, n, u = _frame(anchor[0], anchor[1])
    t = _point(*anchor)
    return tuple(t[i] + e[i] * v[0] + n[i] * v[1] + u[i] * v[2] for i in range(3))


# ------------------------------------------------------------------ generators
def _wrap(lon):
    while lon > math.pi:
        lon -= 2 * math.pi
    while lon < -math.pi:
        lon += 2 * math.pi
    return lon


def _anchor(rng, boundary):
    lat = rng.uniform(-LATMAX, LATMAX)
    lon = rng.uniform(-math.pi, math.pi)
    alt = rng.uniform(HMIN, HMAX)
    if boundary or rng.chance(0.15):
        m = rng.below(6)
        if m == 0:
            lat = rng.choice([LATMAX, -LATMAX, 0.0, -0.0])
        elif m == 1:
            lon = rng.choice([math.pi, -math.pi, 0.0, math.pi / 2, -math.pi / 2, math.nextafter(math.pi, 0)])
        elif m == 2:
            alt = rng.choice([HMIN, HMAX, 0.0])
        elif m == 3:
            lat, lon = rng.choice([LATMAX, -LATMAX]), rng.choice([math.pi, -math.pi])
        elif m == 4:
            lat, lon, alt = 0.0, 0.0, 0.0
    return (lat, lon, alt)


def _local(rng):
    m = rng.below(8)
    if m == 0:
        return (0.0, 0.0, rng.uniform(-1e4, 1e4))                  # straight above / below the anchor
    if m == 1:
        return (0.0, 0.0, 0.0)
    r = rng.choice([1.0, 100.0, 1e4, 1e5]) * math.sqrt(rng.unit())
    th = rng.uniform(0, 2 * math.pi)
    return (r * math.cos(th), r * math.sin(th), rng.uniform(-1e4, 1e4) if m != 2 else 0.0)


def _local_on_ecef_plane(rng, anchor):
    """a local point (within ~100 km of the anchor) whose ECEF image has one coordinate a few millimetres..decimetres from 0 (or exactly
    0): the equatorial plane Z = 0 and the meridian planes X = 0, Y = 0 are where a converter is tempted to special-case (seeded
    change c02c: `if (|Z| < 1e-8 * norm)` snaps 6 cm onto the equator). None when the anchor is too far from all three planes."""
    v0 = _local(rng)
    P = list(_to_ecef(anchor, v0))
    ks = [k for k in range(3) if abs(P[k]) < 9.0e4]
    if not ks:
        return None
    k = rng.choice(ks)
    P[k] = rng.choice([0.0, 1e-4, 1.5e-3, 0.01, 0.04, 0.3, 2.0]) * rng.choice([1.0, -1.0])
    return _to_local(anchor, tuple(P))


def _plane_anchor(rng):
    """anchor within ~0.7 degree of the equator or of one of the four meridians 0, +-90, 180 degrees"""
    lat, lon, alt = _anchor(rng, False)
    d = rng.choice([0.0, 1e-9, 1e-5, 3e-3, 1.2e-2]) * rng.choice([1.0, -1.0])
    m = rng.below(3)
    if m == 0:
        lat = d
    elif m == 1:
        lon = _wrap(rng.choice([0.0, math.pi / 2, -math.pi / 2, math.pi]) + d)
    else:
        lat, lon = d, _wrap(rng.choice([0.0, math.pi / 2, -math.pi / 2, math.pi]) - d)
    return (lat, lon, alt)


def _nudge(rng, v):
    """the NEXT conversion on the same converter is a near repeat: the point moved by millimetres .. decimetres — relative to its
    distance from the anchor (up to 100 km) that is below any fuzzy "same point as last time" test (seeded change c02e: a one-entry
    memo of toWGS84 keyed on `isApprox(last, 1e-6)`, i.e. 10 cm at 100 km), yet far above the property's 1 mm"""
    d = rng.choice([2e-3, 1e-2, 3e-2, 5e-2, 0.2]) * rng.choice([1.0, -1.0])
    k = rng.below(3)
    return tuple(c + (d if j == k else d * 0.5 * rng.gauss()) for j, c in enumerate(v))


def _geo_near(rng, a):
    """geodetic point within ~70 km of the anchor (so within 100 km horizontally), height within 10 km"""
    m = rng.below(8)
    if m == 0:
        return (a[0], a[1], a[2] + rng.uniform(-1e4, 1e4))         # h metres above the anchor
    if m == 1:
        return a
    dn, de = rng.uniform(-7e4, 7e4), rng.uniform(-7e4, 7e4)
    if m == 2:
        dn, de = rng.uniform(-50, 50), rng.uniform(-50, 50)
    lat = a[0] + dn / 6.4e6
    lon = _wrap(a[1] + de / (6.4e6 * math.cos(a[0])))
    return (lat, lon, a[2] + rng.uniform(-9e3, 9e3))


def _g(op, g):
    return '%s %s' % (op, ' '.join(D(x) for x in g))


def _sequence(rng, n_ops, boundary):
    lines = []
    anchored, anchor = False, (0.0, 0.0, 0.0)
    if rng.chance(0.5):
        lines.append('enu.new')
    else:
        anchor = _anchor(rng, boundary)
        anchored = True
        lines.append(_g('enu.newat', anchor))
    while len(lines) < n_ops:
        r = rng.unit()
        if not anchored:
            if r < 0.35:
                anchor = _anchor(rng, boundary); anchored = True
                lines.append(_g('enu.anchor', anchor))
            elif r < 0.65:      # auto-anchor through the geodetic overload
                anchor = _anchor(rng, boundary); anchored = True
                lines.append(_g('enu.toenu_geo', anchor))
            elif r < 0.85:      # auto-anchor through the WGS84 overload (altitude of the stored anchor)
                g = _anchor(rng, boundary)
                anchor = (g[0], g[1], anchor[2]); anchored = True
                lines.append(_g('enu.toenu_wgs', g[:2]))
            elif r < 0.92:
                lines.append('enu.reset')
            else:
                lines.append('enu.state')
            continue
        if r < 0.08:
            prev = anchor
            anchor = _anchor(rng, boundary)
            if rng.chance(0.5):
                # re-anchoring at a reference that shares components (bit for bit) with the frame being replaced:
                # "re-anchoring elsewhere fully replaces the old frame" must not depend on what changed
                m = rng.below(5)
                if m == 0:
                    anchor = (prev[0], prev[1], min(max(prev[2] + rng.uniform(-500, 500), HMIN), HMAX))   # same lat/lon, new altitude
                elif m == 1:
                    anchor = (prev[0], anchor[1], prev[2])                                             # only the longitude moves
                elif m == 2:
                    anchor = (anchor[0], prev[1], prev[2])                                             # only the latitude moves
                elif m == 3:
                    anchor = (prev[0], prev[1], anchor[2])                                             # same lat/lon, unrelated altitude
                else:
                    anchor = prev                                                                      # identical reference again
            lines.append(_g('enu.anchor', anchor))
            lines.append('enu.state')
            lines.append(_g('enu.toenu_geo', anchor))                                                   # the new reference -> origin
        elif r < 0.16:
            anchored = False
            lines.append('enu.reset')
            if rng.chance(0.5):
                lines.append('enu.state')
        elif r < 0.24:
            lines.append('enu.state')
        elif r < 0.36:
            lines.append(_g('enu.toenu_geo', _geo_near(rng, anchor)))
        elif r < 0.42:
            lines.append(_g('enu.toenu_wgs', _geo_near(rng, anchor)[:2]))
        elif r < 0.47:          # axis directions: a small step in longitude / latitude
            d = rng.choice([1e-7, 1e-6, 1e-5])
            lines.append(_g('enu.toenu_geo', (anchor[0], _wrap(anchor[1] + d), anchor[2])))
            lines.append(_g('enu.toenu_geo', (anchor[0] + d, anchor[1], anchor[2])))
        elif r < 0.57:          # a pair of ECEF points (distance preservation)
            for _ in range(2):
                lines.append(_g('enu.toenu_ecef', _to_ecef(anchor, _local(rng))))
        elif r < 0.66:
            lines.append(_g(rng.choice(['enu.toecef', 'enu.toecef3']), _local(rng)))
        elif r < 0.74:
            v = _local(rng)
            op = rng.choice(['enu.towgs', 'enu.towgs3'])
            lines.append(_g(op, v))
            if rng.chance(0.4):
                lines.append(_g(op, _nudge(rng, v)))
        elif r < 0.83:
            v = _local(rng)
            lines.append(_g('enu.rt_ecef', v))
            if rng.chance(0.3):
                lines.append(_g('enu.rt_ecef', _nudge(rng, v)))
        elif r < 0.91:
            lines.append(_g('enu.rt_inv', _to_ecef(anchor, _local(rng))))
        else:
            v = _local(rng)
            lines.append(_g('enu.rt_wgs', v))
            if rng.chance(0.5):
                lines.append(_g('enu.rt_wgs', _nudge(rng, v)))
    return lines


def gen_cases(rng, tier):
    cases = []
    n = 300 if tier == 'quick' else 20000
    for i in range(n):
        boundary = (i % 4 == 0)
        cases.append({'name': 'seq-%d%s' % (i, '-b' if boundary else ''),
                      'lines': _sequence(rng, rng.int(3, 30), boundary), 'meta': {}})
    # points on / next to the coordinate planes of the ECEF frame, through every overload that goes through ECEFConverter
    for i in range(40 if tier == 'quick' else 2000):
        a = _plane_anchor(rng)
        lines = [_g('enu.newat', a)]
        for _ in range(rng.int(3, 8)):
            v = _local_on_ecef_plane(rng, a)
            if v is None:
                break
            op = rng.choice(['enu.rt_wgs', 'enu.towgs', 'enu.towgs3', 'enu.rt_ecef', 'enu.toecef'])
            lines.append(_g(op, v))
            if rng.chance(0.5):
                lines.append(_g('enu.rt_inv', _to_ecef(a, v)))
        if len(lines) > 1:
            cases.append({'name': 'ecef-plane-%d' % i, 'lines': lines, 'meta': {}})
    # the reset / stored-altitude scenario, explicitly
    for i in range(10 if tier == 'quick' else 200):
        a1, a2 = _anchor(rng, True), _anchor(rng, False)
        lines = [_g('enu.newat', a1), 'enu.state', 'enu.reset', 'enu.state', _g('enu.toenu_wgs', a2[:2]), 'enu.state',
                 _g('enu.toenu_geo', (a2[0], a2[1], a1[2] + 100.0)), 'enu.reset', _g('enu.toenu_geo', a2), 'enu.state',
                 _g('enu.anchor', a1), 'enu.state', _g('enu.toenu_geo', a1)]
        cases.append({'name': 'reset-scenario-%d' % i, 'lines': lines, 'meta': {}})
    return cases


# ------------------------------------------------------------------ correspondence
def compare(case, li, op, impl, model):
    if model == 'diverged':
        return impl == 'hang'
    a, b = impl.split(), model.split()
    if len(a) != len(b):
        return False
    name = op.split()[0]
    for i, (x, y) in enumerate(zip(a, b)):
        if x == y:
            continue
        if not (vlib.is_float_tok(x) and vlib.is_float_tok(y)):
            return False
        if name == 'enu.state':
            col = (i - 1) % 4
            if 1 <= i <= 12 and col != 3:
                ok = vlib.float_close(x, y, 64, abs_tol=1e-14)      # rotation entries
            elif 1 <= i <= 16:
                ok = vlib.float_close(x, y, 64, abs_tol=1e-5)       # translation (metres); last row is exact anyway
            else:
                ok = vlib.float_close(x, y, 0)                      # stored anchor: copied, must be identical
        elif name in ('enu.towgs', 'enu.towgs3') and i < 2:
            ok = vlib.float_close(x, y, 64, abs_tol=1e-12)          # radians
        else:
            ok = vlib.float_close(x, y, 64, abs_tol=1e-5)           # metres: 1/100 of the property's 1 mm
        if not ok:
            return False
    return True


# ------------------------------------------------------------------ oracle (property probe on the implementation)
def oracle(case, out, stats):
    fails = []
    anchored, anchor = None, (0.0, 0.0, 0.0)
    last_pair = None     # (epoch, ecef point, local image) of the previous toenu_ecef
    epoch = 0

    def cnt(k, n=1):
        stats[k] = stats.get(k, 0) + n

    def mx(k, v):
        stats[k] = max(stats.get(k, 0.0), v)

    for line, o in zip(case['lines'], out):
        tk = line.split()
        op = tk[0]
        cnt(op)
        args = [tok_val(t) for t in tk[1:]]

        def bad(kind, detail, **fields):
            fails.append({'kind': kind, 'detail': '%s -> %s : %s [anchor %r]' % (line, o, detail, anchor), 'fields': fields})
        if o in ('abort', 'hang', 'exception', 'skipped', 'bad-op'):
            bad('outcome-' + o, 'unexpected outcome')
            break
        if op == 'enu.new':
            anchored, anchor = False, (0.0, 0.0, 0.0)
            epoch += 1
            continue
        if op in ('enu.newat', 'enu.anchor'):
            anchored, anchor = True, tuple(args)
            epoch += 1
            continue
        if op == 'enu.reset':
            anchored = False
            epoch += 1
            continue
        vals = [float('nan') if t == 'nan' else tok_val(t) for t in o.split()[(1 if op == 'enu.state' else 0):]]
        if any(math.isnan(x) or math.isinf(x) for x in vals):
            bad('non-finite', 'a result is not finite')
            continue
        if op == 'enu.state':
            flag = o.split()[0]
            cnt('state_checked')
            if flag != ('1' if anchored else '0'):
                bad('anchored-flag', 'isAnchored() is %s, expected %s from the history' % (flag, anchored))
                continue
            if not anchored:
                continue
            M = [vals[4 * i:4 * i + 4] for i in range(4)]
            cols = [tuple(M[i][j] for i in range(3)) for j in range(3)]
            t = tuple(M[i][3] for i in range(3))
            e, n, u = _frame(anchor[0], anchor[1])
            dev = max(abs(cols[j][i] - (e, n, u)[j][i]) for i in range(3) for j in range(3))
            mx('max_axis_dev', dev)
            if dev > 1e-9:
                bad('axes', 'columns of the frame are not (east, north, up) of the current anchor (deviation %.3e)' % dev)
            orth = max(abs(_dot(cols[i], cols[j]) - (1.0 if i == j else 0.0)) for i in range(3) for j in range(3))
            det = _dot(cols[0], _cross(cols[1], cols[2]))
            mx('max_rotation_defect', max(orth, abs(det - 1)))
            if orth > 1e-12 or abs(det - 1) > 1e-12:
                bad('rotation', 'frame matrix is not a proper rotation (orthogonality defect %.3e, det %.15g)' % (orth, det))
            dt = math.dist(t, _point(*anchor))
            mx('max_translation_err_m', dt)
            if dt > TOL:
                bad('translation', 'translation is %.3e m away from the ECEF position of the anchor' % dt)
            continue
        if op == 'enu.toenu_geo' or op == 'enu.toenu_wgs':
            g = tuple(args) if op == 'enu.toenu_geo' else (args[0], args[1], anchor[2])
            if not anchored:
                anchored, anchor = True, g
                epoch += 1
                cnt('auto_anchor_checked')
                d = math.dist(vals, (0, 0, 0))
                mx('max_origin_err_m', d)
                if d > TOL:
                    bad('auto-anchor', 'first geodetic point of an un-anchored converter maps %.3e m from the origin' % d)
                continue
            ref = _to_local(anchor, _point(*g))
            d = math.dist(vals, ref)
            cnt('toenu_geo_checked')
            mx('max_toenu_geo_err_m', d)
            if d > TOL:
                bad('to-local', 'toENU(geodetic) is %.3e m away from the reference frame coordinates %r' % (d, ref))
            if g[0] == anchor[0] and g[1] == anchor[1]:
                cnt('above_anchor_checked')
                d = math.dist(vals, (0.0, 0.0, g[2] - anchor[2]))
                mx('max_above_anchor_err_m', d)
                if d > TOL:
                    bad('above-anchor', 'the point %.3f m above the anchor maps to %r' % (g[2] - anchor[2], vals))
            elif g[0] == anchor[0] and g[2] == anchor[2] and 0 < abs(_wrap(g[1] - anchor[1])) <= 2e-5 and _wrap(g[1] - anchor[1]) > 0:
                cnt('east_axis_checked')
                if not (vals[0] > 0 and abs(vals[1]) < 1e-3 * vals[0] + 1e-6):
                    bad('east-axis', 'a small step in longitude does not move along +x (east): %r' % vals)
            elif g[1] == anchor[1] and g[2] == anchor[2] and 0 < g[0] - anchor[0] <= 2e-5:
                cnt('north_axis_checked')
                if not (vals[1] > 0 and abs(vals[0]) < 1e-6):
                    bad('north-axis', 'a small step in latitude does not move along +y (north): %r' % vals)
            continue
        if not anchored:
            cnt('conversion_on_unanchored_converter_skipped')
            continue
        if op == 'enu.toenu_ecef':
            ref = _to_local(anchor, args)
            d = math.dist(vals, ref)
            cnt('toenu_ecef_checked')
            mx('max_toenu_ecef_err_m', d)
            if d > TOL:
                bad('to-local', 'toENU(ecef) is %.3e m away from the reference %r' % (d, ref))
            if last_pair and last_pair[0] == epoch:
                d1, d2 = math.dist(args, last_pair[1]), math.dist(vals, last_pair[2])
                cnt('isometry_pairs_checked')
                mx('max_isometry_err_m', abs(d1 - d2))
                if abs(d1 - d2) > TOL:
                    bad('isometry', 'distance %.6f m between two points becomes %.6f m in the local frame' % (d1, d2))
            last_pair = (epoch, tuple(args), tuple(vals))
        elif op in ('enu.toecef', 'enu.toecef3'):
            d = math.dist(vals, _to_ecef(anchor, args))
            cnt('toecef_checked')
            mx('max_toecef_err_m', d)
            if d > TOL:
                bad('to-ecef', 'toECEF is %.3e m away from anchor + R*v of the reference frame' % d)
        elif op in ('enu.towgs', 'enu.towgs3'):
            cnt('towgs_checked')
            if not (-math.pi / 2 <= vals[0] <= math.pi / 2 and -math.pi <= vals[1] <= math.pi):
                bad('range', 'latitude/longitude out of range')
                continue
            d = math.dist(_point(*vals), _to_ecef(anchor, args))
            mx('max_towgs_err_m', d)
            if d > TOL:
                bad('to-geodetic', 'toWGS84 names a point %.3e m away from the local point' % d)
        elif op in ('enu.rt_ecef', 'enu.rt_inv', 'enu.rt_wgs'):
            d = math.dist(vals, args)
            cnt('inverse_compositions_checked')
            mx('max_' + op[4:] + '_err_m', d)
            if d > TOL:
                bad('inverse-composition', '%s moves the point by %.3e m' % (op, d), op=op)
    return fails


def focused_cases(rng, disagreeing, tier):
    """the disagreeing sequences again, each followed by state dumps and round trips after every op"""
    cases = []
    for c in disagreeing:
        lines = []
        for l in c['lines']:
            lines.append(l)
            if l.split()[0] in ('enu.anchor', 'enu.newat', 'enu.reset', 'enu.toenu_geo', 'enu.toenu_wgs'):
                lines.append('enu.state')
        cases.append({'name': 'focused', 'lines': lines, 'meta': {}})
    return cases
