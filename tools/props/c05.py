"""C05 — point-to-plane least-squares registration solves its linearised problem (DESIGN.md section 6, C05).

Generator: groups of `find` calls on the SAME data through the four overloads (aligned / index-based,
plain / PreconditionedPointSet), Cartesian and homogeneous point types, float and double, 2D and 3D, on estimator
objects that are reused (a larger unrelated problem first, then the smaller one).  Two streams: the everyday one (motions
uniform up to the cloud diameter, diameters 0.5..50, scales log-uniform in [1e-3, 1e3]) and a sweep / ladder stream over the
decades of the quantifier (`_sweep_specs`): motions from the diameter down to 1e-7 (float) / 1e-14 (double) diameters, cloud
and preconditioned-cloud sizes over the decades the condition limit admits, the ends of the scale range, the library's own
scale = 1/extent — so that the right-hand side the solver sees ranges from O(1) down to the rounding level of the data.
Oracle (property probe on the C++ outputs, judged here from the op text alone, in doubles with error-free sums):
  * matrix structure: unit diagonal, exact skew symmetry, last row (0 … 0 1);
  * the parameters read from the matrix equal the least-squares solution of the linearised problem computed
    independently by Householder QR, and satisfy its normal equations to rounding;
  * invariances: aligned = index-based, preconditioned = plain, homogeneous = Cartesian (each against the same reference
    and pairwise inside a group);
  * for the PreconditionedPointSet overloads additionally: the parameters, taken back to preconditioned units, are the
    least-squares solution of the problem AS HANDED OVER (the scaled points, rounded exactly as the C++ rounds them) and
    hence satisfy its normal equations, with an allowance relative to the size of that solution / right-hand side only (the
    comparison with the plain problem has to allow for the rounding of scale*s, scale*t, which is relative to the
    coordinates and would excuse returning the identity for a small motion);
  * a pure translation is recovered exactly (to rounding); an exact rigid motion with rotation angle t about the origin
    is recovered with error <= C t^2, C = sqrt(n) (1/2 + |t|/6) max|s| / sigma_min(J)   (see `_rotation_bound`).
"""
import math
from vlib import D, S, tok_val, to_f32
from props.c07 import householder_ls, singular_values, U, EPS

ID = 'C05'
LEVEL = 'proof'
DRIVER = 'drv_c05'
HARNESS = 'c05.cpp'
SOURCES = ['src/transform/estimation/FindRigidTransformationByLeastSquares.cpp', 'src/regression/leastsquares/LeastSquares.cpp',
           'src/pointset/algorithms/PreconditionedPointSet.cpp', 'src/pointset/algorithms/PointSetPreconditioner.cpp',
           'src/pointset/algorithms/Correspondence.cpp']
# LeastSquares.cpp is an anchored file of C05 too (the solver `find` calls): the bridge of C07 — every member function of
# `LeastSquares<RealType>` translated from the current source = the solver model C05's theorems take as their solver — is an obligation
# of this check as well (seeded change c05f: a factorisation cache inside `estimateUsingSVD`, visible only to a reused estimator whose
# consecutive normal matrices agree to 1e-5 relative)
PROOF_MODULES = ['RomeaProofs.Properties.C05', 'RomeaProofs.Bridge.C05', 'RomeaProofs.Bridge.C05Cor',
                 'RomeaProofs.Bridge.C07', 'RomeaProofs.Bridge.C07Cor']
TRUSTED = ['Eigen JacobiSVD is a parameter of the solver model with the contract IsSVD (RomeaProofs/Properties/C07.lean); the driver '
           'plugs in a Lean Float Jacobi iteration and the matrices are compared within a cond^2-scaled tolerance',
           'the probe judges the C++ outputs against an independent Householder-QR solution computed in Python doubles']
ASSUMPTIONS = ['theorems are over the reals (no rounding); float/double behaviour is covered by the correspondence check and the probe only',
               'preconditioning = PreconditionedPointSet(points, scale) (scale only, as the tests and the RANSAC model use it); with a '
               'translation part in the preconditioning matrix the estimator\'s setPreconditioner ignores it (outside the property\'s domain)',
               'problems whose normal matrix has condition number >= 1e6 (double) / 1e4 (float) are rejected by the generator and skipped by the probe']
EXPLANATION = ('Lean proofs (linearised distance, normal equations / minimality via C07, exact translation, second-order rotation residual, '
               'invariances) on the model + differential correspondence over eight point types + QR-based probe')
HANG_SECS = 30

# ------------------------------------------------------------------ stage G: the anchored functions themselves, translated (DESIGN.md 2.5b)
_PT = [('v2f', 'Eigen::Matrix<float, 2, 1, 0>'), ('v2d', 'Eigen::Matrix<double, 2, 1, 0>'),
       ('v3f', 'Eigen::Matrix<float, 3, 1, 0>'), ('v3d', 'Eigen::Matrix<double, 3, 1, 0>'),
       ('h2f', 'romea::core::HomogeneousCoordinates2<float>'), ('h2d', 'romea::core::HomogeneousCoordinates2<double>'),
       ('h3f', 'romea::core::HomogeneousCoordinates3<float>'), ('h3d', 'romea::core::HomogeneousCoordinates3<double>')]
_LS_HIDDEN = ['dataSize_', 'estimateSize_', 'Ac_', 'Bc_', 'W_', 'JtJ_', 'inverseJtJ_', 'JtY_']
BRIDGE_SPEC = {
    'id': 'C05',
    'sources': ['src/transform/estimation/FindRigidTransformationByLeastSquares.cpp'],
    # `auto & J = leastSquares_.getJ()`: the getters are member templates defined in LeastSquares.cpp; parsing that file with clang costs 7.5 s
    # (every explicit instantiation of the solver), so their bodies are checked on the CURRENT text of the source instead: `return J_;` /
    # `return Y_;` and nothing else (tools/cxx2lean.py `source_getter`); anything else makes `estimate_` untranslatable
    'source_getters': {'getJ': {'cls': 'LeastSquares', 'member': 'J_', 'source': 'src/regression/leastsquares/LeastSquares.cpp'},
                       'getY': {'cls': 'LeastSquares', 'member': 'Y_', 'source': 'src/regression/leastsquares/LeastSquares.cpp'}},
    'fold_constant_conditions': True,      # `if (CARTESIAN_DIM == 2) … else …` is decided per instantiation
    # the solver stays an ORACLE, as in the model (C07's `Env`): `setDataSize(n)` leaves unspecified contents in `J_`, `Y_` (functions of n:
    # the model's `junkJ`, `junkY`), `estimateUsingSVD()` is an uninterpreted function of the current `J_`, `Y_` (and of the solver's other
    # members, which no translated function may read); dynamic-size matrices are functional arrays (tools/cxx2lean.py, phase 3)
    'oracles': {'setDataSize': {'writes': ['J_', 'Y_'], 'hides': _LS_HIDDEN},
                'estimateUsingSVD': {'reads': ['J_', 'Y_'], 'hides': _LS_HIDDEN}},
    'functions':
        [{'cxx': 'FindRigidTransformationByLeastSquares::estimate_', 'record': 'FindRigidTransformationByLeastSquares<%s>' % t,
          'sig': 'NormalSet<%s> &)' % t, 'suffix': '_aligned_' + s_} for s_, t in _PT] +
        [{'cxx': 'FindRigidTransformationByLeastSquares::estimate_', 'record': 'FindRigidTransformationByLeastSquares<%s>' % t,
          'sig': 'Correspondence> &)', 'suffix': '_indexed_' + s_} for s_, t in _PT] +
        [{'cxx': 'FindRigidTransformationByLeastSquares::find', 'record': 'FindRigidTransformationByLeastSquares<%s>' % t,
          'sig': '(const PointSet<%s> &, const PointSet<%s> &, const NormalSet<%s> &)' % (t, t, t), 'suffix': '_aligned_' + s_} for s_, t in _PT] +
        [{'cxx': 'FindRigidTransformationByLeastSquares::find', 'record': 'FindRigidTransformationByLeastSquares<%s>' % t,
          'sig': '(const PointSet<%s> &, const PointSet<%s> &, const NormalSet<%s> &, const std::vector<Correspondence> &)' % (t, t, t),
          'suffix': '_indexed_' + s_} for s_, t in _PT],
}


def regen(ctx):
    import bridge
    from props import c07
    info = bridge.regen_bridge(ctx, BRIDGE_SPEC)
    info['bridge_solver'] = bridge.regen_bridge(ctx, c07.BRIDGE_SPEC).get('bridge')
    return info


TYPES = {'c2d': (2, 2, 'd'), 'c3d': (3, 3, 'd'), 'h2d': (2, 3, 'd'), 'h3d': (3, 4, 'd'),
         'c2f': (2, 2, 'f'), 'c3f': (3, 3, 'f'), 'h2f': (2, 3, 'f'), 'h3f': (3, 4, 'f')}
COND_LIMIT = {'d': 1e3, 'f': 1e2}     # on cond(J); the property's 1e6 is on the normal matrix J^T J


def _rnd(T, x):
    return x if T == 'd' else to_f32(x)


def _tok(T):
    return D if T == 'd' else S


# ------------------------------------------------------------------ the linearised problem of one `find` line
def _row(dim, s, n):
    if dim == 2:
        return [n[0], n[1], s[0] * n[1] - s[1] * n[0]]
    return [n[0], n[1], n[2], s[1] * n[2] - s[2] * n[1], s[2] * n[0] - s[0] * n[2], s[0] * n[1] - s[1] * n[0]]


def parse_find(tk, ty):
    """-> dict(variant, used_scale, triples [(s, t, n)] as given on the line (unscaled)) or None"""
    dim, size, T = TYPES[ty]
    try:
        pre = tk[0] == 'lsq.findp'
        var = tk[1]
        i = 2
        used = None
        if pre:
            used = tok_val(tk[2])
            i = 3
        if var == 'a':
            n = int(tk[i])
            vals = [tok_val(t) for t in tk[i + 1:]]
            if len(vals) != 3 * n * size:
                return None
            pts = [vals[k * size:(k + 1) * size] for k in range(3 * n)]
            triples = [(pts[k], pts[n + k], pts[2 * n + k]) for k in range(n)]
        else:
            ns, nt, m = int(tk[i]), int(tk[i + 1]), int(tk[i + 2])
            nv = (ns + 2 * nt) * size
            vals = [tok_val(t) for t in tk[i + 3:i + 3 + nv]]
            corr = [tuple(map(int, w.split(':'))) for w in tk[i + 3 + nv:]]
            if len(vals) != nv or len(corr) != m or any(a >= ns or b >= nt for a, b in corr):
                return None
            pts = [vals[k * size:(k + 1) * size] for k in range(ns + 2 * nt)]
            triples = [(pts[a], pts[ns + b], pts[ns + nt + b]) for a, b in corr]
        return {'variant': var, 'pre': pre, 'used': used, 'triples': triples, 'dim': dim, 'size': size, 'T': T}
    except (ValueError, IndexError):
        return None


def solve_problem(triples, dim, size, mult=None, rnd=None):
    """rows / rhs of the linearised problem (points optionally multiplied by `mult` and rounded as the C++ does),
    its least-squares solution by QR and the singular values of J"""
    rows, ys = [], []
    ymag = cmag = 0.0
    for s, t, n in triples:
        if mult is not None:
            s = [rnd(v * mult) for v in s]
            t = [rnd(v * mult) for v in t]
        rows.append(_row(dim, s, n))
        ys.append(math.fsum((t[c] - s[c]) * n[c] for c in range(size)))
        ymag = max(ymag, math.fsum(abs((t[c] - s[c]) * n[c]) for c in range(size)))
        cmag = max(cmag, math.fsum((abs(t[c]) + abs(s[c])) * abs(n[c]) for c in range(size)))
    e = 3 if dim == 2 else 6
    if len(rows) < e:
        return None
    res = householder_ls(rows, ys, e)
    if res is None:
        return None
    x, R = res
    sv = singular_values(R, e)
    if sv[-1] <= 0:
        return None
    return {'rows': rows, 'ys': ys, 'x': x, 'smax': sv[0], 'smin': sv[-1], 'cond': sv[0] / sv[-1], 'e': e, 'n': len(rows),
            'ymag': ymag, 'cmag': cmag, 'ynorm': math.sqrt(math.fsum(v * v for v in ys))}


_CACHE = {}


def analyse(case):
    key = (case.get('name'), len(case['lines']), hash(tuple(case['lines'])))
    if key in _CACHE:
        return _CACHE[key]
    out = []
    ty = None
    cfg = None     # configured preconditioning scale of the current estimator (None = identity)
    for line in case['lines']:
        tk = line.split()
        info = None
        try:
            if tk[0] == 'lsq.new':
                ty = tk[1] if len(tk) == 2 and tk[1] in TYPES else ty
                if len(tk) == 2 and tk[1] in TYPES:
                    cfg = None
            elif ty is None:
                pass
            elif tk[0] == 'lsq.setpre' and len(tk) == 2:
                cfg = tok_val(tk[1])
            elif tk[0] in ('lsq.find', 'lsq.findp'):
                p = parse_find(tk, ty)
                if p is not None:
                    dim, size, T = p['dim'], p['size'], p['T']
                    rnd = (lambda v: v) if T == 'd' else to_f32
                    plain = solve_problem(p['triples'], dim, size)
                    seen = solve_problem(p['triples'], dim, size, p['used'], rnd) if p['used'] is not None else plain
                    info = {'ty': ty, 'T': T, 'dim': dim, 'size': size, 'cfg': cfg, 'used': p['used'], 'variant': p['variant'],
                            'pre': p['pre'], 'plain': plain, 'seen': seen, 'triples': p['triples']}
                    if plain is not None and seen is not None:
                        ratio = (p['used'] if p['used'] is not None else 1.0) / (cfg if cfg is not None else 1.0)
                        info['ratio'] = ratio
                        info['xexp'] = [v * ratio for v in plain['x'][:dim]] + plain['x'][dim:]
                        u = U[T]
                        c = max(plain['cond'], seen['cond'])
                        info['tol'] = 1e-9 + 16.0 * plain['e'] * math.sqrt(plain['n']) * u * c * c
                        # allowed deviation per parameter, in the units of the problem the solver sees, mapped through Ac:
                        #   tol * max(|x'|, |Y'| / sigma_max')   (explicit inverse of the normal matrix; J^T Y is accurate relative to |J|^T |Y|)
                        # + 8 u sqrt(n) max_k sum_c |(t - s)_c n_c| / sigma_min'   (the right-hand sides themselves are rounded termwise)
                        base = max(max(abs(v) for v in seen['x']), seen['ynorm'] / seen['smax'])
                        a = info['tol'] * base + 8.0 * u * math.sqrt(seen['n']) * seen['ymag'] / seen['smin'] + 1e-300
                        if p['used'] is not None:
                            # PreconditionedPointSet rounds scale*s and scale*t independently: t' - s' carries u (|t'| + |s'|)
                            a += 4.0 * u * math.sqrt(seen['n']) * seen['cmag'] / seen['smin']
                        icfg = 1.0 / abs(cfg) if cfg else 1.0
                        info['allow'] = [a * icfg] * dim + [a] * (plain['e'] - dim)
                        # the problem AS HANDED to the estimator (the preconditioned points, rounded as the C++ rounds them) is
                        # reproduced exactly in `seen`: judged against it, no allowance for the rounding of scale*s, scale*t is due —
                        # everything left is relative to the size of the solution / right-hand side the solver sees
                        # (+ u |x'| for the division by the scale in Ac)
                        info['allow_seen'] = info['tol'] * base + 8.0 * u * math.sqrt(seen['n']) * seen['ymag'] / seen['smin'] + 1e-300
                        # model and implementation are handed the SAME rounded points: between them only this part applies
                        info['allow_b'] = [info['allow_seen'] * icfg] * dim + [info['allow_seen']] * (plain['e'] - dim)
                        info['scale'] = max(max(abs(v) for v in info['xexp']), 1e-300)
        except (ValueError, IndexError):
            info = None
        out.append(info)
    if len(_CACHE) > 20000:
        _CACHE.clear()
    _CACHE[key] = out
    return out


def params_of(M, dim):
    """(x, structure_ok) from the (dim+1)^2 row-major matrix"""
    d1 = dim + 1
    g = lambda i, j: M[i * d1 + j]
    ok = all(g(i, i) == 1.0 for i in range(d1)) and all(g(dim, j) == 0.0 for j in range(dim))
    if dim == 2:
        x = [g(0, 2), g(1, 2), g(1, 0)]
        ok = ok and g(0, 1) == -g(1, 0)
    else:
        x = [g(0, 3), g(1, 3), g(2, 3), g(2, 1), g(0, 2), g(1, 0)]
        ok = ok and g(0, 1) == -g(1, 0) and g(2, 0) == -g(0, 2) and g(1, 2) == -g(2, 1)
    return x, ok


def _mat(line):
    f = line.split()
    if not f or f[0] != 'M':
        return None
    try:
        return [tok_val(t) for t in f[1:]]
    except ValueError:
        return None


def _in_domain(info):
    """None when the find is inside the probed domain, else the reason it is skipped"""
    if info is None or info.get('plain') is None or info.get('seen') is None:
        return 'rank_deficient'
    if info['plain']['cond'] >= COND_LIMIT[info['T']]:
        return 'cond_limit'                       # the property's condition-number limit (on the problem as stated)
    if info['seen']['smin'] ** 2 <= 16 * EPS[info['T']]:
        return 'svd_cut'                          # absolute singular-value cut of estimateUsingSVD active on what the solver sees
    if info['tol'] > 5e-2:
        return 'scaled_problem_ill_conditioned'   # an unfortunate scale made the preconditioned problem too ill-conditioned for the scalar type
    return None


# ------------------------------------------------------------------ correspondence comparison
def compare(case, li, op, impl, model):
    if impl == model:
        return True
    a, b = impl.split(), model.split()
    if len(a) != len(b) or not a or a[0] != b[0] or a[0] != 'M':
        return False
    info = analyse(case)[li]
    if info is None:
        return False
    try:
        va = [tok_val(t) for t in a[1:]]
        vb = [tok_val(t) for t in b[1:]]
    except ValueError:
        return False
    dim = info['dim']
    if len(va) != (dim + 1) ** 2:
        return False
    xa, oka = params_of(va, dim)
    xb, okb = params_of(vb, dim)
    if oka != okb:
        return False
    if info.get('plain') is None or info.get('seen') is None:
        return True        # rank-deficient problem: both sides are garbage of different kinds
    if any(math.isnan(v) for v in xa + xb):
        return all(math.isnan(p) == math.isnan(q) for p, q in zip(xa, xb))
    u = U[info['T']]
    return all(abs(p - q) <= 2 * al + 8 * u * max(abs(p), abs(q)) for p, q, al in zip(xa, xb, info['allow_b']))


# ------------------------------------------------------------------ generators
def _unit(rng, dim):
    while True:
        v = [rng.gauss() for _ in range(dim)]
        n = math.sqrt(sum(a * a for a in v))
        if n > 1e-3:
            return [a / n for a in v]


def _rotation(rng, dim, theta):
    """(R as function on points, axis) — rotation by theta about an axis through the origin (Rodrigues)"""
    if dim == 2:
        c, s = math.cos(theta), math.sin(theta)
        return (lambda p: [c * p[0] - s * p[1], s * p[0] + c * p[1]]), None
    a = _unit(rng, 3)
    c, s = math.cos(theta), math.sin(theta)

    def R(p):
        ax = [a[1] * p[2] - a[2] * p[1], a[2] * p[0] - a[0] * p[2], a[0] * p[1] - a[1] * p[0]]
        aax = [a[1] * ax[2] - a[2] * ax[1], a[2] * ax[0] - a[0] * ax[2], a[0] * ax[1] - a[1] * ax[0]]
        return [p[i] + s * ax[i] + (1 - c) * aax[i] for i in range(3)]
    return R, a


def _scene(rng, dim, T, n, kind, spec=None):
    """source points, target points, unit normals (all rounded to the scalar type) + ground truth.
    `spec` (sweep stream, see `_sweep_specs`): fixed cloud diameter `diam` and motion size `frac` (translation length and
    rotation arc as a fraction of the cloud diameter) instead of the everyday ranges."""
    diam = spec['diam'] if spec else rng.loguniform(0.5, 50.0)
    centre = [rng.uniform(-1, 1) * diam * rng.choice([0.0, 0.3] if spec else [0.0, 0.3, 1.0]) for _ in range(dim)]
    src = [[_rnd(T, centre[c] + rng.uniform(-0.5, 0.5) * diam) for c in range(dim)] for _ in range(n)]
    shape = rng.below(3)
    if shape == 0:       # isotropic normals
        nrm = [_unit(rng, dim) for _ in range(n)]
    elif shape == 1:     # piecewise planar: a few plane orientations (walls), still spanning
        base = [_unit(rng, dim) for _ in range(dim + rng.int(0, 2))]
        nrm = [base[k % len(base)] for k in range(n)]
    else:                # normals of a closed curve / surface around the centre, slightly perturbed
        nrm = []
        for p in src:
            v = [p[c] - centre[c] + 0.2 * diam * rng.gauss() for c in range(dim)]
            l = math.sqrt(sum(a * a for a in v)) or 1.0
            nrm.append([a / l for a in v])
    nrm = [[_rnd(T, v) for v in nn] for nn in nrm]
    theta = 0.0
    axis = None
    tr = [0.0] * dim
    if kind in ('translation', 'general'):
        l = (spec['frac'] if spec else rng.uniform(0, 1)) * diam
        d = _unit(rng, dim)
        tr = [l * a for a in d]
    if kind in ('rotation', 'general'):
        theta = rng.uniform(-0.1, 0.1)
        if spec:    # arc over the cloud radius comparable to the translation: theta * diam / 2 ~ frac * diam
            theta = rng.choice([-1.0, 1.0]) * min(0.1, 2.0 * spec['frac'] * rng.uniform(0.3, 1.0))
    R, axis = _rotation(rng, dim, theta)
    noise = diam * rng.choice([1e-3, 1e-2]) if kind == 'noisy' else 0.0
    if kind == 'noisy':
        theta = rng.uniform(-0.05, 0.05)
        R, axis = _rotation(rng, dim, theta)
        tr = [rng.gauss() * 0.1 * diam for _ in range(dim)]
    tgt = []
    for p in src:
        q = R(p)
        tgt.append([_rnd(T, q[c] + tr[c] + noise * rng.gauss()) for c in range(dim)])
    truth = {'kind': kind, 'tr': tr, 'theta': theta, 'axis': axis, 'diam': diam, 'exact': kind != 'noisy'}
    return src, tgt, nrm, truth


def _pt(tok, p, size, w):
    q = list(p) + ([w] if size > len(p) else [])
    return ' '.join(tok(v) for v in q)


def _aligned(tok, size, src, tgt, nrm, wn):
    n = len(src)
    return '%d %s %s %s' % (n, ' '.join(_pt(tok, p, size, 1.0) for p in src), ' '.join(_pt(tok, p, size, 1.0) for p in tgt),
                            ' '.join(_pt(tok, p, size, wn) for p in nrm))


def _indexed(rng, tok, size, src, tgt, nrm, wn, T):
    """the same correspondences through permuted / padded arrays and an index list (in a shuffled order)"""
    n, dim = len(src), len(src[0])
    extra_s, extra_t = rng.int(0, 4), rng.int(0, 4)
    ps = list(range(n + extra_s))
    pt = list(range(n + extra_t))
    rng.shuffle(ps)
    rng.shuffle(pt)
    almost_identity = rng.chance(0.3)
    if almost_identity:
        # what ICP hands over most of the time: equal sizes, the list in source order, the pairing the identity EXCEPT for a few
        # neighbour swaps — a shortcut that recognises "the identity pairing" by looking at a few entries (seeded change c05d probes
        # entries 0, N/2 and N-1 only, for N >= 32) takes the aligned path on a list that is not the identity
        extra_s = extra_t = 0
        ps = list(range(n))
        pt = list(range(n))
        for _ in range(rng.int(1, 4)):
            k = rng.int(1, max(1, n - 3))
            if k + 1 < n - 1 and k != n // 2 and k + 1 != n // 2:
                pt[k], pt[k + 1] = pt[k + 1], pt[k]
    S2 = [None] * (n + extra_s)
    T2 = [None] * (n + extra_t)
    N2 = [None] * (n + extra_t)
    wild = lambda: [_rnd(T, rng.gauss() * 100.0) for _ in range(dim)]
    for k in range(n + extra_s):
        S2[ps[k]] = src[k] if k < n else wild()
    for k in range(n + extra_t):
        T2[pt[k]] = tgt[k] if k < n else wild()
        N2[pt[k]] = nrm[k] if k < n else wild()
    corr = [(ps[k], pt[k]) for k in range(n)]
    if rng.chance(0.5) and not almost_identity:
        rng.shuffle(corr)
    return '%d %d %d %s %s %s %s' % (len(S2), len(T2), n, ' '.join(_pt(tok, p, size, 1.0) for p in S2),
                                     ' '.join(_pt(tok, p, size, 1.0) for p in T2), ' '.join(_pt(tok, p, size, wn) for p in N2),
                                     ' '.join('%d:%d' % c for c in corr))


def _well_posed(src, tgt, nrm, dim, T):
    p = solve_problem(list(zip(src, tgt, nrm)), dim, dim)
    return p is not None and p['cond'] < 0.5 * COND_LIMIT[T] and p['smin'] ** 2 > 64 * EPS[T]


def _group(rng, tier, idx, spec=None):
    dim = rng.choice([2, 3])
    T = 'd' if rng.chance(0.6) else 'f'
    nmax = rng.choice([12, 30, 30, 80] + ([500] if tier != 'quick' or rng.chance(0.1) else []))
    n = rng.int(6, nmax)
    kind = rng.choice(['translation', 'rotation', 'general', 'general', 'noisy', 'zero'])
    if spec:
        dim, T, n, kind = spec['dim'], spec['T'], spec['n'], spec['kind']
    tok = _tok(T)
    e = 3 if dim == 2 else 6
    for _ in range(50):
        src, tgt, nrm, truth = _scene(rng, dim, T, n, kind, spec)
        if _well_posed(src, tgt, nrm, dim, T):
            break
    else:
        return None
    if not spec and rng.chance(0.2):
        # SOME matched pairs bit-identical (points that did not move: a fixed obstacle, a point on the rotation axis): their residual is
        # zero but their row [n, s x n] still belongs in J^T J (seeded change c05e skips such rows as "nothing to align"). The
        # ground-truth clauses no longer apply (the data are not an exact rigid image any more): judged as a general problem.
        for k in set(rng.below(n) for _ in range(rng.int(1, 3))):
            tgt[k] = list(src[k])
        truth = dict(truth, exact=False, kind='noisy')
        kind = 'noisy'
    cart, homo = 'c%d%s' % (dim, T), 'h%d%s' % (dim, T)
    lines = []
    group = []          # indices of finds that state the same problem with matching configuration
    first = rng.choice([cart, homo])
    for ty in ([first] + ([homo if first == cart else cart] if rng.chance(0.8) else [])):
        size = TYPES[ty][1]
        wn = rng.choice([0.0, 1.0])          # homogeneous component of the normals: irrelevant (t_w - s_w = 0)
        lines.append('lsq.new ' + ty)
        if rng.chance(0.4):
            # history: a larger unrelated problem on the same estimator first
            m = rng.int(n + 1, n + 40)
            for _ in range(20):
                s2, t2, n2, _tr = _scene(rng, dim, T, m, 'general')
                if _well_posed(s2, t2, n2, dim, T):
                    lines.append('lsq.find a ' + _aligned(tok, size, s2, t2, n2, wn))
                    break
        order = ['a', 'i', 'pa', 'pi']
        rng.shuffle(order)
        order = order[:(4 if spec and spec.get('all4') else rng.int(2, 4))]
        if 'a' not in order and 'i' not in order:
            order.append('a')
        # plain overloads first (identity configuration), then the preconditioned ones
        order.sort(key=lambda v: v.startswith('p'))
        sc = _rnd(T, spec['scale'] if spec else rng.loguniform(1e-3, 1e3))
        configured = False
        for v in order:
            if v.startswith('p') and not configured:
                lines.append('lsq.setpre ' + tok(sc))
                configured = True
            if v == 'a':
                lines.append('lsq.find a ' + _aligned(tok, size, src, tgt, nrm, wn))
            elif v == 'i':
                lines.append('lsq.find i ' + _indexed(rng, tok, size, src, tgt, nrm, wn, T))
            elif v == 'pa':
                lines.append('lsq.findp a %s %s' % (tok(sc), _aligned(tok, size, src, tgt, nrm, wn)))
            else:
                lines.append('lsq.findp i %s %s' % (tok(sc), _indexed(rng, tok, size, src, tgt, nrm, wn, T)))
            group.append(len(lines) - 1)
        if configured and rng.chance(0.15):
            # configuration persists: a plain find on a configured estimator returns the translation divided by the scale
            lines.append('lsq.find a ' + _aligned(tok, size, src, tgt, nrm, wn))
        if configured and rng.chance(0.35):
            # RE-configuration of a used estimator: every preconditioned find installs its own scale, whatever was installed
            # before — in particular the scale EXACTLY 1 (and its neighbours) after a scale far from 1 (seeded change c05c: a
            # "unit scale, nothing to do" early return in setPreconditioner keeps the previous call's preconditioner)
            one = _rnd(T, 1.0)
            up = _rnd(T, 1.0 + (2.0 ** -23 if T == 'f' else 2.0 ** -52))
            dn = _rnd(T, 1.0 - (2.0 ** -24 if T == 'f' else 2.0 ** -53))
            for sc2 in [rng.choice([one, one, up, dn, _rnd(T, rng.loguniform(1e-2, 1e2))]) for _ in range(rng.int(1, 2))]:
                if rng.chance(0.5):
                    lines.append('lsq.findp a %s %s' % (tok(sc2), _aligned(tok, size, src, tgt, nrm, wn)))
                else:
                    lines.append('lsq.setpre ' + tok(sc2))
                    lines.append('lsq.find a ' + _aligned(tok, size, src, tgt, nrm, wn))
    meta = {'dim': dim, 'T': T, 'truth': truth, 'group': group, 'n': n}
    if spec:
        meta['sweep'] = {k: spec[k] for k in ('stream', 'diam', 'frac', 'scale')}
    return {'name': '%s-%d%s-%s-%d' % (spec['stream'] if spec else 'grp', dim, T, kind, idx), 'lines': lines, 'meta': meta}


# The property's quantifier is a product of ranges over many decades: preconditioning scale in [1e-3, 1e3], motion from
# the cloud diameter down to nothing, clouds of any size whose normal matrix stays below the condition limit.  The everyday
# stream above draws translation lengths uniformly in [0, diameter] and diameters in [0.5, 50]: a motion of 1e-4 diameters,
# or a right-hand side of 1e-9 in the solver's (preconditioned) units, has probability ~0 there.  The sweep stream walks
# those decades deliberately.  What the solver sees is governed by
#     rho = scale * diameter   (size of the preconditioned cloud: conditioning of J', J' rotation columns ~ rho)
#     frac = |motion| / diameter,   |Y'| ~ rho * frac,   |J'^T Y'| ~ n/dim * rho * frac
# so specs are drawn in (diameter, rho, frac) and the scale follows (clipped to the property's [1e-3, 1e3]).
# cond(J) ~ 6 / size for clouds smaller than 1, ~ size for larger ones (measured on this generator's scenes)
DIAM_RANGE = {'d': (0.03, 200.0), 'f': (0.2, 25.0)}    # raw clouds inside the condition limit of the scalar type (COND_LIMIT)
RHO_RANGE = {'d': (0.012, 200.0), 'f': (0.2, 20.0)}    # preconditioned clouds inside the same limit
FRAC_DECADES = {'d': 14, 'f': 7}                        # motions down to 1e-14 / 1e-7 diameters (data rounding: 1e-16 / 6e-8)


def _clip_scale(v):
    return min(1e3, max(1e-3, v))


def _sweep_specs(rng, tier):
    specs = []
    kinds = ['translation', 'translation', 'general', 'rotation']
    # (1) ladder (boundary stream, deterministic coverage): one group per decade of motion size, per scalar type, for a
    #     down-scaling preconditioner, the library's own 1/extent (rho = 1), an up-scaling one, and the ends of the scale range
    for T in ('f', 'd'):
        lo_rho = RHO_RANGE[T][0]
        for k in range(1, FRAC_DECADES[T] + 1):
            for j, (diam, rho) in enumerate([(10.0, lo_rho), (rng.loguniform(*DIAM_RANGE[T]), 1.0), (0.5, 5.0)]):
                if tier == 'quick' and j == 2 and k % 2 == 0:
                    continue
                specs.append({'stream': 'ladder', 'T': T, 'dim': 2 + (k + j) % 2, 'n': rng.int(6, 14), 'kind': kinds[(k + j) % 2 * 2],
                              'diam': diam, 'scale': _clip_scale(rho / diam), 'frac': 10.0 ** -k * rng.uniform(1.0, 3.0), 'all4': True})
        # ends of the scale range and of the cloud sizes (for float the scale ends leave RHO_RANGE: correspondence only)
        for sc, diam in ((1e-3, DIAM_RANGE[T][1]), (1e3, DIAM_RANGE[T][0]), (1.0, DIAM_RANGE[T][0]), (1.0, DIAM_RANGE[T][1])):
            for frac in (0.5, 1e-3, 10.0 ** -(FRAC_DECADES[T] - 2)):
                specs.append({'stream': 'edge', 'T': T, 'dim': rng.choice([2, 3]), 'n': rng.int(6, 12), 'kind': rng.choice(kinds),
                              'diam': diam, 'scale': sc, 'frac': frac, 'all4': True})
    # (2) structured random stream over the same product of ranges
    for _ in range(60 if tier == 'quick' else 1200):
        T = rng.choice(['f', 'd'])
        diam = rng.loguniform(*DIAM_RANGE[T])
        rho = 1.0 if rng.chance(0.25) else rng.loguniform(*RHO_RANGE[T])
        nmax = rng.choice([8, 12, 12, 30, 80] + ([500] if tier != 'quick' else []))
        specs.append({'stream': 'sweep', 'T': T, 'dim': rng.choice([2, 3]), 'n': rng.int(6, nmax), 'kind': rng.choice(kinds),
                      'diam': diam, 'scale': _clip_scale(rho / diam), 'frac': 10.0 ** -rng.uniform(0.0, FRAC_DECADES[T]),
                      'all4': rng.chance(0.5)})
    return specs


def _malformed():
    lines = ['lsq.find a 0', 'lsq.new c2x', 'lsq.new c2d', 'lsq.find a 1 d0 d0', 'lsq.find i 1 1 1 d0 d0 d0 d0 d0 d0 0:1',
             'lsq.find i 1 1 1 d0 d0 d0 d0 d0 d0 1:0', 'lsq.find q 1', 'lsq.setpre s0', 'lsq.findp a 1', 'lsq.find a 1 s0 s0 s0 s0 s0 s0',
             'lsq.frob']
    return {'name': 'malformed', 'lines': lines, 'meta': {'malformed': True}}


def gen_cases(rng, tier):
    cases = [_malformed()]
    ngroups = 160 if tier == 'quick' else 2500
    i = 0
    while len(cases) < ngroups + 1:
        g = _group(rng, tier, i)
        i += 1
        if g is not None:
            cases.append(g)
    for j, spec in enumerate(_sweep_specs(rng, tier)):
        g = _group(rng, tier, j, spec)
        if g is not None:
            cases.append(g)
    return cases


# ------------------------------------------------------------------ oracle
def _rotation_bound(theta, smax_norm, n, smin):
    """|x - x*| <= |J^+| |r|, r = J x* - Y the linearisation residual of the exact motion x* = (T, theta*axis):
    r_k = ((I + [w]x - R) s_k) . n_k = (t - sin t)(a x s).n - (1 - cos t)(a x (a x s)).n   (Rodrigues; 2D alike), hence
    |r_k| <= t^2/2 |(a x (a x s)).n| + |t|^3/6 |(a x s).n|   (theorems rotation_residual_2d / rotation_residual_3d, using
    1 - cos t <= t^2/2 and |t - sin t| <= |t|^3/6) <= (t^2/2 + |t|^3/6) |s_k| for unit a, n (Cauchy-Schwarz);
    |r| <= sqrt(n) max|r_k|,  |J^+| = 1 / sigma_min(J)."""
    t = abs(theta)
    return math.sqrt(n) * (t * t / 2 + t ** 3 / 6) * smax_norm / smin


def oracle(case, out, stats):
    fails = []
    meta = case.get('meta', {})
    an = analyse(case)

    def bump(k, v=1):
        stats[k] = stats.get(k, 0) + v
    if meta.get('malformed'):
        for i, o in enumerate(out):
            want = 'ok' if i == 2 else 'bad-op'
            if o != want:
                fails.append({'kind': 'malformed-accepted', 'detail': '%s -> %s' % (case['lines'][i][:60], o), 'fields': {}})
        bump('malformed_lines', len(out))
        return fails
    group = set(meta.get('group', []))
    truth = meta.get('truth')
    gx = []
    for li, (line, o) in enumerate(zip(case['lines'], out)):
        tk = line.split()
        info = an[li]

        def bad(kind, detail, **fields):
            fails.append({'kind': kind, 'detail': '%s (line %d: %s) -> %s : %s' % (case.get('name'), li, line[:60], o[:160], detail), 'fields': fields})
        if o in ('abort', 'hang', 'exception', 'skipped', 'bad-op'):
            bad('outcome-' + o, 'unexpected outcome')
            break
        if tk[0] not in ('lsq.find', 'lsq.findp'):
            continue
        M = _mat(o)
        if info is None or M is None or len(M) != (info['dim'] + 1) ** 2:
            bad('malformed', 'bad find output')
            continue
        dim = info['dim']
        x, okst = params_of(M, dim)
        bump('finds')
        if not okst:
            bad('structure', 'not identity + skew + translation (diagonal 1, antisymmetric, last row 0…0 1)')
            continue
        why = _in_domain(info)
        if why is not None:
            bump('skipped_' + why)
            continue
        if any(math.isnan(v) or math.isinf(v) for v in x):
            bad('non-finite', 'parameters not finite on a well-posed problem')
            continue
        tol, scale, allow = info['tol'], info['scale'], info['allow']
        ratio_ = max(abs(a - b) / al for a, b, al in zip(x, info['xexp'], allow))
        err = max(abs(a - b) for a, b in zip(x, info['xexp']))
        bump('solutions_checked')
        bump('solutions_%s' % info['ty'])
        bump('overload_%s%s' % ('p' if info['pre'] else '', info['variant']))
        stats['max_err_over_tol'] = max(stats.get('max_err_over_tol', 0.0), ratio_)
        if not (ratio_ <= 1.0):
            bad('minimiser', 'parameters differ from the least-squares solution of the linearised problem by %.3g (%.3g times the allowance, cond %.3g)' % (
                err, ratio_, info['plain']['cond']), ty=info['ty'], variant=info['variant'], pre=info['pre'])
            continue
        if abs(info['ratio'] - 1.0) < 1e-6:
            # normal equations of the (unscaled) linearised problem
            P = info['plain']
            e = P['e']
            r = [math.fsum(P['rows'][k][c] * x[c] for c in range(e)) - P['ys'][k] for k in range(P['n'])]
            g = [math.fsum(P['rows'][k][i] * r[k] for k in range(P['n'])) for i in range(e)]
            # g = J^T J (x - x_ls) exactly, so the allowance of x maps to |g_i| <= sum_j |J^T J|_ij allow_j
            JtJ = [[math.fsum(P['rows'][k][i] * P['rows'][k][j] for k in range(P['n'])) for j in range(e)] for i in range(e)]
            galw = [math.fsum(abs(JtJ[i][j]) * allow[j] for j in range(e)) for i in range(e)]
            bump('normal_equations_checked')
            if not all(abs(g[i]) <= 2.0 * galw[i] for i in range(e)):
                bad('normal-equations', 'J^T(Jx-Y) = %s exceeds %s' % (['%.3g' % v for v in g], ['%.3g' % (2 * v) for v in galw]))
            if info['pre'] and info['cfg']:
                # the same clause on the problem as handed over (preconditioned units: x' = Ac^-1 x): the parameters are the
                # least-squares solution of THAT linearised problem (equivalently: satisfy ITS normal equations, J'^T(J'x'-Y') =
                # J'^T J' (x' - x'_ls)), up to rounding relative to the size of the solution and of the right-hand side — a small
                # motion under a down-scaling preconditioner is not excused by the coordinate-rounding allowance that the
                # comparison with the plain problem needs
                Q = info['seen']
                asn = info['allow_seen']
                xs = [x[c] * info['cfg'] for c in range(dim)] + x[dim:]
                errs = max(abs(a - b) for a, b in zip(xs, Q['x']))
                lim = asn + 4.0 * U[info['T']] * max(abs(v) for v in xs)
                bump('handed_problem_checked')
                stats['max_handed_err_over_tol'] = max(stats.get('max_handed_err_over_tol', 0.0), errs / lim)
                if not (errs <= lim):
                    bad('minimiser', 'parameters (in preconditioned units) differ from the least-squares solution of the problem as handed '
                        'over by %.3g (%.3g times the allowance; |x\'| = %.3g, cond %.3g)' % (errs, errs / lim, max(abs(v) for v in Q['x']), Q['cond']),
                        ty=info['ty'], variant=info['variant'], pre=True, problem='as-handed')
            if li in group:
                gx.append((li, x, allow, info))
            # ground truth
            if truth and li in group and truth.get('exact'):
                u = U[info['T']]
                maxc = max(max(abs(v) for v in s + t) for s, t, _ in info['triples'])
                slack = max(allow) + math.sqrt(P['n']) * 8 * u * maxc / P['smin']
                tr, th = truth['tr'], truth['theta']
                if dim == 2:
                    xs = list(tr) + [th]
                else:
                    a = truth['axis'] or [0.0, 0.0, 0.0]
                    xs = list(tr) + [th * a[0], th * a[1], th * a[2]]
                d2 = math.sqrt(sum((p - q) ** 2 for p, q in zip(x, xs)))
                if truth['kind'] in ('translation', 'zero'):
                    bump('exact_translation_checked')
                    if not (d2 <= slack * math.sqrt(e)):
                        bad('translation-not-exact', 'pure translation recovered with error %.3g (allowed %.3g)' % (d2, slack * math.sqrt(e)))
                else:
                    smax = max(math.sqrt(sum(v * v for v in s[:dim])) for s, _, _ in info['triples'])
                    bound = _rotation_bound(th, smax, P['n'], P['smin']) + slack * math.sqrt(e)
                    bump('rotation_bound_checked')
                    stats['max_rot_err_over_bound'] = max(stats.get('max_rot_err_over_bound', 0.0), d2 / bound)
                    if not (d2 <= bound):
                        bad('rotation-error', 'error %.3g exceeds C t^2 + rounding = %.3g (t = %.3g)' % (d2, bound, th), theta=th)
        else:
            bump('mismatched_configuration_checked')
    # pairwise invariance inside the group
    for (l1, x1, a1, i1), (l2, x2, a2, i2) in zip(gx, gx[1:]):
        d = max(abs(a - b) / (p + q) for a, b, p, q in zip(x1, x2, a1, a2))
        bump('invariance_pairs')
        if i1['ty'] != i2['ty']:
            bump('invariance_pairs_homogeneous_vs_cartesian')
        if i1['pre'] != i2['pre']:
            bump('invariance_pairs_preconditioned_vs_plain')
        if i1['variant'] != i2['variant']:
            bump('invariance_pairs_aligned_vs_indexed')
        if not (d <= 1.0):
            fails.append({'kind': 'invariance', 'detail': '%s: lines %d (%s %s%s) and %d (%s %s%s) differ by %.3g times the allowance' % (
                case.get('name'), l1, i1['ty'], 'p' if i1['pre'] else '', i1['variant'], l2, i2['ty'], 'p' if i2['pre'] else '', i2['variant'],
                d), 'fields': {}})
    return fails


def focused_cases(rng, disagreeing, tier):
    cases = []
    i = 0
    while len(cases) < 100:
        g = _group(rng, tier, 100000 + i)
        i += 1
        if g is not None:
            cases.append(g)
    for j, spec in enumerate(_sweep_specs(rng, 'quick')):
        g = _group(rng, tier, 100000 + j, spec)
        if g is not None:
            cases.append(g)
    return cases
