"""C19 — concurrency: lock discipline of the regenerated table + ThreadSanitizer probe (DESIGN.md section 6, C19).

The model for this property is not hand-written: tools/gen_locktable.py regenerates
lean/RomeaModel/Generated/LockTable.lean from clang's AST of /repo's sources on every run (stage G);
`lake build` then re-checks `table_disciplined` / `table_covers` (by `decide`) on it together with the
general theorems (lockset soundness, serial critical sections, serial semantics of the shared variables).
Stage C is a ThreadSanitizer run of the real classes with real threads plus consistency checks of the values read.
"""
import os
import subprocess
import sys

sys.path.insert(0, os.path.dirname(os.path.dirname(os.path.abspath(__file__))))
import gen_locktable  # noqa: E402

ID = 'C19'
LEVEL = 'other'
DRIVER = None
HARNESS = None
SOURCES = []
PROOF_MODULES = ['RomeaProofs.Properties.C19']
TRUSTED = ['tools/gen_locktable.py: translator from clang-14 AST (JSON) to per-method lock/access event lists; it errs towards '
           'reporting (anything unclassified is an unguarded write) and is cross-checked by the ThreadSanitizer run',
           'clang++-14, libstdc++, std::mutex, the C++ memory model, ThreadSanitizer\'s happens-before analysis']
ASSUMPTIONS = ['the theorems assume sequentially consistent interleaving of the summaries\' events and that lock_guard acquires/releases '
               'as the event language says; the real memory model and scheduler are exercised by the TSan probe only (partial)',
               'operations in scope: update/store/evaluate/reset (writer) and load/consume/get*/isAvailable/getReport/heartbeat/timeout '
               '(readers), as the property lists them; configuration methods (setWindowSize, initialize) are out of scope']
EXPLANATION = ('partial: Lean theorems (lock discipline => every conflicting pair is ordered by release/acquire = no data race; critical '
               'sections are serial; SharedVariable/SharedOptionalVariable serial semantics) + kernel-checked discipline of the lock table '
               'regenerated from the clang AST of the current source + ThreadSanitizer run of the real classes with value-consistency checks')

SCENARIOS = ['shared_variable', 'shared_optional', 'online_average', 'online_variance', 'checkup_equal_to', 'checkup_greater_than',
             'checkup_lower_than', 'checkup_reliability', 'rate_monitoring', 'checkup_rate_eq', 'checkup_rate_gt']
TSAN_SOURCES = ['src/monitoring/OnlineAverage.cpp', 'src/monitoring/OnlineVariance.cpp', 'src/monitoring/RateMonitoring.cpp',
                'src/diagnostics/CheckupRate.cpp', 'src/diagnostics/CheckupReliability.cpp', 'src/diagnostics/Diagnostic.cpp',
                'src/diagnostics/DiagnosticReport.cpp', 'src/diagnostics/DiagnosticStatus.cpp']
_TABLE = {}


def regen(ctx):
    info = {'fallback': False}
    out = os.path.join(ctx['lean'], 'RomeaModel/Generated/LockTable.lean')
    try:
        table, uncls, sizes = gen_locktable.build_table(ctx['repo'], ctx['scratch'])
        changed = gen_locktable.emit_lean(table, out, 'regenerated from the working tree on every run of tools/check.py C19')
        _TABLE['table'] = table
        info.update({'changed': changed, 'classes': len(table), 'methods': sum(len(c['methods']) for c in table),
                     'events': sum(len(e) for c in table for _, e in c['methods']), 'unclassified': uncls,
                     'ast_bytes': sum(sizes.values())})
    except Exception as e:  # translator failure: keep the committed table, say so (the TSan probe still runs)
        info.update({'fallback': True, 'error': repr(e)[:500]})
    return info


def gen_cases(rng, tier):
    return []


def oracle(case, out, stats):
    return []


# ---- python mirror of Romea.Lockset.scan, only used to NAME the offending method in the report
def _scan(g, written, evs):
    held = []
    for k, f in evs:
        if k == 'acq':
            if f in held:
                return 're-acquires ' + f
            held.insert(0, f)
        elif k == 'rel':
            if f not in held:
                return 'releases ' + f + ' not held'
            held.remove(f)
        elif k in ('rd', 'wr'):
            if f in written and g not in held:
                return '%s of %s without holding %s' % ('read' if k == 'rd' else 'write', f, g)
        elif k == 'escape':
            if f in written:
                return 'a reference to %s escapes the critical section' % f
    return None if not held else 'ends holding ' + ','.join(held)


def _discipline_failures(table):
    fails = []
    for c in table:
        written = {f for _, evs in c['methods'] for k, f in evs if k == 'wr'}
        mutexes = [f for f, t in c['fields'].items() if 'mutex' in t]
        best = None
        for g in mutexes or ['<no mutex>']:
            bad = [(m, _scan(g, written, evs)) for m, evs in c['methods']]
            bad = [(m, w) for m, w in bad if w]
            if best is None or len(bad) < len(best):
                best = bad
        for m, w in best or []:
            fails.append({'kind': 'lock-discipline', 'detail': '%s::%s: %s' % (c['name'], m, w),
                          'fields': {'class': c['name'], 'method': m, 'what': w},
                          'replay': {'class': c['name'], 'method': m, 'what': w,
                                     'events': [list(e) for e in dict(c['methods'])[m]],
                                     'note': 'summary regenerated from the clang AST of the working tree; replay: python3 tools/gen_locktable.py <repo>'}})
    return fails


def extra_probe(ctx, stats):
    fails = []
    table = _TABLE.get('table')
    if table:
        stats['table_methods'] = sum(len(c['methods']) for c in table)
        fails += _discipline_failures(table)
    # ---- ThreadSanitizer run
    exe = os.path.join(ctx['scratch'], 'c19_tsan')
    repo = ctx['repo']
    cmd = ['clang++-14', '-std=c++17', '-O1', '-g', '-fsanitize=thread', '-I' + os.path.join(repo, 'include'), '-I/usr/include/eigen3',
           os.path.join(ctx['verif'], 'harness', 'c19_tsan.cpp')] + [os.path.join(repo, s) for s in TSAN_SOURCES] + ['-o', exe, '-lpthread']
    r = subprocess.run(cmd, stdout=subprocess.PIPE, stderr=subprocess.STDOUT, text=True)
    if r.returncode != 0:
        fails.append({'kind': 'tsan-harness-build', 'detail': r.stdout[-1500:], 'fields': {}})
        return fails
    if ctx['tier'] == 'quick':
        configs = [(2, 2, 2, 100000)]
    else:
        configs = [(r_, p, c, 100000) for r_ in (1, 2, 4, 8) for p, c in ((1, 1), (2, 3), (4, 4))][:12] + [(8, 4, 4, 1000000)]
    env = dict(os.environ, TSAN_OPTIONS='halt_on_error=0 exitcode=66 report_signal_unsafe=0')
    runs = 0
    for (readers, prod, cons, ops) in configs:
        for s in SCENARIOS:
            if ops > 100000 and s not in ('shared_variable', 'shared_optional', 'checkup_equal_to', 'rate_monitoring'):
                continue
            n_ops = ops if s != 'shared_optional' else max(2000, ops // 20)
            try:
                p = subprocess.run([exe, s, str(readers), str(prod), str(cons), str(n_ops)], stdout=subprocess.PIPE,
                                   stderr=subprocess.PIPE, text=True, env=env, timeout=900)
            except subprocess.TimeoutExpired:
                fails.append({'kind': 'tsan-timeout', 'detail': s, 'fields': {'scenario': s}})
                continue
            runs += 1
            stats['tsan_runs'] = runs
            stats['tsan_ops'] = stats.get('tsan_ops', 0) + n_ops
            args = {'scenario': s, 'readers': readers, 'producers': prod, 'consumers': cons, 'ops': n_ops}
            races = sorted({l.strip() for l in p.stderr.split('\n') if l.startswith('SUMMARY: ThreadSanitizer')})
            for l in races[:3]:
                fails.append({'kind': 'data-race', 'detail': '%s: %s' % (s, l), 'fields': dict(args),
                              'replay': {'cmd': 'c19_tsan ' + ' '.join(str(args[k]) for k in ('scenario', 'readers', 'producers', 'consumers', 'ops')),
                                         'tsan_report': p.stderr[:6000]}})
            out = p.stdout.strip()
            if out.startswith('ok '):
                stats['value_checks'] = stats.get('value_checks', 0) + int(out.split('checks=')[1])
            elif not races or out.startswith('INCONSISTENT'):
                fails.append({'kind': 'inconsistent-value', 'detail': out or ('exit %d: %s' % (p.returncode, p.stderr[-300:])),
                              'fields': dict(args), 'replay': {'cmd': 'c19_tsan ' + s, 'stdout': out}})
    stats['evidence_override'] = {
        'evaluations': stats.get('tsan_ops', 0) + stats.get('table_methods', 0),
        'distinct_nontrivial': runs + stats.get('table_methods', 0),
        'rule': 'one evaluation = one writer-side operation executed under ThreadSanitizer (with concurrent readers) or one method summary '
                'of the regenerated lock table checked by the kernel; distinct = distinct (scenario, thread configuration) runs + distinct '
                'method summaries',
        'samples': ([{'class': c['name'], 'method': m, 'events': ['%s %s' % e for e in evs][:12]}
                     for c in (table or [])[:3] for m, evs in c['methods'][:2]] +
                    [{'tsan_run': 'c19_tsan %s %d %d %d %d' % ((SCENARIOS[0],) + tuple(configs[0]))}]),
    }
    return fails
