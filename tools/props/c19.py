"""C19 — concurrency: lock discipline and one-critical-section shape of the regenerated table, linearizability
theorems over an interleaving semantics, ThreadSanitizer probe (DESIGN.md section 6, C19).

The event structure of the model is not hand-written: tools/gen_locktable.py regenerates
lean/RomeaModel/Generated/LockTable.lean from clang's AST of /repo's sources on every run (stage G);
`lake build` then re-checks, by `decide` on that file, `table_disciplined` / `table_covers` (lock discipline) and
`table_lin_shaped` / `checkup_getReport_shape` (every in-scope method is ONE critical section on the class guard
containing all its field accesses) together with the general theorems: lockset soundness, and the reduction of the
small-step interleaving semantics (lean/RomeaModel/Linearize.lean) to the serial machine — linearizability of the
bodies built from the table for every field width and every data flow, with the per-class consequences
(lean/RomeaModel/LinClasses.lean).
`RateMonitoring` (critical sections on mutex_ plus a lock-free `getRate`) is covered by part 3
(lean/RomeaProofs/Properties/C19Rate.lean): the generator also emits its EXTENDED entry `xcls_RateMonitoring` (atomic-member
events split into loads `ald` / stores `ast` / other uses `armw`), `table_rate_monitoring_shaped` re-checks its shape by
`decide` on every run, and `serialisable` / `rate_monitoring_serialisable` give the shape its meaning.
Stage C is a ThreadSanitizer run of the real classes with real threads plus consistency checks of the values read,
and a Python mirror of the three table checks that NAMES the offending method.
"""
import os
import subprocess
import sys

sys.path.insert(0, os.path.dirname(os.path.dirname(os.path.abspath(__file__))))
import gen_locktable  # noqa: E402

ID = 'C19'
LEVEL = 'other'
DRIVER = None
HARNESS = None
SOURCES = []
PROOF_MODULES = ['RomeaProofs.Properties.C19', 'RomeaProofs.Properties.C19Witness', 'RomeaProofs.Properties.C19Rate']
TRUSTED = ['tools/gen_locktable.py: translator from clang-14 AST (JSON) to per-method lock/access event lists; it errs towards '
           'reporting (anything unclassified is an unguarded write) and is cross-checked by the ThreadSanitizer run. Accesses through a '
           'local reference/pointer alias of a member are represented by the event that creates the alias, not followed further. Its '
           'classification of a use of a std::atomic / SharedVariable member as ONE load (`.load()`, conversion operator), ONE store '
           '(`.store(v)`, `operator=`) or "other" (rejected by every shape) in the extended entry `xcls_RateMonitoring`',
           'lean/RomeaModel/Linearize.lean `ofEvents`: the reading of an event list as micro-steps (a field access = one step per word, '
           'reads before writes; `wr` = read-modify-write with arbitrary data flow; the result is computed from everything read); '
           'lean/RomeaModel/LinAtomic.lean `xofEvents`: the same for the extended lists — an atomic / internally synchronised member is a '
           'ONE-word field, `ald` = one read step, `ast` = one read step + one write step (a store executed on some paths only is the data '
           'flow that writes the word back)',
           'the DATA FLOW of the methods is not extracted from the source: every class theorem quantifies over it under a SEQUENTIAL '
           'contract (the method run alone refines its specification: a cell, a one-place buffer, "the report of this evaluation"); '
           'hand-written flows (LinClasses.lean, LinReport.lean) show the contracts satisfiable on today\'s event lists',
           'clang++-14, libstdc++, std::mutex, the C++ memory model, ThreadSanitizer\'s happens-before analysis']
ASSUMPTIONS = ['single-threaded correctness of each method (store/load is a cell, store/consume a one-place buffer, evaluate/timeout leave the '
               'report of their own evaluation) is a HYPOTHESIS of the class theorems, not proved here (C16-C18 and the unit tests cover it)',
               'the theorems are about a sequentially consistent interleaving of word-sized micro-steps in which lock_guard acquires/releases '
               'as the event language says and a blocked lock() does not move; the real memory model, std::mutex, compiler reordering and '
               'the scheduler are exercised by the TSan probe only (partial)',
               'check-up reports: consistency of every copy is proved for EVERY data flow of evaluate/timeout that meets the sequential '
               'contract "run alone, the call leaves status, message and value of its own evaluation" (the sequential behaviour is C18\'s '
               'subject); online statistics: proved for every data flow (values of a serial order), nothing about the arithmetic',
               'RateMonitoring: `SharedVariable<Duration> lastDuration_` is read as ONE atomic word (its own linearizability is '
               'shared_variable_linearizable; the composition is assumed, not proved) and `std::atomic<double> rate_` operations as '
               'sequentially consistent single steps (load()/store() with the default memory_order_seq_cst); `windowSize_`, written by '
               'no in-scope method, is constant while the monitor is shared (initialize() is configuration, out of scope); the theorem '
               'is about EVERY data flow on today\'s event lists, so it says "the values are those of a serial order", not what the '
               'rate is (C17\'s subject)',
               'operations in scope: update/store/evaluate/reset (writer) and load/consume/get*/isAvailable/getReport/heartbeat/timeout '
               '(readers), as the property lists them; configuration methods (setWindowSize, initialize) are out of scope']
EXPLANATION = ('partial: Lean theorems, for any number of threads, any schedule, unbounded histories — (1) lock discipline => every '
               'conflicting pair is ordered by release/acquire = no data race; (2) reduction: bodies that are one critical section on the '
               'guard => every reachable state (calls in flight included) is explained by the serial execution of the calls in guard '
               'acquisition order (linearizability); kernel-checked on every run that the event lists regenerated from the clang AST of '
               'the current source obey the discipline and have that shape (all anchored classes except RateMonitoring for the shape); '
               '(3) RateMonitoring — critical sections on mutex_ plus a lock-free getRate: writer bodies = [reads of constants], acq, a '
               'critical section writing the atomic word at most once, rel, [reads of constants]; reader bodies = one atomic load => for '
               'every schedule the completed calls\' return values and the store are those of a SERIAL execution of the same calls, '
               'update/timeout in guard-acquisition order, each getRate placed at its load (theorem `serialisable`, '
               '`rate_monitoring_serialisable`); kernel-checked on every run that the extended event lists of update/timeout/getRate '
               '(atomic loads and stores told apart, also after the release) have that shape (`table_rate_monitoring_shaped`); '
               'consequences: SharedVariable is a linearizable cell never observed half-written (any width), SharedOptionalVariable a '
               'linearizable one-place buffer (consumed values = subsequence of stored values: exactly once, store order, overwritten '
               'values dropped), every report copy is the status/message/value of ONE evaluation, statistics getters return values of a '
               'serial order. Only exercised by the probe (ThreadSanitizer run of the real classes with value-consistency checks): the '
               'real memory model, std::mutex, compiler reordering; for RateMonitoring the probe also checks the SEQUENTIAL invariant on '
               'the real class (1 writer with stamps 0.6 s apart, 1..4 heartbeats with the same stamps: update returns exactly the rate '
               'of the full window, never a rate zeroed by a heartbeat that slipped in)')

SCENARIOS = ['shared_variable', 'shared_optional', 'online_average', 'online_variance', 'checkup_equal_to', 'checkup_greater_than',
             'checkup_lower_than', 'checkup_reliability', 'rate_monitoring', 'rate_monitoring_serial', 'checkup_rate_eq', 'checkup_rate_gt']
TSAN_SOURCES = ['src/monitoring/OnlineAverage.cpp', 'src/monitoring/OnlineVariance.cpp', 'src/monitoring/RateMonitoring.cpp',
                'src/diagnostics/CheckupRate.cpp', 'src/diagnostics/CheckupReliability.cpp', 'src/diagnostics/Diagnostic.cpp',
                'src/diagnostics/DiagnosticReport.cpp', 'src/diagnostics/DiagnosticStatus.cpp']
_TABLE = {}


def regen(ctx):
    info = {'fallback': False}
    out = os.path.join(ctx['lean'], 'RomeaModel/Generated/LockTable.lean')
    try:
        table, uncls, sizes = gen_locktable.build_table(ctx['repo'], ctx['scratch'])
        changed = gen_locktable.emit_lean(table, out, 'regenerated from the working tree on every run of tools/check.py C19')
        _TABLE['table'] = table
        info.update({'changed': changed, 'classes': len(table), 'methods': sum(len(c['methods']) for c in table),
                     'events': sum(len(e) for c in table for _, e in c['methods']), 'unclassified': uncls,
                     'ast_bytes': sum(sizes.values())})
    except Exception as e:  # translator failure: keep the committed table, say so (the TSan probe still runs)
        info.update({'fallback': True, 'error': repr(e)[:500]})
    return info


def gen_cases(rng, tier):
    return []


def oracle(case, out, stats):
    return []


# ---- python mirror of Romea.Lockset.scan, only used to NAME the offending method in the report
def _scan(g, written, evs):
    held = []
    for k, f in evs:
        if k == 'acq':
            if f in held:
                return 're-acquires ' + f
            held.insert(0, f)
        elif k == 'rel':
            if f not in held:
                return 'releases ' + f + ' not held'
            held.remove(f)
        elif k in ('rd', 'wr'):
            if f in written and g not in held:
                return '%s of %s without holding %s' % ('read' if k == 'rd' else 'write', f, g)
        elif k == 'escape':
            if f in written:
                return 'a reference to %s escapes the critical section' % f
    return None if not held else 'ends holding ' + ','.join(held)


def _discipline_failures(table):
    fails = []
    for c in table:
        written = {f for _, evs in c['methods'] for k, f in evs if k == 'wr'}
        mutexes = [f for f, t in c['fields'].items() if 'mutex' in t]
        best = None
        for g in mutexes or ['<no mutex>']:
            bad = [(m, _scan(g, written, evs)) for m, evs in c['methods']]
            bad = [(m, w) for m, w in bad if w]
            if best is None or len(bad) < len(best):
                best = bad
        for m, w in best or []:
            fails.append({'kind': 'lock-discipline', 'detail': '%s::%s: %s' % (c['name'], m, w),
                          'fields': {'class': c['name'], 'method': m, 'what': w},
                          'replay': {'class': c['name'], 'method': m, 'what': w,
                                     'events': [list(e) for e in dict(c['methods'])[m]],
                                     'note': 'summary regenerated from the clang AST of the working tree; replay: python3 tools/gen_locktable.py <repo>'}})
    return fails


NOT_REDUCED = ('RateMonitoring',)     # mirrors Romea.C19.notReduced


# ---- python mirror of Romea.Lin.evShape, only used to NAME the offending method in the report
def _shape(g, evs):
    if not evs or evs[0] != ('acq', g):
        return 'does not start by taking %s (first event: %s)' % (g, ' '.join(evs[0]) if evs else 'none')
    body = evs[1:]
    for i, (k, f) in enumerate(body):
        if k == 'rel':
            if f != g:
                return 'releases %s inside the critical section' % f
            if i != len(body) - 1:
                k2, f2 = body[i + 1]
                what = {'acq': 'a second critical section (takes %s again): an intermediate state is exposed between the two',
                        'rd': 'reads %s after the release', 'wr': 'writes / uses %s after the release',
                        'escape': 'a reference to %s escapes (the caller copies after the release)',
                        'atomic': 'atomic access of %s after the release'}.get(k2, '%s after the release')
                return what % f2
            return None
        if k == 'acq':
            return 'takes %s inside the critical section' % f
        if k in ('atomic', 'escape'):
            return '%s event on %s inside the critical section' % (k, f)
    return 'never releases %s' % g


def _shape_failures(table):
    fails = []
    for c in table:
        if c['name'] in NOT_REDUCED:
            continue
        mutexes = [f for f, t in c['fields'].items() if 'mutex' in t]
        best = None
        for g in mutexes or ['<no mutex>']:
            bad = [(m, _shape(g, evs)) for m, evs in c['methods']]
            bad = [(m, w) for m, w in bad if w]
            if best is None or len(bad) < len(best):
                best = bad
        for m, w in best or []:
            fails.append({'kind': 'not-one-critical-section', 'detail': '%s::%s: %s' % (c['name'], m, w),
                          'fields': {'class': c['name'], 'method': m, 'what': w},
                          'replay': {'class': c['name'], 'method': m, 'what': w,
                                     'events': [list(e) for e in dict(c['methods'])[m]],
                                     'theorem': 'Romea.C19.table_lin_shaped (hypothesis of table_linearizable)',
                                     'note': 'summary regenerated from the clang AST of the working tree; replay: python3 tools/gen_locktable.py <repo>'}})
    return fails


# ---- python mirror of Romea.Lin.xWriter / xReader / XClass.rateParams (lean/RomeaModel/LinAtomic.lean), only used to NAME the
# ---- offending method of a class exempt from `table_lin_shaped`
def _xwritten(xmethods):
    return {f for _, evs in xmethods for k, f in evs if k in ('wr', 'ast', 'armw')}


def _xreader(fa, evs):
    return len(evs) == 1 and evs[0] == ('ald', fa)


def _xwriter(g, fa, written, evs):
    """None if the list has the writer shape, else what is wrong"""
    i, n = 0, len(evs)
    if not any(k == 'acq' for k, _ in evs):
        return ('takes no lock and is not ONE atomic load of %s (its events: %s): a lock-free method may only be a lone load of the '
                'atomic member' % (fa, ' '.join('%s(%s)' % e for e in evs) or 'none'))
    while i < n and evs[i][0] != 'acq':
        k, f = evs[i]
        if not (k in ('rd', 'ald') and f not in written):
            return '%s %s before taking %s (%s is written by an in-scope method)' % (
                {'rd': 'reads', 'wr': 'writes / uses', 'ald': 'atomic load of', 'ast': 'atomic store to',
                 'armw': 'unclassified use of atomic', 'escape': 'a reference escapes to', 'rel': 'releases'}.get(k, k), f, g, f)
        i += 1
    if i == n:
        return 'never takes %s' % g
    if evs[i][1] != g:
        return 'takes %s, not the guard %s' % (evs[i][1], g)
    i += 1
    stores = 0
    while i < n:
        k, f = evs[i]
        if k == 'rel':
            if f != g:
                return 'releases %s inside the critical section' % f
            break
        if k == 'acq':
            return 'takes %s inside the critical section' % f
        if k == 'escape':
            return 'a reference to %s escapes (the caller copies after the release)' % f
        if k == 'armw':
            return 'use of the atomic member %s that is neither one load nor one store' % f
        if k == 'wr' and f == fa:
            return 'plain write / unclassified use of the atomic member %s' % f
        if k == 'ast' and f == fa:
            stores += 1
            if stores > 1:
                return ('stores to %s twice in one critical section: a lock-free load between the two sees a value no serial '
                        'order produces' % f)
        i += 1
    if i == n:
        return 'never releases %s' % g
    for k, f in evs[i + 1:]:
        if k == 'acq':
            return 'a second critical section (takes %s again): an intermediate state is exposed between the two' % f
        if not (k in ('rd', 'ald') and f not in written):
            what = {'rd': 'reads %s', 'wr': 'writes / uses %s', 'ald': 'atomic load of %s', 'ast': 'atomic store to %s',
                    'armw': 'unclassified use of atomic %s', 'escape': 'a reference to %s escapes'}.get(k, k + ' %s') % f
            return ('%s AFTER the release of %s (%s is written by an in-scope method): the call is no longer atomic with respect '
                    'to the other critical sections, although every access is still atomic or guarded' % (what, g, f))
    return None


def _rate_shape_failures(table):
    fails = []
    for c in table:
        if c['name'] not in NOT_REDUCED:
            continue
        xms = c.get('xmethods')
        if xms is None:
            continue
        written = _xwritten(xms)
        mutexes = [f for f, t in c['fields'].items() if 'mutex' in t]
        # the atomic member read outside the guard: the one a lone-load method reads, else any written field
        lone = [evs[0][1] for _, evs in xms if len(evs) == 1 and evs[0][0] == 'ald']
        lockfree = [f for _, evs in xms if not any(k == 'acq' for k, _ in evs) for k, f in evs if k in ('ald', 'ast', 'armw')]
        cands = []
        for f in lone + lockfree + sorted(written):
            if f in written and f not in cands:
                cands.append(f)
        cands = cands or ['<no atomic member>']
        best = None
        for g in mutexes or ['<no mutex>']:
            for fa in cands:
                bad = []
                for m, evs in xms:
                    if _xreader(fa, evs):
                        continue
                    w = _xwriter(g, fa, written, evs)
                    if w:
                        bad.append((m, w))
                if best is None or len(bad) < len(best):
                    best = bad
        for m, w in best or []:
            fails.append({'kind': 'not-one-critical-section', 'detail': '%s::%s: %s' % (c['name'], m, w),
                          'fields': {'class': c['name'], 'method': m, 'what': w},
                          'replay': {'class': c['name'], 'method': m, 'what': w,
                                     'events': [list(e) for e in dict(xms)[m]],
                                     'theorem': 'Romea.C19.table_rate_monitoring_shaped (hypothesis of rate_monitoring_serialisable)',
                                     'note': 'extended summary (atomic loads / stores told apart) regenerated from the clang AST of the '
                                             'working tree; replay: python3 tools/gen_locktable.py <repo>'}})
    return fails


def extra_probe(ctx, stats):
    fails = []
    table = _TABLE.get('table')
    if table:
        stats['table_methods'] = sum(len(c['methods']) for c in table)
        stats['shape_checked_methods'] = sum(len(c['methods']) for c in table if c['name'] not in NOT_REDUCED)
        disc = _discipline_failures(table)
        fails += disc
        seen = {(f['fields']['class'], f['fields']['method']) for f in disc}
        fails += [f for f in _shape_failures(table) if (f['fields']['class'], f['fields']['method']) not in seen]
        stats['rate_shape_checked_methods'] = sum(len(c.get('xmethods') or []) for c in table if c['name'] in NOT_REDUCED)
        fails += [f for f in _rate_shape_failures(table) if (f['fields']['class'], f['fields']['method']) not in seen]
    # ---- ThreadSanitizer run
    exe = os.path.join(ctx['scratch'], 'c19_tsan')
    repo = ctx['repo']
    cmd = ['clang++-14', '-std=c++17', '-O1', '-g', '-fsanitize=thread', '-I' + os.path.join(repo, 'include'), '-I/usr/include/eigen3',
           os.path.join(ctx['verif'], 'harness', 'c19_tsan.cpp')] + [os.path.join(repo, s) for s in TSAN_SOURCES] + ['-o', exe, '-lpthread']
    r = subprocess.run(cmd, stdout=subprocess.PIPE, stderr=subprocess.STDOUT, text=True)
    if r.returncode != 0:
        fails.append({'kind': 'tsan-harness-build', 'detail': r.stdout[-1500:], 'fields': {}})
        return fails
    if ctx['tier'] == 'quick':
        configs = [(2, 2, 2, 100000)]
    else:
        configs = [(r_, p, c, 100000) for r_ in (1, 2, 4, 8) for p, c in ((1, 1), (2, 3), (4, 4))][:12] + [(8, 4, 4, 1000000)]
    env = dict(os.environ, TSAN_OPTIONS='halt_on_error=0 exitcode=66 report_signal_unsafe=0')
    runs = 0
    for (readers, prod, cons, ops) in configs:
        for s in SCENARIOS:
            if ops > 100000 and s not in ('shared_variable', 'shared_optional', 'checkup_equal_to', 'rate_monitoring', 'rate_monitoring_serial'):
                continue
            n_ops = ops if s != 'shared_optional' else max(2000, ops // 20)
            try:
                p = subprocess.run([exe, s, str(readers), str(prod), str(cons), str(n_ops)], stdout=subprocess.PIPE,
                                   stderr=subprocess.PIPE, text=True, env=env, timeout=900)
            except subprocess.TimeoutExpired:
                fails.append({'kind': 'tsan-timeout', 'detail': s, 'fields': {'scenario': s}})
                continue
            runs += 1
            stats['tsan_runs'] = runs
            stats['tsan_ops'] = stats.get('tsan_ops', 0) + n_ops
            args = {'scenario': s, 'readers': readers, 'producers': prod, 'consumers': cons, 'ops': n_ops}
            races = sorted({l.strip() for l in p.stderr.split('\n') if l.startswith('SUMMARY: ThreadSanitizer')})
            for l in races[:3]:
                fails.append({'kind': 'data-race', 'detail': '%s: %s' % (s, l), 'fields': dict(args),
                              'replay': {'cmd': 'c19_tsan ' + ' '.join(str(args[k]) for k in ('scenario', 'readers', 'producers', 'consumers', 'ops')),
                                         'tsan_report': p.stderr[:6000]}})
            out = p.stdout.strip()
            if out.startswith('ok '):
                stats['value_checks'] = stats.get('value_checks', 0) + int(out.split('checks=')[1])
            elif not races or out.startswith('INCONSISTENT'):
                fails.append({'kind': 'inconsistent-value', 'detail': out or ('exit %d: %s' % (p.returncode, p.stderr[-300:])),
                              'fields': dict(args), 'replay': {'cmd': 'c19_tsan ' + s, 'stdout': out}})
    stats['evidence_override'] = {
        'evaluations': stats.get('tsan_ops', 0) + stats.get('table_methods', 0),
        'distinct_nontrivial': runs + stats.get('table_methods', 0),
        'rule': 'one evaluation = one writer-side operation executed under ThreadSanitizer (with concurrent readers) or one method summary '
                'of the regenerated lock table checked by the kernel; distinct = distinct (scenario, thread configuration) runs + distinct '
                'method summaries',
        'samples': ([{'class': c['name'], 'method': m, 'events': ['%s %s' % e for e in evs][:12]}
                     for c in (table or [])[:3] for m, evs in c['methods'][:2]] +
                    [{'tsan_run': 'c19_tsan %s %d %d %d %d' % ((SCENARIOS[0],) + tuple(configs[0]))}]),
    }
    return fails
