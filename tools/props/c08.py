"""C08 — kd-tree nearest-neighbour queries agree with exhaustive search (DESIGN.md section 6, C08).

Ops (one set per case):
    kd.build T n c...    -> ok n DIM leafmax B (low high)*DIM V vind*n T preorder-tree   (tree dump, read through nanoflann's
                            own typed members; a member that cannot be observed appears as a `?name` token = B disagreement)
    kd.nn c...           -> idx dist
    kd.knn k c...        -> k (idx dist)*k
T in {c2f,c2d,c3f,c3d,h2f,h2d,h3f,h3d}; coordinates are CARTESIAN (the homogeneous 1 is appended by both sides).

Correspondence: tree dump, indices and distances must be IDENTICAL on the `exact` cases (dyadic coordinates, every
float operation of the search exact, so tie order is compared too); on generic floats the tree dump must be identical
(the build only compares, subtracts and halves) and the distance lists must agree within 64 ulp.

Oracle (the property, on the implementation's outputs): exact integer arithmetic on the doubles/floats.
"""
from vlib import D, S, tok_val, to_f32, float_close

ID = 'C08'
LEVEL = 'proof'
DRIVER = 'drv_c08'
HARNESS = 'c08.cpp'
SOURCES = ['src/pointset/KdTree.cpp']
PROOF_MODULES = ['RomeaProofs.Properties.C08', 'RomeaProofs.Bridge.C08', 'RomeaProofs.Bridge.C08Metric', 'RomeaProofs.Bridge.C08Cor']
TRUSTED = [
    'harness/c08.cpp reads the built nanoflann index through the index class\'s own typed (protected) members -- root_node, '
    'Node::sub.divfeat/divlow/divhigh, Node::lr.left/right, child1/child2, root_bbox, vind -- by pointers to members formed in '
    'a never-instantiated subclass; every stored value is converted to double and printed in the point type\'s format, so '
    'field order, padding and widening do not change the dump while a narrowed or quantised bound does',
    'the oracle recomputes squared distances in exact integer arithmetic on the binary values of the inputs',
    'tools/cxx2lean.py (clang-14 AST -> Lean) translates KNNResultSet and L2_Adaptor::accum_dist / operator() from nanoflann.hpp on '
    'every run: raw pointers are read as lists owned by the state (the aliasing with the caller\'s arrays is a contract, not '
    'represented), size_t as unbounded integers (the subtractions occur only under the guards that keep them non-negative); '
    'searchLevel, the tree build and the KdTree.cpp wrappers are NOT translated (tied by the tree dump / result correspondence only)',
]
ASSUMPTIONS = [
    'theorems are over linearly ordered commutative rings (exact arithmetic, no overflow: every squared distance is below '
    'the sentinel numeric_limits::max()); rounding of the distances and of mindistsq + cut_dist - dst in the pruning test '
    'is covered by the correspondence check and by the probe only (exactly on dyadic inputs, within 1024 ulp otherwise)',
    'search_correct assumes a well-formed tree; build_wf proves that the MODEL\'s buildIndex yields one (ordered field, '
    'exact arithmetic); for the implementation, the dump of the tree nanoflann actually built is compared token by '
    'token with the model\'s tree on every generated set (stage B); its well-formedness is also measured independently of the '
    'model and counted in the evidence (trees_checked_wellformed / trees_not_wellformed) but, not being a clause of the property, '
    'never reported as a failing input',
]
EXPLANATION = ('proof that the modelled nanoflann search returns the k smallest squared distances on every well-formed '
               'tree and that the modelled build yields a well-formed tree + bit-exact differential correspondence of '
               'build (tree dump) and search + exact brute-force probe')

# ------------------------------------------------------------------ stage G: nanoflann::KNNResultSet translated (DESIGN.md 2.5b)
# The translation unit is the vendored header alone plus one explicit instantiation (member functions of a class template have
# a body in clang's AST only when instantiated); `-I <repo>/include` makes it the CURRENT header of the checked tree.
# `pointer_arrays`: the members `indices` / `dists` (raw pointers into the caller's arrays) are the arrays themselves, Lean lists
# owned by the state; `dists[i]` / `dists[i] = x` are `List.getD` / `List.set` (plain encoding: an out-of-range access, undefined
# behaviour in C++, reads the default / writes nothing). Integers are unbounded `Int`s (no `unsigned_wrap`): `i - 1` occurs under
# `i > 0`, `capacity - 1` under `capacity != 0` in `init`; `worstDist()` with capacity 0 reads `dists[SIZE_MAX]` in C++ (undefined)
# and `dists[0]`-by-`Int.toNat` here — the bridge theorem about it assumes `0 < capacity`.
_KNN = 'KNNResultSet<double, unsigned long, unsigned long>'
BRIDGE_SPEC = {
    'id': 'C08',
    'sources': [],
    'headers': ['romea_core_common/pointset/kdtree/nanoflann.hpp'],
    'extra': ['template class nanoflann::KNNResultSet<double, size_t, size_t>;',
              # `accum_dist` is a member TEMPLATE of L2_Adaptor<T, DataSource>: instantiated on a data source that is only declared
              # (accum_dist does not touch `data_source`)
              'namespace nanoflann { struct BridgeDataSource { double kdtree_get_pt(size_t, int) const; }; }',
              'template double nanoflann::L2_Adaptor<double, nanoflann::BridgeDataSource, double>::accum_dist<double, double>'
              '(const double, const double, int) const;',
              'template double nanoflann::L2_Adaptor<double, nanoflann::BridgeDataSource, double>::operator()'
              '(const double*, const size_t, size_t, double) const;'],
    # `data_source.kdtree_get_pt(idx, dim)` (the point accessor of the data-set adaptor, a const member function of a const object)
    # is a function-typed parameter of the translated metric
    'uninterpreted': {'kdtree_get_pt': {'member': True}},
    'filter': 'nanoflann',
    'pointer_arrays': True,
    'vector_encoding': 'plain',
    'functions': [{'cxx': 'KNNResultSet::KNNResultSet', 'record': _KNN}, {'cxx': 'KNNResultSet::init', 'record': _KNN},
                  {'cxx': 'KNNResultSet::size', 'record': _KNN}, {'cxx': 'KNNResultSet::full', 'record': _KNN},
                  {'cxx': 'KNNResultSet::addPoint', 'record': _KNN}, {'cxx': 'KNNResultSet::worstDist', 'record': _KNN},
                  {'cxx': 'L2_Adaptor::accum_dist'}, {'cxx': 'L2_Adaptor::operator()'}],
}


def regen(ctx):
    import bridge
    info = {}
    info.update(bridge.regen_bridge(ctx, BRIDGE_SPEC))
    return info


TYPES = ['c2f', 'c2d', 'c3f', 'c3d', 'h2f', 'h2d', 'h3f', 'h3d']
ULPS_PROBE = 1024


def _cdim(ty):
    return 2 if ty[1] == '2' else 3


# ------------------------------------------------------------------------------------------------ generators
def _size(rng, tier, big_ok):
    r = rng.below(100)
    if r < 6:
        return 1
    if r < 16:
        return rng.int(2, 9)            # smaller than a leaf
    if r < 26:
        return rng.choice([10, 11, 12, 20, 21, 22])   # around the leaf size / first splits
    if r < 60:
        return rng.int(13, 120)
    if r < 88:
        return rng.int(121, 700)
    if not big_ok:
        return rng.int(121, 700)
    if r < 96:
        return rng.int(701, 2500)
    return rng.choice([rng.int(2501, 5000), 5000])


def _gen_points(rng, n, cd, f32, exact):
    """returns (list of n points, description, scale used for queries)"""
    kinds = ['uniform', 'clustered', 'collinear', 'duplicates', 'ties', 'flat', 'grid']
    if cd == 3:
        kinds.append('coplanar')
    kind = rng.choice(kinds)
    pts = []
    if exact:
        # dyadic lattice: integers (f32) or multiples of 1/4 (f64) in a small range -> every operation of the search is exact
        R = 200 if f32 else rng.choice([40, 400, 4000])
        unit = 1.0 if f32 else rng.choice([1.0, 0.5, 0.25])

        def lat(lo=-R, hi=R):
            return rng.int(lo, hi) * unit
        if kind == 'uniform':
            pts = [[lat() for _ in range(cd)] for _ in range(n)]
        elif kind == 'grid':
            w = rng.int(2, 12)
            pts = [[rng.int(-w, w) * unit for _ in range(cd)] for _ in range(n)]
        elif kind == 'clustered':
            cs = [[lat(-R // 2, R // 2) for _ in range(cd)] for _ in range(rng.int(1, 5))]
            for _ in range(n):
                c = rng.choice(cs)
                pts.append([c[j] + rng.int(-R // 8, R // 8) * unit for j in range(cd)])
        elif kind == 'collinear':
            a = [rng.int(-20, 20) * unit for _ in range(cd)]
            d = [rng.int(-3, 3) * unit for _ in range(cd)]
            if rng.chance(0.3):
                d = [0.0] * cd
                d[rng.below(cd)] = unit
            m = max(1, int(R / unit) // 8)
            pts = [[a[j] + rng.int(-m // 3, m // 3) * d[j] for j in range(cd)] for _ in range(n)]
        elif kind == 'coplanar':
            a = [rng.int(-20, 20) * unit for _ in range(cd)]
            u = [rng.int(-2, 2) * unit for _ in range(cd)]
            v = [rng.int(-2, 2) * unit for _ in range(cd)]
            pts = [[a[j] + rng.int(-15, 15) * u[j] + rng.int(-15, 15) * v[j] for j in range(cd)] for _ in range(n)]
        elif kind == 'duplicates':
            base = [[lat() for _ in range(cd)] for _ in range(rng.choice([1, 1, 2, 3, 5, max(1, n // 4)]))]
            pts = [list(rng.choice(base)) for _ in range(n)]
        elif kind == 'ties':
            # lattice points at a few fixed squared distances from a centre (sign/permutation orbits)
            c = [rng.int(-10, 10) * unit for _ in range(cd)]
            vecs = [[3, 4, 0], [5, 0, 0], [4, 3, 0], [0, 5, 0], [0, 3, 4], [6, 8, 0], [10, 0, 0], [2, 1, 2], [3, 0, 0], [1, 2, 2]]
            for _ in range(n):
                v = list(rng.choice(vecs))[:cd]
                if cd == 3:
                    rng.shuffle(v)
                pts.append([c[j] + (v[j] if rng.chance(0.5) else -v[j]) * unit for j in range(cd)])
        else:  # flat: one coordinate constant (zero span on an axis)
            ax = rng.below(cd)
            cst = lat()
            pts = [[(cst if j == ax else lat()) for j in range(cd)] for _ in range(n)]
        scale = R * unit
    else:
        sc = rng.choice([1.0, 10.0, 100.0, 1e3, 1e-3])
        if kind == 'uniform' or kind == 'grid':
            pts = [[rng.uniform(-sc, sc) for _ in range(cd)] for _ in range(n)]
            if kind == 'grid':   # jittered grid
                w = rng.int(2, 12)
                pts = [[(rng.int(-w, w) + rng.uniform(-1e-3, 1e-3)) * sc / w for _ in range(cd)] for _ in range(n)]
        elif kind == 'clustered':
            cs = [[rng.uniform(-sc, sc) for _ in range(cd)] for _ in range(rng.int(1, 6))]
            sg = sc * rng.loguniform(1e-4, 0.2)
            for _ in range(n):
                c = rng.choice(cs)
                pts.append([c[j] + rng.gauss() * sg for j in range(cd)])
        elif kind == 'collinear':
            a = [rng.uniform(-sc, sc) for _ in range(cd)]
            d = [rng.gauss() for _ in range(cd)]
            pts = [[a[j] + t * d[j] for j in range(cd)] for t in [rng.uniform(-sc, sc) for _ in range(n)]]
        elif kind == 'coplanar':
            a = [rng.uniform(-sc, sc) for _ in range(cd)]
            u = [rng.gauss() for _ in range(cd)]
            v = [rng.gauss() for _ in range(cd)]
            for _ in range(n):
                s, t = rng.uniform(-sc, sc), rng.uniform(-sc, sc)
                pts.append([a[j] + s * u[j] + t * v[j] for j in range(cd)])
        elif kind == 'duplicates':
            base = [[rng.uniform(-sc, sc) for _ in range(cd)] for _ in range(rng.choice([1, 2, 3, 5, max(1, n // 4)]))]
            pts = [list(rng.choice(base)) for _ in range(n)]
        elif kind == 'ties':
            # points on a circle / sphere around a centre: equal distances up to rounding
            c = [rng.uniform(-sc, sc) for _ in range(cd)]
            for _ in range(n):
                v = [rng.gauss() for _ in range(cd)]
                nv = sum(x * x for x in v) ** 0.5 or 1.0
                r = sc * rng.choice([0.5, 1.0])
                pts.append([c[j] + r * v[j] / nv for j in range(cd)])
        else:
            ax = rng.below(cd)
            cst = rng.uniform(-sc, sc)
            pts = [[(cst if j == ax else rng.uniform(-sc, sc)) for j in range(cd)] for _ in range(n)]
        scale = sc
    if f32:
        pts = [[to_f32(x) for x in p] for p in pts]
    return pts, kind, scale


def _queries(rng, pts, cd, f32, exact, scale, nq):
    n = len(pts)
    lo = [min(p[j] for p in pts) for j in range(cd)]
    hi = [max(p[j] for p in pts) for j in range(cd)]
    qs = []
    if exact:
        unit = 1.0 if f32 else 0.25
        far = 1024.0 if f32 else float(2 ** 20)     # 2**20 ~ 1e6; binary32 stays exact only up to ~1e3

        def snap(x):
            return round(x / unit) * unit
    else:
        far = 1e6

        def snap(x):
            return x
    for i in range(nq):
        m = rng.below(10)
        if m <= 2:      # inside the bounding box
            q = [snap(rng.uniform(lo[j], hi[j])) for j in range(cd)]
        elif m == 3:    # at a data point
            q = list(rng.choice(pts))
        elif m == 4:    # midway between two data points (ties)
            a, b = rng.choice(pts), rng.choice(pts)
            q = [snap((a[j] + b[j]) / 2) for j in range(cd)]
        elif m == 5:    # on the boundary of the box / just outside
            q = [snap(rng.choice([lo[j], hi[j], rng.uniform(lo[j], hi[j])])) for j in range(cd)]
            j = rng.below(cd)
            q[j] = snap(rng.choice([lo[j] - (hi[j] - lo[j] + scale) * 0.1, hi[j] + (hi[j] - lo[j] + scale) * 0.1]))
        elif m <= 7:    # far outside (1e6), along an axis or diagonal
            q = [snap(rng.uniform(lo[j], hi[j])) for j in range(cd)]
            for j in range(cd):
                if rng.chance(0.6):
                    q[j] = (far if rng.chance(0.5) else -far) + (q[j] if exact else 0.0)
            if all(abs(x) < far / 2 for x in q):
                q[rng.below(cd)] = far
        elif m == 8:    # moderately outside
            q = [snap(rng.uniform(lo[j] - 3 * scale, hi[j] + 3 * scale)) for j in range(cd)]
        else:           # near a data point
            a = rng.choice(pts)
            q = [snap(a[j] + rng.gauss() * scale * 1e-3) if not exact else a[j] + rng.int(-2, 2) * unit for j in range(cd)]
        if f32:
            q = [to_f32(x) for x in q]
        qs.append(q)
    return qs


def _case(rng, tier, idx, ty, n, exact, nq):
    cd = _cdim(ty)
    f32 = ty[2] == 'f'
    T = S if f32 else D
    pts, kind, scale = _gen_points(rng, n, cd, f32, exact)
    extra_q = []
    if n >= 4 and not exact and rng.chance(0.2):      # (not on the exact-arithmetic sets: their distances must stay exactly representable)
        # a point by its POSITION in the list (the last / the first one) is the only strict extreme of the set along an axis, and
        # some queries lie beyond that face: a bounding box computed by a loop that mishandles its first / last iteration (seeded
        # change c08e: two points per iteration, wrong remainder test — the last point of an even-sized set is never visited) is
        # too tight exactly there
        lo = [min(p[j] for p in pts) for j in range(cd)]
        hi = [max(p[j] for p in pts) for j in range(cd)]
        j = rng.below(cd)
        side = rng.choice([1.0, -1.0])
        w = (hi[j] - lo[j]) or 1.0
        pos = len(pts) - 1 if rng.chance(0.7) else 0
        ext = (hi[j] if side > 0 else lo[j]) + side * w * rng.choice([0.25, 0.5, 2.0])
        pts[pos] = list(pts[pos])
        pts[pos][j] = to_f32(ext) if f32 else ext
        for _ in range(4):
            q = [rng.uniform(lo[c], hi[c]) for c in range(cd)]
            q[j] = pts[pos][j] + side * w * rng.uniform(0.05, 1.0)
            extra_q.append([to_f32(x) for x in q] if f32 else q)
    lines = ['kd.build %s %d %s' % (ty, n, ' '.join(T(x) for p in pts for x in p))]
    for q in list(_queries(rng, pts, cd, f32, exact, scale, nq)) + extra_q:
        qt = ' '.join(T(x) for x in q)
        r = rng.below(10)
        kmax = min(n, 50)
        if r < 3:
            lines.append('kd.nn ' + qt)
        else:
            k = rng.choice([1, kmax, rng.int(1, kmax), rng.int(1, kmax), min(kmax, rng.int(1, 12))])
            lines.append('kd.knn %d %s' % (k, qt))
    return {'name': 'kd-%s-%s-n%d-%s-%d' % (ty, kind, n, 'exact' if exact else 'generic', idx), 'lines': lines,
            'meta': {'type': ty, 'n': n, 'kind': kind, 'exact': exact}}


# ---- point sets with a large COMMON OFFSET (map / UTM / world-frame coordinates): the coordinates are 1e5 .. 1e9 times
# the spacing between neighbouring points.  Ordinary inputs of the property's quantifier ("every point set"), but the only
# ones on which a split bound, a box bound or a query coordinate that lost a few mantissa bits decides a pruning test wrongly.
_UTM = [5e5, 5e6, 512345.25, 5071234.5, 2.5e5, 7.5e5, 1e5, 1e6, 1e7, 9.9e6, -5e5, -5e6, 3e6, 412.75]


def _gen_offset_points(rng, n, cd, f32):
    """returns (points, kind, spacing, origin, extent); nearest-neighbour spacing ~ `spacing`, coordinates ~ `origin`"""
    kind = rng.choice(['uniform', 'uniform', 'clustered', 'grid', 'scanlines', 'duplicates'] + (['terrain'] if cd == 3 else []))
    if f32:
        # binary32 points: keep a few bits below the spacing (ratio 1e3 .. 1e6; at 2**24 everything collapses)
        spacing = rng.loguniform(1e-2, 1.0)
        origin = [spacing * rng.loguniform(1e3, 1e6) * rng.choice([1, 1, 1, -1]) for _ in range(cd)]
    elif rng.chance(0.7):
        # UTM-like: easting ~5e5, northing ~5e6, altitude a few hundred metres; 1 cm .. 1 m between points
        spacing = rng.loguniform(1e-2, 1.0)
        origin = [rng.choice(_UTM[:13]) + rng.uniform(0, 1000.0) for _ in range(cd)]
        if cd == 3 and rng.chance(0.5):
            origin[2] = _UTM[13] + rng.uniform(-300, 3000)
    else:
        # any magnitude: coordinates 1e5 .. 1e7 times the spacing, one common scale
        mag = rng.loguniform(1e-3, 1e9)
        spacing = mag / rng.loguniform(1e5, 1e7)
        origin = [mag * rng.uniform(0.5, 1.0) * rng.choice([1, 1, -1]) for _ in range(cd)]
    extent = spacing * (n ** (1.0 / cd))           # side of the box: n points about `spacing` apart
    ext = [extent] * cd
    pts = []
    if kind == 'terrain':                            # a surface patch: little relief on z
        ext[2] = extent * rng.choice([0.01, 0.05, 0.2])
    if kind in ('uniform', 'terrain'):
        pts = [[origin[j] + rng.unit() * ext[j] for j in range(cd)] for _ in range(n)]
    elif kind == 'clustered':
        cs = [[origin[j] + rng.unit() * ext[j] for j in range(cd)] for _ in range(rng.int(1, 6))]
        sg = extent * rng.loguniform(0.02, 0.3)
        for _ in range(n):
            c = rng.choice(cs)
            pts.append([c[j] + rng.gauss() * sg for j in range(cd)])
    elif kind == 'grid':                             # jittered lattice of pitch `spacing`
        w = max(1, int(round(n ** (1.0 / cd))))
        pts = [[origin[j] + (rng.int(0, w) + rng.uniform(-0.05, 0.05)) * spacing for j in range(cd)] for _ in range(n)]
    elif kind == 'scanlines':                        # lidar-like: points dense along a few parallel lines
        nl = rng.int(1, 12)
        d = [rng.gauss() for _ in range(cd)]
        nd = sum(x * x for x in d) ** 0.5 or 1.0
        d = [x / nd for x in d]
        starts = [[origin[j] + rng.unit() * ext[j] for j in range(cd)] for _ in range(nl)]
        for _ in range(n):
            a = rng.choice(starts)
            t = rng.unit() * extent
            pts.append([a[j] + t * d[j] + rng.gauss() * spacing * 0.01 for j in range(cd)])
    else:                                            # exact duplicates of points of a uniform set
        base = [[origin[j] + rng.unit() * ext[j] for j in range(cd)] for _ in range(max(1, n // rng.choice([2, 3, 10])))]
        pts = [list(rng.choice(base)) for _ in range(n)]
    if f32:
        pts = [[to_f32(x) for x in p] for p in pts]
    return pts, kind, spacing, origin, extent


def _inside_queries(rng, pts, cd, f32, spacing, nq):
    """queries INSIDE the bounding box of the set (the property's "every query inside ... the box"), in the set's own frame"""
    lo = [min(p[j] for p in pts) for j in range(cd)]
    hi = [max(p[j] for p in pts) for j in range(cd)]
    qs = []
    for _ in range(nq):
        m = rng.below(10)
        if m <= 4:      # anywhere in the box
            q = [rng.uniform(lo[j], hi[j]) for j in range(cd)]
        elif m <= 6:    # about one spacing away from a data point
            a = rng.choice(pts)
            q = [min(hi[j], max(lo[j], a[j] + rng.gauss() * spacing)) for j in range(cd)]
        elif m == 7:    # midway between two nearby-ish data points
            a, b = rng.choice(pts), rng.choice(pts)
            q = [(a[j] + b[j]) / 2 for j in range(cd)]
        elif m == 8:    # at a data point
            q = list(rng.choice(pts))
        else:           # on a face of the box
            q = [rng.uniform(lo[j], hi[j]) for j in range(cd)]
            j = rng.below(cd)
            q[j] = rng.choice([lo[j], hi[j]])
        if f32:
            q = [min(hi[j], max(lo[j], to_f32(q[j]))) for j in range(cd)]
        qs.append(q)
    return qs


def _offset_case(rng, tier, idx, ty, n, nq):
    cd = _cdim(ty)
    f32 = ty[2] == 'f'
    T = S if f32 else D
    pts, kind, spacing, origin, extent = _gen_offset_points(rng, n, cd, f32)
    lines = ['kd.build %s %d %s' % (ty, n, ' '.join(T(x) for p in pts for x in p))]
    kmax = min(n, 50)
    for q in _inside_queries(rng, pts, cd, f32, spacing, nq):
        qt = ' '.join(T(x) for x in q)
        if rng.below(10) < 4:
            lines.append('kd.nn ' + qt)
            if rng.chance(0.5):
                # the NEXT query on the same tree is a near repeat: a fraction of the point spacing away — relative to the
                # coordinates (1e5 .. 1e7 spacings from the origin) that is far below any fuzzy "same query as last time" test
                # (seeded change c08d: a one-entry answer cache keyed on `point.isApprox(lastQuery_)`), yet the nearest point differs
                lo = [min(p[j] for p in pts) for j in range(cd)]
                hi = [max(p[j] for p in pts) for j in range(cd)]
                for _ in range(rng.int(1, 3)):
                    q = [min(hi[j], max(lo[j], q[j] + rng.gauss() * spacing * 0.7)) for j in range(cd)]
                    if f32:
                        q = [to_f32(x) for x in q]
                    lines.append('kd.nn ' + ' '.join(T(x) for x in q))
        else:
            k = rng.choice([1, kmax, rng.int(1, kmax), min(kmax, rng.int(2, 12)), min(kmax, 10)])
            lines.append('kd.knn %d %s' % (k, qt))
    ratio = max(abs(x) for x in origin) / spacing
    return {'name': 'kd-%s-offset-%s-n%d-%d' % (ty, kind, n, idx), 'lines': lines,
            'meta': {'type': ty, 'n': n, 'kind': 'offset-' + kind, 'exact': False, 'offset': True,
                     'coordinate_over_spacing': float('%.3g' % ratio)}}


def _tiny_case(rng, tier, idx, ty, n, nq):
    """the whole set spans 1e-6 .. 5e-5 coordinate units (lat/lon in degrees, kilometre units): the point spacing is far below any
    absolute 'epsilon' a split or pruning rule might compare lengths with (seeded change c08c: `if (max_elem - min_elem < EPS)` in
    middleSplit_, EPS = 1e-5 being a RELATIVE factor elsewhere), while relative to the set everything is ordinary"""
    cd = _cdim(ty)
    f32 = ty[2] == 'f'
    T = S if f32 else D
    pts, kind, spacing, origin, extent = _gen_offset_points(rng, n, cd, f32)
    mins = [min(p[c] for p in pts) for c in range(cd)]
    ext = max(max(p[c] for p in pts) - mins[c] for c in range(cd)) or 1.0
    f = 10.0 ** -rng.uniform(4.3, 6.0) / ext
    base = [0.0] * cd if rng.chance(0.5) else [rng.uniform(-1e-3, 1e-3) for _ in range(cd)]
    rnd = to_f32 if f32 else (lambda x: x)
    pts = [[rnd(base[c] + (p[c] - mins[c]) * f) for c in range(cd)] for p in pts]
    lines = ['kd.build %s %d %s' % (ty, n, ' '.join(T(x) for p in pts for x in p))]
    kmax = min(n, 50)
    for q in _inside_queries(rng, pts, cd, f32, spacing * f, nq):
        qt = ' '.join(T(x) for x in q)
        if rng.below(10) < 4:
            lines.append('kd.nn ' + qt)
        else:
            lines.append('kd.knn %d %s' % (rng.choice([1, kmax, rng.int(1, kmax), min(kmax, 10)]), qt))
    return {'name': 'kd-%s-tiny-%s-n%d-%d' % (ty, kind, n, idx), 'lines': lines,
            'meta': {'type': ty, 'n': n, 'kind': 'tiny-' + kind, 'exact': False, 'offset': False, 'tiny_extent': float('%.3g' % (ext * f))}}


def gen_cases(rng, tier):
    cases = []
    if tier == 'quick':
        nsets, nq, nbig = 400, 24, 10
    else:
        nsets, nq, nbig = 4000, 50, 160
    for i in range(nsets):
        ty = TYPES[i % 8] if i < 64 else rng.choice(TYPES)
        exact = rng.chance(0.55)
        n = _size(rng, tier, big_ok=False)
        cases.append(_case(rng, tier, i, ty, n, exact, nq))
    # boundary stream: sizes 1, 9, 10, 11, k = n, every type
    for i, ty in enumerate(TYPES):
        for n in (1, 2, 10, 11):
            cases.append(_case(rng, tier, 1000000 + i * 10 + n, ty, n, True, 6))
    # a few large sets (up to 5000 points)
    for i in range(nbig):
        ty = TYPES[(i * 3 + 1) % 8] if i < 8 else rng.choice(TYPES)
        n = rng.choice([5000, rng.int(2500, 5000), rng.int(700, 2500)])
        cases.append(_case(rng, tier, 2000000 + i, ty, n, rng.chance(0.5), nq))
    # large common offsets (appended last: the streams above are unchanged), all sizes up to 5000, nn and knn, queries inside
    dbl = ['c2d', 'c3d', 'h2d', 'h3d']
    noff = 14 if tier == 'quick' else 240
    for i in range(noff):
        ty = (dbl[i % 4] if i % 7 != 6 else TYPES[(i // 7 * 2) % 8]) if i < 14 else rng.choice(dbl + TYPES)
        r = rng.below(10)
        n = rng.int(11, 200) if r < 2 else rng.int(200, 1500) if r < 6 else rng.int(1500, 4000) if r < 9 else rng.choice([5000, rng.int(4000, 5000)])
        cases.append(_offset_case(rng, tier, 3000000 + i, ty, n, 2 * nq if n <= 1500 else nq))
    # tiny extents (appended last again)
    for i in range(10 if tier == 'quick' else 160):
        ty = TYPES[i % 8] if i < 16 else rng.choice(TYPES)
        n = rng.choice([rng.int(40, 400), rng.int(400, 3000)])
        cases.append(_tiny_case(rng, tier, 4000000 + i, ty, n, nq))
    return cases


def focused_cases(rng, disagreeing, tier):
    """more queries (exact lattice ones included) on the sets where model and implementation disagreed"""
    out = []
    for c in disagreeing[:10]:
        b = c['lines'][0].split()
        ty, n = b[1], int(b[2])
        cd = _cdim(ty)
        f32 = ty[2] == 'f'
        T = S if f32 else D
        vals = [tok_val(x) for x in b[3:]]
        pts = [vals[i * cd:(i + 1) * cd] for i in range(n)]
        ex = bool(c['meta'].get('exact'))
        scale = max(1e-9, max(abs(x) for x in vals))
        lines = [c['lines'][0]]
        qs = _queries(rng, pts, cd, f32, ex, scale, 300)
        if not ex:      # and, in the set's own frame, queries inside its box about one point spacing away from the data
            side = max(max(p[j] for p in pts) - min(p[j] for p in pts) for j in range(cd))
            qs += _inside_queries(rng, pts, cd, f32, (side / max(1.0, n ** (1.0 / cd))) or 1e-9, 300)
        for q in qs:
            k = rng.int(1, min(n, 50))
            lines.append('kd.knn %d %s' % (k, ' '.join(T(x) for x in q)))
        out.append({'name': 'focused:' + c['name'], 'lines': lines, 'meta': dict(c['meta'])})
    return out


# ------------------------------------------------------------------------------------------------ comparison
def compare(case, li, op, impl, model):
    if impl == model:
        return True
    if case['meta'].get('exact') or op.startswith('kd.build'):
        return False
    a, b = impl.split(), model.split()
    if len(a) != len(b):
        return False
    if op.startswith('kd.nn'):
        return len(a) == 2 and float_close(a[1], b[1], 64)
    if not a or a[0] != b[0]:
        return False
    # generic floats: the distance lists (ascending) must agree within 64 ulp; indices may swap among near-ties
    return all(float_close(x, y, 64) for x, y in zip(a[2::2], b[2::2]))


# ------------------------------------------------------------------------------------------------ oracle
def _ints(vals):
    """common power-of-two denominator and the integer numerators of a list of floats"""
    ratios = [v.as_integer_ratio() for v in vals]
    den = max(r[1] for r in ratios) if ratios else 1
    return den, [r[0] * (den // r[1]) for r in ratios]


def _parse_tree(tk, pos):
    """preorder token stream -> nested tuples"""
    if tk[pos] == 'L':
        return ('L', int(tk[pos + 1]), int(tk[pos + 2])), pos + 3
    if tk[pos] == 'N':
        feat, lo, hi = int(tk[pos + 1]), tok_val(tk[pos + 2]), tok_val(tk[pos + 3])
        left, p = _parse_tree(tk, pos + 4)
        right, p = _parse_tree(tk, p)
        return ('N', feat, lo, hi, left, right), p
    raise ValueError('bad tree token %r' % tk[pos])


def _check_tree(out, pts, size):
    """well-formedness of the dumped index = the hypotheses of search_correct; returns error string or None"""
    tk = out.split()
    n = len(pts)
    if tk[0] != 'ok' or int(tk[1]) != n or int(tk[2]) != size:
        return 'header %s' % tk[:4]
    p = 4
    if tk[p] != 'B':
        return 'no bbox'
    bbox = [(tok_val(tk[p + 1 + 2 * j]), tok_val(tk[p + 2 + 2 * j])) for j in range(size)]
    p += 1 + 2 * size
    if tk[p] != 'V':
        return 'no vind'
    vind = [int(x) for x in tk[p + 1:p + 1 + n]]
    p += 1 + n
    if tk[p] != 'T':
        return 'vind has the wrong length'
    try:
        tree, p = _parse_tree(tk, p + 1)
    except (ValueError, IndexError) as e:
        return 'tree: %r' % (e,)
    if p != len(tk):
        return 'trailing tokens'
    if sorted(vind) != list(range(n)):
        return 'vind is not a permutation'
    for j in range(size):
        if not all(bbox[j][0] <= q[j] <= bbox[j][1] for q in pts):
            return 'root bounding box does not contain the points (dim %d)' % j
    err = []
    slots = []

    def walk(t):
        if t[0] == 'L':
            if not (t[1] <= t[2] <= n):
                err.append('leaf range %d %d' % (t[1], t[2]))
                return []
            slots.extend(range(t[1], t[2]))
            return [vind[i] for i in range(t[1], t[2])]
        _, feat, lo, hi, left, right = t
        a, b = walk(left), walk(right)
        if not (0 <= feat < size):
            err.append('feature %d out of range' % feat)
            return a + b
        if not lo <= hi:
            err.append('divlow > divhigh')
        if any(pts[i][feat] > lo for i in a):
            err.append('a point of the left subtree lies above divlow')
        if any(pts[i][feat] < hi for i in b):
            err.append('a point of the right subtree lies below divhigh')
        return a + b
    under = walk(tree)
    if err:
        return err[0]
    if sorted(under) != list(range(n)):
        return 'leaves do not partition the index set'
    return None


def oracle(case, out, stats):
    fails = []
    meta = case.get('meta', {})
    exact = bool(meta.get('exact'))
    state = None

    def bad(line, o, kind, detail, **fields):
        fields.update(type=meta.get('type'), n=meta.get('n'), set_kind=meta.get('kind'), exact=exact)
        fails.append({'kind': kind, 'detail': '%s -> %s : %s' % (line[:160], o[:200], detail), 'fields': fields})

    for line, o in zip(case['lines'], out):
        tk = line.split()
        op = tk[0]
        stats[op] = stats.get(op, 0) + 1
        if o in ('abort', 'hang', 'exception', 'skipped', 'bad-op', 'diverged'):
            bad(line, o, 'outcome-' + o, 'unexpected outcome')
            break
        if op == 'kd.build':
            ty, n = tk[1], int(tk[2])
            cd = _cdim(ty)
            size = cd + (1 if ty[0] == 'h' else 0)
            f32 = ty[2] == 'f'
            vals = [tok_val(x) for x in tk[3:]]
            den, iv = _ints(vals)
            pts = [vals[i * cd:(i + 1) * cd] + ([1.0] if size > cd else []) for i in range(n)]
            ipts = [iv[i * cd:(i + 1) * cd] for i in range(n)]
            ilo = [min(p[j] for p in ipts) for j in range(cd)]
            ihi = [max(p[j] for p in ipts) for j in range(cd)]
            # exact arithmetic in the set's own frame (translation by the integer corner `org` changes no difference):
            # small integers even when the set sits at 5e6 with 53-bit coordinates
            org = ilo
            ipts = [[p[j] - org[j] for j in range(cd)] for p in ipts]
            ilo, ihi = [0] * cd, [ihi[j] - org[j] for j in range(cd)]
            state = {'n': n, 'cd': cd, 'f32': f32, 'den': den, 'ipts': ipts, 'ilo': ilo, 'ihi': ihi, 'org': org,
                     'diag2': sum((ihi[j] - ilo[j]) ** 2 for j in range(cd))}
            for key in ('type:' + ty, 'set:' + str(meta.get('kind')), 'set:exact-lattice' if exact else 'set:generic-floats',
                        'n:1' if n == 1 else 'n:2-10' if n <= 10 else 'n:11-100' if n <= 100 else 'n:101-1000' if n <= 1000 else 'n:1001-5000'):
                stats[key] = stats.get(key, 0) + 1
            if meta.get('offset'):
                stats['set:large-offset'] = stats.get('set:large-offset', 0) + 1
            # Well-formedness of the tree nanoflann actually built is an INTERNAL invariant (the hypothesis of
            # search_correct), not a clause of the property: it is measured and counted here, and an ill-formed or
            # unreadable dump is a stage-B disagreement with the model's (proved well-formed) tree.  Only the queries
            # below -- the property as stated -- can produce a failing input.
            try:
                e = _check_tree(o, pts, size)
            except (ValueError, IndexError, RecursionError) as ex:      # `?field` tokens, truncated or very deep dumps
                e = 'dump not readable: %s' % (type(ex).__name__,)
            stats['trees_checked_wellformed'] = stats.get('trees_checked_wellformed', 0) + 1
            stats['points_indexed'] = stats.get('points_indexed', 0) + n
            if e:
                stats['trees_not_wellformed'] = stats.get('trees_not_wellformed', 0) + 1
                stats.setdefault('first_tree_not_wellformed', '%s: %s' % (case.get('name'), e))
            continue
        if state is None:
            bad(line, o, 'malformed', 'query before build')
            break
        n, cd = state['n'], state['cd']
        f = o.split()
        if op == 'kd.nn':
            k, qt, res = 1, tk[1:], f
        else:
            k, qt, res = int(tk[1]), tk[2:], f[1:]
            if not f or f[0] != tk[1]:
                bad(line, o, 'malformed', 'count differs')
                continue
        if len(res) != 2 * k:
            bad(line, o, 'malformed', 'expected %d pairs' % k)
            continue
        try:
            idx = [int(x) for x in res[0::2]]
            dist = [tok_val(x) for x in res[1::2]]
        except ValueError:
            bad(line, o, 'malformed', 'unparsable result')
            continue
        q = [tok_val(x) for x in qt]
        # exact squared distances as integers over the common denominator (den*qden)^2
        qden, qi = _ints(q)
        den = max(state['den'], qden)
        sp, sq = den // state['den'], den // qden
        qi = [x * sq - state['org'][j] * sp for j, x in enumerate(qi)]
        if cd == 2:
            q0, q1 = qi
            alld = [(q0 - p[0] * sp) ** 2 + (q1 - p[1] * sp) ** 2 for p in state['ipts']]
        else:
            q0, q1, q2 = qi
            alld = [(q0 - p[0] * sp) ** 2 + (q1 - p[1] * sp) ** 2 + (q2 - p[2] * sp) ** 2 for p in state['ipts']]
        den2 = den * den
        stats['queries_checked'] = stats.get('queries_checked', 0) + 1
        if meta.get('offset'):
            stats['queries_in_large_offset_sets'] = stats.get('queries_in_large_offset_sets', 0) + 1
        if any(qi[j] < state['ilo'][j] * sp or qi[j] > state['ihi'][j] * sp for j in range(cd)):
            stats['queries_outside_bbox'] = stats.get('queries_outside_bbox', 0) + 1
            if min(alld) > 10000 * state['diag2'] * sp * sp:
                stats['queries_far_outside'] = stats.get('queries_far_outside', 0) + 1
        for key in (['k:1'] if k == 1 else []) + (['k:n'] if k == n else []) + (['k:50'] if k == 50 else []):
            stats[key] = stats.get(key, 0) + 1
        stats['brute_force_distances'] = stats.get('brute_force_distances', 0) + n
        if exact:
            stats['queries_checked_exactly'] = stats.get('queries_checked_exactly', 0) + 1
        # tolerance (generic floats only): ULPS_PROBE units in the last place of the scalar type, as a rational tn/td
        tn, td = (0, 1) if exact else (ULPS_PROBE, 2 ** (23 if state['f32'] else 52))
        # 1. indices valid and distinct
        if any(i < 0 or i >= n for i in idx) or len(set(idx)) != k:
            bad(line, o, 'indices', 'indices out of range or repeated: %s' % idx[:10], k=k)
            continue
        # 2. reported distances ascending
        if any(dist[j] > dist[j + 1] for j in range(k - 1)) or any(d != d for d in dist):
            bad(line, o, 'order', 'reported squared distances are not ascending', k=k)
        # 3. each reported distance is the squared distance of the indexed point
        for j in range(k):
            a, b = dist[j].as_integer_ratio()
            ex = alld[idx[j]]
            if abs(a * den2 - ex * b) * td > tn * ex * b:
                bad(line, o, 'distance-mismatch', 'slot %d: index %d reported %r, exact %r' % (j, idx[j], dist[j], ex / den2), k=k)
                break
        # 4. they are the k smallest: rank by rank against the sorted exhaustive list
        srt = sorted(alld)
        best = srt[:k]
        got = sorted(alld[i] for i in idx)
        for j in range(k):
            if (got[j] - best[j]) * td > tn * best[j]:
                bad(line, o, 'not-nearest' if k == 1 else 'not-k-smallest',
                    'rank %d: returned squared distance %r, exhaustive search finds %r' % (j, got[j] / den2, best[j] / den2), k=k)
                break
        if len(set(best)) < k or (n > k and srt[k] == best[-1]):
            stats['queries_with_ties'] = stats.get('queries_with_ties', 0) + 1
    return fails
