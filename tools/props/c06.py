"""C06 — ICP + RANSAC (DESIGN.md section 6, C06): partial.

Theorems cover the control skeleton and the bookkeeping only (lean/RomeaProofs/Properties/C06.lean); the numerical
envelope of the property (error <= 0.015 over the displacement box, outliers never win) is PROBED here, on the real code.

Ties of the model to the code
  single pass (same op through harness and Lean driver, exact comparison):
    rit.run        RansacIterations constructor / update / get
    ransac.script  Ransac::estimateModel over a scripted RansacModel subclass
    rc.load/count  RansacRigidTransformationModel::loadCorrespondences / countInliers on crafted sets
    icp.filter     sort + unique with the repository's predicates
  two passes (the harness observes oracle outputs of the REAL pipeline, tools feed them to the model, results compared):
    rr.real        real draw() + countInliers(): errors recomputed from getTransformation() -> model bookkeeping; and what the
                   model's OWN sampler member holds behind loadPointSets (scale_) and behind EVERY real draw() (weights_,
                   cumSumWeights_, engine) -> fresh Lean sampler, computeScale(min, max of the raw source points), one
                   drawPoints(raw points, loaded correspondences, draw size) per draw() on the same state: BIT-EXACT. This ties
                   the composition lean/RomeaModel/RansacSampled.lean (drawSampled / smpAfter) to RansacRigidTransformationModel::draw
    icp.match      find() capped at 1 iteration: raw nearest-neighbour pairs -> model filter == kept pairs
    icp.trace      find() with caps 1..10: per-iteration (estimate ok, rmse, T) -> model loop flag == returned flag
  regenerated constants: lean/RomeaModel/Generated/ConstantsC06.lean, pinned by theorems.
  the sampler and its random engine (lean/RomeaModel/Sampler.lean), single pass, BIT-EXACT (no ulp slack, `exp` included):
    smp.new/scale/pts/corr/draw/reset/u   RansacRandomCorrespondences<T> for all eight point types: drawn indexes, weights_,
                   cumSumWeights_, scale_ and the state of std::default_random_engine after every call
"""
import math
import os
import re
import subprocess
from vlib import D, S, tok_val, to_f32, float_close

ID = 'C06'
LEVEL = 'other'
DRIVER = 'drv_c06'
HARNESS = 'c06.cpp'
SOURCES = ['src/transform/estimation/FindRigidTransformationByICP.cpp',
           'src/transform/estimation/RansacRigidTransformationModel.cpp',
           'src/transform/estimation/FindRigidTransformationBySVD.cpp',
           'src/transform/estimation/FindRigidTransformationByLeastSquares.cpp',
           'src/regression/ransac/Ransac.cpp', 'src/regression/ransac/RansacIterations.cpp',
           'src/regression/ransac/RansacModel.cpp', 'src/regression/ransac/RansacRandomCorrespondences.cpp',
           'src/regression/leastsquares/LeastSquares.cpp', 'src/pointset/KdTree.cpp',
           'src/pointset/algorithms/NormalAndCurvatureEstimation.cpp', 'src/pointset/algorithms/Correspondence.cpp',
           'src/pointset/algorithms/PointSetPreconditioner.cpp', 'src/pointset/algorithms/PreconditionedPointSet.cpp']
_REPO = os.environ.get('VERIF_REPO', '/repo')
EXTRA_FLAGS = ['-DC06_SCAN_PATH="%s"' % os.path.join(_REPO, 'test/data/scan2d.txt')]
PROOF_MODULES = ['RomeaProofs.Properties.C06', 'RomeaProofs.Bridge.C06', 'RomeaProofs.Bridge.C06Cor',
                 'RomeaProofs.Bridge.C06Ransac', 'RomeaProofs.Bridge.C06RansacCor']
HANG_SECS = 60
TRUSTED = ['tools/cxx2lean.py translates the RansacIterations constructor / update / get (with EPSILON) from the working tree into '
           'RomeaModel/Generated/SrcC06.lean on every run; RomeaProofs/Bridge/C06*.lean prove them equal to the model\'s Iterations '
           '(under: integer -> scalar conversion agrees for naturals, truncated quotient non-negative) and restate the bound theorems; '
           'Ransac::estimateModel is translated too (spec key abstract_classes: the six virtual RansacModel calls are function parameters '
           'threading an abstract model state, the while loop a recursive function on fuel, the size_t -> float -> size_t conversions '
           'IntCast / Trunc at a second scalar type): Bridge/C06Ransac.lean proves it equal to the model\'s estimateModel (loop in lockstep; '
           'hypotheses: the float type converts counts below a bound B like binary32, non-negative truncated quotient), '
           'Bridge/C06RansacCor.lean discharges the hypotheses at the reals for counts below 2^24 and restates estimateModel_terminates / '
           'estimateModel_ret_iff about the translated function; RansacRigidTransformationModel::countInliers is NOT translated',
           'harness/c06.cpp: scripted RansacModel subclass, subclasses exposing protected members of '
           'RansacRigidTransformationModel / FindRigidTransformationByICP, and access to the PRIVATE members of '
           'RansacRandomCorrespondences (weights_, cumSumWeights_, scale_, randomGenerator_, uniformDistribution_, resetWeights_) '
           'through explicit template instantiation (no hook in /repo)',
           'tools/props/c06.py:regen (regex scraper of the literal thresholds)',
           'the sampler model lean/RomeaModel/Sampler.lean is hand-written from RansacRandomCorrespondences.cpp and from libstdc++ 12 '
           '(minstd_rand0, generate_canonical<double,53>, uniform_real_distribution, partial_sum, lower_bound); its fidelity rests on '
           'the bit-exact smp.* correspondence ops (indexes, weights_, cumSumWeights_, scale_, engine state; all eight point types), '
           'a differential test, not a proof; the order of Eigen\'s 2/3/4-term .sum() is measured per point type (lean/Drivers/C06.lean: '
           'sumOrderOf) and irrelevant to the theorems',
           'the numerical envelope (error <= 0.015, consensus RMSE < sigma, outliers without influence) is a seeded PROBE of the '
           'real code, not a theorem']
ASSUMPTIONS = ['theorems about the control skeleton take the remaining geometry (candidate transformations, per-correspondence errors, '
               'nearest neighbours) as universally quantified oracle outputs; counts below 2^24 (size_t -> float). The sampler is INSIDE '
               'the model (engine, generate_canonical, cumulative weights, lower_bound, weight update) and COMPOSED with the skeleton '
               '(RomeaModel/RansacSampled.lean: draw threads the sampler state through the iterations); what is still an oracle of the '
               'composed theorems is the geometry behind a drawn sample (compute_, check_, the errors), a function of the call number and '
               'of the drawn indexes',
               'sampler theorems: exact reals for weights and coordinates (no rounding; exp is the real exponential), engine arithmetic '
               'exact (Nat); hypotheses: legitimate engine state (proved invariant from every seed), non-negative correspondence weights, '
               'and for the distinct-target claim a positive weight at every draw (NoCollapse) -- discharged for one-to-one lists with '
               'positive weights whose source points differ along an axis with non-zero scale_ (WellSpread); with all weights zero the code '
               'divides 0/0 and draws index 0 (proved at RN, observed in the tie)',
               'sampler tie: source indexes inside the point set and more correspondences than points to draw (the asserted / unchecked '
               'preconditions of drawPoints), finite weights >= 0, at most 400 correspondences',
               'synthetic RANSAC sets: sigma in [0.01, 0.05] (the property leaves sigma open; the 0.015 tolerance is absolute), '
               'closed-form (SVD) inner estimator as DESIGN.md C06 explains',
               'ICP probe: sigma = 0.2, LEAST_SQUARES method, identity guess, as in test/transform/test_transform.cpp']
EXPLANATION = ('partial: Lean theorems on the RANSAC/ICP control skeleton and bookkeeping and on the sampler with its random engine '
               '(minstd_rand0 never sticks, variates in (0,1), cumulative weights / lower_bound = inverse CDF, drawn index in bounds with '
               'positive weight, weights within [0,1] x initial, drawn targets zeroed hence pairwise distinct, determinism per object) and on '
               'their composition (the composed run is a skeleton run; engine advances 2 x draw size x iterations, never reseeded; every '
               'candidate from distinct-target samples under NoCollapse; whole-run determinism) + '
               'scripted/observed differential ties, the sampler tie bit-exact on all eight point types + regenerated constants; the '
               'convergence envelope on scan2d.txt and the synthetic-outlier claim are probed, not proved')

TOL = 0.015
ICP_TYPES = ['c2d', 'h2d']
ALL_TYPES = ['c2d', 'c3d', 'h2d', 'h3d', 'c2f', 'c3f', 'h2f', 'h3f']
PROBE_OPS = ('icp.run', 'icp.trace', 'icp.match', 'ransac.synth', 'rr.real')


# ------------------------------------------------------------------------------------------- G: regenerated constants
FALLBACK = {'icpMaxIterations': 10, 'icpEpsilon': (1, 3), 'inlierFactor': 9, 'drawPoints2D': 3, 'drawPoints3D': 4,
            'minimalInliersFactor': 2, 'fittingProbability': (99, 2), 'fittingProbabilityIsFloat': True,
            'ransacMaxIterations': 1000}


def _decimal(lit):
    """'0.001' -> (1, 3); '1e-3' -> (1, 3); '10' -> (10, 0)"""
    m = re.fullmatch(r'(\d*)\.?(\d*)(?:[eE]([+-]?\d+))?', lit)
    if not m or not (m.group(1) or m.group(2)):
        raise ValueError(lit)
    ip, fp, ex = m.group(1) or '', m.group(2) or '', int(m.group(3) or 0)
    mant = int((ip + fp) or '0')
    e = len(fp) - ex
    if e < 0:
        mant *= 10 ** (-e)
        e = 0
    while e > 0 and mant % 10 == 0 and mant != 0:
        mant //= 10
        e -= 1
    return mant, e


def scrape(repo):
    vals, fell_back = dict(FALLBACK), []

    def src(p):
        return open(os.path.join(repo, p)).read()

    def grab(key, path, rx, conv):
        try:
            m = re.search(rx, src(path))
            vals[key] = conv(m)
        except Exception:
            fell_back.append(key)
    icp = 'src/transform/estimation/FindRigidTransformationByICP.cpp'
    rm = 'src/transform/estimation/RansacRigidTransformationModel.cpp'
    rs = 'src/regression/ransac/Ransac.cpp'
    grab('icpMaxIterations', icp, r'ICP_MAXIMAL_NUMBER_OF_ITERATIONS\s*=\s*(\d+)\s*;', lambda m: int(m.group(1)))
    grab('icpEpsilon', icp, r'ICP_TRANSFORMATION_EPSILON\s*=\s*([0-9.eE+-]+)\s*;', lambda m: _decimal(m.group(1)))
    grab('inlierFactor', rm, r'threshold\s*=\s*(\d+)\s*\*\s*modelDeviationError\s*\*\s*modelDeviationError\s*;', lambda m: int(m.group(1)))
    grab('drawPoints2D', rm, r'getNumberOfPointsToDrawModel\(\)\s*const\s*\{\s*if\s*\(CARTESIAN_DIM\s*==\s*2\)\s*\{\s*return\s+(\d+);', lambda m: int(m.group(1)))
    grab('drawPoints3D', rm, r'getNumberOfPointsToDrawModel\(\)\s*const\s*\{\s*if\s*\(CARTESIAN_DIM\s*==\s*2\)\s*\{\s*return\s+\d+;\s*\}\s*else\s*\{\s*return\s+(\d+);', lambda m: int(m.group(1)))
    grab('minimalInliersFactor', rm, r'minimalNumberOfInliers\s*=\s*(\d+)\s*\*\s*getNumberOfPointsToDrawModel\(\)', lambda m: int(m.group(1)))
    grab('fittingProbability', rs, r'FITTING_PROBABILITY_\s*=\s*([0-9.eE+-]+?)(f?)\s*;', lambda m: _decimal(m.group(1)))
    grab('fittingProbabilityIsFloat', rs, r'const\s+(float|double)\s+FITTING_PROBABILITY_\s*=\s*[0-9.eE+-]+?(f?)\s*;',
         lambda m: m.group(1) == 'float' or m.group(2) == 'f')
    grab('ransacMaxIterations', rs, r'\bMAXIMAL_NUMBER_OF_ITERATIONS\s*=\s*(\d+)\s*;', lambda m: int(m.group(1)))
    return vals, fell_back


def render(v):
    b = 'true' if v['fittingProbabilityIsFloat'] else 'false'
    return '''/-!
# Literal thresholds of C06, scraped from /repo by `tools/props/c06.py:regen` on every run.
GENERATED FILE - do not edit by hand.  Decimal literals are kept as mantissa / decimal exponent
(`m * 10^-e`) so that the same constant can be read at `Float`, `Float32` and `ℝ`.
-/
namespace Romea.Generated.C06

/-- `ICP_MAXIMAL_NUMBER_OF_ITERATIONS` (src/transform/estimation/FindRigidTransformationByICP.cpp) -/
def icpMaxIterations : Nat := %d
/-- `ICP_TRANSFORMATION_EPSILON` = mantissa * 10^-exponent -/
def icpEpsilonMantissa : Nat := %d
def icpEpsilonExponent : Nat := %d
/-- `threshold = 9 * modelDeviationError * modelDeviationError` (RansacRigidTransformationModel.cpp) -/
def inlierFactor : Nat := %d
/-- `getNumberOfPointsToDrawModel`: 3 when CARTESIAN_DIM == 2, else 4 -/
def drawPoints2D : Nat := %d
def drawPoints3D : Nat := %d
/-- `getMinimalNumberOfInliers` = factor * getNumberOfPointsToDrawModel() -/
def minimalInliersFactor : Nat := %d
/-- `FITTING_PROBABILITY_ = 0.99f` (src/regression/ransac/Ransac.cpp), a `float` literal -/
def fittingProbabilityMantissa : Nat := %d
def fittingProbabilityExponent : Nat := %d
def fittingProbabilityIsFloat : Bool := %s
/-- `MAXIMAL_NUMBER_OF_ITERATIONS` (src/regression/ransac/Ransac.cpp) -/
def ransacMaxIterations : Nat := %d

end Romea.Generated.C06
''' % (v['icpMaxIterations'], v['icpEpsilon'][0], v['icpEpsilon'][1], v['inlierFactor'], v['drawPoints2D'], v['drawPoints3D'],
       v['minimalInliersFactor'], v['fittingProbability'][0], v['fittingProbability'][1], b, v['ransacMaxIterations'])


def regen(ctx):
    vals, fell_back = scrape(ctx['repo'])
    path = os.path.join(ctx['lean'], 'RomeaModel', 'Generated', 'ConstantsC06.lean')
    text = render(vals)
    old = open(path).read() if os.path.exists(path) else None
    if old != text:
        os.makedirs(os.path.dirname(path), exist_ok=True)
        with open(path, 'w') as f:
            f.write(text)
    if fell_back:
        ctx['notes'].append('C06 constants: scraping failed for %s; committed fallback values used' % ', '.join(fell_back))
    info = {'file': 'RomeaModel/Generated/ConstantsC06.lean', 'values': {k: (list(x) if isinstance(x, tuple) else x) for k, x in vals.items()},
            'fell_back': fell_back, 'rewritten': old != text}
    import bridge
    info.update(bridge.regen_bridge(ctx, bridge.SPECS['C06']))      # RansacIterations + Ransac::estimateModel translated (DESIGN.md 2.5b)
    return info


# ------------------------------------------------------------------------------------------- generators
def f32round_nat(n):
    if n < (1 << 24):
        return n
    e = n.bit_length() - 24
    q, r = n >> e, n & ((1 << e) - 1)
    half = 1 << (e - 1)
    if r > half or (r == half and q & 1):
        q += 1
    return q << e


def _case(name, lines, **meta):
    return {'name': name, 'lines': lines, 'meta': meta}


def gen_rit(rng, n):
    cases = []
    for i in range(n):
        mode = rng.below(5)
        p = 0.99 if mode < 3 else rng.uniform(0.5, 0.9999)
        npts = rng.choice([1, 2, 6, 8, 50, 100, 700]) if rng.chance(0.3) else rng.int(1, 2000)
        cap = 1000 if mode < 4 else rng.int(1, 5000)
        ndraw = rng.choice([3, 4]) if rng.chance(0.8) else rng.int(0, 8)
        k = rng.int(1, 12)
        inl = []
        for _ in range(k):
            r = rng.below(10)
            if r == 0:
                inl.append(rng.choice([0, npts, npts + rng.int(1, 5), 1]))
            elif r < 5:
                inl.append(rng.int(0, npts))
            else:
                inl.append(min(npts, int(npts * rng.uniform(0.0, 1.0) ** 0.5)))
        if rng.chance(0.5):
            inl.sort()
        cases.append(_case('rit-%d' % i, ['rit.run %s %d %d %d %d %s' % (S(p), npts, cap, ndraw, k, ' '.join(map(str, inl)))], cap=cap))
    return cases


def gen_script(rng, n):
    cases = []
    for i in range(n):
        ndraw = rng.choice([3, 4]) if rng.chance(0.85) else rng.int(1, 6)
        mininl = 2 * ndraw if rng.chance(0.8) else rng.int(0, 12)
        mode = rng.below(12)
        npts = rng.int(max(1, mininl - 2), 600) if mode != 0 else rng.int(0, max(0, mininl))
        if mode == 1:
            length = 0
        elif mode in (2, 3):
            length = rng.choice([1000, 1001, 1100, 999])
        else:
            length = rng.int(1, 80)
        rate = rng.choice([0.0, 0.05, 0.3, 0.7, 1.0, 1.0])
        prof = rng.below(7)
        steps = []
        cur = 0
        for j in range(length):
            d = 1 if rng.chance(rate) else 0
            if prof == 0:
                c = rng.int(0, max(npts, 1))
            elif prof == 1:      # slowly increasing best-so-far, as the real model returns
                if rng.chance(0.3):
                    cur = min(max(npts, 1), cur + rng.int(0, 1 + max(npts, 1) // 10))
                c = cur
            elif prof == 2:      # around the decision boundaries
                c = rng.choice([0, ndraw - 1, ndraw, ndraw + 1, 2 * ndraw - 1, 2 * ndraw, 2 * ndraw + 1, mininl])
                c = max(c, 0)
            elif prof == 3:      # low counts: the bound stays high, the loop runs long
                c = rng.int(0, min(max(npts, 1), ndraw + 2))
            elif prof == 4:      # ties
                c = rng.choice([ndraw + 1, ndraw + 1, ndraw + 2])
            elif prof == 5:      # counts beyond the float mantissa
                c = rng.choice([(1 << 24) - 1, 1 << 24, (1 << 24) + 1, (1 << 24) + 2, (1 << 24) + 3, (1 << 25) + 2, (1 << 25) + 6, 5])
            else:                # first draw perfect
                c = npts if j == 0 else rng.int(0, max(npts, 1))
                d = 1 if j == 0 else d
            steps.append((d, c))
        sigma = rng.choice([0.2, 0.05, 1.0])
        line = 'ransac.script %s %d %d %d %d %s' % (D(sigma), npts, ndraw, mininl, length, ' '.join('%d %d' % s for s in steps))
        cases.append(_case('script-%d' % i, [line.strip()], npts=npts, ndraw=ndraw, mininl=mininl))
    return cases


def _dim(ty):
    return 2 if ty[1] == '2' else 3


def gen_rc(rng, n):
    cases = []
    for i in range(n):
        ty = rng.choice(ALL_TYPES)
        lines = []
        # one to three loads on the same model object: the consensus of an earlier load must not survive
        for _ in range(rng.choice([1, 1, 2, 3])):
            lines += _rc_block(rng, ty)
        cases.append(_case('rc-%s-%d' % (ty, i), lines, ty=ty))
    return cases


def _rc_block(rng, ty):
    dim, isf = _dim(ty), ty[2] == 'f'
    mininl = 2 * (3 if dim == 2 else 4)
    npairs = rng.choice([1, mininl - 1, mininl, mininl + 1]) if rng.chance(0.25) else rng.int(1, 40)
    if rng.chance(0.5):
        tg = list(range(npairs))
        rng.shuffle(tg)
    else:
        m = rng.int(1, npairs)
        tg = [rng.below(m) for _ in range(npairs)]
    # distinct (target, distance) keys: std::sort leaves equal keys in unspecified order
    ds = list(range(1, npairs + 1))
    rng.shuffle(ds)
    dist = [d / 1024.0 for d in ds]
    if rng.chance(0.3):
        dist = [0.0 if rng.chance(0.5) else x for x in dist]
        seen = set()
        for j in range(npairs):
            while (tg[j], dist[j]) in seen:
                dist[j] += 1.0 / 1024.0
            seen.add((tg[j], dist[j]))
    lines = ['rc.load %s %d %s' % (ty, npairs, ' '.join('%d %d %s' % (j, tg[j], D(dist[j])) for j in range(npairs)))]
    sigma = rng.choice([0.25, 0.5, 0.125, 1.0]) if rng.chance(0.8) else rng.uniform(0.05, 1.0)
    dyadic = sigma in (0.25, 0.5, 0.125, 1.0)
    q = 16.0 if isf else 1024.0
    rel = 2.0 ** -12 if isf else 2.0 ** -30
    rounds = rng.int(2, 6)
    prev = None
    for r in range(rounds):
        mode = rng.below(8)
        vecs = []
        if mode == 6 and prev is not None:      # same set scaled: same count, better / worse rmse
            f = rng.choice([0.5, 2.0, 1.0])
            vecs = [[c * f for c in v] for v in prev]
        else:
            for j in range(npairs):
                v = [0.0] * dim
                m2 = rng.below(10) if mode != 7 else 9
                if mode == 5:                    # everything exactly at rmse == sigma
                    v[rng.below(dim)] = sigma if dyadic else round(sigma * q) / q
                elif m2 < 5:                     # inlier, a few bits per component (sums exact in any order)
                    lim = max(1, int(sigma * q))
                    v = [rng.int(-lim, lim) / q for _ in range(dim)]
                elif m2 < 7 and dyadic:          # on / next to the 3 sigma threshold, single component
                    v[rng.below(dim)] = 3 * sigma * rng.choice([1.0, 1.0 + rel, 1.0 - rel, -1.0, -(1.0 - rel)])
                elif m2 < 8:                     # gross outlier
                    v = [rng.int(int(4 * sigma * q), int(7.9 * q)) / q * rng.choice([1, -1]) for _ in range(dim)]
                else:                            # zero error
                    pass
                vecs.append(v)
        prev = vecs
        toks = []
        for v in vecs:
            if isf:
                v = [to_f32(c) for c in v]
                sq = [to_f32(c * c) for c in v]
                e = sq[0]
                for s_ in sq[1:]:
                    e = to_f32(e + s_)
            else:
                e = 0.0
                for c in v:
                    e = e + c * c
            toks += [D(c) for c in v] + [D(e)]
        lines.append('rc.count %s %s' % (D(sigma), ' '.join(toks)))
    return lines


def gen_filter(rng, n):
    cases = []
    for i in range(n):
        k = rng.int(0, 60)
        m = rng.int(1, max(1, k))
        ties = rng.chance(0.15)
        cs = []
        for j in range(k):
            s = rng.below(m)
            d = rng.choice([0.0, 0.25, 1.0]) if ties else rng.unit() * rng.choice([1e-3, 1.0, 50.0])
            cs.append((s, j, d))
        cases.append(_case('filter-%d' % i, ['icp.filter %d %s' % (k, ' '.join('%d %d %s' % (s, t, D(d)) for s, t, d in cs))],
                           ties=ties))
    return cases


def gen_icp(rng, tier):
    cases = []
    pts = []
    g = 5 if tier == 'quick' else 9
    for ix in range(g):
        for iy in range(g):
            for it in range(g):
                pts.append((-0.2 + 0.4 * ix / (g - 1), -0.2 + 0.4 * iy / (g - 1), -0.05 + 0.1 * it / (g - 1)))
    nrand = 40 if tier == 'quick' else 4000
    lattice = [(ty, p) for p in pts for ty in ICP_TYPES]
    rand = []
    for j in range(nrand):
        p = (rng.uniform(-0.2, 0.2), rng.uniform(-0.2, 0.2), rng.uniform(-0.05, 0.05))
        if j % 7 == 0:   # faces / edges of the envelope
            p = tuple(rng.choice([-1, 1]) * b if rng.chance(0.5) else x for x, b in zip(p, (0.2, 0.2, 0.05)))
        rand.append((ICP_TYPES[j % 2], p))
    zero = [(ty, (0.0, 0.0, 0.0)) for ty in ICP_TYPES]
    for j, (ty, p) in enumerate(zero + lattice + rand):
        cases.append(_case('icp-%d' % j, ['icp.run %s %s %s %s' % (ty, D(p[0]), D(p[1]), D(p[2]))]))
    ntrace = 6 if tier == 'quick' else 60
    for j in range(ntrace):
        p = (rng.uniform(-0.2, 0.2), rng.uniform(-0.2, 0.2), rng.uniform(-0.05, 0.05))
        if j == 0:
            p = (0.2, 0.2, 0.05)       # the run that uses all ten iterations
        if j == 1:
            p = (0.0, 0.0, 0.0)
        cases.append(_case('icptrace-%d' % j, ['icp.trace %s %s %s %s' % (ICP_TYPES[j % 2], D(p[0]), D(p[1]), D(p[2]))]))
    nmatch = 30 if tier == 'quick' else 600
    for j in range(nmatch):
        ty = rng.choice(['c2d', 'h2d', 'c3d', 'h3d'])
        dim = _dim(ty)
        ns = rng.int(12, 60)
        src = [[rng.uniform(-5, 5) for _ in range(dim)] for _ in range(ns)]
        nt = rng.int(12, 80)
        spread = rng.choice([0.05, 0.5, 3.0])
        tgt = []
        for _ in range(nt):
            b = rng.choice(src)
            tgt.append([c + rng.gauss() * spread for c in b])
        cases.append(_case('icpmatch-%d' % j, ['icp.match %s %d %s %d %s' % (
            ty, ns, ' '.join(D(c) for p in src for c in p), nt, ' '.join(D(c) for p in tgt for c in p))]))
    return cases


def _rot(rng, dim, amax):
    if dim == 2:
        a = rng.uniform(-amax, amax)
        return [[math.cos(a), -math.sin(a)], [math.sin(a), math.cos(a)]]
    ax = [rng.gauss() for _ in range(3)]
    nrm = math.sqrt(sum(c * c for c in ax)) or 1.0
    x, y, z = (c / nrm for c in ax)
    a = rng.uniform(-amax, amax)
    c, s, C = math.cos(a), math.sin(a), 1 - math.cos(a)
    return [[c + x * x * C, x * y * C - z * s, x * z * C + y * s],
            [y * x * C + z * s, c + y * y * C, y * z * C - x * s],
            [z * x * C - y * s, z * y * C + x * s, c + z * z * C]]


def _synth_pairs(rng, dim, n, sigma, frac):
    """n correspondences spread over 20 m, inlier noise 0.3 sigma, round(frac n) gross outliers displaced by > 10 sigma,
    motion up to 0.5 m / 0.2 rad"""
    R = _rot(rng, dim, 0.2)
    tv = [rng.gauss() for _ in range(dim)]
    nrm = math.sqrt(sum(c * c for c in tv)) or 1.0
    mag = rng.uniform(0, 0.5)
    tv = [c / nrm * mag for c in tv]
    nout = int(round(frac * n))
    outl = set(rng.shuffle(list(range(n)))[:nout])
    pairs = []
    for j in range(n):
        s = [rng.uniform(-10, 10) for _ in range(dim)]
        t = [sum(R[r][c] * s[c] for c in range(dim)) + tv[r] + rng.gauss() * 0.3 * sigma for r in range(dim)]
        if j in outl:
            dv = [rng.gauss() for _ in range(dim)]
            dn = math.sqrt(sum(c * c for c in dv)) or 1.0
            m = rng.uniform(10.5, 200.0) * sigma
            t = [t[r] + dv[r] / dn * m for r in range(dim)]
        pairs.append((s, t))
    H = [R[r] + [tv[r]] for r in range(dim)] + [[0.0] * dim + [1.0]]
    return pairs, H, nout


def gen_synth(rng, tier):
    cases = []
    n_sets = 100 if tier == 'quick' else 2000
    for j in range(n_sets):
        ty = ['c2d', 'h2d', 'c3d', 'h3d'][j % 4]
        dim = _dim(ty)
        n = rng.choice([40, 400]) if rng.chance(0.15) else rng.int(40, 400)
        sigma = rng.uniform(0.01, 0.05)
        frac = rng.choice([0.0, 0.3, 0.3]) if rng.chance(0.4) else rng.uniform(0.0, 0.3)
        pairs, H, nout = _synth_pairs(rng, dim, n, sigma, frac)
        line = 'ransac.synth %s %s %d %s %s' % (ty, D(sigma), n, ' '.join(D(c) for s, t in pairs for c in s + t),
                                                ' '.join(D(c) for row in H for c in row))
        cases.append(_case('synth-%d' % j, [line], sigma=sigma, n=n, outliers=nout, ty=ty))
    n_rr = 20 if tier == 'quick' else 300
    for j in range(n_rr):
        ty = ['c2d', 'h2d', 'c3d', 'h3d'][j % 4]
        dim = _dim(ty)
        n = rng.int(12, 80)
        sigma = rng.uniform(0.01, 0.2)
        pairs, H, nout = _synth_pairs(rng, dim, n, sigma, rng.uniform(0, 0.4))
        line = 'rr.real %s %s %d %d %s' % (ty, D(sigma), rng.int(2, 8), n, ' '.join(D(c) for s, t in pairs for c in s + t))
        cases.append(_case('rr-%d' % j, [line], sigma=sigma, n=n, ty=ty))
    return cases


# ------------------------------------------------------------------------------------------- the sampler (smp.* ops)
LCG_A, LCG_M = 16807, 2147483647


def _lcg(x):
    return (LCG_A * x) % LCG_M


def _canon(x):
    """std::generate_canonical<double,53> over minstd_rand0 followed by uniform_real_distribution(0,1), in python doubles
    (IEEE binary64, the same operations in the same order): new engine state, variate"""
    g1 = _lcg(x)
    g2 = _lcg(g1)
    r = 2147483646.0
    sm = 0.0 + float(g1 - 1) * 1.0
    sm = sm + float(g2 - 1) * r
    ret = sm / (r * r)
    if ret >= 1.0:
        ret = math.nextafter(1.0, 0.0)
    return g2, ret * (1.0 - 0.0) + 0.0


def _cum(w):
    """computeCumSumWeights_ in python doubles"""
    ps, acc = [], None
    for x in w:
        acc = x if acc is None else acc + x
        ps.append(acc)
    tot = ps[-1]
    return [(v / tot if tot != 0.0 else float('nan')) for v in ps]


def _inverse_cdf(cum, u):
    """first position whose cumulative weight is not below u (0 when every comparison fails: the all-NaN case)"""
    for i, c in enumerate(cum):
        if not (c < u):
            return i
    return len(cum)


def _craft_weights(rng, u, m, mode):
    """weights whose cumulative sum at a position p is EXACTLY u (mode 0) or its neighbour below / above (mode -1 / +1):
    the boundary between std::lower_bound and std::upper_bound.  Returns (weights, p) or None."""
    if m < 2 or not (0.0 < u < 1.0):
        return None
    p = rng.int(0, min(m - 2, 40))
    q = 10
    while p * 8 * 2.0 ** -q >= u / 2 and q < 200:
        q += 1
    pre = [rng.int(1, 8) * 2.0 ** -q for _ in range(p)]
    sm = 0.0
    for x in pre:
        sm += x
    c = u if mode == 0 else (math.nextafter(u, 0.0) if mode < 0 else math.nextafter(u, 1.0))
    wp = c - sm
    if not (wp > 0.0) or sm + wp != c:
        return None
    rest = 1.0 - c
    if not (rest > 0.0) or c + rest != 1.0:
        return None
    w = pre + [wp, rest] + [0.0] * (m - p - 2)
    cum = _cum(w)
    if cum[p] != c or cum[-1] != 1.0:
        return None
    return w, p


def _smp_points(rng, dim, npts, style):
    if style == 'cluster':
        ncen = rng.int(1, 3)
        cens = [[rng.uniform(-10, 10) for _ in range(dim)] for _ in range(ncen)]
        rad = rng.choice([0.0, 1e-12, 1e-9, 1e-7, 1e-5, 1e-3])
        pts = []
        for _ in range(npts):
            c = rng.choice(cens)
            pts.append([x + (rng.gauss() * rad if rad else 0.0) for x in c])
        for _ in range(rng.below(3)):                    # a few far points keep some weight alive
            pts[rng.below(npts)] = [rng.uniform(-10, 10) for _ in range(dim)]
        return pts
    if style == 'line':                                  # a wall: one coordinate constant (scale 0 on that axis)
        c0 = rng.uniform(-10, 10)
        return [[c0 if d == 0 else rng.uniform(-10, 10) for d in range(dim)] for _ in range(npts)]
    return [[rng.uniform(-10, 10) for _ in range(dim)] for _ in range(npts)]


def _smp_corrs(rng, m, npts, style):
    """(src, tgt, weight) triples"""
    if style == 'reptgt':
        pool = rng.int(1, max(1, m // 2)) if rng.chance(0.7) else rng.int(1, 3)
        tg = [rng.below(pool) for _ in range(m)]
        if rng.chance(0.5) or npts < m:
            sr = [rng.below(npts) for _ in range(m)]
        else:
            sr = rng.shuffle(list(range(npts)))[:m]
    elif style == 'repsrc':                              # one source matched to several targets (before the ICP filter)
        sr = [rng.below(max(1, min(npts, m // 2))) for _ in range(m)]
        tg = rng.shuffle(list(range(m + rng.int(0, 20))))[:m]
    else:                                                # one to one, as the ICP filter produces (sorted by source)
        sr = sorted(rng.shuffle(list(range(npts)))[:m])
        tg = rng.shuffle(list(range(m + rng.int(0, 50))))[:m]
        if rng.chance(0.3):
            both = list(zip(sr, tg))
            rng.shuffle(both)
            sr, tg = [a for a, _ in both], [b for _, b in both]
    wmode = rng.below(10)
    if wmode < 6:
        ws = [1.0] * m
    elif wmode < 8:
        ws = [rng.uniform(0.05, 2.0) for _ in range(m)]
    else:
        ws = [0.0 if rng.chance(0.3) else rng.uniform(0.05, 2.0) for _ in range(m)]
        if not any(ws):
            ws[rng.below(m)] = 1.0
    return list(zip(sr, tg, ws))


def _corr_line(cs):
    return 'smp.corr %d %s' % (len(cs), ' '.join('%d %d %s' % (a, b, D(w)) for a, b, w in cs))


def gen_smp(rng, tier):
    q = tier == 'quick'
    cases = []
    per_type = 14 if q else 500
    nmax = 400
    j = 0
    for ty in ALL_TYPES:
        dim = _dim(ty)
        for i in range(per_type):
            j += 1
            k = (3 if dim == 2 else 4) if rng.chance(0.8) else rng.int(1, 6)
            stream = ['one2one', 'one2one', 'reptgt', 'cluster', 'boundary', 'prefix', 'repsrc', 'line'][i % 8]
            if rng.chance(0.2):
                m = rng.choice([k + 1, k + 2, nmax])
            else:
                m = int(rng.loguniform(k + 1, nmax + 0.99))
            m = max(k + 1, min(nmax, m))
            if q and m > 150 and i % 7 != 0:
                m = rng.int(k + 1, 150)                  # quick tier: a few long lists only
            npts = m + (rng.int(0, 30) if rng.chance(0.5) else 0)
            pstyle = stream if stream in ('cluster', 'line') else 'spread'
            pts = _smp_points(rng, dim, npts, pstyle)
            if rng.chance(0.75):                          # as PointSetPreconditioner reports them
                lo = [min(p[d] for p in pts) for d in range(dim)]
                hi = [max(p[d] for p in pts) for d in range(dim)]
            else:
                lo = [rng.uniform(-12, 0) for _ in range(dim)]
                hi = [l + rng.choice([0.0, 1e-3, 1.0, 25.0]) for l in lo]
            cstyle = stream if stream in ('reptgt', 'repsrc') else ('reptgt' if stream == 'cluster' and rng.chance(0.3) else 'one2one')
            cs = _smp_corrs(rng, m, npts, cstyle)
            scale_line = 'smp.scale %s' % ' '.join(D(x) for x in lo + hi)
            pts_line = 'smp.pts %d %s' % (npts, ' '.join(D(c) for p in pts for c in p))
            lines = ['smp.new ' + ty]
            if stream == 'prefix':
                # the same call on fresh objects with 1, 2, … k points to draw: every answer is a prefix of the next, and the
                # weights left behind by the first j draws are observed before the (j+1)-th
                lines += [pts_line, _corr_line(cs)]
                for kk in range(1, k + 1):
                    if kk > 1:
                        lines.append('smp.new ' + ty)
                    lines += [scale_line, 'smp.draw %d' % kk]
                cases.append(_case('smp-%s-%d' % (ty, j), lines, ty=ty, stream=stream, k=k, m=m, prefix=True))
                continue
            body = [scale_line, pts_line]
            eng = 1
            nd = rng.int(1, 4)
            cur = cs
            for d_ in range(nd):
                r = rng.below(10)
                if r == 0:
                    nu = rng.int(1, 5)
                    body.append('smp.u %d' % nu)
                    for _ in range(nu):
                        eng, _u = _canon(eng)
                if stream == 'boundary':
                    # the first variate of the coming call is known (the engine is deterministic): put a cumulative weight
                    # exactly on it / one ulp below / one ulp above
                    _e, u = _canon(eng)
                    cw = _craft_weights(rng, u, m, rng.choice([0, 0, -1, 1]))
                    if cw is not None:
                        cur = [(a, b, w) for (a, b, _w), w in zip(cur, cw[0])]
                        body.append(_corr_line(cur))
                    elif d_ == 0:
                        body.append(_corr_line(cur))
                elif d_ == 0 or rng.chance(0.3):
                    if d_ > 0:
                        cur = _smp_corrs(rng, m, npts, cstyle)
                    body.append(_corr_line(cur))
                body.append('smp.draw %d' % k)
                for _ in range(k):
                    eng, _u = _canon(eng)
                if rng.chance(0.1):
                    body.append('smp.reset')
                if rng.chance(0.1):
                    body.append(scale_line)
            lines += body
            if rng.chance(0.5):                           # a second fresh object given the same calls
                lines += ['smp.new ' + ty] + body
            cases.append(_case('smp-%s-%d' % (ty, j), lines, ty=ty, stream=stream, k=k, m=m))
    # the engine alone: long streams of variates from a fresh object
    for i in range(2 if q else 20):
        cases.append(_case('smp-u-%d' % i, ['smp.new c2d', 'smp.u %d' % (2000 if q else 10000), 'smp.u 7', 'smp.new h3f', 'smp.u 9'],
                           stream='engine'))
    return cases


def _smp_oracle(st, case, tk, f, bad, stats):
    """the sampler's part of the property, evaluated on the IMPLEMENTATION's answers only:
    indexes in range and copied from the list, first index = inverse CDF of the reloaded weights at the engine's variate,
    the engine advances by exactly two steps per drawn point and is never reseeded, weights within [0, 1] x their initial
    value and zero on every correspondence sharing a drawn target, cumulative weights non-decreasing and ending at 1 (NaN when
    everything is zero), pairwise distinct targets unless the weights collapsed, equal answers of fresh objects given equal calls."""
    op = tk[0]
    cnt = lambda key, n=1: stats.__setitem__(key, stats.get(key, 0) + n)
    if op == 'smp.new':
        # a finished segment is remembered for the fresh-object comparison
        if st.get('seg_ops'):
            st.setdefault('segs', []).append((st['seg_ops'], st['seg_out']))
        st['seg_ops'], st['seg_out'] = [], []
        if st.get('ty') != tk[1]:
            st['pts'], st['corrs'] = 0, []
        st['ty'] = tk[1]
        st['eng'] = 1
        if f[:3] != ['ok', 'eng', '1'] or any(tok_val(x) != 0.0 for x in f[4:]):
            bad('sampler-engine', 'a fresh sampler does not start from the default seed 1 / zero scale')
        return
    if 'eng' not in st:
        bad('sampler-protocol', 'op before smp.new')
        return
    st['seg_ops'].append(' '.join(tk))
    st['seg_out'].append(' '.join(f))
    if op == 'smp.pts':
        st['pts'] = int(tk[1])
    elif op == 'smp.corr':
        m = int(tk[1])
        st['corrs'] = [(int(tk[2 + 3 * i]), int(tk[3 + 3 * i]), tok_val(tk[4 + 3 * i])) for i in range(m)]
    elif op == 'smp.u':
        k = int(tk[1])
        us = [tok_val(x) for x in f[2:2 + k]]
        e = st['eng']
        for u in us:
            e, ref = _canon(e)
            if not (0.0 < u < 1.0):
                bad('sampler-uniform', 'variate %r outside (0, 1)' % u)
                break
            if u != ref:
                bad('sampler-uniform', 'variate %r is not generate_canonical of the engine sequence (%r)' % (u, ref))
                break
        cnt('smp_variates', k)
        if f[-2] != 'eng' or int(f[-1]) != e or not (1 <= int(f[-1]) <= LCG_M - 1):
            bad('sampler-engine', 'engine state %s after %d variates, expected %d' % (f[-1], k, e))
        st['eng'] = int(f[-1])
    elif op == 'smp.reset':
        pass
    elif op == 'smp.draw':
        k = int(tk[1])
        cs = st['corrs']
        m = len(cs)
        iw, ic, ie = f.index('w'), f.index('c'), len(f) - 2
        drawn = [tuple(int(v) for v in x.split(':')) for x in f[2:iw]]
        w = [tok_val(x) for x in f[iw + 2:ic]]
        c = [tok_val(x) for x in f[ic + 2:ie]]
        cnt('smp_draw_calls')
        cnt('smp_drawn_points', k)
        if int(f[1]) != k or len(drawn) != k:
            bad('sampler-range', 'asked for %d correspondences, got %d' % (k, len(drawn)))
            return
        if any(not (0 <= d[0] < m) or (d[1], d[2]) != cs[d[0]][:2] for d in drawn):
            bad('sampler-range', 'a drawn correspondence is not an element of the list')
            return
        # engine: two steps per drawn point from where the previous call left it
        e = st['eng']
        us = []
        for _ in range(k):
            e, u = _canon(e)
            us.append(u)
        if f[ie] != 'eng' or int(f[ie + 1]) != e:
            bad('sampler-engine', 'engine state %s after the call, expected %d (two steps per drawn point, never reseeded)' % (f[ie + 1], e),
                draw_call=len([o for o in st['seg_ops'] if o.startswith('smp.draw')]))
        st['eng'] = int(f[ie + 1])
        # first index: inverse CDF of the reloaded weights
        w0 = [x[2] for x in cs]
        exp0 = _inverse_cdf(_cum(w0), us[0])
        if drawn[0][0] != exp0:
            bad('sampler-inverse-cdf', 'first drawn index %d, the first cumulative weight >= u=%r is at %d' % (drawn[0][0], us[0], exp0))
        cnt('smp_first_on_boundary', 1 if (exp0 < m and _cum(w0)[exp0] == us[0]) else 0)
        # weights
        if len(w) != m or len(c) != m:
            bad('sampler-weights', 'weights_/cumSumWeights_ have sizes %d/%d for %d correspondences' % (len(w), len(c), m))
            return
        if any(not (0.0 <= a <= b) for a, b in zip(w, w0)):
            bad('sampler-weights', 'a weight left [0, 1] x its initial value')
        tg = set(d[2] for d in drawn)
        if any(w[i] != 0.0 for i in range(m) if cs[i][1] in tg):
            bad('sampler-weights', 'a correspondence sharing the target of a drawn one kept a positive weight')
        total = sum(w)
        if total > 0.0:
            if any(not (0.0 <= a <= b <= 1.0) for a, b in zip(c, c[1:])) or c[-1] != 1.0 or not (0.0 <= c[0] <= 1.0):
                bad('sampler-weights', 'cumulative weights not non-decreasing in [0, 1] ending at exactly 1')
        elif any(x == x for x in c):
            bad('sampler-weights', 'all weights zero but the cumulative weights are not 0/0')
        # distinct targets (the claim holds while some weight is positive when a point is drawn)
        alive = [None] * k          # alive[j]: was some weight positive before the (j+1)-th point was drawn?
        alive[0] = any(x > 0.0 for x in w0)
        if total > 0.0:
            alive = [True] * k
        pre = st.setdefault('prefix', {})
        for j in range(1, k):
            if alive[j] is None and j in pre and pre[j][0] == [d[0] for d in drawn[:j]]:
                alive[j] = pre[j][1] > 0.0
        for j in range(k):
            if alive[j]:
                cnt('smp_distinct_checked')
                if cs[drawn[j][0]][2] <= 0.0:
                    bad('sampler-distinct-targets', 'point %d drawn with initial weight 0' % j)
                if drawn[j][2] in [d[2] for d in drawn[:j]]:
                    bad('sampler-distinct-targets', 'drawn points %s: target index %d repeats although weights were positive' % (drawn, drawn[j][2]),
                        k=k, m=m)
            elif alive[j] is None:
                cnt('smp_collapse_unknown')
            else:
                cnt('smp_collapsed_draws')          # 0/0 cumulative weights: the code returns index 0 (theorem `collapse_draws_index_zero`)
        if case.get('meta', {}).get('prefix'):
            for kk, (idxs, _t) in pre.items():
                if kk < k and idxs != [d[0] for d in drawn[:kk]]:
                    bad('sampler-determinism', 'fresh object asked for %d points drew %s, asked for %d drew %s' % (kk, idxs, k, drawn))
            pre[k] = ([d[0] for d in drawn], total)
            cnt('smp_prefix_calls')
    # fresh objects given the same calls answer the same
    segs = st.get('segs', [])
    n = len(st['seg_ops'])
    for ops, outs in segs:
        if len(ops) >= n and ops[:n] == st['seg_ops']:
            cnt('smp_replayed_ops')
            if outs[n - 1] != st['seg_out'][n - 1]:
                bad('sampler-determinism', 'two fresh objects given the same %d calls answered differently' % n)
            break



def gen_cases(rng, tier):
    q = tier == 'quick'
    cases = []
    cases += gen_rit(rng.fork(), 400 if q else 40000)
    cases += gen_script(rng.fork(), 500 if q else 60000)
    cases += gen_rc(rng.fork(), 300 if q else 20000)
    cases += gen_filter(rng.fork(), 300 if q else 20000)
    cases += gen_icp(rng.fork(), tier)
    cases += gen_synth(rng.fork(), tier)
    cases += gen_smp(rng.fork(), tier)
    return cases


# ------------------------------------------------------------------------------------------- B: comparison
def _parse_corrs(toks):
    return [tuple(t.split(':')) for t in toks]


def compare(case, li, op, impl, model):
    name = op.split()[0]
    if name in PROBE_OPS:
        return model == 'probe-only'          # compared in the second pass (extra_probe)
    if impl == model:
        return True
    if name.startswith('smp.'):
        return False                          # the sampler tie is bit-exact: indexes, weights, engine state
    a, b = impl.split(), model.split()
    if len(a) != len(b):
        return False
    if name == 'icp.filter' and case.get('meta', {}).get('ties'):
        # std::sort leaves the order of equal (source, distance) keys unspecified: the target index of a kept pair may then
        # legitimately differ; everything else must agree
        inp = op.split()[2:]
        keys = [(inp[3 * i], inp[3 * i + 2]) for i in range(len(inp) // 3)]
        for x, y in zip(a, b):
            if x == y:
                continue
            xs, ys = x.split(':'), y.split(':')
            if len(xs) != 3 or len(ys) != 3 or (xs[0], xs[2]) != (ys[0], ys[2]) or keys.count((xs[0], xs[2])) < 2:
                return False
        return True
    for x, y in zip(a, b):
        if x == y:
            continue
        xs, ys = x.split(':'), y.split(':')
        if len(xs) == 3 and len(ys) == 3 and xs[:2] == ys[:2] and float_close(xs[2], ys[2], ulps=2):
            continue
        if name == 'rc.count' and x[:1] == 'd' and y[:1] == 'd' and float_close(x, y, ulps=4):
            continue
        return False
    return True


# ------------------------------------------------------------------------------------------- C: oracle
_PHASE2 = []          # (case_index, kind, op line, implementation output) for the second pass
_CALLS = [0]


def oracle(case, out, stats):
    ci = _CALLS[0]
    _CALLS[0] += 1
    fails = []
    st = {}
    for line, o in zip(case['lines'], out):
        tk = line.split()
        op = tk[0]
        stats[op] = stats.get(op, 0) + 1

        def bad(kind, detail, **fields):
            fails.append({'kind': kind, 'detail': '%s -> %s : %s' % (line[:160], o[:200], detail), 'fields': fields})
        if o in ('abort', 'hang', 'exception', 'skipped', 'bad-op') or o.startswith('err-mismatch'):
            bad('outcome-' + o.split()[0], 'unexpected outcome')
            break
        f = o.split()
        if op == 'rit.run':
            vals = [tok_val(x) for x in f[1:]]
            cap = int(tk[3])
            if vals[0] != float(cap):
                bad('iteration-bound', 'initial bound is not the cap')
            if any(not (b <= a) for a, b in zip(vals, vals[1:])) or any(not (0 <= v <= cap) for v in vals):
                bad('iteration-bound', 'bound increased or left [0, cap]')
            stats['bound_updates'] = stats.get('bound_updates', 0) + len(vals) - 1
        elif op == 'ransac.script':
            npts, ndraw, mininl, n = int(tk[2]), int(tk[3]), int(tk[4]), int(tk[5])
            steps = [(tk[6 + 2 * j] == '1', int(tk[7 + 2 * j])) for j in range(n)]
            ret, draws, counts, refines = f[1] == '1', int(f[3]), int(f[5]), int(f[7])
            if npts < mininl:
                if ret or draws or counts or refines:
                    bad('script', 'too few points but the model was used')
                continue
            used = steps[:draws]
            best = max([f32round_nat(c) for d, c in used if d] + [0])
            if ret != (best > ndraw):
                bad('success-implies-consensus', 'returned %s with best consensus %d, draw size %d' % (ret, best, ndraw))
            if refines != (1 if ret else 0) or counts != sum(1 for d, c in used if d) + 0 or draws > 1000:
                bad('script', 'refine/count/draw calls inconsistent with the script')
            stats['script_long_runs'] = stats.get('script_long_runs', 0) + (1 if draws >= 999 else 0)
        elif op == 'rc.load':
            st = {'mininl': 2 * (3 if _dim(tk[1]) == 2 else 4), 'best': 0, 'isf': tk[1][2] == 'f'}
        elif op == 'rc.count':
            sigma = tok_val(tk[1])
            i = f.index('inl')
            ninl = int(f[i + 1])
            j = f.index('bestrmse')
            inl = _parse_corrs(f[i + 2:j])
            bestrmse = tok_val(f[j + 1])
            nb = int(f[j + 3])
            best = _parse_corrs(f[j + 4:])
            ret = int(f[1])
            isf = st.get('isf', False)
            thr = 9 * sigma * sigma
            if isf:
                thr = to_f32(thr)
            if ret != nb or len(best) != nb or len(inl) != ninl:
                bad('consensus', 'returned count is not the size of the best set')
            if any(not (tok_val(c[2]) < thr) for c in best) or any(not (tok_val(c[2]) < thr) for c in inl):
                bad('inlier-3sigma', 'a consensus member has squared error >= 9 sigma^2')
            if nb and (nb < st['mininl'] or not (bestrmse < sigma)):
                bad('consensus', 'stored consensus smaller than the minimum or rmse >= sigma')
            if nb < st['best']:
                bad('consensus', 'best consensus shrank')
            st['best'] = nb
            stats['rc_accepted'] = stats.get('rc_accepted', 0) + (1 if nb else 0)
        elif op == 'icp.filter':
            k = int(tk[1])
            inp = [(int(tk[2 + 3 * j]), int(tk[3 + 3 * j]), tok_val(tk[4 + 3 * j])) for j in range(k)]
            kept = [(int(a), int(b), tok_val(c)) for a, b, c in _parse_corrs(f[2:])]
            _check_filter(inp, kept, bad)
        elif op == 'icp.run':
            found, err = f[1] == '1', tok_val(f[3])
            tx, ty, th = (tok_val(x) for x in tk[2:5])
            stats['icp_runs'] = stats.get('icp_runs', 0) + 1
            stats['icp_worst_err'] = max(stats.get('icp_worst_err', 0.0), err if found and err <= TOL else 0.0)
            if not found or not (err <= TOL):
                bad('icp-envelope', 'found=%s error=%.4g at tx=%.4f ty=%.4f theta=%.4f (%s)' % (found, err, tx, ty, th, tk[1]),
                    tx=tx, ty=ty, theta=th, type=tk[1])
        elif op == 'ransac.synth':
            ret, err, rmse = f[1] == '1', tok_val(f[3]), tok_val(f[5])
            sigma = tok_val(tk[2])
            stats['synth_sets'] = stats.get('synth_sets', 0) + 1
            stats['synth_worst_err'] = max(stats.get('synth_worst_err', 0.0), err)
            if not ret or not (err <= TOL) or not (rmse < sigma):
                bad('ransac-outliers', 'ret=%s error=%.4g rmse=%.4g sigma=%.4g n=%s outliers=%s' % (
                    ret, err, rmse, sigma, tk[3], case.get('meta', {}).get('outliers')), type=tk[1])
        elif op in ('rr.real', 'icp.trace', 'icp.match'):
            _PHASE2.append((ci, op, line, o))
        elif op.startswith('smp.'):
            _smp_oracle(st.setdefault('smp', {}), case, tk, f, bad, stats)
    return fails


def _check_filter(inp, kept, bad):
    srcs = [c[0] for c in kept]
    if len(set(srcs)) != len(srcs):
        bad('one-to-one', 'a source index repeats after filtering')
    if srcs != sorted(srcs):
        bad('one-to-one', 'kept pairs not ordered by source index')
    if set(srcs) != set(c[0] for c in inp):
        bad('one-to-one', 'a matched source index was dropped')
    for s, t, d in kept:
        cands = [c for c in inp if c[0] == s]
        if (s, t, d) not in cands or d != min(c[2] for c in cands):
            bad('one-to-one', 'kept pair (%d,%d) is not the closest of its source' % (s, t))


# ------------------------------------------------------------------------------------------- second pass
def _run(exe, lines):
    text = ''.join('#case %d\n%s\n' % (i, l) for i, l in enumerate(lines))
    p = subprocess.run([exe], input=text, stdout=subprocess.PIPE, stderr=subprocess.DEVNULL, text=True, timeout=1800)
    out, cur = [], None
    for l in p.stdout.split('\n'):
        if l == '#':
            cur = []
            out.append(cur)
        elif cur is not None and l != '':
            cur.append(l)
    return out


def extra_probe(ctx, stats):
    """feed the oracle outputs observed on the real pipeline to the Lean model and compare (ties rr.real / icp.match / icp.trace)"""
    fails = []
    items, _PHASE2[:] = list(_PHASE2), []
    if not items:
        return fails
    drv = os.path.join(ctx['lean'], '.lake', 'build', 'bin', DRIVER)
    if not os.path.exists(drv):
        return [{'kind': 'tie2-no-driver', 'detail': 'model driver missing: second-pass ties not run', 'fields': {}, 'case_index': items[0][0]}]
    jobs = []        # (ci, op, description, model case text (joined lines), expected outputs, comparer)
    for ci, op, line, o in items:
        tk, f = line.split(), o.split()
        try:
            if op == 'icp.match':
                i = f.index('kept')
                raw, kept = f[2:i], f[i + 2:]
                mline = 'icp.filter %d %s' % (len(raw), ' '.join(' '.join(c.split(':')) for c in raw))
                jobs.append((ci, op, line, [mline], ['kept %d %s' % (len(kept), ' '.join(kept))], raw))
                _check_filter([(int(a), int(b), tok_val(c)) for a, b, c in _parse_corrs(raw)],
                              [(int(a), int(b), tok_val(c)) for a, b, c in _parse_corrs(kept)],
                              lambda kind, detail, **fields: fails.append(
                                  {'kind': kind, 'detail': 'icp.match: ' + detail, 'fields': fields, 'case_index': ci}))
            elif op == 'icp.trace':
                ncap = int(f[1])
                recs = [f[2 + 12 * c: 2 + 12 * (c + 1)] for c in range(ncap)]
                mlines, exp = [], []
                for cap in range(1, ncap + 1):
                    steps = ' '.join(' '.join(r[1:]) for r in recs[:cap])
                    mlines.append('icp.loop %d %s 3 %d %s' % (cap, D(_icp_eps(ctx)), cap, steps))
                    exp.append(recs[cap - 1][0])
                jobs.append((ci, op, line, mlines, exp, None))
            elif op == 'rr.real':
                ty, sigma, n = tk[1], tk[2], int(tk[4])
                smp_trail = []
                if 'sampler' in f:           # what the model's own sampler member held behind every real draw()
                    cut = f.index('sampler')
                    smp_trail, f = f[cut:], f[:cut]
                mlines = ['rc.load %s %d %s' % (ty, n, ' '.join('%d %d %s' % (j, j, D(0.0)) for j in range(n)))]
                exp = [None]
                pad = ' '.join([D(0.0)] * _dim(ty))
                i = 2
                for r in range(int(f[1])):
                    assert f[i] == 'draw' and f[i + 2] == 'errs'
                    errs = f[i + 3:i + 3 + n]
                    j = i + 3 + n
                    assert f[j] == 'ret'
                    k = j
                    while k < len(f) and f[k] != 'draw':
                        k += 1
                    mlines.append('rc.count %s %s' % (sigma, ' '.join('%s %s' % (pad, e) for e in errs)))
                    exp.append(' '.join(f[j:k]))
                    i = k
                jobs.append((ci, op, line, mlines, exp, None))
                if smp_trail:
                    jobs.append(_rr_sampler_job(ctx, ci, line, tk, smp_trail))
        except Exception as e:
            fails.append({'kind': 'tie2-malformed', 'detail': '%s: %r' % (line[:120], e), 'fields': {}, 'case_index': ci})
    text = ''.join('#case %d\n%s\n' % (i, '\n'.join(j[3])) for i, j in enumerate(jobs))
    p = subprocess.run([drv], input=text, stdout=subprocess.PIPE, stderr=subprocess.DEVNULL, text=True, timeout=3600)
    outs, cur = [], None
    for l in p.stdout.split('\n'):
        if l == '#':
            cur = []
            outs.append(cur)
        elif cur is not None and l != '':
            cur.append(l)
    for (ci, op, line, mlines, exp, aux), mo in zip(jobs, outs + [[]] * (len(jobs) - len(outs))):
        stats['tie2_' + op] = stats.get('tie2_' + op, 0) + 1
        ok = len(mo) == len(mlines)
        detail = ''
        if ok:
            for k, (e, m) in enumerate(zip(exp, mo)):
                if e is None:
                    continue
                if op == 'icp.trace':
                    good = m.split()[:2] == ['flag', e]
                elif op == 'icp.match':
                    good = compare({'meta': {'ties': True}}, 0, mlines[k], e, m)
                elif op == 'rr.real.smp':
                    # bit-exact; the C++ sample is local to draw(): the drawn indexes are compared through weights_ (zero exactly
                    # on the drawn targets, down-weighted by each drawn point in drawing order), cumSumWeights_ and the engine
                    mt = m.split()
                    good = (('w' in mt and mt[mt.index('w'):] == e.split()) if mlines[k].startswith('smp.draw') else m == e)
                else:
                    good = compare({'meta': {}}, 0, mlines[k], e, m)
                stats['tie2_lines'] = stats.get('tie2_lines', 0) + 1
                if not good:
                    ok = False
                    detail = 'pass-2 line %d: implementation %s | model %s' % (k, e[:200], m[:200])
                    break
        else:
            detail = 'model driver answered %d of %d lines' % (len(mo), len(mlines))
        if not ok:
            fails.append({'kind': 'tie2-disagreement', 'detail': '%s: %s -- %s' % (op, line[:100], detail), 'fields': {'op': op},
                          'case_index': ci})
    return fails


def _rr_sampler_job(ctx, ci, line, tk, trail):
    """model-side replay of what RansacRigidTransformationModel::draw does with its sampler member in an rr.real op: a fresh sampler,
    computeScale(min, max of the raw source points) (loadPointSets), then per draw() ONE drawPoints(raw source points, the
    correspondences as loaded (j, j, weight 1), getNumberOfPointsToDrawModel()) on the same object -- the composition
    RomeaModel/RansacSampled.lean models (drawSampled / smpAfter)"""
    ty, n = tk[1], int(tk[4])
    dim = _dim(ty)
    size = dim + 1 if ty[0] == 'h' else dim
    coords = tk[5:]
    src = [coords[2 * dim * j: 2 * dim * j + dim] for j in range(n)]
    lo = [min(src, key=lambda p, d=d: tok_val(p[d]))[d] for d in range(dim)]
    hi = [max(src, key=lambda p, d=d: tok_val(p[d]))[d] for d in range(dim)]
    consts = scrape(ctx['repo'])[0]
    k = consts['drawPoints2D'] if dim == 2 else consts['drawPoints3D']
    assert trail[0] == 'sampler' and trail[1] == 'scale'
    scale = trail[2:2 + size]
    rest = trail[2 + size:]
    draws, cur = [], None
    for x in rest:
        if x == 'smpdraw':
            cur = []
            draws.append(cur)
        else:
            cur.append(x)
    mlines = ['smp.new %s' % ty, 'smp.pts %d %s' % (n, ' '.join(c for p in src for c in p)),
              'smp.scale %s %s' % (' '.join(lo), ' '.join(hi)),
              'smp.corr %d %s' % (n, ' '.join('%d %d %s' % (j, j, D(1.0)) for j in range(n)))]
    exp = [None, None, 'scale ' + ' '.join(scale), None]
    for d in draws:
        mlines.append('smp.draw %d' % k)
        exp.append(' '.join(d))
    return (ci, 'rr.real.smp', line, mlines, exp, None)


def _icp_eps(ctx):
    m, e = scrape(ctx['repo'])[0]['icpEpsilon']
    return m / (10.0 ** e)
