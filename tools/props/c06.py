"""C06 — ICP + RANSAC (DESIGN.md section 6, C06): partial.

Theorems cover the control skeleton and the bookkeeping only (lean/RomeaProofs/Properties/C06.lean); the numerical
envelope of the property (error <= 0.015 over the displacement box, outliers never win) is PROBED here, on the real code.

Ties of the model to the code
  single pass (same op through harness and Lean driver, exact comparison):
    rit.run        RansacIterations constructor / update / get
    ransac.script  Ransac::estimateModel over a scripted RansacModel subclass
    rc.load/count  RansacRigidTransformationModel::loadCorrespondences / countInliers on crafted sets
    icp.filter     sort + unique with the repository's predicates
  two passes (the harness observes oracle outputs of the REAL pipeline, tools feed them to the model, results compared):
    rr.real        real draw() + countInliers(): errors recomputed from getTransformation() -> model bookkeeping
    icp.match      find() capped at 1 iteration: raw nearest-neighbour pairs -> model filter == kept pairs
    icp.trace      find() with caps 1..10: per-iteration (estimate ok, rmse, T) -> model loop flag == returned flag
  regenerated constants: lean/RomeaModel/Generated/ConstantsC06.lean, pinned by theorems.
"""
import math
import os
import re
import subprocess
from vlib import D, S, tok_val, to_f32, float_close

ID = 'C06'
LEVEL = 'other'
DRIVER = 'drv_c06'
HARNESS = 'c06.cpp'
SOURCES = ['src/transform/estimation/FindRigidTransformationByICP.cpp',
           'src/transform/estimation/RansacRigidTransformationModel.cpp',
           'src/transform/estimation/FindRigidTransformationBySVD.cpp',
           'src/transform/estimation/FindRigidTransformationByLeastSquares.cpp',
           'src/regression/ransac/Ransac.cpp', 'src/regression/ransac/RansacIterations.cpp',
           'src/regression/ransac/RansacModel.cpp', 'src/regression/ransac/RansacRandomCorrespondences.cpp',
           'src/regression/leastsquares/LeastSquares.cpp', 'src/pointset/KdTree.cpp',
           'src/pointset/algorithms/NormalAndCurvatureEstimation.cpp', 'src/pointset/algorithms/Correspondence.cpp',
           'src/pointset/algorithms/PointSetPreconditioner.cpp', 'src/pointset/algorithms/PreconditionedPointSet.cpp']
_REPO = os.environ.get('VERIF_REPO', '/repo')
EXTRA_FLAGS = ['-DC06_SCAN_PATH="%s"' % os.path.join(_REPO, 'test/data/scan2d.txt')]
PROOF_MODULES = ['RomeaProofs.Properties.C06']
HANG_SECS = 60
TRUSTED = ['harness/c06.cpp: scripted RansacModel subclass, subclasses exposing protected members of '
           'RansacRigidTransformationModel / FindRigidTransformationByICP (no hook in /repo)',
           'tools/props/c06.py:regen (regex scraper of the literal thresholds)',
           'the numerical envelope (error <= 0.015, consensus RMSE < sigma, outliers without influence) is a seeded PROBE of the '
           'real code, not a theorem']
ASSUMPTIONS = ['theorems are about the control skeleton with all geometry (candidate transformations, per-correspondence errors, '
               'nearest neighbours, the sampler) universally quantified as oracle outputs; counts below 2^24 (size_t -> float)',
               'synthetic RANSAC sets: sigma in [0.01, 0.05] (the property leaves sigma open; the 0.015 tolerance is absolute), '
               'closed-form (SVD) inner estimator as DESIGN.md C06 explains',
               'ICP probe: sigma = 0.2, LEAST_SQUARES method, identity guess, as in test/transform/test_transform.cpp']
EXPLANATION = ('partial: Lean theorems on the RANSAC/ICP control skeleton and bookkeeping + scripted/observed differential ties + '
               'regenerated constants; the convergence envelope on scan2d.txt and the synthetic-outlier claim are probed')

TOL = 0.015
ICP_TYPES = ['c2d', 'h2d']
ALL_TYPES = ['c2d', 'c3d', 'h2d', 'h3d', 'c2f', 'c3f', 'h2f', 'h3f']
PROBE_OPS = ('icp.run', 'icp.trace', 'icp.match', 'ransac.synth', 'rr.real')


# ------------------------------------------------------------------------------------------- G: regenerated constants
FALLBACK = {'icpMaxIterations': 10, 'icpEpsilon': (1, 3), 'inlierFactor': 9, 'drawPoints2D': 3, 'drawPoints3D': 4,
            'minimalInliersFactor': 2, 'fittingProbability': (99, 2), 'fittingProbabilityIsFloat': True,
            'ransacMaxIterations': 1000}


def _decimal(lit):
    """'0.001' -> (1, 3); '1e-3' -> (1, 3); '10' -> (10, 0)"""
    m = re.fullmatch(r'(\d*)\.?(\d*)(?:[eE]([+-]?\d+))?', lit)
    if not m or not (m.group(1) or m.group(2)):
        raise ValueError(lit)
    ip, fp, ex = m.group(1) or '', m.group(2) or '', int(m.group(3) or 0)
    mant = int((ip + fp) or '0')
    e = len(fp) - ex
    if e < 0:
        mant *= 10 ** (-e)
        e = 0
    while e > 0 and mant % 10 == 0 and mant != 0:
        mant //= 10
        e -= 1
    return mant, e


def scrape(repo):
    vals, fell_back = dict(FALLBACK), []

    def src(p):
        return open(os.path.join(repo, p)).read()

    def grab(key, path, rx, conv):
        try:
            m = re.search(rx, src(path))
            vals[key] = conv(m)
        except Exception:
            fell_back.append(key)
    icp = 'src/transform/estimation/FindRigidTransformationByICP.cpp'
    rm = 'src/transform/estimation/RansacRigidTransformationModel.cpp'
    rs = 'src/regression/ransac/Ransac.cpp'
    grab('icpMaxIterations', icp, r'ICP_MAXIMAL_NUMBER_OF_ITERATIONS\s*=\s*(\d+)\s*;', lambda m: int(m.group(1)))
    grab('icpEpsilon', icp, r'ICP_TRANSFORMATION_EPSILON\s*=\s*([0-9.eE+-]+)\s*;', lambda m: _decimal(m.group(1)))
    grab('inlierFactor', rm, r'threshold\s*=\s*(\d+)\s*\*\s*modelDeviationError\s*\*\s*modelDeviationError\s*;', lambda m: int(m.group(1)))
    grab('drawPoints2D', rm, r'getNumberOfPointsToDrawModel\(\)\s*const\s*\{\s*if\s*\(CARTESIAN_DIM\s*==\s*2\)\s*\{\s*return\s+(\d+);', lambda m: int(m.group(1)))
    grab('drawPoints3D', rm, r'getNumberOfPointsToDrawModel\(\)\s*const\s*\{\s*if\s*\(CARTESIAN_DIM\s*==\s*2\)\s*\{\s*return\s+\d+;\s*\}\s*else\s*\{\s*return\s+(\d+);', lambda m: int(m.group(1)))
    grab('minimalInliersFactor', rm, r'minimalNumberOfInliers\s*=\s*(\d+)\s*\*\s*getNumberOfPointsToDrawModel\(\)', lambda m: int(m.group(1)))
    grab('fittingProbability', rs, r'FITTING_PROBABILITY_\s*=\s*([0-9.eE+-]+?)(f?)\s*;', lambda m: _decimal(m.group(1)))
    grab('fittingProbabilityIsFloat', rs, r'const\s+(float|double)\s+FITTING_PROBABILITY_\s*=\s*[0-9.eE+-]+?(f?)\s*;',
         lambda m: m.group(1) == 'float' or m.group(2) == 'f')
    grab('ransacMaxIterations', rs, r'\bMAXIMAL_NUMBER_OF_ITERATIONS\s*=\s*(\d+)\s*;', lambda m: int(m.group(1)))
    return vals, fell_back


def render(v):
    b = 'true' if v['fittingProbabilityIsFloat'] else 'false'
    return '''/-!
# Literal thresholds of C06, scraped from /repo by `tools/props/c06.py:regen` on every run.
GENERATED FILE - do not edit by hand.  Decimal literals are kept as mantissa / decimal exponent
(`m * 10^-e`) so that the same constant can be read at `Float`, `Float32` and `ℝ`.
-/
namespace Romea.Generated.C06

/-- `ICP_MAXIMAL_NUMBER_OF_ITERATIONS` (src/transform/estimation/FindRigidTransformationByICP.cpp) -/
def icpMaxIterations : Nat := %d
/-- `ICP_TRANSFORMATION_EPSILON` = mantissa * 10^-exponent -/
def icpEpsilonMantissa : Nat := %d
def icpEpsilonExponent : Nat := %d
/-- `threshold = 9 * modelDeviationError * modelDeviationError` (RansacRigidTransformationModel.cpp) -/
def inlierFactor : Nat := %d
/-- `getNumberOfPointsToDrawModel`: 3 when CARTESIAN_DIM == 2, else 4 -/
def drawPoints2D : Nat := %d
def drawPoints3D : Nat := %d
/-- `getMinimalNumberOfInliers` = factor * getNumberOfPointsToDrawModel() -/
def minimalInliersFactor : Nat := %d
/-- `FITTING_PROBABILITY_ = 0.99f` (src/regression/ransac/Ransac.cpp), a `float` literal -/
def fittingProbabilityMantissa : Nat := %d
def fittingProbabilityExponent : Nat := %d
def fittingProbabilityIsFloat : Bool := %s
/-- `MAXIMAL_NUMBER_OF_ITERATIONS` (src/regression/ransac/Ransac.cpp) -/
def ransacMaxIterations : Nat := %d

end Romea.Generated.C06
''' % (v['icpMaxIterations'], v['icpEpsilon'][0], v['icpEpsilon'][1], v['inlierFactor'], v['drawPoints2D'], v['drawPoints3D'],
       v['minimalInliersFactor'], v['fittingProbability'][0], v['fittingProbability'][1], b, v['ransacMaxIterations'])


def regen(ctx):
    vals, fell_back = scrape(ctx['repo'])
    path = os.path.join(ctx['lean'], 'RomeaModel', 'Generated', 'ConstantsC06.lean')
    text = render(vals)
    old = open(path).read() if os.path.exists(path) else None
    if old != text:
        os.makedirs(os.path.dirname(path), exist_ok=True)
        with open(path, 'w') as f:
            f.write(text)
    if fell_back:
        ctx['notes'].append('C06 constants: scraping failed for %s; committed fallback values used' % ', '.join(fell_back))
    return {'file': 'RomeaModel/Generated/ConstantsC06.lean', 'values': {k: (list(x) if isinstance(x, tuple) else x) for k, x in vals.items()},
            'fell_back': fell_back, 'rewritten': old != text}


# ------------------------------------------------------------------------------------------- generators
def f32round_nat(n):
    if n < (1 << 24):
        return n
    e = n.bit_length() - 24
    q, r = n >> e, n & ((1 << e) - 1)
    half = 1 << (e - 1)
    if r > half or (r == half and q & 1):
        q += 1
    return q << e


def _case(name, lines, **meta):
    return {'name': name, 'lines': lines, 'meta': meta}


def gen_rit(rng, n):
    cases = []
    for i in range(n):
        mode = rng.below(5)
        p = 0.99 if mode < 3 else rng.uniform(0.5, 0.9999)
        npts = rng.choice([1, 2, 6, 8, 50, 100, 700]) if rng.chance(0.3) else rng.int(1, 2000)
        cap = 1000 if mode < 4 else rng.int(1, 5000)
        ndraw = rng.choice([3, 4]) if rng.chance(0.8) else rng.int(0, 8)
        k = rng.int(1, 12)
        inl = []
        for _ in range(k):
            r = rng.below(10)
            if r == 0:
                inl.append(rng.choice([0, npts, npts + rng.int(1, 5), 1]))
            elif r < 5:
                inl.append(rng.int(0, npts))
            else:
                inl.append(min(npts, int(npts * rng.uniform(0.0, 1.0) ** 0.5)))
        if rng.chance(0.5):
            inl.sort()
        cases.append(_case('rit-%d' % i, ['rit.run %s %d %d %d %d %s' % (S(p), npts, cap, ndraw, k, ' '.join(map(str, inl)))], cap=cap))
    return cases


def gen_script(rng, n):
    cases = []
    for i in range(n):
        ndraw = rng.choice([3, 4]) if rng.chance(0.85) else rng.int(1, 6)
        mininl = 2 * ndraw if rng.chance(0.8) else rng.int(0, 12)
        mode = rng.below(12)
        npts = rng.int(max(1, mininl - 2), 600) if mode != 0 else rng.int(0, max(0, mininl))
        if mode == 1:
            length = 0
        elif mode in (2, 3):
            length = rng.choice([1000, 1001, 1100, 999])
        else:
            length = rng.int(1, 80)
        rate = rng.choice([0.0, 0.05, 0.3, 0.7, 1.0, 1.0])
        prof = rng.below(7)
        steps = []
        cur = 0
        for j in range(length):
            d = 1 if rng.chance(rate) else 0
            if prof == 0:
                c = rng.int(0, max(npts, 1))
            elif prof == 1:      # slowly increasing best-so-far, as the real model returns
                if rng.chance(0.3):
                    cur = min(max(npts, 1), cur + rng.int(0, 1 + max(npts, 1) // 10))
                c = cur
            elif prof == 2:      # around the decision boundaries
                c = rng.choice([0, ndraw - 1, ndraw, ndraw + 1, 2 * ndraw - 1, 2 * ndraw, 2 * ndraw + 1, mininl])
                c = max(c, 0)
            elif prof == 3:      # low counts: the bound stays high, the loop runs long
                c = rng.int(0, min(max(npts, 1), ndraw + 2))
            elif prof == 4:      # ties
                c = rng.choice([ndraw + 1, ndraw + 1, ndraw + 2])
            elif prof == 5:      # counts beyond the float mantissa
                c = rng.choice([(1 << 24) - 1, 1 << 24, (1 << 24) + 1, (1 << 24) + 2, (1 << 24) + 3, (1 << 25) + 2, (1 << 25) + 6, 5])
            else:                # first draw perfect
                c = npts if j == 0 else rng.int(0, max(npts, 1))
                d = 1 if j == 0 else d
            steps.append((d, c))
        sigma = rng.choice([0.2, 0.05, 1.0])
        line = 'ransac.script %s %d %d %d %d %s' % (D(sigma), npts, ndraw, mininl, length, ' '.join('%d %d' % s for s in steps))
        cases.append(_case('script-%d' % i, [line.strip()], npts=npts, ndraw=ndraw, mininl=mininl))
    return cases


def _dim(ty):
    return 2 if ty[1] == '2' else 3


def gen_rc(rng, n):
    cases = []
    for i in range(n):
        ty = rng.choice(ALL_TYPES)
        lines = []
        # one to three loads on the same model object: the consensus of an earlier load must not survive
        for _ in range(rng.choice([1, 1, 2, 3])):
            lines += _rc_block(rng, ty)
        cases.append(_case('rc-%s-%d' % (ty, i), lines, ty=ty))
    return cases


def _rc_block(rng, ty):
    dim, isf = _dim(ty), ty[2] == 'f'
    mininl = 2 * (3 if dim == 2 else 4)
    npairs = rng.choice([1, mininl - 1, mininl, mininl + 1]) if rng.chance(0.25) else rng.int(1, 40)
    if rng.chance(0.5):
        tg = list(range(npairs))
        rng.shuffle(tg)
    else:
        m = rng.int(1, npairs)
        tg = [rng.below(m) for _ in range(npairs)]
    # distinct (target, distance) keys: std::sort leaves equal keys in unspecified order
    ds = list(range(1, npairs + 1))
    rng.shuffle(ds)
    dist = [d / 1024.0 for d in ds]
    if rng.chance(0.3):
        dist = [0.0 if rng.chance(0.5) else x for x in dist]
        seen = set()
        for j in range(npairs):
            while (tg[j], dist[j]) in seen:
                dist[j] += 1.0 / 1024.0
            seen.add((tg[j], dist[j]))
    lines = ['rc.load %s %d %s' % (ty, npairs, ' '.join('%d %d %s' % (j, tg[j], D(dist[j])) for j in range(npairs)))]
    sigma = rng.choice([0.25, 0.5, 0.125, 1.0]) if rng.chance(0.8) else rng.uniform(0.05, 1.0)
    dyadic = sigma in (0.25, 0.5, 0.125, 1.0)
    q = 16.0 if isf else 1024.0
    rel = 2.0 ** -12 if isf else 2.0 ** -30
    rounds = rng.int(2, 6)
    prev = None
    for r in range(rounds):
        mode = rng.below(8)
        vecs = []
        if mode == 6 and prev is not None:      # same set scaled: same count, better / worse rmse
            f = rng.choice([0.5, 2.0, 1.0])
            vecs = [[c * f for c in v] for v in prev]
        else:
            for j in range(npairs):
                v = [0.0] * dim
                m2 = rng.below(10) if mode != 7 else 9
                if mode == 5:                    # everything exactly at rmse == sigma
                    v[rng.below(dim)] = sigma if dyadic else round(sigma * q) / q
                elif m2 < 5:                     # inlier, a few bits per component (sums exact in any order)
                    lim = max(1, int(sigma * q))
                    v = [rng.int(-lim, lim) / q for _ in range(dim)]
                elif m2 < 7 and dyadic:          # on / next to the 3 sigma threshold, single component
                    v[rng.below(dim)] = 3 * sigma * rng.choice([1.0, 1.0 + rel, 1.0 - rel, -1.0, -(1.0 - rel)])
                elif m2 < 8:                     # gross outlier
                    v = [rng.int(int(4 * sigma * q), int(7.9 * q)) / q * rng.choice([1, -1]) for _ in range(dim)]
                else:                            # zero error
                    pass
                vecs.append(v)
        prev = vecs
        toks = []
        for v in vecs:
            if isf:
                v = [to_f32(c) for c in v]
                sq = [to_f32(c * c) for c in v]
                e = sq[0]
                for s_ in sq[1:]:
                    e = to_f32(e + s_)
            else:
                e = 0.0
                for c in v:
                    e = e + c * c
            toks += [D(c) for c in v] + [D(e)]
        lines.append('rc.count %s %s' % (D(sigma), ' '.join(toks)))
    return lines


def gen_filter(rng, n):
    cases = []
    for i in range(n):
        k = rng.int(0, 60)
        m = rng.int(1, max(1, k))
        ties = rng.chance(0.15)
        cs = []
        for j in range(k):
            s = rng.below(m)
            d = rng.choice([0.0, 0.25, 1.0]) if ties else rng.unit() * rng.choice([1e-3, 1.0, 50.0])
            cs.append((s, j, d))
        cases.append(_case('filter-%d' % i, ['icp.filter %d %s' % (k, ' '.join('%d %d %s' % (s, t, D(d)) for s, t, d in cs))],
                           ties=ties))
    return cases


def gen_icp(rng, tier):
    cases = []
    pts = []
    g = 5 if tier == 'quick' else 9
    for ix in range(g):
        for iy in range(g):
            for it in range(g):
                pts.append((-0.2 + 0.4 * ix / (g - 1), -0.2 + 0.4 * iy / (g - 1), -0.05 + 0.1 * it / (g - 1)))
    nrand = 40 if tier == 'quick' else 4000
    lattice = [(ty, p) for p in pts for ty in ICP_TYPES]
    rand = []
    for j in range(nrand):
        p = (rng.uniform(-0.2, 0.2), rng.uniform(-0.2, 0.2), rng.uniform(-0.05, 0.05))
        if j % 7 == 0:   # faces / edges of the envelope
            p = tuple(rng.choice([-1, 1]) * b if rng.chance(0.5) else x for x, b in zip(p, (0.2, 0.2, 0.05)))
        rand.append((ICP_TYPES[j % 2], p))
    zero = [(ty, (0.0, 0.0, 0.0)) for ty in ICP_TYPES]
    for j, (ty, p) in enumerate(zero + lattice + rand):
        cases.append(_case('icp-%d' % j, ['icp.run %s %s %s %s' % (ty, D(p[0]), D(p[1]), D(p[2]))]))
    ntrace = 6 if tier == 'quick' else 60
    for j in range(ntrace):
        p = (rng.uniform(-0.2, 0.2), rng.uniform(-0.2, 0.2), rng.uniform(-0.05, 0.05))
        if j == 0:
            p = (0.2, 0.2, 0.05)       # the run that uses all ten iterations
        if j == 1:
            p = (0.0, 0.0, 0.0)
        cases.append(_case('icptrace-%d' % j, ['icp.trace %s %s %s %s' % (ICP_TYPES[j % 2], D(p[0]), D(p[1]), D(p[2]))]))
    nmatch = 30 if tier == 'quick' else 600
    for j in range(nmatch):
        ty = rng.choice(['c2d', 'h2d', 'c3d', 'h3d'])
        dim = _dim(ty)
        ns = rng.int(12, 60)
        src = [[rng.uniform(-5, 5) for _ in range(dim)] for _ in range(ns)]
        nt = rng.int(12, 80)
        spread = rng.choice([0.05, 0.5, 3.0])
        tgt = []
        for _ in range(nt):
            b = rng.choice(src)
            tgt.append([c + rng.gauss() * spread for c in b])
        cases.append(_case('icpmatch-%d' % j, ['icp.match %s %d %s %d %s' % (
            ty, ns, ' '.join(D(c) for p in src for c in p), nt, ' '.join(D(c) for p in tgt for c in p))]))
    return cases


def _rot(rng, dim, amax):
    if dim == 2:
        a = rng.uniform(-amax, amax)
        return [[math.cos(a), -math.sin(a)], [math.sin(a), math.cos(a)]]
    ax = [rng.gauss() for _ in range(3)]
    nrm = math.sqrt(sum(c * c for c in ax)) or 1.0
    x, y, z = (c / nrm for c in ax)
    a = rng.uniform(-amax, amax)
    c, s, C = math.cos(a), math.sin(a), 1 - math.cos(a)
    return [[c + x * x * C, x * y * C - z * s, x * z * C + y * s],
            [y * x * C + z * s, c + y * y * C, y * z * C - x * s],
            [z * x * C - y * s, z * y * C + x * s, c + z * z * C]]


def _synth_pairs(rng, dim, n, sigma, frac):
    """n correspondences spread over 20 m, inlier noise 0.3 sigma, round(frac n) gross outliers displaced by > 10 sigma,
    motion up to 0.5 m / 0.2 rad"""
    R = _rot(rng, dim, 0.2)
    tv = [rng.gauss() for _ in range(dim)]
    nrm = math.sqrt(sum(c * c for c in tv)) or 1.0
    mag = rng.uniform(0, 0.5)
    tv = [c / nrm * mag for c in tv]
    nout = int(round(frac * n))
    outl = set(rng.shuffle(list(range(n)))[:nout])
    pairs = []
    for j in range(n):
        s = [rng.uniform(-10, 10) for _ in range(dim)]
        t = [sum(R[r][c] * s[c] for c in range(dim)) + tv[r] + rng.gauss() * 0.3 * sigma for r in range(dim)]
        if j in outl:
            dv = [rng.gauss() for _ in range(dim)]
            dn = math.sqrt(sum(c * c for c in dv)) or 1.0
            m = rng.uniform(10.5, 200.0) * sigma
            t = [t[r] + dv[r] / dn * m for r in range(dim)]
        pairs.append((s, t))
    H = [R[r] + [tv[r]] for r in range(dim)] + [[0.0] * dim + [1.0]]
    return pairs, H, nout


def gen_synth(rng, tier):
    cases = []
    n_sets = 100 if tier == 'quick' else 2000
    for j in range(n_sets):
        ty = ['c2d', 'h2d', 'c3d', 'h3d'][j % 4]
        dim = _dim(ty)
        n = rng.choice([40, 400]) if rng.chance(0.15) else rng.int(40, 400)
        sigma = rng.uniform(0.01, 0.05)
        frac = rng.choice([0.0, 0.3, 0.3]) if rng.chance(0.4) else rng.uniform(0.0, 0.3)
        pairs, H, nout = _synth_pairs(rng, dim, n, sigma, frac)
        line = 'ransac.synth %s %s %d %s %s' % (ty, D(sigma), n, ' '.join(D(c) for s, t in pairs for c in s + t),
                                                ' '.join(D(c) for row in H for c in row))
        cases.append(_case('synth-%d' % j, [line], sigma=sigma, n=n, outliers=nout, ty=ty))
    n_rr = 20 if tier == 'quick' else 300
    for j in range(n_rr):
        ty = ['c2d', 'h2d', 'c3d', 'h3d'][j % 4]
        dim = _dim(ty)
        n = rng.int(12, 80)
        sigma = rng.uniform(0.01, 0.2)
        pairs, H, nout = _synth_pairs(rng, dim, n, sigma, rng.uniform(0, 0.4))
        line = 'rr.real %s %s %d %d %s' % (ty, D(sigma), rng.int(2, 8), n, ' '.join(D(c) for s, t in pairs for c in s + t))
        cases.append(_case('rr-%d' % j, [line], sigma=sigma, n=n, ty=ty))
    return cases


def gen_cases(rng, tier):
    q = tier == 'quick'
    cases = []
    cases += gen_rit(rng.fork(), 400 if q else 40000)
    cases += gen_script(rng.fork(), 500 if q else 60000)
    cases += gen_rc(rng.fork(), 300 if q else 20000)
    cases += gen_filter(rng.fork(), 300 if q else 20000)
    cases += gen_icp(rng.fork(), tier)
    cases += gen_synth(rng.fork(), tier)
    return cases


# ------------------------------------------------------------------------------------------- B: comparison
def _parse_corrs(toks):
    return [tuple(t.split(':')) for t in toks]


def compare(case, li, op, impl, model):
    name = op.split()[0]
    if name in PROBE_OPS:
        return model == 'probe-only'          # compared in the second pass (extra_probe)
    if impl == model:
        return True
    a, b = impl.split(), model.split()
    if len(a) != len(b):
        return False
    if name == 'icp.filter' and case.get('meta', {}).get('ties'):
        # std::sort leaves the order of equal (source, distance) keys unspecified: the target index of a kept pair may then
        # legitimately differ; everything else must agree
        inp = op.split()[2:]
        keys = [(inp[3 * i], inp[3 * i + 2]) for i in range(len(inp) // 3)]
        for x, y in zip(a, b):
            if x == y:
                continue
            xs, ys = x.split(':'), y.split(':')
            if len(xs) != 3 or len(ys) != 3 or (xs[0], xs[2]) != (ys[0], ys[2]) or keys.count((xs[0], xs[2])) < 2:
                return False
        return True
    for x, y in zip(a, b):
        if x == y:
            continue
        xs, ys = x.split(':'), y.split(':')
        if len(xs) == 3 and len(ys) == 3 and xs[:2] == ys[:2] and float_close(xs[2], ys[2], ulps=2):
            continue
        if name == 'rc.count' and x[:1] == 'd' and y[:1] == 'd' and float_close(x, y, ulps=4):
            continue
        return False
    return True


# ------------------------------------------------------------------------------------------- C: oracle
_PHASE2 = []          # (case_index, kind, op line, implementation output) for the second pass
_CALLS = [0]


def oracle(case, out, stats):
    ci = _CALLS[0]
    _CALLS[0] += 1
    fails = []
    st = {}
    for line, o in zip(case['lines'], out):
        tk = line.split()
        op = tk[0]
        stats[op] = stats.get(op, 0) + 1

        def bad(kind, detail, **fields):
            fails.append({'kind': kind, 'detail': '%s -> %s : %s' % (line[:160], o[:200], detail), 'fields': fields})
        if o in ('abort', 'hang', 'exception', 'skipped', 'bad-op') or o.startswith('err-mismatch'):
            bad('outcome-' + o.split()[0], 'unexpected outcome')
            break
        f = o.split()
        if op == 'rit.run':
            vals = [tok_val(x) for x in f[1:]]
            cap = int(tk[3])
            if vals[0] != float(cap):
                bad('iteration-bound', 'initial bound is not the cap')
            if any(not (b <= a) for a, b in zip(vals, vals[1:])) or any(not (0 <= v <= cap) for v in vals):
                bad('iteration-bound', 'bound increased or left [0, cap]')
            stats['bound_updates'] = stats.get('bound_updates', 0) + len(vals) - 1
        elif op == 'ransac.script':
            npts, ndraw, mininl, n = int(tk[2]), int(tk[3]), int(tk[4]), int(tk[5])
            steps = [(tk[6 + 2 * j] == '1', int(tk[7 + 2 * j])) for j in range(n)]
            ret, draws, counts, refines = f[1] == '1', int(f[3]), int(f[5]), int(f[7])
            if npts < mininl:
                if ret or draws or counts or refines:
                    bad('script', 'too few points but the model was used')
                continue
            used = steps[:draws]
            best = max([f32round_nat(c) for d, c in used if d] + [0])
            if ret != (best > ndraw):
                bad('success-implies-consensus', 'returned %s with best consensus %d, draw size %d' % (ret, best, ndraw))
            if refines != (1 if ret else 0) or counts != sum(1 for d, c in used if d) + 0 or draws > 1000:
                bad('script', 'refine/count/draw calls inconsistent with the script')
            stats['script_long_runs'] = stats.get('script_long_runs', 0) + (1 if draws >= 999 else 0)
        elif op == 'rc.load':
            st = {'mininl': 2 * (3 if _dim(tk[1]) == 2 else 4), 'best': 0, 'isf': tk[1][2] == 'f'}
        elif op == 'rc.count':
            sigma = tok_val(tk[1])
            i = f.index('inl')
            ninl = int(f[i + 1])
            j = f.index('bestrmse')
            inl = _parse_corrs(f[i + 2:j])
            bestrmse = tok_val(f[j + 1])
            nb = int(f[j + 3])
            best = _parse_corrs(f[j + 4:])
            ret = int(f[1])
            isf = st.get('isf', False)
            thr = 9 * sigma * sigma
            if isf:
                thr = to_f32(thr)
            if ret != nb or len(best) != nb or len(inl) != ninl:
                bad('consensus', 'returned count is not the size of the best set')
            if any(not (tok_val(c[2]) < thr) for c in best) or any(not (tok_val(c[2]) < thr) for c in inl):
                bad('inlier-3sigma', 'a consensus member has squared error >= 9 sigma^2')
            if nb and (nb < st['mininl'] or not (bestrmse < sigma)):
                bad('consensus', 'stored consensus smaller than the minimum or rmse >= sigma')
            if nb < st['best']:
                bad('consensus', 'best consensus shrank')
            st['best'] = nb
            stats['rc_accepted'] = stats.get('rc_accepted', 0) + (1 if nb else 0)
        elif op == 'icp.filter':
            k = int(tk[1])
            inp = [(int(tk[2 + 3 * j]), int(tk[3 + 3 * j]), tok_val(tk[4 + 3 * j])) for j in range(k)]
            kept = [(int(a), int(b), tok_val(c)) for a, b, c in _parse_corrs(f[2:])]
            _check_filter(inp, kept, bad)
        elif op == 'icp.run':
            found, err = f[1] == '1', tok_val(f[3])
            tx, ty, th = (tok_val(x) for x in tk[2:5])
            stats['icp_runs'] = stats.get('icp_runs', 0) + 1
            stats['icp_worst_err'] = max(stats.get('icp_worst_err', 0.0), err if found and err <= TOL else 0.0)
            if not found or not (err <= TOL):
                bad('icp-envelope', 'found=%s error=%.4g at tx=%.4f ty=%.4f theta=%.4f (%s)' % (found, err, tx, ty, th, tk[1]),
                    tx=tx, ty=ty, theta=th, type=tk[1])
        elif op == 'ransac.synth':
            ret, err, rmse = f[1] == '1', tok_val(f[3]), tok_val(f[5])
            sigma = tok_val(tk[2])
            stats['synth_sets'] = stats.get('synth_sets', 0) + 1
            stats['synth_worst_err'] = max(stats.get('synth_worst_err', 0.0), err)
            if not ret or not (err <= TOL) or not (rmse < sigma):
                bad('ransac-outliers', 'ret=%s error=%.4g rmse=%.4g sigma=%.4g n=%s outliers=%s' % (
                    ret, err, rmse, sigma, tk[3], case.get('meta', {}).get('outliers')), type=tk[1])
        elif op in ('rr.real', 'icp.trace', 'icp.match'):
            _PHASE2.append((ci, op, line, o))
    return fails


def _check_filter(inp, kept, bad):
    srcs = [c[0] for c in kept]
    if len(set(srcs)) != len(srcs):
        bad('one-to-one', 'a source index repeats after filtering')
    if srcs != sorted(srcs):
        bad('one-to-one', 'kept pairs not ordered by source index')
    if set(srcs) != set(c[0] for c in inp):
        bad('one-to-one', 'a matched source index was dropped')
    for s, t, d in kept:
        cands = [c for c in inp if c[0] == s]
        if (s, t, d) not in cands or d != min(c[2] for c in cands):
            bad('one-to-one', 'kept pair (%d,%d) is not the closest of its source' % (s, t))


# ------------------------------------------------------------------------------------------- second pass
def _run(exe, lines):
    text = ''.join('#case %d\n%s\n' % (i, l) for i, l in enumerate(lines))
    p = subprocess.run([exe], input=text, stdout=subprocess.PIPE, stderr=subprocess.DEVNULL, text=True, timeout=1800)
    out, cur = [], None
    for l in p.stdout.split('\n'):
        if l == '#':
            cur = []
            out.append(cur)
        elif cur is not None and l != '':
            cur.append(l)
    return out


def extra_probe(ctx, stats):
    """feed the oracle outputs observed on the real pipeline to the Lean model and compare (ties rr.real / icp.match / icp.trace)"""
    fails = []
    items, _PHASE2[:] = list(_PHASE2), []
    if not items:
        return fails
    drv = os.path.join(ctx['lean'], '.lake', 'build', 'bin', DRIVER)
    if not os.path.exists(drv):
        return [{'kind': 'tie2-no-driver', 'detail': 'model driver missing: second-pass ties not run', 'fields': {}, 'case_index': items[0][0]}]
    jobs = []        # (ci, op, description, model case text (joined lines), expected outputs, comparer)
    for ci, op, line, o in items:
        tk, f = line.split(), o.split()
        try:
            if op == 'icp.match':
                i = f.index('kept')
                raw, kept = f[2:i], f[i + 2:]
                mline = 'icp.filter %d %s' % (len(raw), ' '.join(' '.join(c.split(':')) for c in raw))
                jobs.append((ci, op, line, [mline], ['kept %d %s' % (len(kept), ' '.join(kept))], raw))
                _check_filter([(int(a), int(b), tok_val(c)) for a, b, c in _parse_corrs(raw)],
                              [(int(a), int(b), tok_val(c)) for a, b, c in _parse_corrs(kept)],
                              lambda kind, detail, **fields: fails.append(
                                  {'kind': kind, 'detail': 'icp.match: ' + detail, 'fields': fields, 'case_index': ci}))
            elif op == 'icp.trace':
                ncap = int(f[1])
                recs = [f[2 + 12 * c: 2 + 12 * (c + 1)] for c in range(ncap)]
                mlines, exp = [], []
                for cap in range(1, ncap + 1):
                    steps = ' '.join(' '.join(r[1:]) for r in recs[:cap])
                    mlines.append('icp.loop %d %s 3 %d %s' % (cap, D(_icp_eps(ctx)), cap, steps))
                    exp.append(recs[cap - 1][0])
                jobs.append((ci, op, line, mlines, exp, None))
            elif op == 'rr.real':
                ty, sigma, n = tk[1], tk[2], int(tk[4])
                mlines = ['rc.load %s %d %s' % (ty, n, ' '.join('%d %d %s' % (j, j, D(0.0)) for j in range(n)))]
                exp = [None]
                pad = ' '.join([D(0.0)] * _dim(ty))
                i = 2
                for r in range(int(f[1])):
                    assert f[i] == 'draw' and f[i + 2] == 'errs'
                    errs = f[i + 3:i + 3 + n]
                    j = i + 3 + n
                    assert f[j] == 'ret'
                    k = j
                    while k < len(f) and f[k] != 'draw':
                        k += 1
                    mlines.append('rc.count %s %s' % (sigma, ' '.join('%s %s' % (pad, e) for e in errs)))
                    exp.append(' '.join(f[j:k]))
                    i = k
                jobs.append((ci, op, line, mlines, exp, None))
        except Exception as e:
            fails.append({'kind': 'tie2-malformed', 'detail': '%s: %r' % (line[:120], e), 'fields': {}, 'case_index': ci})
    text = ''.join('#case %d\n%s\n' % (i, '\n'.join(j[3])) for i, j in enumerate(jobs))
    p = subprocess.run([drv], input=text, stdout=subprocess.PIPE, stderr=subprocess.DEVNULL, text=True, timeout=3600)
    outs, cur = [], None
    for l in p.stdout.split('\n'):
        if l == '#':
            cur = []
            outs.append(cur)
        elif cur is not None and l != '':
            cur.append(l)
    for (ci, op, line, mlines, exp, aux), mo in zip(jobs, outs + [[]] * (len(jobs) - len(outs))):
        stats['tie2_' + op] = stats.get('tie2_' + op, 0) + 1
        ok = len(mo) == len(mlines)
        detail = ''
        if ok:
            for k, (e, m) in enumerate(zip(exp, mo)):
                if e is None:
                    continue
                if op == 'icp.trace':
                    good = m.split()[:2] == ['flag', e]
                elif op == 'icp.match':
                    good = compare({'meta': {'ties': True}}, 0, mlines[k], e, m)
                else:
                    good = compare({'meta': {}}, 0, mlines[k], e, m)
                stats['tie2_lines'] = stats.get('tie2_lines', 0) + 1
                if not good:
                    ok = False
                    detail = 'pass-2 line %d: implementation %s | model %s' % (k, e[:200], m[:200])
                    break
        else:
            detail = 'model driver answered %d of %d lines' % (len(mo), len(mlines))
        if not ok:
            fails.append({'kind': 'tie2-disagreement', 'detail': '%s: %s -- %s' % (op, line[:100], detail), 'fields': {'op': op},
                          'case_index': ci})
    return fails


def _icp_eps(ctx):
    m, e = scrape(ctx['repo'])[0]['icpEpsilon']
    return m / (10.0 ** e)
