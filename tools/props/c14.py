"""C14 — ray casting visits a connected, in-bounds chain of cells covering the segment (DESIGN.md section 6, C14).

Cases are cast SEQUENCES on one caster object: `ray.new` (grid + caster), then any mix of the three `cast`
overloads, `setOriginPoint`, `setEndPoint`, iterative `next` calls and deliberately stale operations (a second
bare `cast()`, `setOriginPoint` without `setEndPoint`, bare `next` calls between casts).

* compare(): outputs must be identical, except that in a chain with known geometry two steps whose crossing
  parameters are closer than the rounding tolerance may come in either order (a harmless re-association can
  flip them).  Cases built to have EXACT ties (dyadic, mirror-symmetric geometry: both axes run through
  bit-identical arithmetic) are compared exactly — that is where a changed tie-break shows.
* oracle(): the property on the implementation's outputs — length, start cell, face-adjacency, bounds,
  eps-inflated segment/cell intersection of every visited cell, end-cell rule, history independence.
  A chain that leaves the grid or does not end in the end point's cell is always a failure (the former finding
  "ill-conditioned-axis" was repaired in /repo by 5c8bf28: `next` never selects an axis whose crossings are all
  done); its two witness inputs are regression cases in corpus/C14/, and the random `straddle` ray kind keeps
  visiting that class (rays parallel to an axis up to a few ulp that straddle a cell border on that axis).
"""
import math
import vlib
from vlib import to_f32

ID = 'C14'
LEVEL = 'proof'
DRIVER = 'drv_c14'
HARNESS = 'c14.cpp'
SOURCES = ['src/containers/grid/RayTracing.cpp', 'src/containers/grid/GridIndexMapping.cpp']
PROOF_MODULES = ['RomeaProofs.Properties.C14', 'RomeaProofs.Bridge.C14', 'RomeaProofs.Bridge.C14Cor',
                 'RomeaProofs.Bridge.C14Cast', 'RomeaProofs.Bridge.C14CastCor']
TRUSTED = ['harness/c14.cpp refuses (bad-op) what is undefined behaviour in the library: points outside the extent, '
           'setEndPoint with an origin cell outside the centre table; the model driver applies the same tests',
           'the order in which Eigen adds the squares in Vector3f/Vector3d::norm() (model: Spec.sqNorm) is compiler/Eigen '
           'specific; it was measured on this toolchain and is re-checked by every correspondence run']
ASSUMPTIONS = ['theorems are over the reals (and RN for the coincident case) with a sentinel larger than the ray length; '
               'floating-point rounding of the crossing parameters (which cell a near-tie enters first, an end point within '
               'rounding distance of a cell border) is covered by the correspondence check and by the probe with an explicit '
               'eps = (L1+8)*machine_eps*range + 8*machine_eps*max|coordinate|',
               'the probe takes the cell geometry from the implementation\'s own centre table (first centre per axis), i.e. it '
               'checks the rays against the grid as built; that the grid covers the requested extent is C13',
               'scalar-generic counting theorems (length, face adjacency, index box, end cell) hold for every scalar type under '
               'stated residual hypotheses on the comparisons (strict order; a non-exhausted axis keeps a crossing parameter below '
               'the sentinel; step sign agrees with the index order); for Float/Float32 these hypotheses are not provable in Lean '
               '(opaque types) and are covered by the correspondence check and the probe']
EXPLANATION = ('proof over the reals of length / start / face-adjacency / crossing / bounds / end-cell / history independence on '
               'the Lean model + differential correspondence on cast sequences (float and double, 2D and 3D) + geometric probe')

EPS = {'d': 2.0 ** -52, 'f': 2.0 ** -23}
BAD = ('abort', 'hang', 'exception', 'skipped', 'bad-op')


# ----------------------------------------------------------------------------------------------- generator
def _q(T, x):
    return to_f32(x) if T == 'f' else float(x)


def _tok(T, x):
    return vlib.S(x) if T == 'f' else vlib.D(x)


def _pt(T, p):
    return ' '.join(_tok(T, x) for x in p)


class _Grid:
    """python-side picture of the grid, only used to aim the generated points"""

    def __init__(self, T, dim, lo, hi, r):
        self.T, self.dim, self.lo, self.hi, self.r = T, dim, lo, hi, r
        self.fl = [math.floor(l / r) for l in lo]
        self.fmin = [r * (f - 0.5) for f in self.fl]
        self.n = [int(math.ceil(h / r) - f + 1) for h, f in zip(hi, self.fl)]

    def clamp(self, p):
        return [min(max(_q(self.T, x), l), h) for x, l, h in zip(p, self.lo, self.hi)]

    def line(self):
        return 'ray.new %s %d %s %s %s' % (self.T, self.dim, _pt(self.T, self.lo), _pt(self.T, self.hi), _tok(self.T, self.r))


def _resolution(rng):
    m = rng.below(4)
    if m == 0:
        return rng.choice([0.1, 0.05, 0.2, 0.01, 0.25, 0.5, 1.0, 0.02, 0.3, 0.125])
    if m == 1:
        return rng.uniform(0.01, 1.0)
    if m == 2:
        return rng.loguniform(0.01, 1.0)
    return rng.choice([1.0, 0.5, 0.25, 0.125, 0.0625, 0.03125, 0.015625])


def _ncells(rng, tier):
    m = rng.below(20)
    if m < 4:
        return rng.int(1, 12)
    if m < 17:
        return int(rng.loguniform(5, 300))
    if m < 19:
        return int(rng.loguniform(100, 800))
    return rng.int(1200, 1990)


def _make_grid(rng, T, dim, tier):
    r = _q(T, _resolution(rng))
    lo, hi = [], []
    sym = rng.chance(0.2)
    same = rng.chance(0.3)
    n0 = _ncells(rng, tier)
    for i in range(dim):
        n = n0 if (same or sym) else _ncells(rng, tier)
        if dim == 3 and n > 400 and rng.chance(0.7):
            n = int(rng.loguniform(5, 300))
        if sym:
            R = _q(T, n * r / 2)
            lo.append(-R)
            hi.append(R)
            continue
        span = n * r
        m = rng.below(4)
        if m == 0:
            l = rng.int(-int(1000 / r) + 1, int((1000 - span) / r) - 1) * r          # multiple of r
        elif m == 1:
            l = (rng.int(-int(1000 / r) + 1, int((1000 - span) / r) - 1) + 0.5) * r    # half multiple
        elif m == 2:
            l = rng.uniform(-1000, 1000 - span)
        else:
            l = rng.uniform(-50, 50 - min(span, 40))
        m = rng.below(3)
        h = l + span if m == 0 else (l + span - rng.uniform(0, 1) * r if m == 1 else l + span + 0.5 * r)
        l, h = _q(T, l), _q(T, h)
        if h < l:
            h = l
        lo.append(l)
        hi.append(h)
    if same and not sym:
        lo = [lo[0]] * dim
        hi = [hi[0]] * dim
    return _Grid(T, dim, lo, hi, r)


def _coord(rng, g, i, kind):
    lo, hi, r = g.lo[i], g.hi[i], g.r
    if kind == 'generic':
        return rng.uniform(lo, hi)
    if kind == 'lo':
        return lo
    if kind == 'hi':
        return hi
    k = rng.int(0, max(0, g.n[i] - 1))
    if kind == 'centre':
        return g.fmin[i] + (k + 0.5) * r
    if kind == 'border':
        return g.fmin[i] + (k + rng.below(2)) * r
    if kind == 'nearborder':
        b = g.fmin[i] + (k + rng.below(2)) * r
        x = _q(g.T, b)
        for _ in range(rng.int(1, 3)):
            x = math.nextafter(x, math.inf if rng.chance(0.5) else -math.inf) if g.T == 'd' else \
                to_f32(x + (1 if rng.chance(0.5) else -1) * abs(x) * 2.0 ** -23 + (5e-324 if x == 0 else 0))
        return x
    raise ValueError(kind)


KINDS = ['generic', 'generic', 'generic', 'centre', 'border', 'nearborder', 'lo', 'hi']


def _point(rng, g, kind=None):
    """kind None: independent kinds per axis; 'corner': every axis on a border; 'centre': cell centre …"""
    if kind is None:
        p = [_coord(rng, g, i, rng.choice(KINDS)) for i in range(g.dim)]
    elif kind == 'corner':
        p = [_coord(rng, g, i, 'border') for i in range(g.dim)]
    elif kind == 'extent':
        p = [_coord(rng, g, i, rng.choice(['lo', 'hi'])) for i in range(g.dim)]
    else:
        p = [_coord(rng, g, i, kind) for i in range(g.dim)]
    return g.clamp(p)


def _ulps(T, x, k):
    """x moved by k units in the last place of the scalar type (k may be negative)"""
    for _ in range(abs(k)):
        if T == 'd':
            x = math.nextafter(x, math.inf if k > 0 else -math.inf)
        else:
            b = vlib.f32_bits(x)
            if x == 0:
                x = vlib.bits_f32(1 if k > 0 else 0x80000001)
            elif (x > 0) == (k > 0):
                x = vlib.bits_f32(b + 1)
            else:
                x = vlib.bits_f32(b - 1)
    return x


def _straddle(rng, g):
    """a ray that is parallel to one axis up to a few ulp, its two end points on opposite sides of (or on) a cell
    border of that axis; the other axes are generic or run to the edge of the grid"""
    d = g.dim
    i = rng.below(d)
    o = _point(rng, g, 'generic')
    e = _point(rng, g, rng.choice(['generic', 'extent', 'generic']))
    k = rng.int(1, max(1, g.n[i] - 1))
    b = _q(g.T, g.fmin[i] + k * g.r)
    ko, ke = rng.int(-3, 0), rng.int(0, 3)
    if rng.chance(0.5):
        ko, ke = -ke, -ko
    o[i] = _ulps(g.T, b, ko)
    e[i] = _ulps(g.T, b, ke)
    return 'straddle', g.clamp(o), g.clamp(e)


def _ray(rng, g):
    """one (origin, end) pair; returns (kind, o, e)"""
    m = rng.below(17)
    d = g.dim
    if m == 16:
        return _straddle(rng, g)
    if m < 5:
        return 'generic', _point(rng, g, 'generic'), _point(rng, g, 'generic')
    if m < 7:
        return 'mixed', _point(rng, g), _point(rng, g)
    if m == 7:                                            # axis aligned (one or, in 3D, two moving axes)
        o = _point(rng, g, rng.choice([None, 'generic', 'centre', 'corner']))
        e = list(o)
        for i in rng.shuffle(list(range(d)))[:rng.int(1, d - 1)]:
            e[i] = _coord(rng, g, i, rng.choice(KINDS))
        return 'axis', o, g.clamp(e)
    if m == 8:                                            # diagonal in units of the resolution (approximate unless dyadic)
        o = _point(rng, g, rng.choice(['centre', 'corner', 'generic']))
        k = rng.int(1, max(1, min(g.n) - 1))
        axes = rng.shuffle(list(range(d)))[:rng.int(2, d)]
        e = list(o)
        for i in axes:
            e[i] = o[i] + (1 if rng.chance(0.5) else -1) * k * g.r
        return 'diagonal', o, g.clamp(e)
    if m == 9:
        o = _point(rng, g)
        return 'coincident', o, list(o)
    if m == 10:                                           # short: same or neighbouring cells
        o = _point(rng, g)
        e = [x + rng.uniform(-2, 2) * g.r * (0 if rng.chance(0.2) else 1) for x in o]
        return 'short', o, g.clamp(e)
    if m == 11:                                           # across the whole grid
        o = [g.lo[i] if rng.chance(0.5) else g.hi[i] for i in range(d)]
        e = [g.hi[i] if o[i] == g.lo[i] else g.lo[i] for i in range(d)]
        if rng.chance(0.5):
            o = [x + rng.uniform(0, 1) * g.r for x in o]
            e = [x - rng.uniform(0, 1) * g.r for x in e]
        return 'long', g.clamp(o), g.clamp(e)
    if m == 12:
        return 'corner', _point(rng, g, 'corner'), _point(rng, g, rng.choice(['corner', 'generic', 'centre']))
    if m == 13:
        return 'centre', _point(rng, g, 'centre'), _point(rng, g, rng.choice(['corner', 'generic', 'centre']))
    if m == 14:
        return 'border-end', _point(rng, g, 'generic'), _point(rng, g, rng.choice(['corner', 'border', 'extent', 'nearborder']))
    return 'extent', _point(rng, g, 'extent'), _point(rng, g, rng.choice(['extent', 'generic']))


def _emit_ray(rng, g, lines, o, e, form=None):
    T = g.T
    f = rng.below(10) if form is None else form
    if f < 5:
        lines.append('ray.castoe %s %s' % (_pt(T, o), _pt(T, e)))
    elif f < 7:
        lines += ['ray.origin ' + _pt(T, o), 'ray.castto ' + _pt(T, e)]
    elif f < 8:
        lines += ['ray.origin ' + _pt(T, o), 'ray.end ' + _pt(T, e), 'ray.cast']
    else:                                                  # iterative casting as in the repo's test
        lines += ['ray.origin ' + _pt(T, o), 'ray.end ' + _pt(T, e), 'ray.cur']
        lines += ['ray.next'] * rng.int(1, 40)


def _junk(rng, g, lines):
    """operations that leave the caster in a state a following cast(o, e) must not depend on"""
    j = rng.below(8)
    T = g.T
    if j == 0:
        lines += ['ray.next'] * rng.int(1, 5)
    elif j == 1:
        lines.append('ray.cast')                            # bare cast on consumed crossing parameters
    elif j == 2:
        lines.append('ray.origin ' + _pt(T, _point(rng, g)))  # origin moved, end / crossing parameters stale
    elif j == 3:
        lines += ['ray.origin ' + _pt(T, _point(rng, g)), 'ray.cast']
    elif j == 4:
        lines += ['ray.cur'] + ['ray.next'] * rng.int(1, 6)
    elif j == 5:
        lines.append('ray.ncells')
    elif j == 6:
        lines += ['ray.origin ' + _pt(T, _point(rng, g)), 'ray.end ' + _pt(T, _point(rng, g))]
    else:
        lines += ['ray.origin ' + _pt(T, _point(rng, g)), 'ray.end ' + _pt(T, _point(rng, g)), 'ray.next', 'ray.next']


def _exact_case(rng, T, dim, idx):
    """dyadic, mirror-symmetric geometry: the tied axes go through bit-identical arithmetic, so ties are exact"""
    r = rng.choice([1.0, 0.5, 0.25, 0.125, 0.0625])
    n = rng.int(4, 60)
    lo1 = rng.int(-40, 10) * r
    g = _Grid(T, dim, [lo1] * dim, [lo1 + n * r] * dim, r)
    lines = [g.line()]
    nr = rng.int(3, 10)
    for _ in range(nr):
        tied = rng.shuffle(list(range(dim)))[:rng.int(2, dim)]
        sgn = [1 if rng.chance(0.5) else -1 for _ in range(dim)]
        samesign = rng.chance(0.3)
        if samesign:
            sgn = [sgn[0]] * dim
        h = rng.choice([0.25, 0.5, 0.75]) * r if not samesign else rng.choice([0.25, 0.5, 0.75, 1.0, 0.0]) * r
        m = rng.int(0, n - 2)
        endcorner = rng.chance(0.35)
        o, e = [], []
        for i in range(dim):
            if i in tied:
                # border B, origin h before it in the direction of travel, m more cells to go
                kmin, kmax = (1, n - m) if sgn[i] > 0 else (m, n - 1)
                if kmin > kmax:
                    kmin = kmax = max(1, min(n - 1, kmin))
                B = g.fmin[i] + rng.int(kmin, kmax) * r
                oo = B - sgn[i] * h
                ee = oo + sgn[i] * (m * r + (h if endcorner else 0.0))
                if endcorner and not samesign:
                    ee = oo + sgn[i] * (h + m * r)
            else:
                oo = g.fmin[i] + rng.int(1, n - 1) * r + rng.choice([0.0, 0.25, 0.5]) * r
                ee = g.fmin[i] + rng.int(1, n - 1) * r + rng.choice([0.0, 0.25, 0.5]) * r
            o.append(oo)
            e.append(ee)
        o, e = g.clamp(o), g.clamp(e)
        _emit_ray(rng, g, lines, o, e)
        if rng.chance(0.3):
            _junk(rng, g, lines)
    return {'name': 'exact-%s%d-%d' % (T, dim, idx), 'lines': lines, 'meta': {'exact': True, 'T': T, 'dim': dim}}


def gen_cases(rng, tier):
    cases = []
    n_cases = 1200 if tier == 'quick' else 12000
    n_exact = 250 if tier == 'quick' else 2500
    for ci in range(n_cases):
        T = 'd' if rng.chance(0.5) else 'f'
        dim = 2 if rng.chance(0.5) else 3
        g = _make_grid(rng, T, dim, tier)
        lines = [g.line()]
        rays = []
        nr = rng.int(8, 22) if tier == 'quick' else rng.int(10, 30)
        big = max(g.n) > 500
        if big:
            nr = min(nr, 6)
        for k in range(nr):
            if rays and rng.chance(0.25):                  # an earlier ray again, in a possibly different form
                kind, o, e = rng.choice(rays)
                _emit_ray(rng, g, lines, o, e, form=rng.below(8))
            else:
                kind, o, e = _ray(rng, g)
                rays.append((kind, o, e))
                _emit_ray(rng, g, lines, o, e)
            if rng.chance(0.35):
                _junk(rng, g, lines)
        cases.append({'name': 'rays-%s%d-%d' % (T, dim, ci), 'lines': lines,
                      'meta': {'T': T, 'dim': dim, 'kinds': sorted({k for k, _, _ in rays})}})
    for ci in range(n_exact):
        cases.append(_exact_case(rng, 'd' if rng.chance(0.5) else 'f', 2 if rng.chance(0.5) else 3, ci))
    return cases


def focused_cases(rng, disagreeing, tier):
    """re-cast the rays of the disagreeing cases, each as an isolated cast(o, e), plus the exact-tie family"""
    out = []
    for c in disagreeing[:10]:
        head = c['lines'][0]
        lines = [head]
        o = None
        for l in c['lines'][1:]:
            tk = l.split()
            d = int(head.split()[2])
            if tk[0] == 'ray.origin':
                o = tk[1:]
            elif tk[0] in ('ray.castto', 'ray.end') and o:
                lines.append('ray.castoe %s %s' % (' '.join(o), ' '.join(tk[1:1 + d])))
            elif tk[0] == 'ray.castoe':
                lines.append(l)
        if len(lines) > 1:
            out.append({'name': 'focused:' + c.get('name', ''), 'lines': lines, 'meta': dict(c.get('meta', {}))})
    for i in range(200):
        out.append(_exact_case(rng, 'd' if rng.chance(0.5) else 'f', 2 if rng.chance(0.5) else 3, 100000 + i))
    return out


# ----------------------------------------------------------------------------------------------- shared context
_MEMO = {}


def _memo(case):
    """per-case scratch data (kept out of the case dict so that replays stay clean)"""
    ent = _MEMO.get(id(case))
    if ent is None or ent[0] is not case:
        ent = (case, {})
        _MEMO[id(case)] = ent
    return ent[1]


def _context(case):
    """per line: what the caster has been told so far.  kind ∈ new | origin | end | full (a cast whose (o, e) are known and
    whose crossing parameters are fresh) | stale | cur | next (inside an iterative run started on fresh parameters) |
    next-stale | other"""
    memo = _memo(case)
    if 'ctx' in memo:
        return memo['ctx']
    ctx = []
    o = e = None
    fresh = False
    run = None            # line index of the `ray.cur` that started an iterative run on fresh parameters
    ray_line = None       # line of the setEndPoint (end / castto / castoe) that built the current crossing parameters
    head = case['lines'][0].split()
    T, dim = (head[1], int(head[2])) if len(head) > 2 and head[0] == 'ray.new' else ('d', 2)
    for li, line in enumerate(case['lines']):
        tk = line.split()
        op = tk[0]
        vals = None
        try:
            vals = [vlib.tok_val(t) for t in tk[1:]] if op in ('ray.origin', 'ray.end', 'ray.castto', 'ray.castoe') else None
        except Exception:
            vals = None
        if op in ('ray.end', 'ray.castto', 'ray.castoe') and vals is not None:
            ray_line = li
        ent = {'kind': 'other', 'o': o, 'e': e, 'T': T, 'dim': dim, 'op': op, 'ray_line': ray_line}
        if op == 'ray.new':
            ent['kind'] = 'new'
            o = e = None
            fresh, run = False, None
            ray_line = ent['ray_line'] = None
        elif op == 'ray.origin' and vals is not None and len(vals) == dim:
            o = vals
            fresh, run = False, None
            ent.update(kind='origin', o=o)
        elif op == 'ray.end' and vals is not None and len(vals) == dim:
            e = vals
            fresh, run = o is not None, None
            ent.update(kind='end', e=e)
        elif op == 'ray.castto' and vals is not None and len(vals) == dim:
            e = vals
            ent.update(kind='full' if o is not None else 'stale', e=e)
            fresh, run = False, None
        elif op == 'ray.castoe' and vals is not None and len(vals) == 2 * dim:
            o, e = vals[:dim], vals[dim:]
            ent.update(kind='full', o=o, e=e)
            fresh, run = False, None
        elif op == 'ray.cast':
            ent['kind'] = 'full' if fresh else 'stale'
            fresh, run = False, None
        elif op == 'ray.cur':
            ent['kind'] = 'cur'
            run = li if fresh else None
            ent['run'] = run
        elif op == 'ray.next':
            ent['kind'] = 'next' if run is not None else 'next-stale'
            ent['run'] = run
            fresh = False
        else:
            run = run if op == 'ray.ncells' else None
        ctx.append(ent)
    memo['ctx'] = ctx
    return ctx


def _signed(x):
    """size_t printed in decimal -> the integer it stands for (0 - 1 wraps to 2^64 - 1)"""
    x = int(x)
    return x - (1 << 64) if x >= (1 << 63) else x


def _cells(toks):
    return [tuple(map(_signed, t.split(':'))) for t in toks]


def _parse_chain(line):
    """'o <cell> e <cell> c <len> cells…' -> (ocell, ecell, [cells]) or None"""
    tk = line.split()
    if len(tk) < 6 or tk[0] != 'o' or tk[2] != 'e' or tk[4] != 'c':
        return None
    try:
        n = int(tk[5])
        cells = _cells(tk[6:])
        if n != len(cells):
            return None
        return _cells([tk[1]])[0], _cells([tk[3]])[0], cells
    except ValueError:
        return None


def _geometry(case, impl_banner):
    """first centre per axis, N per axis, r — from the implementation's answer to ray.new"""
    head = case['lines'][0].split()
    T, dim = head[1], int(head[2])
    r = vlib.tok_val(head[3 + 2 * dim])
    lo = [vlib.tok_val(t) for t in head[3:3 + dim]]
    hi = [vlib.tok_val(t) for t in head[3 + dim:3 + 2 * dim]]
    b = impl_banner.split()
    if len(b) != 2 + 3 * dim or b[0] != 'n' or b[1 + dim] != 'c':
        return None
    n = [int(x) for x in b[1:1 + dim]]
    c0 = [vlib.tok_val(b[2 + dim + 2 * i]) for i in range(dim)]
    return {'T': T, 'dim': dim, 'r': r, 'lo': lo, 'hi': hi, 'n': n, 'c0': c0}


def _crossing_params(geo, o, e, ocell):
    """returns f(axis, m) = parameter u in [0,1] units of the (m+1)-th border crossing on that axis (None if the axis
    does not move)"""
    r, c0 = geo['r'], geo['c0']

    def u(i, m):
        dlt = e[i] - o[i]
        if dlt == 0:
            return None
        s = 1 if dlt > 0 else -1
        border = c0[i] + (ocell[i] + 0.5 * s + s * m) * r
        return (border - o[i]) / dlt
    return u


def _mirror_axes(geo, o, e, ocell, a, b):
    """the two axes run through bit-identical arithmetic (same |component|, same distance to the first border, same
    axis geometry): a tie between them is exact whatever the rounding, so its resolution is the code's tie-break"""
    r, c0 = geo['r'], geo['c0']
    da, db = e[a] - o[a], e[b] - o[b]
    if da == 0 or abs(da) != abs(db) or c0[a] != c0[b]:
        return False
    ha = abs(c0[a] + (ocell[a] + (0.5 if da > 0 else -0.5)) * r - o[a])
    hb = abs(c0[b] + (ocell[b] + (0.5 if db > 0 else -0.5)) * r - o[b])
    return ha == hb


class _RayTrack:
    """what both sides have consumed of one ray's crossing parameters since the setEndPoint that created them"""

    def __init__(self, geo, o, e, ocell, exact):
        self.geo, self.o, self.e, self.ocell, self.exact = geo, o, e, ocell, exact
        self.u = _crossing_params(geo, o, e, ocell)
        self.ca = [0] * geo['dim']
        self.cb = [0] * geo['dim']
        self.k = 0
        self.seqa, self.seqb = [], []

    def step(self, pa, qa, pb, qb):
        """one `next` on each side: cell pa -> qa (implementation), pb -> qb (model)"""
        dim = self.geo['dim']
        da = [i for i in range(dim) if qa[i] != pa[i]]
        db = [i for i in range(dim) if qb[i] != pb[i]]
        self.k += 1
        if not da and not db:
            return True                       # a zero-step (sentinel) axis on both sides: nothing observable
        if len(da) != 1 or len(db) != 1:
            return False
        ia, ib = da[0], db[0]
        if qa[ia] - pa[ia] != qb[ib] - pb[ib] and ia == ib:
            return False
        if (ia, self.ca[ia]) != (ib, self.cb[ib]):
            ua, ub = self.u(ia, self.ca[ia]), self.u(ib, self.cb[ib])
            if ua is None or ub is None:
                return False
            tol = 1e-9 + 4 * EPS[self.geo['T']] * (self.k + 8)
            if abs(ua - ub) > tol * max(abs(ua), abs(ub), 1e-300):
                return False
        self.ca[ia] += 1
        self.cb[ib] += 1
        self.seqa.append(ia)
        self.seqb.append(ib)
        return True

    def mirror_order_kept(self):
        """exact-tie cases: restricted to any two mirror-symmetric axes both sides made the same choices"""
        if not self.exact or self.seqa == self.seqb:
            return True
        dim = self.geo['dim']
        for a in range(dim):
            for b in range(a + 1, dim):
                if _mirror_axes(self.geo, self.o, self.e, self.ocell, a, b):
                    ra = [x for x in self.seqa if x in (a, b)]
                    rb = [x for x in self.seqb if x in (a, b)]
                    n = min(len(ra), len(rb))
                    if ra[:n] != rb[:n]:
                        return False
        return True

    def chain(self, A, B):
        if len(A) != len(B) or not A:
            return False
        for k in range(1, len(A)):
            if not self.step(A[k - 1], A[k], B[k - 1], B[k]):
                return False
        return True


def _vec(line, dim):
    tk = line.split()
    if len(tk) != 1 + dim or tk[0] != 'cur':
        return None
    try:
        return tuple(map(_signed, tk[1:]))
    except ValueError:
        return None


# ----------------------------------------------------------------------------------------------- compare (stage B)
def compare(case, li, op, a, b):
    """Identical outputs agree.  Otherwise the two sides must have made the same sequence of axis choices since the last
    setEndPoint, up to the order of choices whose crossing parameters are closer than the rounding tolerance
    (1e-9 relative + accumulated rounding of the scalar type); in the exact-tie cases a swap between two
    mirror-symmetric axes is never tolerated (that is the code's tie-break)."""
    ctxs = _context(case)
    ctx = ctxs[li]
    memo = _memo(case)
    if li == 0 or 'cmp' not in memo:
        memo['cmp'] = {'outs': {}, 'geo': None, 'oidx': None, 'oidx_at': {}, 'cur': None, 'prev': {}}
    st = memo['cmp']
    st['outs'][li] = (a, b)
    kind = ctx['kind']
    op0 = op.split()[0]
    if kind == 'new':
        st['geo'] = _geometry(case, a)
        if st['geo'] is not None:
            z = (0,) * st['geo']['dim']
            st['cur'] = (z, z)                # the caller-owned index vector starts as Zero() on both sides
        return vlib.lines_agree(a, b)
    geo = st['geo']
    if a in BAD or b in BAD or geo is None:
        return a == b
    dim = geo['dim']
    # cheap bookkeeping that the replay below needs
    if op0 == 'ray.origin':
        st['oidx'] = _vec(a.replace('o', 'cur', 1), dim) if a == b else None
        return a == b
    if op0 == 'ray.end':
        st['oidx_at'][li] = st['oidx']
        return a == b
    if op0 == 'ray.cur':
        va, vb = _vec(a, dim), _vec(b, dim)
        st['cur'] = (va, vb) if va is not None and vb is not None else None
        return a == b
    if op0 == 'ray.next':
        va, vb = _vec(a, dim), _vec(b, dim)
        st['prev'][li] = st['cur']
        st['cur'] = (va, vb) if va is not None and vb is not None else None
    if a == b:
        return True
    if op0 not in ('ray.cast', 'ray.castto', 'ray.castoe', 'ray.next'):
        return False
    # replay what both sides consumed since the setEndPoint that built the current crossing parameters
    start = ctx.get('ray_line')
    if start is None:
        return False
    c0 = ctxs[start]
    o, e = c0['o'], c0['e']
    if o is None or e is None:
        return False
    sa, sb = st['outs'].get(start, (None, None))
    if ctxs[start]['op'] == 'ray.end':
        ocell = st['oidx_at'].get(start)
    else:
        pa, pb = _parse_chain(sa), _parse_chain(sb)
        if pa is None or pb is None or pa[0] != pb[0]:
            return False
        ocell = pa[0]
    if ocell is None:
        return False
    track = _RayTrack(geo, o, e, ocell, bool(case.get('meta', {}).get('exact')))
    for j in range(start, li + 1):
        opj = ctxs[j]['op']
        if j not in st['outs']:
            return False
        x, y = st['outs'][j]
        if opj in ('ray.cast', 'ray.castto', 'ray.castoe'):
            px, py = _parse_chain(x), _parse_chain(y)
            if px is None or py is None or px[0] != py[0] or px[1] != py[1] or len(px[2]) != len(py[2]):
                return False
            if not track.chain(px[2], py[2]):
                return False
        elif opj == 'ray.next':
            prev = st['prev'].get(j)
            vx, vy = _vec(x, dim), _vec(y, dim)
            if prev is None or prev[0] is None or prev[1] is None or vx is None or vy is None:
                return False
            if not track.step(prev[0], vx, prev[1], vy):
                return False
        elif x != y:
            return False
    return track.mirror_order_kept()


# ----------------------------------------------------------------------------------------------- oracle (stage C)
def _eps(geo, o, e, l1):
    rng_ = math.sqrt(sum((x - y) ** 2 for x, y in zip(o, e)))
    cmax = max(max(abs(x) for x in geo['lo']), max(abs(x) for x in geo['hi'])) + geo['r']
    m = EPS[geo['T']]
    return (l1 + 8) * m * rng_ + 8 * m * cmax


def _cell_has_point(geo, c, p, eps):
    r, c0 = geo['r'], geo['c0']
    for i in range(geo['dim']):
        lo_ = c0[i] + (c[i] - 0.5) * r
        if p[i] < lo_ - eps or p[i] > lo_ + r + eps:
            return False
    return True


def _segment_meets_cell(geo, c, o, e, eps):
    """slab test of the segment o + u (e - o), u in [0, 1], against the eps-inflated closed cell"""
    r, c0 = geo['r'], geo['c0']
    u0, u1 = 0.0, 1.0
    for i in range(geo['dim']):
        a = c0[i] + (c[i] - 0.5) * r - eps
        b = a + r + 2 * eps
        d = e[i] - o[i]
        if d == 0:
            if o[i] < a or o[i] > b:
                return False
            continue
        ua, ub = (a - o[i]) / d, (b - o[i]) / d
        if ua > ub:
            ua, ub = ub, ua
        if ua > u0:
            u0 = ua
        if ub < u1:
            u1 = ub
        if u0 > u1 + 1e-12:
            return False
    return True


def _check_chain(geo, o, e, ocell, ecell, chain, complete, bad0, stats):
    """the property on one chain (complete = produced by cast; otherwise the prefix produced by iterative next calls)"""
    dim = geo['dim']
    l1 = sum(abs(a - b) for a, b in zip(ocell, ecell))
    eps = _eps(geo, o, e, l1)

    def bad(kind_, detail, cell=None, **fields):
        bad0(kind_, detail, **fields)
    stats['chains_checked'] = stats.get('chains_checked', 0) + 1
    ok = True
    if not chain:
        bad('empty-chain', 'no cells returned')
        return False
    for nm, cell, p in (('origin', ocell, o), ('end', ecell, e)):
        if any(x < 0 or x >= n for x, n in zip(cell, geo['n'])):
            bad('index-out-of-grid', '%s point %r is mapped to cell %r outside the grid %r' % (nm, p, cell, geo['n']), which=nm)
            ok = False
        elif not _cell_has_point(geo, cell, p, eps):
            bad('point-cell', '%s point %r is not in (closed, eps=%.3g) cell %r' % (nm, p, eps, cell), which=nm)
            ok = False
    if chain[0] != ocell:
        bad('start-cell', 'chain starts at %r, the origin %r is in cell %r' % (chain[0], o, ocell))
        ok = False
    if complete and len(chain) != l1 + 1:
        bad('length', 'chain has %d cells, L1 distance + 1 = %d' % (len(chain), l1 + 1), got=len(chain), want=l1 + 1)
        ok = False
    limit = min(len(chain), l1 + 1)
    prev = None
    n = geo['n']
    for k in range(limit):
        c = chain[k]
        if prev is not None:
            dist = 0
            for i in range(dim):
                dist += abs(c[i] - prev[i])
            if dist != 1:
                bad('not-face-adjacent', 'step %d: %r -> %r (L1 distance %d)' % (k, prev, c, dist), step=k, dist=dist)
                ok = False
                break
        oob = False
        for i in range(dim):
            if c[i] < 0 or c[i] >= n[i]:
                oob = True
        if oob:
            bad('out-of-bounds', 'cell %d = %r is outside the grid %r' % (k, c, n), cell=c, step=k)
            ok = False
            break
        if not _segment_meets_cell(geo, c, o, e, eps):
            bad('cell-not-crossed', 'cell %d = %r is not met by the segment %r -> %r (eps=%.3g)' % (k, c, o, e, eps), cell=c, step=k)
            ok = False
            break
        prev = c
    stats['cells_checked'] = stats.get('cells_checked', 0) + limit
    if ok and len(chain) >= l1 + 1:
        last = chain[l1]
        stats['ends_checked'] = stats.get('ends_checked', 0) + 1
        if not _cell_has_point(geo, last, e, eps):
            bad('end-cell', 'last cell %r does not contain the end point %r (closed cell, eps=%.3g); end cell is %r' % (last, e, eps, ecell), cell=last)
            ok = False
        elif last != ecell:
            stats['end_on_border_other_cell'] = stats.get('end_on_border_other_cell', 0) + 1
    return ok


def oracle(case, out, stats):
    fails = []
    ctx = _context(case)
    geo = None
    seen = {}             # (o, e) -> (line, chain text): history independence
    oidx = eidx = None    # as last reported by origin / end
    ncells = None
    run = None            # iterative run in progress: dict(o, e, ocell, ecell, cells)

    def flush_run():
        nonlocal run
        if run and len(run['cells']) > 1:
            stats['iterative_runs'] = stats.get('iterative_runs', 0) + 1
            line_ = run['line']

            def badr(kind_, detail, **fields):
                fails.append({'kind': kind_, 'detail': 'iterative next() run starting at line %d: %s' % (line_, detail),
                              'fields': dict(fields, T=geo['T'], dim=geo['dim'], form='iterative')})
            _check_chain(geo, run['o'], run['e'], run['ocell'], run['ecell'], run['cells'], False, badr, stats)
            key = (tuple(run['o']), tuple(run['e']))
            if key in seen:
                ref = seen[key][1]
                k = min(len(ref), len(run['cells']), sum(abs(a - b) for a, b in zip(run['ocell'], run['ecell'])) + 1)
                if ref[:k] != run['cells'][:k]:
                    badr('history-dependent', 'next() sequence differs from the chain cast(o, e) returned at line %d' % seen[key][0])
        run = None

    for li, (line, o_) in enumerate(zip(case['lines'], out)):
        tk = line.split()
        op = tk[0]
        c = ctx[li]
        stats[op] = stats.get(op, 0) + 1

        def bad(kind_, detail, **fields):
            f = dict(fields)
            if geo:
                f.update(T=geo['T'], dim=geo['dim'])
            fails.append({'kind': kind_, 'detail': '%s -> %s : %s' % (line[:200], o_[:200], detail), 'fields': f})
        if o_ in BAD:
            bad('outcome-' + o_, 'unexpected outcome (the generator only issues valid operations)')
            break
        if c['kind'] not in ('next', 'cur') and op != 'ray.ncells':
            flush_run()
        if op == 'ray.new':
            geo = _geometry(case, o_)
            if geo is None or min(geo['n']) < 1:
                bad('grid', 'malformed grid answer')
                break
            stats['grids_' + geo['T'] + str(geo['dim'])] = stats.get('grids_' + geo['T'] + str(geo['dim']), 0) + 1
        elif op == 'ray.origin':
            f = o_.split()
            oidx = tuple(map(_signed, f[1:]))
        elif op == 'ray.end':
            f = o_.split()
            eidx = tuple(map(_signed, f[1:1 + geo['dim']]))
            ncells = int(f[-1])
            if oidx is not None and ncells != sum(abs(a - b) for a, b in zip(oidx, eidx)) + 1:
                bad('length', 'computeRayNumberOfCells = %d, L1 + 1 = %d' % (ncells, sum(abs(a - b) for a, b in zip(oidx, eidx)) + 1))
        elif op in ('ray.cast', 'ray.castto', 'ray.castoe'):
            p = _parse_chain(o_)
            if p is None:
                bad('malformed', 'bad chain output')
                continue
            ocell, ecell, chain = p
            if c['kind'] == 'full':
                stats['kind_full'] = stats.get('kind_full', 0) + 1
                o, e = c['o'], c['e']
                if o == e:
                    stats['coincident'] = stats.get('coincident', 0) + 1
                _check_chain(geo, o, e, ocell, ecell, chain, True, bad, stats)
                key = (tuple(o), tuple(e))
                if key in seen:
                    stats['history_pairs'] = stats.get('history_pairs', 0) + 1
                    if seen[key][1] != chain:
                        bad('history-dependent', 'the same cast gave a different chain at line %d' % seen[key][0], first=seen[key][0])
                else:
                    seen[key] = (li, chain)
            else:
                stats['kind_stale'] = stats.get('kind_stale', 0) + 1
        elif op == 'ray.cur':
            f = o_.split()
            cur = tuple(map(_signed, f[1:]))
            if c.get('run') is not None and c['o'] is not None and c['e'] is not None and oidx is not None and eidx is not None:
                run = {'o': c['o'], 'e': c['e'], 'ocell': oidx, 'ecell': eidx, 'cells': [cur], 'line': li}
                if cur != oidx:
                    bad('start-cell', 'getOriginPointIndexes changed between setOriginPoint and now')
        elif op == 'ray.next':
            f = o_.split()
            cur = tuple(map(_signed, f[1:]))
            if c['kind'] == 'next' and run is not None:
                run['cells'].append(cur)
            else:
                stats['next_stale'] = stats.get('next_stale', 0) + 1
    flush_run()
    return fails


# ------------------------------------------------------------------ stage G: the anchored functions themselves, translated (DESIGN.md 2.5b)
def _bridge_fns(T, D, suf):
    rec = 'RayCasting<%s, %d>' % (T, D)
    return [
        {'cxx': 'RayCasting::next', 'record': rec, 'suffix': suf},
        {'cxx': 'RayCasting::setOriginPoint', 'record': rec, 'suffix': suf},
        {'cxx': 'RayCasting::setEndPoint', 'record': rec, 'suffix': suf},
        {'cxx': 'RayCasting::computeRayNumberOfCells', 'record': rec, 'suffix': suf},
        # phase 3: the three `cast` overloads (the `while (++n != N)` loop filling the std::vector of index vectors runs on fuel)
        {'cxx': 'RayCasting::cast', 'record': rec, 'sig': '()', 'suffix': suf},
        {'cxx': 'RayCasting::cast', 'record': rec, 'sig': '(const romea::core::RayCasting<%s, %d>::PointType &)' % (T, D), 'suffix': '_to' + suf},
        {'cxx': 'RayCasting::cast', 'record': rec, 'sig': 'PointType &, const', 'suffix': '_oe' + suf},
    ]


BRIDGE_SPEC = {
    'id': 'C14',
    'sources': ['src/containers/grid/RayTracing.cpp', 'src/containers/grid/GridIndexMapping.cpp'],
    'imports': ['RomeaModel.Rotation'],       # DoubleConv, should an edit introduce a float <-> double conversion
    'opens': ['Romea.Rotation'],
    'functions': _bridge_fns('double', 2, '_d2') + _bridge_fns('double', 3, '_d3') + _bridge_fns('float', 2, '_f2') + _bridge_fns('float', 3, '_f3'),
}


def regen(ctx):
    import bridge
    return bridge.regen_bridge(ctx, BRIDGE_SPEC)
