"""C16 — sliding-window statistics and ring buffer (DESIGN.md section 6, C16)."""
from fractions import Fraction
import math
from vlib import D, tok_val

ID = 'C16'
LEVEL = 'proof'
DRIVER = 'drv_c16'
HARNESS = 'c16.cpp'
SOURCES = ['src/monitoring/OnlineAverage.cpp', 'src/monitoring/OnlineVariance.cpp']
PROOF_MODULES = ['RomeaProofs.Properties.C16', 'RomeaProofs.Bridge.C16', 'RomeaProofs.Bridge.C16Cor', 'RomeaProofs.Bridge.C16Extra', 'RomeaProofs.Bridge.C16ExtraCor']
TRUSTED = ['harness/c16.cpp reads the protected members index_/data_.size()/sumOfData_ through subclasses',
           'the double->long long conversion and the final floating-point divisions are executed at Float in the driver '
           '(compared bit-for-bit / within 4 ulp), the theorems are about the integer state and exact rational statistics',
           'tools/cxx2lean.py (Python over clang-14\'s JSON AST) translates the OnlineAverage / OnlineVariance constructors, update, reset, '
           'isAvailable, getAverage / getVariance and RingOfEigenVector<Eigen::Vector2d>\'s constructor, append, clear, size, operator[] from '
           'the working tree into RomeaModel/Generated/SrcC16.lean on every run; the bridge theorems (RomeaProofs/Bridge/C16*.lean) prove '
           'them equal to the model for every scalar type and restate the headline theorems about runs through the translated functions']
ASSUMPTIONS = ['bridge (tie no. 2): std::vector<long long> is read as List Int (size/push_back/[]/clear), the ring\'s vector of Eigen '
               'vectors as a list over an abstract element type, size_t arithmetic modulo 2^64, signed arithmetic unbounded (overflow is '
               'UB; excluded on the domain by no_overflow), static_cast<long long>(double) as Trunc.trunc, quiet_NaN() as 0/0, lock_guards skipped',
               'window size >= 1 (>= 2 for the variance); |value|/precision <= 1e8, W <= 64 (the no-overflow theorem\'s domain)']
EXPLANATION = 'window/ring invariants proved by induction over all histories on the Lean model; exact differential on op sequences'

PRECISIONS = [1.0, 0.5, 0.1, 0.01, 0.001, 1e-4, 1e-5, 1e-6]


# ------------------------------------------------------------------ stage G: the anchored functions translated (DESIGN.md 2.5b)
BRIDGE_SPEC = {
    'vector_encoding': 'plain',      # std::vector as a plain List (getD / set), with opaque Eigen elements below
    'id': 'C16',
    'sources': ['src/monitoring/OnlineAverage.cpp', 'src/monitoring/OnlineVariance.cpp'],
    'headers': ['romea_core_common/containers/Eigen/RingOfEigenVector.hpp'],
    'extra': ['template class romea::core::RingOfEigenVector<Eigen::Vector2d>;'],
    'opaque_elements': True,    # the ring's elements (Eigen vectors) are only copied: an abstract element type
    'unsigned_wrap': True,      # size_t arithmetic is arithmetic modulo 2^64 (the ring index starts at size_t(-1))
    'functions': [
        {'cxx': 'OnlineAverage::OnlineAverage', 'sig': 'const double &, size_t'},
        {'cxx': 'OnlineAverage::update'},
        {'cxx': 'OnlineAverage::reset'},
        {'cxx': 'OnlineAverage::isAvailable'},
        {'cxx': 'OnlineAverage::getAverage'},
        {'cxx': 'OnlineVariance::OnlineVariance', 'sig': 'const double &, size_t'},
        {'cxx': 'OnlineVariance::update'},
        {'cxx': 'OnlineVariance::reset'},
        {'cxx': 'OnlineVariance::getVariance'},
        {'cxx': 'RingOfEigenVector::RingOfEigenVector'},
        {'cxx': 'RingOfEigenVector::append'},
        {'cxx': 'RingOfEigenVector::clear'},
        {'cxx': 'RingOfEigenVector::size'},
        {'cxx': 'RingOfEigenVector::operator[]'},
        # leftovers (round b4): one-argument (delegating) and copy constructors, setWindowSize / getWindowSize
        {'cxx': 'OnlineAverage::OnlineAverage', 'sig': '(const double &)', 'suffix': '_1'},
        {'cxx': 'OnlineAverage::OnlineAverage', 'sig': 'const romea::core::OnlineAverage &', 'suffix': '_copy'},
        {'cxx': 'OnlineAverage::setWindowSize'},
        {'cxx': 'OnlineAverage::getWindowSize'},
        {'cxx': 'OnlineVariance::OnlineVariance', 'sig': '(const double &)', 'suffix': '_1'},
        {'cxx': 'OnlineVariance::OnlineVariance', 'sig': 'const romea::core::OnlineVariance &', 'suffix': '_copy'},
        {'cxx': 'OnlineVariance::setWindowSize'},
    ],
}


def regen(ctx):
    import bridge
    return bridge.regen_bridge(ctx, BRIDGE_SPEC)


def tolerance(tk):
    return {'ulps': 4}


def _value(rng, prec, mode):
    lim = 1e8 * prec * 0.999
    if mode == 0:
        return rng.uniform(-10, 10)
    if mode == 1:
        return float(rng.int(-50, 50)) * prec * rng.int(1, 1000)
    if mode == 2:
        return rng.choice([lim, -lim, lim / 2, 0.0, prec, -prec, prec * 0.999, 3 * prec * 1.0000001])
    if mode == 3:
        return rng.gauss() * rng.loguniform(prec, lim / 4)
    if mode == 5:     # domain boundary: large same-sign samples (window sums far beyond 32 bits, squares near the 64-bit limit)
        return rng.uniform(0.6 * lim, lim)
    if mode == 6:
        return -rng.uniform(0.6 * lim, lim)
    return rng.uniform(-lim, lim)


def _stat_case(rng, kind, W, prec, n_ops, name):
    lines = ['%s.new %s %d' % (kind, D(prec), W)]
    mode = rng.below(7)
    p_reset = rng.choice([0.0, 0.02, 0.1, 0.3])
    for _ in range(n_ops):
        if rng.chance(p_reset):
            lines.append('stat.reset')
        else:
            v = _value(rng, prec, mode if rng.chance(0.9) else rng.below(7))
            lim = 1e8 * prec
            v = max(-lim, min(lim, v))
            lines.append('stat.upd ' + D(v))
    return {'name': name, 'lines': lines, 'meta': {'kind': kind, 'W': W, 'prec': prec}}


def _ring_case(rng, cap, n_ops, name):
    lines = ['ring.new %d' % cap]
    nxt = 1
    size = 0
    p_clear = rng.choice([0.0, 0.05, 0.2])
    for _ in range(n_ops):
        r = rng.unit()
        if r < p_clear:
            lines.append('ring.clear')
            size = 0
        elif r < 0.55 or size == 0:
            lines.append('ring.app %d' % nxt)
            nxt += 1
            size = min(size + 1, cap)
        elif r < 0.85:
            lines.append('ring.get %d' % rng.below(size))
        else:
            lines.append('ring.dump')
    lines.append('ring.dump')
    return {'name': name, 'lines': lines, 'meta': {'cap': cap}}


def gen_cases(rng, tier):
    cases = []
    # the reset-then-refill and fine-precision histories that exposed the repaired defects run first, every time
    cases.append({'name': 'regress-reset-index', 'meta': {'kind': 'avg', 'W': 3, 'prec': 1.0},
                  'lines': ['avg.new %s 3' % D(1.0)] + ['stat.upd ' + D(100.0), 'stat.reset'] + ['stat.upd ' + D(float(x)) for x in (1, 2, 3, 4, 5)]})
    cases.append({'name': 'regress-variance-overflow', 'meta': {'kind': 'var', 'W': 4, 'prec': 1e-5},
                  'lines': ['var.new %s 4' % D(1e-5)] + ['stat.upd ' + D(x) for x in (1.0, 2.0, 1.0, 2.0, 1.5, 3.25)]})
    cases.append({'name': 'regress-ring-cap3', 'meta': {'cap': 3},
                  'lines': ['ring.new 3'] + ['ring.app %d' % i for i in (1, 2, 3, 4)] + ['ring.get 0', 'ring.get 1', 'ring.get 2', 'ring.clear', 'ring.app 9', 'ring.get 0', 'ring.app 10', 'ring.get 1', 'ring.dump']})
    for W in (22, 32, 64):
        for kind in ('avg', 'var'):
            lim = 1e8 * 1e-3 * 0.999
            cases.append({'name': 'boundary-large-same-sign-%s-W%d' % (kind, W), 'meta': {'kind': kind, 'W': W, 'prec': 1e-3},
                          'lines': ['%s.new %s %d' % (kind, D(1e-3), W)] + ['stat.upd ' + D(lim * (0.9 + 0.1 * ((i * 7) % 10) / 10.0)) for i in range(3 * W + 5)]})
    reps = 1 if tier == 'quick' else 12
    for rep in range(reps):
        for W in range(1, 65):
            for kind in ('avg', 'var'):
                if kind == 'var' and W < 2:
                    continue
                if tier == 'quick' and rng.chance(0.5) and W not in (1, 2, 3, 4, 63, 64):
                    continue
                prec = rng.choice(PRECISIONS)
                n = rng.int(0, 10 * W) if tier == 'thorough' else rng.int(0, min(10 * W, 3 * W + 40))
                cases.append(_stat_case(rng, kind, W, prec, n, '%s-W%d-%d' % (kind, W, rep)))
    for rep in range(4 if tier == 'quick' else 40):
        for cap in range(1, 17):
            cases.append(_ring_case(rng, cap, rng.int(1, 6 * cap + 10), 'ring-cap%d-%d' % (cap, rep)))
    # LONG histories (beyond the property's 10 W, which bounds what must hold, not what may be run): index / counter arithmetic
    # narrower than size_t wraps only after 256 / 65536 operations (cf. seeded change c17e on the rate monitor's ring)
    for k, (kind, W) in enumerate([('avg', 3), ('var', 5), ('avg', 64), ('var', 48)]):
        cases.append(_stat_case(rng, kind, W, rng.choice(PRECISIONS), 700 if tier == 'quick' else 70000, '%s-W%d-long' % (kind, W)))
    for cap in (3, 7, 16):
        cases.append(_ring_case(rng, cap, 700 if tier == 'quick' else 70000, 'ring-cap%d-long' % cap))
    return cases


# ------------------------------------------------------------------ oracle
def _close(a, b, rel, absol):
    if math.isnan(a) or math.isnan(b):
        return False
    return abs(a - b) <= absol + rel * max(abs(a), abs(b))


def oracle(case, out, stats):
    fails = []
    meta = case.get('meta', {})

    def bad(kind_, line, o, detail, **fields):
        fails.append({'kind': kind_, 'detail': '%s -> %s : %s' % (line, o, detail), 'fields': fields})
    if 'cap' in meta:
        cap = meta['cap']
        items = []
        for line, o in zip(case['lines'], out):
            tk = line.split()
            stats[tk[0]] = stats.get(tk[0], 0) + 1
            if o in ('abort', 'hang', 'exception', 'skipped', 'bad-op', 'corrupt', 'out-of-range'):
                bad('outcome-' + o, line, o, 'unexpected outcome')
                break
            if tk[0] == 'ring.app':
                items.append(int(tk[1]))
                if o != 'size %d' % min(len(items), cap):
                    bad('ring-size', line, o, 'expected size %d' % min(len(items), cap), cap=cap)
            elif tk[0] == 'ring.clear':
                items = []
                if o != 'size 0':
                    bad('ring-size', line, o, 'expected size 0', cap=cap)
            elif tk[0] == 'ring.get':
                k = int(tk[1])
                exp = items[len(items) - 1 - k]
                if o != 'val %d' % exp:
                    bad('ring-get', line, o, 'k-th most recent is %d' % exp, cap=cap, k=k)
            elif tk[0] == 'ring.dump':
                held = items[-cap:][::-1]
                exp = 'size %d' % len(held) + ''.join(' %d' % x for x in held)
                if o.split() != exp.split():
                    bad('ring-dump', line, o, 'expected ' + exp, cap=cap)
        return fails
    # statistics
    kind, W, prec = meta['kind'], meta['W'], meta['prec']
    m = int(1.0 / prec)           # static_cast<int>(1 / precision)
    qs = []                       # truncated samples since the last reset
    for line, o in zip(case['lines'], out):
        tk = line.split()
        stats[tk[0]] = stats.get(tk[0], 0) + 1
        if o in ('abort', 'hang', 'exception', 'skipped', 'bad-op'):
            bad('outcome-' + o, line, o, 'unexpected outcome')
            break
        f = o.split()
        vals = dict(zip(f[0::2], f[1::2]))
        if tk[0] == 'stat.reset' or tk[0].endswith('.new'):
            qs = []
            if vals.get('avg') != 'nan' or vals.get('avail') != ('1' if W == 0 else '0'):
                bad('after-reset', line, o, 'average must be undefined and not available after a reset')
            continue
        v = tok_val(tk[1])
        qs.append(int(v * m))     # each sample truncated to the configured precision
        win = qs[-W:]
        n = len(win)
        avail = '1' if len(qs) >= W else '0'
        if vals.get('avail') != avail:
            bad('availability', line, o, 'expected avail=%s after %d samples (W=%d)' % (avail, len(qs), W), W=W)
        mean = Fraction(sum(win), m * n)
        got = tok_val(vals['avg'])
        stats['mean_checked'] = stats.get('mean_checked', 0) + 1
        if not _close(got, float(mean), 1e-12, 1e-300):
            bad('mean', line, o, 'mean of the last min(n,W)=%d truncated samples is %r, reported %r' % (n, float(mean), got), W=W, prec=prec)
        if kind == 'var' and len(qs) >= W:
            xs = [Fraction(q, m) for q in win]
            mu = sum(xs) / n
            var = sum((x - mu) ** 2 for x in xs) / (n - 1)
            gotv = tok_val(vals['var'])
            scale = float(sum(x * x for x in xs))
            stats['variance_checked'] = stats.get('variance_checked', 0) + 1
            # the implementation subtracts two quantities of size ~scale: allow their rounding, nothing more
            if not _close(gotv, float(var), 1e-9, 64 * 2.3e-16 * scale / max(1, n - 1) + 1e-300):
                bad('variance', line, o, 'unbiased sample variance of the window is %r, reported %r' % (float(var), gotv), W=W, prec=prec)
    return fails
