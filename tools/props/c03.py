"""C03 — Lambert conformal conic projection (DESIGN.md section 6, C03).

Ops (see lean/Drivers/C03.lean, harness/c03.cpp):
  lam.secant a b lon0 lat0 lat1 lat2 x0 y0 -> p lon0 n c xs ys e       lam.tangent a b lat0 lon0 k0 x0 y0 -> p ...
  lam.direct lon0 n c xs ys e -> ok
  lam.fwd lat lon -> xy x y                 lam.inv x y -> ll lat lon | hang/diverged
  lam.rt lat lon -> rt x y lat' lon'        (toWGS84(toLambert(.)) on the implementation's own coordinates)
  lam.jac lat lon h -> jac 16 numbers       (toLambert on the stencil lat+-h, lat+-2h, lon+-h, lon+-2h)
  lam.isolat lat e | lam.lat L e | lam.gn lat a e -> v value

The oracle is self-describing: it reads the projection definition from the constructor line of the case and
the evaluated points from the op lines, so corpus cases need no metadata.
"""
import math
from fractions import Fraction
from vlib import D, tok_val

ID = 'C03'
LEVEL = 'proof'
DRIVER = 'drv_c03'
HARNESS = 'c03.cpp'
SOURCES = ['src/geodesy/LambertConverter.cpp', 'src/geodesy/EarthEllipsoid.cpp']
PROOF_MODULES = ['RomeaProofs.Properties.C03', 'RomeaProofs.Bridge.C03', 'RomeaProofs.Bridge.C03Cor']
HANG_SECS = 2          # the latitude loop needs microseconds wherever it terminates at all
TRUSTED = ['tools/cxx2lean.py (Python over clang-14\'s JSON AST) translates EarthEllipsoid(double,double) and LambertConverter::'
           'computeIsometricLatitude / computeLatitude (its for(;;)…break loop, EPSILON) / computeGrandeNormal / both '
           'computeProjectionParameters / toLambert / toWGS84 from the working tree into RomeaModel/Generated/SrcC03.lean on every run; '
           'RomeaProofs/Bridge/C03*.lean prove them equal to the hand-written model for every scalar type (conventions: std::pow(x, 2) = x*x, '
           'M_PI_2 = M_PI/2, libm -> Trans.*); the delegating constructors are not translated',
           'libm functions are interpreted as the mathematical functions (theorems over RN / R: no rounding, no overflow)',
           'the probe evaluates the geometric definitions (meridian radius M, transverse radius N cos(phi)) in Python binary64 '
           'and differentiates the implementation numerically (Richardson central differences)']
ASSUMPTIONS = ['the theorems (incl. termination of the latitude loop within 8 passes and its 1e-13 rad accuracy for e <= 0.1) hold in '
               'exact real arithmetic; floating-point rounding is covered only by the correspondence check and the probe tolerances',
               'conformality / derivative statements are over R with explicit domain guards (no derivative exists over RN); '
               'all evaluation statements are over RN']
EXPLANATION = ('theorems over RN (reals with absorbing NaN) on the Lean model of LambertConverter: origin, central meridian, '
               'true scale on the standard / tangent parallel, inverse longitude and isometric latitude for both signs of the '
               'cone constant, latitude fixed point, contraction and termination of the latitude loop (round trip within 1e-13 rad), '
               'derivative of the isometric latitude and conformality; model tied to the '
               'C++ by the differential correspondence check; probe = origin, meridian, scale, numerical conformality, 1e-11 rad '
               'round trip on the implementation')

DEG = math.pi / 180.0
GRS80 = (6378137.0, 6356752.314)              # src/geodesy/EarthEllipsoid.cpp:29
CLARKE_IGN = (6378249.2, 6356515.0)           # Clarke 1880 IGN (test/geodesy/test_lambert_converter.cpp uses 6356514.99998...)
INTL1924 = (6378388.0, 6356911.946116942)     # test/geodesy/test_lambert_converter.cpp:76
LON_PARIS = (2 + 20 / 60.0 + 14.025 / 3600.0) * DEG

# tolerances of the probe (the property's own: 1e-11 rad; the others bound rounding / finite-difference noise by a wide
# margin and are orders of magnitude below anything a changed formula produces; measured maxima go to the evidence)
TOL_RT = 1e-11          # rad, property statement
TOL_ORIGIN = 1e-6       # m
TOL_MERIDIAN = 1e-6     # m
TOL_SCALE = 1e-11       # |k - 1| from the polar radius (observed: 6e-16)
TOL_FD = 2e-9           # finite-difference scale / conformality, relative (observed: 7e-12)
FD_H = 1e-4             # rad


def named_zones():
    z = []
    z.append(('lambert93', 'secant', GRS80, dict(lon0=3 * DEG, lat0=46.5 * DEG, lat1=44 * DEG, lat2=49 * DEG, x0=700000.0, y0=6600000.0)))
    for k in range(42, 51):
        z.append(('cc%d' % k, 'secant', GRS80, dict(lon0=3 * DEG, lat0=k * DEG, lat1=(k - 0.75) * DEG, lat2=(k + 0.75) * DEG,
                                                     x0=1700000.0, y0=(k - 41) * 1000000.0 + 200000.0)))
    for name, lat0, k0, x0, y0 in [('lambert1', 49.5, 0.99987734, 600000.0, 200000.0),
                                    ('lambert2', 46.8, 0.99987742, 600000.0, 200000.0),
                                    ('lambert3', 44.1, 0.99987750, 600000.0, 200000.0),
                                    ('lambert4', 42.165, 0.99994471, 234.358, 185861.369),
                                    ('lambert2e', 46.8, 0.99987742, 600000.0, 2200000.0)]:
        z.append((name, 'tangent', CLARKE_IGN, dict(lat0=lat0 * DEG, lon0=LON_PARIS, k0=k0, x0=x0, y0=y0)))
    # the parameter sets of /repo's own tests (test_lambert_converter.cpp:68-131)
    z.append(('repo-tangent-ntg71', 'tangent', INTL1924, dict(lat0=0.97738438100, lon0=0.18112808800, k0=1.0, x0=0.0, y0=0.0)))
    z.append(('repo-tangent-l1', 'tangent', (6378249.200, 6356514.999980688),
              dict(lat0=0.86393798000, lon0=0.04079234433, k0=0.9998773400, x0=600000.0, y0=200000.0)))
    return z


def _ctor_line(kind, ell, p):
    a, b = ell
    if kind == 'secant':
        return 'lam.secant ' + ' '.join(D(v) for v in (a, b, p['lon0'], p['lat0'], p['lat1'], p['lat2'], p['x0'], p['y0']))
    return 'lam.tangent ' + ' '.join(D(v) for v in (a, b, p['lat0'], p['lon0'], p['k0'], p['x0'], p['y0']))


# ------------------------------------------------------------------ reference formulas (generator side only: inputs of lam.inv)
def _iso(lat, e):
    return math.log(math.tan(math.pi / 4 + lat / 2) * ((1 - e * math.sin(lat)) / (1 + e * math.sin(lat))) ** (e / 2))


def _N(lat, a, e):
    return a / math.sqrt(1 - (e * math.sin(lat)) ** 2)


def _M(lat, a, e):
    return a * (1 - e * e) / (1 - (e * math.sin(lat)) ** 2) ** 1.5


def _ref_params(kind, ell, p):
    a, b = ell
    e = math.sqrt((a * a - b * b) / (a * a))
    if kind == 'secant':
        r1 = _N(p['lat1'], a, e) * math.cos(p['lat1'])
        r2 = _N(p['lat2'], a, e) * math.cos(p['lat2'])
        n = math.log(r2 / r1) / (_iso(p['lat1'], e) - _iso(p['lat2'], e))
        c = r1 / n * math.exp(n * _iso(p['lat1'], e))
        ys = p['y0'] + c * math.exp(-n * _iso(p['lat0'], e))
    else:
        n = math.sin(p['lat0'])
        r0 = p['k0'] * _N(p['lat0'], a, e) * math.cos(p['lat0']) / math.sin(p['lat0'])
        c = r0 * math.exp(n * _iso(p['lat0'], e))
        ys = p['y0'] + r0
    return n, c, p['x0'], ys, e


def _ref_fwd(rp, lon0, lat, lon):
    n, c, xs, ys, e = rp
    r = c * math.exp(-n * _iso(lat, e))
    return xs + r * math.sin(n * (lon - lon0)), ys - r * math.cos(n * (lon - lon0))


# ------------------------------------------------------------------ generators
def _points(rng, kind, p, npts):
    """(lat, lon) inside the property's window (+-8 deg, +-30 deg around the origin), boundary values first"""
    lat0, lon0 = p['lat0'], p['lon0']
    pts = [(lat0 + 8 * DEG * sa, lon0 + 30 * DEG * sb) for sa in (-1, 1) for sb in (-1, 1)]
    pts += [(lat0, lon0 + 30 * DEG), (lat0 - 8 * DEG, lon0), (lat0 + 8 * DEG, lon0)]
    while len(pts) < npts:
        m = rng.below(8)
        if m == 0:
            pts.append((lat0 + rng.uniform(-8, 8) * DEG, lon0))                     # central meridian
        elif m == 1 and kind == 'secant':
            pts.append((rng.choice([p['lat1'], p['lat2']]), lon0 + rng.uniform(-30, 30) * DEG))
        elif m == 2:
            pts.append((lat0 + rng.uniform(-1e-3, 1e-3) * DEG, lon0 + rng.uniform(-1e-3, 1e-3) * DEG))   # next to the origin
        else:
            pts.append((lat0 + rng.uniform(-8, 8) * DEG, lon0 + rng.uniform(-30, 30) * DEG))
    return pts[:npts]


def _case(rng, name, kind, ell, p, npts, jac_every=3):
    a, b = ell
    e = math.sqrt((a * a - b * b) / (a * a))
    lines = [_ctor_line(kind, ell, p)]
    rp = _ref_params(kind, ell, p)
    lines.append('lam.fwd %s %s' % (D(p['lat0']), D(p['lon0'])))                      # origin
    par = [p['lat1'], p['lat2']] if kind == 'secant' else [p['lat0']]
    for phi in par:                                                                 # scale on the parallels
        lam = p['lon0'] + rng.uniform(-30, 30) * DEG
        lines.append('lam.fwd %s %s' % (D(phi), D(lam)))
        lines.append('lam.jac %s %s %s' % (D(phi), D(lam), D(FD_H)))
        lines.append('lam.gn %s %s %s' % (D(phi), D(a), D(e)))
    for i, (lat, lon) in enumerate(_points(rng, kind, p, npts)):
        lines.append('lam.rt %s %s' % (D(lat), D(lon)))
        r = rng.below(6)
        if r == 0:
            lines.append('lam.fwd %s %s' % (D(lat), D(lon)))
            x, y = _ref_fwd(rp, p['lon0'], lat, lon)
            lines.append('lam.inv %s %s' % (D(x), D(y)))
        elif r == 1:
            lines.append('lam.isolat %s %s' % (D(lat), D(e)))
            lines.append('lam.lat %s %s' % (D(_iso(lat, e)), D(e)))
        if i % jac_every == 0:
            lines.append('lam.jac %s %s %s' % (D(lat), D(lon), D(FD_H)))
    return {'name': name, 'lines': lines, 'meta': {'kind': kind}}


def _ellipsoid(rng):
    m = rng.below(6)
    if m == 0:
        return GRS80
    if m == 1:
        return CLARKE_IGN
    if m == 2:
        return INTL1924
    a = rng.uniform(6.3e6, 6.4e6)
    if m == 3:
        e = rng.choice([0.0, 0.1])
    else:
        e = rng.uniform(0.001, 0.1)
    return (a, a * math.sqrt(1 - e * e))


def _random_secant(rng, boundary=False):
    s = rng.choice([1.0, -1.0])
    if boundary:
        gap = rng.choice([1.0, 20.0])
        lo = rng.choice([15.0, 75.0 - gap])
    else:
        gap = rng.uniform(1.0, 20.0)
        lo = rng.uniform(15.0, 75.0 - gap)
    la, lb = lo, lo + gap
    if rng.chance(0.3):
        la, lb = lb, la
    m = rng.below(5)
    if boundary:
        lat0 = rng.choice([15.0, 75.0])
    elif m == 0:
        lat0 = 0.5 * (la + lb)
    elif m == 1:
        lat0 = rng.choice([la, lb])
    elif m == 2:
        lat0 = rng.uniform(15.0, 75.0)
    else:
        lat0 = rng.uniform(min(la, lb), max(la, lb))
    x0, y0 = (0.0, 0.0) if rng.chance(0.2) else (rng.uniform(0, 2e6), rng.uniform(0, 1e7))
    return dict(lon0=rng.uniform(-150, 150) * DEG, lat0=s * lat0 * DEG, lat1=s * la * DEG, lat2=s * lb * DEG, x0=x0, y0=y0)


def _random_tangent(rng, boundary=False):
    s = rng.choice([1.0, -1.0])
    lat0 = rng.choice([15.0, 75.0]) if boundary else rng.uniform(15.0, 75.0)
    k0 = rng.choice([0.99, 1.0]) if (boundary or rng.chance(0.2)) else rng.uniform(0.99, 1.0)
    x0, y0 = (0.0, 0.0) if rng.chance(0.2) else (rng.uniform(0, 2e6), rng.uniform(0, 1e7))
    return dict(lat0=s * lat0 * DEG, lon0=rng.uniform(-150, 150) * DEG, k0=k0, x0=x0, y0=y0)


NAN_TOKEN = 'd9221120237041090560'


def gen_cases(rng, tier):
    quick = tier == 'quick'
    cases = []
    for name, kind, ell, p in named_zones():
        cases.append(_case(rng, 'zone:' + name, kind, ell, p, 200 if quick else 2000))
    # the two remaining parameter sets of /repo's tests: a southern secant cone whose origin is the equator
    # (outside the +-8 deg window: only points near the parallels), and a polar origin (branch ys = y0)
    p = dict(lon0=0.0, lat0=0.0, lat1=-0.57595865300, lat2=-0.78539816300, x0=0.0, y0=0.0)
    lines = [_ctor_line('secant', INTL1924, p), 'lam.fwd %s %s' % (D(0.0), D(0.0))]
    for _ in range(40):
        lat, lon = rng.uniform(-50, -28) * DEG, rng.uniform(-30, 30) * DEG
        lines += ['lam.rt %s %s' % (D(lat), D(lon)), 'lam.jac %s %s %s' % (D(lat), D(lon), D(FD_H))]
    for phi in (p['lat1'], p['lat2']):
        lines.append('lam.fwd %s %s' % (D(phi), D(rng.uniform(-30, 30) * DEG)))
    cases.append({'name': 'zone:repo-secant-south', 'lines': lines, 'meta': {'kind': 'secant'}})
    p = dict(lon0=0.07623554539, lat0=1.57079632700, lat1=0.869755744, lat2=0.893026801, x0=150000.0, y0=5400000.0)
    lines = [_ctor_line('secant', INTL1924, p)]
    for _ in range(40):
        lat, lon = rng.uniform(47, 54) * DEG, p['lon0'] + rng.uniform(-5, 5) * DEG
        lines += ['lam.rt %s %s' % (D(lat), D(lon)), 'lam.jac %s %s %s' % (D(lat), D(lon), D(FD_H))]
    for phi in (p['lat1'], p['lat2']):
        lines.append('lam.fwd %s %s' % (D(phi), D(p['lon0'] + rng.uniform(-5, 5) * DEG)))
    cases.append({'name': 'zone:repo-secant-polar-origin', 'lines': lines, 'meta': {'kind': 'secant', 'polar_origin': True}})
    # random cones of the property's quantifier, both hemispheres
    n_rand = 200 if quick else 20000
    npts = 24 if quick else 50
    for i in range(n_rand):
        ell = _ellipsoid(rng)
        bnd = i % 10 == 0
        if i % 2 == 0:
            cases.append(_case(rng, 'rand-secant-%d' % i, 'secant', ell, _random_secant(rng, bnd), npts))
        else:
            cases.append(_case(rng, 'rand-tangent-%d' % i, 'tangent', ell, _random_tangent(rng, bnd), npts))
    # several converters alive one after the other inside one case, evaluated at the SAME points in turn: a result
    # must depend on the current converter and the current point only (no state surviving between calls)
    for i in range(20 if quick else 600):
        ell = _ellipsoid(rng)
        base = _random_secant(rng) if i % 2 == 0 else _random_tangent(rng)
        sets = [('secant' if 'lat1' in base else 'tangent', ell, base)]
        for _ in range(rng.int(1, 2)):
            q = _random_secant(rng) if rng.chance(0.5) else _random_tangent(rng)
            sgn = 1.0 if base['lat0'] > 0 else -1.0
            for k in ('lat0', 'lat1', 'lat2'):                  # bring it to the hemisphere of `base` ...
                if k in q:
                    q[k] = sgn * abs(q[k])
            d = base['lat0'] + rng.uniform(-3, 3) * DEG - q['lat0']   # ... and its origin next to the one of `base`
            if 'lat1' in q:
                lo, hi = min(q['lat1'], q['lat2']) + d, max(q['lat1'], q['lat2']) + d
                if min(abs(lo), abs(hi)) < 10 * DEG or max(abs(lo), abs(hi)) > 80 * DEG or lo * hi < 0:
                    d = 0.0
                q['lat1'] += d
                q['lat2'] += d
            q['lat0'] = min(max(abs(q['lat0'] + d), 12 * DEG), 78 * DEG) * sgn
            q['lon0'] = base['lon0'] + rng.uniform(-5, 5) * DEG
            sets.append(('secant' if 'lat1' in q else 'tangent', _ellipsoid(rng) if rng.chance(0.5) else ell, q))
        lo = max(p_['lat0'] for _, _, p_ in sets) - 8 * DEG
        hi = min(p_['lat0'] for _, _, p_ in sets) + 8 * DEG
        pts = [(rng.uniform(lo, hi), base['lon0'] + rng.uniform(-20, 20) * DEG) for _ in range(3)]
        pts.append((pts[0][0], base['lon0'] + rng.uniform(-20, 20) * DEG))      # same latitude, other longitude
        pts.append((rng.uniform(lo, hi), pts[1][1]))                            # same longitude, other latitude
        lines = []
        for _ in range(2):
            for kind, el, p_ in sets:
                if lines:
                    # history across converters: the converter still in place projects a point whose latitude is
                    # bit-identical to a defining parallel of the NEXT converter (possibly on another ellipsoid) right
                    # before that one is constructed — a memo keyed on the latitude alone would now be stale
                    key = rng.choice([k for k in ('lat0', 'lat1', 'lat2') if k in p_])
                    lines.append('lam.fwd %s %s' % (D(p_[key]), D(p_['lon0'] + rng.uniform(-3, 3) * DEG)))
                lines.append(_ctor_line(kind, el, p_))
                lines.append('lam.fwd %s %s' % (D(p_['lat0']), D(p_['lon0'])))      # origin -> false origin (oracle)
                for lat, lon in pts:
                    lines.append('lam.rt %s %s' % (D(lat), D(lon)))
                lines.append('lam.jac %s %s %s' % (D(pts[0][0]), D(pts[0][1]), D(FD_H)))
                # true scale on the defining parallels of the converter now in place (after other latitudes were evaluated)
                for phi in ([p_['lat1'], p_['lat2']] if kind == 'secant' else [p_['lat0']]):
                    lam = p_['lon0'] + rng.uniform(-20, 20) * DEG
                    lines.append('lam.fwd %s %s' % (D(phi), D(lam)))
                    lines.append('lam.jac %s %s %s' % (D(phi), D(lam), D(FD_H)))
        cases.append({'name': 'switch-%d' % i, 'lines': lines, 'meta': {'kind': 'switch'}})
    # the static helpers called back to back with a bit-identical first argument and different eccentricities
    # (state shared between calls / between converters on different ellipsoids must not exist)
    for i in range(4 if quick else 40):
        lines = []
        for _ in range(12):
            lat = rng.uniform(-80, 80) * DEG
            es = [math.sqrt((a * a - b * b) / (a * a)) for a, b in (GRS80, CLARKE_IGN, INTL1924)] + [rng.uniform(0.0, 0.1)]
            rng.shuffle(es)
            for e in es[:rng.int(2, 4)]:
                lines.append('lam.isolat %s %s' % (D(lat), D(e)))
            L = _iso(lat, es[0])
            for e in es[:rng.int(2, 4)]:
                lines.append('lam.lat %s %s' % (D(L), D(e)))
        cases.append({'name': 'helpers-same-arg-%d' % i, 'lines': lines, 'meta': {'kind': 'helpers'}})
    # six-argument constructor (the values of test_lambert_converter.cpp:146-152 and a southern cone)
    lines = ['lam.direct ' + ' '.join(D(v) for v in (0.0407923443, 0.760405966, 11603796.9767, 600000.0, 5657616.6740, 0.0824832568))]
    for _ in range(30):
        lat, lon = rng.uniform(42, 51) * DEG, rng.uniform(-5, 9) * DEG
        lines += ['lam.rt %s %s' % (D(lat), D(lon)), 'lam.jac %s %s %s' % (D(lat), D(lon), D(FD_H))]
    lines.append('lam.inv %s %s' % (D(1029705.0830), D(272723.8490)))
    cases.append({'name': 'direct-lambert1', 'lines': lines, 'meta': {'kind': 'direct'}})
    lines = ['lam.direct ' + ' '.join(D(v) for v in (0.3, -0.7256, -1.18e7, 5e5, -6.2e6, 0.0818))]
    for _ in range(30):
        lat, lon = rng.uniform(-54, -39) * DEG, 0.3 + rng.uniform(-30, 30) * DEG
        lines += ['lam.rt %s %s' % (D(lat), D(lon)), 'lam.jac %s %s %s' % (D(lat), D(lon), D(FD_H))]
    cases.append({'name': 'direct-south', 'lines': lines, 'meta': {'kind': 'direct'}})
    # outside the property's domain: a NaN isometric latitude never meets the exit test of computeLatitude.
    # Kept to show that the model's `diverged` and the harness' `hang` denote the same outcome (no oracle).
    cases.append({'name': 'outside:nan-isolat', 'lines': ['lam.lat %s %s' % (NAN_TOKEN, D(0.08))],
                  'meta': {'no_oracle': True, 'expect_hang': True}})
    return cases


# ------------------------------------------------------------------ comparison (stage B)
_ANGLE = dict(ulps=64, abs_tol=1e-13)
_COORD = dict(ulps=64, abs_tol=1e-8)
_PARAM = dict(ulps=64, rel_tol=1e-13)


def tolerance(tk):
    op = tk[0]
    if op in ('lam.secant', 'lam.tangent'):
        return _PARAM
    if op in ('lam.fwd', 'lam.jac'):
        return _COORD
    if op == 'lam.gn':
        return _PARAM
    return _ANGLE


def compare(case, li, op, impl, model):
    from vlib import lines_agree, float_close
    if impl == 'skipped':
        # the harness died on an earlier op of this case (that op has already been compared)
        return True
    if impl == 'hang' or model == 'diverged':
        return impl == 'hang' and model == 'diverged'
    tk = op.split()
    if tk[0] == 'lam.rt':
        a, b = impl.split(), model.split()
        if len(a) != 5 or len(b) != 5 or a[0] != b[0]:
            return impl == model
        return (all(float_close(x, y, **_COORD) for x, y in zip(a[1:3], b[1:3])) and
                all(float_close(x, y, **_ANGLE) for x, y in zip(a[3:5], b[3:5])))
    return lines_agree(impl, model, **tolerance(tk))


# ------------------------------------------------------------------ oracle (property probe on the implementation)
def _richardson(fp, fm, fpp, fmm, dh, dhh):
    """4th-order central difference from f(x+-h), f(x+-2h); dh = (x+h)-(x-h), dhh = (x+2h)-(x-2h) (as evaluated)"""
    d1 = (fp - fm) / dh
    d2 = (fpp - fmm) / dhh
    return (4.0 * d1 - d2) / 3.0


def _mx(stats, key, v):
    if not (v <= stats.get(key, 0.0)):
        stats[key] = v


def oracle(case, out, stats):
    fails = []
    meta = case.get('meta', {})
    if meta.get('no_oracle'):
        if meta.get('expect_hang'):
            stats['hang_token_cases'] = stats.get('hang_token_cases', 0) + 1
            if out[0] != 'hang':
                fails.append({'kind': 'expected-hang', 'detail': '%s -> %s' % (case['lines'][0], out[0]), 'fields': {}})
        return fails
    kind = None
    P = {}            # definition of the projection (from the constructor line)
    R = None          # parameters returned by the implementation
    for line, o in zip(case['lines'], out):
        tk = line.split()
        op = tk[0]
        stats[op] = stats.get(op, 0) + 1

        def bad(kind_, detail, **fields):
            fields.setdefault('op', op)
            fails.append({'kind': kind_, 'detail': '%s -> %s : %s' % (line, o, detail), 'fields': fields})
        if o in ('abort', 'hang', 'exception', 'bad-op'):
            f = {}
            if R is not None:
                f = {'n': R['n'], 'c': R['c']}
            bad('outcome-' + o, 'the call does not return a result (zone %s, parameters %s)' % (case.get('name'), R), **f)
            break
        if o == 'skipped':
            break
        vals = [tok_val(t) for t in o.split()[1:]] if o.split()[0] in ('p', 'xy', 'll', 'rt', 'jac', 'v') else []
        if any(math.isnan(v) or math.isinf(v) for v in vals):
            bad('not-finite', 'NaN / infinity in the result')
            continue
        a_ = [tok_val(t) for t in tk[1:]]
        if op == 'lam.secant':
            kind = 'secant'
            P = dict(a=a_[0], b=a_[1], lon0=a_[2], lat0=a_[3], lat1=a_[4], lat2=a_[5], x0=a_[6], y0=a_[7])
        elif op == 'lam.tangent':
            kind = 'tangent'
            P = dict(a=a_[0], b=a_[1], lat0=a_[2], lon0=a_[3], k0=a_[4], x0=a_[5], y0=a_[6])
        elif op == 'lam.direct':
            kind = 'direct'
            P = dict(lon0=a_[0], e=a_[5])
            R = dict(lon0=a_[0], n=a_[1], c=a_[2], xs=a_[3], ys=a_[4], e=a_[5])
        if op in ('lam.secant', 'lam.tangent'):
            R = dict(zip(('lon0', 'n', 'c', 'xs', 'ys', 'e'), vals))
            # the ellipsoid's eccentricity from its definition, exactly rounded (independent of the implementation)
            fa, fb = Fraction(P['a']), Fraction(P['b'])
            P['e'] = math.sqrt(float((fa * fa - fb * fb) / (fa * fa)))
            south = P['lat0'] < 0
            stats['cones_south' if south else 'cones_north'] = stats.get('cones_south' if south else 'cones_north', 0) + 1
            continue
        if kind is None:
            continue
        polar = abs(P.get('lat0', 0.0) - math.pi / 2) < 1e-6
        if op == 'lam.fwd':
            lat, lon = a_
            x, y = vals
            if kind != 'direct' and tk[1] == D(P['lat0']) and tk[2] == D(P['lon0']) and not polar:
                d = max(abs(x - P['x0']), abs(y - P['y0']))
                stats['origin_checked'] = stats.get('origin_checked', 0) + 1
                _mx(stats, 'max_origin_err_m', d)
                if not d <= TOL_ORIGIN:
                    bad('origin', 'origin (lat0, lon0) maps to (%r, %r), false origin is (%r, %r)' % (x, y, P['x0'], P['y0']), err=d)
            par = [P['lat1'], P['lat2']] if kind == 'secant' else ([P['lat0']] if kind == 'tangent' else [])
            if any(tk[1] == D(phi) for phi in par):
                # true scale on the standard / tangent parallel from the polar radius about the apex the
                # implementation reports: k = |n| rho / (N cos(phi))
                rho = math.hypot(x - R['xs'], y - R['ys'])
                k = abs(R['n']) * rho / (_N(lat, P['a'], P['e']) * math.cos(lat))
                want = 1.0 if kind == 'secant' else P['k0']
                stats['scale_checked'] = stats.get('scale_checked', 0) + 1
                _mx(stats, 'max_scale_err', abs(k - want))
                if not abs(k - want) <= TOL_SCALE:
                    bad('scale', 'scale %r on the parallel %r, expected %r' % (k, lat, want), err=abs(k - want))
        if op in ('lam.fwd', 'lam.rt') and tk[2] == D(P['lon0']) and kind != 'direct':
            x = vals[0]
            stats['meridian_checked'] = stats.get('meridian_checked', 0) + 1
            _mx(stats, 'max_meridian_err_m', abs(x - P['x0']))
            if not abs(x - P['x0']) <= TOL_MERIDIAN:
                bad('meridian', 'point of the central meridian has x = %r, x0 = %r' % (x, P['x0']), err=abs(x - P['x0']))
        if op == 'lam.rt':
            lat, lon = a_
            dlat, dlon = abs(vals[2] - lat), abs(vals[3] - lon)
            stats['roundtrip_checked'] = stats.get('roundtrip_checked', 0) + 1
            _mx(stats, 'max_roundtrip_err_rad', max(dlat, dlon))
            if not (dlat <= TOL_RT and dlon <= TOL_RT):
                bad('roundtrip', 'toWGS84(toLambert(%r, %r)) = (%r, %r): error (%.3e, %.3e) rad' % (lat, lon, vals[2], vals[3], dlat, dlon),
                    err=max(dlat, dlon))
        if op == 'lam.inv':
            # inputs are reference coordinates of the point of the preceding lam.fwd; checked only through the
            # correspondence and for termination / finiteness here (lam.rt is the property's round trip)
            stats['inv_finite'] = stats.get('inv_finite', 0) + 1
        if op == 'lam.jac' and 'a' in P:
            lat, lon, h = a_
            a, e = P['a'], P['e']
            dh, dhh = (lat + h) - (lat - h), (lat + 2 * h) - (lat - 2 * h)
            gh, ghh = (lon + h) - (lon - h), (lon + 2 * h) - (lon - 2 * h)
            v = vals
            dx_dphi = _richardson(v[0], v[2], v[4], v[6], dh, dhh)
            dy_dphi = _richardson(v[1], v[3], v[5], v[7], dh, dhh)
            dx_dlam = _richardson(v[8], v[10], v[12], v[14], gh, ghh)
            dy_dlam = _richardson(v[9], v[11], v[13], v[15], gh, ghh)
            M, Nc = _M(lat, a, e), _N(lat, a, e) * math.cos(lat)
            c1 = (dx_dphi / M, dy_dphi / M)          # unit step along the meridian
            c2 = (dx_dlam / Nc, dy_dlam / Nc)        # unit step along the parallel
            s1, s2 = math.hypot(*c1), math.hypot(*c2)
            ortho = abs(c1[0] * c2[0] + c1[1] * c2[1]) / (s1 * s2) if s1 > 0 and s2 > 0 else float('inf')
            aniso = abs(s1 - s2) / s2 if s2 > 0 else float('inf')
            stats['conformality_checked'] = stats.get('conformality_checked', 0) + 1
            _mx(stats, 'max_anisotropy', aniso)
            _mx(stats, 'max_nonorthogonality', ortho)
            if not aniso <= TOL_FD:
                bad('conformal-scale', 'scale along the meridian %r differs from the scale along the parallel %r at (%r, %r)' % (s1, s2, lat, lon), err=aniso)
            if not ortho <= TOL_FD:
                bad('conformal-angle', 'images of the meridian and the parallel are not orthogonal at (%r, %r): cos = %r' % (lat, lon, ortho), err=ortho)
            par = [P['lat1'], P['lat2']] if kind == 'secant' else [P['lat0']]
            if any(tk[1] == D(phi) for phi in par):
                want = 1.0 if kind == 'secant' else P['k0']
                stats['fd_scale_checked'] = stats.get('fd_scale_checked', 0) + 1
                _mx(stats, 'max_fd_scale_err', abs(s2 - want))
                if not abs(s2 - want) <= TOL_FD:
                    bad('scale-fd', 'finite-difference scale along the parallel %r is %r, expected %r' % (lat, s2, want), err=abs(s2 - want))
    return fails


def focused_cases(rng, disagreeing, tier):
    """more points for the projections on which model and implementation disagreed"""
    cases = []
    for c in disagreeing[:10]:
        tk = c['lines'][0].split()
        if tk[0] not in ('lam.secant', 'lam.tangent'):
            continue
        v = [tok_val(t) for t in tk[1:]]
        lat0, lon0 = (v[3], v[2]) if tk[0] == 'lam.secant' else (v[2], v[3])
        if abs(lat0) > 80 * DEG:
            continue
        lines = [c['lines'][0], 'lam.fwd %s %s' % (D(lat0), D(lon0))]
        for _ in range(100):
            lat, lon = lat0 + rng.uniform(-8, 8) * DEG, lon0 + rng.uniform(-30, 30) * DEG
            lines += ['lam.rt %s %s' % (D(lat), D(lon)), 'lam.jac %s %s %s' % (D(lat), D(lon), D(FD_H))]
        cases.append({'name': 'focused:' + c.get('name', ''), 'lines': lines, 'meta': {}})
    return cases


# ------------------------------------------------------------------ stage G: the anchored functions themselves, translated (DESIGN.md 2.5b)
BRIDGE_SPEC = {
    'id': 'C03',
    'extra_filters': ['EPSILON'],      # anonymous-namespace constant (outside the `romea` filter): dumped by a parallel clang pass
    'sources': ['src/geodesy/LambertConverter.cpp', 'src/geodesy/EarthEllipsoid.cpp'],
    'functions': [
        {'cxx': 'EarthEllipsoid::EarthEllipsoid', 'sig': '(double, double)'},
        {'cxx': 'LambertConverter::computeIsometricLatitude'},
        {'cxx': 'LambertConverter::computeLatitude'},
        {'cxx': 'LambertConverter::computeGrandeNormal'},
        {'cxx': 'LambertConverter::computeProjectionParameters', 'sig': 'SecantProjectionParameters', 'suffix': '_secant'},
        {'cxx': 'LambertConverter::computeProjectionParameters', 'sig': 'TangentProjectionParameters', 'suffix': '_tangent'},
        {'cxx': 'LambertConverter::toLambert'},
        {'cxx': 'LambertConverter::toWGS84'},
    ],
}


def regen(ctx):
    import bridge
    return bridge.regen_bridge(ctx, BRIDGE_SPEC)
