"""C12 — analytic derivatives and propagated covariances (DESIGN.md section 6, C12).

(a) SmartRotation3D::dRdAngleAround{X,Y,Z}Axis vs the derivatives of SmartRotation3D::R (finite differences of the
    implementation's own map).  The current code reports  true derivative + a constant spurious term
    (Rz Ry e0e0^T, Rz e1e1^T Rx, e2e2^T Ry Rx): pinned by test/transform/test_smart_rotation.cpp, recorded as an
    open known finding.  The probe recognises exactly that term (kind 'smartrotation-spurious-derivative-term');
    any other deviation is 'smartrotation-derivative-mismatch'.
(b) dRTdAngles column k = dRdAngle_k * T  (inherits (a)).
(c) covariance of operator*(Affine3d, Pose3D) vs J C J^T with J the finite-difference Jacobian of the library's own
    pose map: kind 'pose-covariance-jacobian' (defect repaired in /repo 67bbb47; a recurrence is a new violation).
(d) LeastSquares::computeEstimateCovariance vs variance * A (J^T J)^-1 A^T (exact rational arithmetic) — on fresh
    solvers (`ls.cov`) and on ONE solver object reused for problem sequences (`lsh.*`: svd / chol / wls estimates,
    covariance queries after each, J, Y, W, sizes, estimate size and preconditioner changed in between): the reported
    covariance must be that of the CURRENT problem (the one the last estimate solved), whatever the object did before.
"""
import math
from fractions import Fraction
from vlib import D, tok_val, float_close

ID = 'C12'
LEVEL = 'proof'
DRIVER = 'drv_c12'
HARNESS = 'c12.cpp'
SOURCES = ['src/transform/SmartRotation3D.cpp', 'src/geometry/Pose3D.cpp', 'src/geometry/Pose2D.cpp',
           'src/geometry/Position3D.cpp', 'src/geometry/Ellipse.cpp', 'src/regression/leastsquares/LeastSquares.cpp']
PROOF_MODULES = ['RomeaProofs.Properties.C12', 'RomeaProofs.Properties.C12Solver', 'RomeaProofs.Bridge.C12', 'RomeaProofs.Bridge.C12Cor',
                 'RomeaProofs.Bridge.C12PoseDefs'] + ['RomeaProofs.Bridge.C12Pose' + _l for _l in 'ABCDEFG'] + [
                 'RomeaProofs.Bridge.C12Pose', 'RomeaProofs.Bridge.C12PoseCor']
TRUSTED = ['tools/cxx2lean.py translates SmartRotation3D\'s default constructor, three-angle constructor and init (R_ and the three dRdAngle '
           'matrices) from the working tree into RomeaModel/Generated/SrcC12.lean on every run; RomeaProofs/Bridge/C12*.lean prove the four '
           'matrices equal to the model\'s smartInit entry by entry for every scalar type (Eigen Identity()/Zero() read as literal coefficients, '
           'the fixed-size product as (a0*b0 + a1*b1) + a2*b2); Pose3D.cpp operator*(Affine3d, Pose3D) is translated too (affine.rotation() as an '
           'oracle, std::fmod mapped to the model\'s fmod) and Bridge/C12Pose.lean proves its 42 returned scalars equal to the model\'s poseMul',
           'finite differences (central, Richardson, long double) of the implementation\'s own maps are computed by '
           'harness/c12.cpp and judged by tools/props/c12.py with explicit tolerances',
           'Eigen::Affine3d::rotation() and the inverse of J^T J (LDLT / JacobiSVD) are model parameters with contracts; '
           'the driver uses the identity resp. a Gauss-Jordan inverse and the tie compares within 1e-9 relative',
           'solver reuse (`lsh.*`): the C07 state machine (RomeaModel/LeastSquares.lean) with the Lean Float LDL^T / Jacobi stand-ins of '
           'RomeaModel/LeastSquaresOracles.lean is run op by op against ONE LeastSquares<double> object per case; covariances are compared '
           'within the error of an explicitly formed inverse (eps * cond), the probe judges them against exact rational arithmetic']
ASSUMPTIONS = ['theorems are over exact reals; libm functions are the mathematical functions',
               'that the model Jacobian of operator*(Affine3d, Pose3D) is the Jacobian of the pose map is proved in Lean '
               'entrywise away from the wrap points of between0And2Pi (see RomeaProofs/Properties/C12.lean) and, on every '
               'run, compared with finite differences of the C++ pose map']
EXPLANATION = ('Lean characterisation theorems (reported = true derivative + spurious term, with HasDerivAt for the true '
               'derivatives; dRTdAngles columns; PSD of J C J^T for any J; solver covariance formula, for a fresh solver and after '
               'EVERY history of a reused one) on the model + '
               'differential correspondence + finite-difference probe of the implementation')

TWO_PI = 2 * math.pi
LOCK_MARGIN = 0.05


# ------------------------------------------------------------------ small linear algebra on lists
def matmul(a, b):
    return [[sum(a[i][k] * b[k][j] for k in range(len(b))) for j in range(len(b[0]))] for i in range(len(a))]


def transpose(a):
    return [list(r) for r in zip(*a)]


def matvec(a, v):
    return [sum(a[i][k] * v[k] for k in range(len(v))) for i in range(len(a))]


def rx(a):
    c, s = math.cos(a), math.sin(a)
    return [[1, 0, 0], [0, c, -s], [0, s, c]]


def ry(a):
    c, s = math.cos(a), math.sin(a)
    return [[c, 0, s], [0, 1, 0], [-s, 0, c]]


def rz(a):
    c, s = math.cos(a), math.sin(a)
    return [[c, -s, 0], [s, c, 0], [0, 0, 1]]


def rzyx(r, p, y):
    return matmul(matmul(rz(y), ry(p)), rx(r))


def unit(i):
    return [[1.0 if (a == i and b == i) else 0.0 for b in range(3)] for a in range(3)]


def spurious_terms(r, p, y):
    """the constant terms the characterisation theorem predicts in dRdAngleAround{X,Y,Z}Axis"""
    return [matmul(matmul(rz(y), ry(p)), unit(0)),
            matmul(matmul(rz(y), unit(1)), rx(r)),
            matmul(matmul(unit(2), ry(p)), rx(r))]


def maxabs(a):
    return max(abs(x) for r in a for x in r)


def maxdiff(a, b):
    return max(abs(x - y) for r, s in zip(a, b) for x, y in zip(r, s))


def sub(a, b):
    return [[x - y for x, y in zip(r, s)] for r, s in zip(a, b)]


def mat(vals, n, m, off=0):
    return [[vals[off + i * m + j] for j in range(m)] for i in range(n)]


def flat(m):
    return [x for r in m for x in r]


def toks(xs):
    return ' '.join(D(x) for x in xs)


def random_orthogonal(rng, n):
    while True:
        m = [[rng.gauss() for _ in range(n)] for _ in range(n)]
        q, ok = [], True
        for v in m:
            for u in q:
                d = sum(x * y for x, y in zip(u, v))
                v = [x - d * y for x, y in zip(v, u)]
            nrm = math.sqrt(sum(x * x for x in v))
            if nrm < 1e-3:
                ok = False
                break
            q.append([x / nrm for x in v])
        if ok:
            return transpose(q)


def psd(rng, n, rank=None, cond=None):
    scale = rng.loguniform(1e-4, 1e2)
    if cond is None:
        cond = rng.loguniform(1.0, 1e4)
    lam = [scale * (cond ** -rng.unit()) for _ in range(n)]
    lam[0], lam[-1] = scale, scale / cond
    if rank is not None:
        for k in range(rank, n):
            lam[k] = 0.0
    rng.shuffle(lam)
    q = random_orthogonal(rng, n)
    c = matmul(matmul(q, [[lam[i] if i == j else 0.0 for j in range(n)] for i in range(n)]), transpose(q))
    for i in range(n):
        for j in range(i):
            c[i][j] = c[j][i]
    return c


def jacobi_min_eig(a):
    n = len(a)
    a = [list(r) for r in a]
    for _ in range(60):
        off = sum(a[i][j] ** 2 for i in range(n) for j in range(n) if i != j)
        if off < 1e-300:
            break
        for p in range(n):
            for q in range(p + 1, n):
                if a[p][q] == 0.0:
                    continue
                th = (a[q][q] - a[p][p]) / (2 * a[p][q])
                t = (1 if th >= 0 else -1) / (abs(th) + math.sqrt(th * th + 1))
                c = 1 / math.sqrt(t * t + 1)
                s = t * c
                for k in range(n):
                    akp, akq = a[k][p], a[k][q]
                    a[k][p], a[k][q] = c * akp - s * akq, s * akp + c * akq
                for k in range(n):
                    apk, aqk = a[p][k], a[q][k]
                    a[p][k], a[q][k] = c * apk - s * aqk, s * apk + c * aqk
    return min(a[i][i] for i in range(n))


def frac_inverse(a):
    n = len(a)
    m = [[Fraction(x) for x in row] + [Fraction(int(i == j)) for j in range(n)] for i, row in enumerate(a)]
    for c in range(n):
        p = next((r for r in range(c, n) if m[r][c] != 0), None)
        if p is None:
            return None
        m[c], m[p] = m[p], m[c]
        piv = m[c][c]
        m[c] = [x / piv for x in m[c]]
        for r in range(n):
            if r != c and m[r][c] != 0:
                f = m[r][c]
                m[r] = [x - f * y for x, y in zip(m[r], m[c])]
    return [row[n:] for row in m]


# ------------------------------------------------------------------ generators
A60 = 60 / 180.0 * math.pi


def rand_angles(rng, boundary=False):
    lim = math.pi / 2 - LOCK_MARGIN
    if boundary:
        return rng.choice([[0.0, 0.0, 0.0], [A60, 0.0, 0.0], [0.0, A60, 0.0], [0.0, 0.0, A60], [A60, A60, A60],
                           [0.3, 0.2, 0.1], [math.pi, 0.0, -math.pi], [0.0, lim, 0.0], [1.0, -lim, 2.0],
                           [rng.uniform(-math.pi, math.pi), rng.choice([-lim, lim]), rng.uniform(-math.pi, math.pi)]])
    return [rng.uniform(-math.pi, math.pi), rng.uniform(-lim, lim), rng.uniform(-math.pi, math.pi)]


def rand_vec(rng, n=3, big=True):
    m = rng.below(4)
    if m == 0 and big:
        return [rng.uniform(-1e4, 1e4) for _ in range(n)]
    if m == 1:
        return [rng.gauss() * rng.loguniform(1e-2, 1e2) for _ in range(n)]
    if m == 2:
        return [float(rng.int(-5, 5)) for _ in range(n)]
    return [rng.uniform(-10, 10) for _ in range(n)]


def away_from_lock(lin, ang, margin):
    m = matmul(lin, rzyx(*ang))
    return abs(m[2][0]) < math.cos(margin)


IDENT = [[1.0, 0.0, 0.0], [0.0, 1.0, 0.0], [0.0, 0.0, 1.0]]


def gen_cases(rng, tier):
    cases = []
    quick = tier == 'quick'
    # --- (a), (b): SmartRotation3D
    n = 300 if quick else 20000
    for i in range(n):
        ang = rand_angles(rng, boundary=(i < 40 or rng.chance(0.1)))
        t = [1.0, 2.0, 3.0] if rng.chance(0.1) else rand_vec(rng, big=False)
        lines = ['smart.d ' + toks(ang), 'smart.dRT ' + toks(ang + t)]
        if rng.chance(0.3):
            lines.append('smart.d2 ' + toks(rand_angles(rng) + ang))
        if rng.chance(0.3):
            # a history on ONE object ending at `ang` (whose fresh-object matrices were printed by `smart.d` above): constructor /
            # init through both overload families (three scalars / one Eigen::Vector3d), earlier triples re-issued bit-identically
            # (seeded change c12c: init(Vector3d) returns early when given the angles it was LAST given; init(x, y, z) and the
            # constructors do not update that record)
            pool = [ang, rand_angles(rng)]
            steps = [(float(rng.below(4)), rng.choice(pool))]
            for _ in range(rng.int(1, 5)):
                if rng.chance(0.3):
                    pool.append(rand_angles(rng))
                steps.append((float(rng.choice([2, 3])), rng.choice(pool)))
            steps.append((float(rng.choice([2, 3])), ang))
            lines.append('smart.hist ' + ' '.join(toks([k] + list(a3)) for k, a3 in steps))
        cases.append({'name': 'smart-%d' % i, 'lines': lines, 'meta': {}})
    # --- (c): pose covariance
    n = 500 if quick else 25000
    for i in range(n):
        mode = rng.below(10)
        for _ in range(500):
            if mode == 0:
                lin = IDENT
            elif mode == 1:
                lin = rz(rng.uniform(-math.pi, math.pi))
            else:
                lin = rzyx(rng.uniform(-math.pi, math.pi), rng.uniform(-math.pi / 2, math.pi / 2), rng.uniform(-math.pi, math.pi))
            ang = rand_angles(rng, boundary=(mode == 2))
            margin = LOCK_MARGIN
            if away_from_lock(lin, ang, margin) and away_from_lock(IDENT, ang, margin):
                if mode != 3 or not away_from_lock(lin, ang, 2 * LOCK_MARGIN):     # mode 3: close to the limit after transformation
                    break
        else:
            lin, ang = IDENT, [0.3, 0.2, 0.1]
        tr = rand_vec(rng) if mode != 0 else [0.0, 0.0, 0.0]
        pos = rand_vec(rng)
        cov = psd(rng, 6, rank=(rng.int(1, 5) if rng.chance(0.15) else None))
        cases.append({'name': 'mulcov-%d' % i, 'lines': ['pose.mulcov ' + toks(flat(lin) + tr + pos + ang + flat(cov))], 'meta': {}})
    # --- (d): least-squares covariance with a diagonal preconditioner
    n = 300 if quick else 15000
    for i in range(n):
        ne = rng.int(1, 5)
        m = rng.int(ne, ne + 15) if rng.chance(0.8) else ne
        # well-conditioned design matrix: orthonormal columns scaled, plus noise
        while True:
            jm = [[rng.gauss() for _ in range(ne)] for _ in range(m)]
            g = matmul(transpose(jm), jm)
            lo = jacobi_min_eig(g)
            hi = -jacobi_min_eig([[-x for x in r] for r in g])
            if lo > 0 and hi / lo < 1e4:
                break
        sc = [rng.loguniform(1e-1, 1e1) for _ in range(ne)]
        jm = [[jm[r][c] * sc[c] for c in range(ne)] for r in range(m)]
        y = [rng.gauss() for _ in range(m)]
        a = [rng.choice([-1, 1]) * rng.loguniform(1e-2, 1e2) if rng.chance(0.8) else 1.0 for _ in range(ne)]
        b = [rng.uniform(-10, 10) if rng.chance(0.7) else 0.0 for _ in range(ne)]
        var = rng.loguniform(1e-4, 1e2)
        kind = 'chol' if rng.chance(0.6) else 'svd'
        cases.append({'name': 'lscov-%d' % i, 'lines': ['ls.cov %s %d %d %s' % (kind, ne, m, toks(flat(jm) + y + a + b + [var]))],
                      'meta': {}})
    # --- (d) on a reused solver object: problem sequences (drawn last: the families above keep their random streams)
    cases += gen_history_cases(rng, tier)
    return cases


# ------------------------------------------------------------------ correspondence comparison
def _split(line):
    """floats of the '|'-separated groups of an output line (None if malformed); a trailing contract flag is dropped"""
    tk = line.split()
    if tk and tk[-1].startswith('contract:'):
        tk = tk[:-1]
    groups, cur = [], []
    for t in tk:
        if t == '|':
            groups.append(cur)
            cur = []
        else:
            cur.append(t)
    groups.append(cur)
    try:
        return [[tok_val(t) for t in g] for g in groups]
    except (ValueError, IndexError):
        return None


def _close(xs, ys, abs_tol):
    return len(xs) == len(ys) and all((not math.isnan(x)) and (not math.isnan(y)) and abs(x - y) <= abs_tol for x, y in zip(xs, ys))


def _ang_close(a, b, tol):
    d = abs(a - b) % TWO_PI
    return min(d, TWO_PI - d) <= tol


def compare(case, li, op, impl, model):
    name = op.split()[0]
    if name.startswith('lsh.'):
        return compare_history(case, li, impl, model)
    gi, gm = _split(impl), _split(model)
    if gi is None or gm is None or not gi[0] or not gm[0]:
        return False
    if name == 'smart.d':
        return len(gi) == 2 and len(gm) == 2 and len(gi[0]) == 36 and _close(gi[0], gm[0], 1e-14) and \
            len(gi[1]) == 27 and _close(gi[1], gm[1], 1e-8)
    if name in ('smart.d2', 'smart.hist'):
        return len(gi) == 1 and len(gi[0]) == 36 and _close(gi[0], gm[0], 1e-14)
    if name == 'smart.dRT':
        args = [tok_val(t) for t in op.split()[1:]]
        s = max(1.0, max(abs(x) for x in args[3:6]))
        return len(gi) == 2 and len(gm) == 2 and len(gi[0]) == 36 and _close(gi[0], gm[0], 1e-14 * s) and \
            len(gi[1]) == 9 and _close(gi[1], gm[1], 1e-8 * s)
    if name == 'pose.mulcov':
        if len(gi) != 3 or len(gm) != 3 or len(gi[0]) != 6 or len(gi[1]) != 36 or len(gi[2]) != 36:
            return False
        scale = max(1.0, max(abs(v) for v in gi[0][:3]))
        if not _close(gi[0][:3], gm[0][:3], 1e-10 * scale):
            return False
        if not all(_ang_close(p, q, 1e-9) for p, q in zip(gi[0][3:], gm[0][3:])):
            return False
        mcov = gm[1]
        s = max(max(abs(v) for v in gi[1]), max(abs(v) for v in mcov))
        if not _close(gi[1], mcov, 1e-9 * s + 1e-300):
            return False
        sj = max(1.0, max(abs(v) for v in gm[2]))
        return _close(gi[2], gm[2], 1e-6 * sj)     # finite differences of the C++ pose map vs the model's Jacobian
    if name == 'ls.cov':
        if len(gi) != 1 or len(gm) != 1 or len(gi[0]) != len(gm[0]):
            return False
        s = max(max(abs(v) for v in gi[0]), max(abs(v) for v in gm[0]))
        return _close(gi[0], gm[0], 1e-9 * s + 1e-300)
    return impl == model


# ------------------------------------------------------------------ oracle (property probe on the implementation)
FD_TOL = 1e-7          # finite differences of R (entries <= 1) are accurate to ~1e-12; the spurious term has norm 1
AXES = 'XYZ'


def oracle(case, out, stats):
    if case['lines'] and case['lines'][0].startswith('lsh.'):
        return oracle_history(case, out, stats)
    fails = []
    fresh_smart = None          # R + three derivative matrices of the fresh object of the last `smart.d` line
    for line, o in zip(case['lines'], out):
        tk = line.split()
        op = tk[0]
        stats[op] = stats.get(op, 0) + 1

        def bad(kind_, detail, **fields):
            fails.append({'kind': kind_, 'detail': '%s -> %s : %s' % (line[:300], o[:200], detail), 'fields': fields})
        if o in ('abort', 'hang', 'exception', 'skipped', 'bad-op', 'bad-shape'):
            bad('outcome-' + o, 'unexpected outcome')
            break
        if o.split()[-1] == 'contract:0':
            bad('oracle-contract', 'Affine3d::rotation() differs from the linear part of a rigid transform')
        g = _split(o)
        if g is None or any(math.isnan(v) for grp in g for v in grp):
            bad('nan', 'NaN / malformed output for an in-domain input')
            continue
        if op == 'smart.d':
            ang = [tok_val(t) for t in tk[1:4]]
            fresh_smart = list(g[0][:36])
            pred = spurious_terms(*ang)
            for k in range(3):
                rep = mat(g[0], 3, 3, 9 + 9 * k)
                fd = mat(g[1], 3, 3, 9 * k)
                d = sub(rep, fd)
                stats['derivative_axes_checked'] = stats.get('derivative_axes_checked', 0) + 1
                if maxabs(d) <= FD_TOL:
                    stats['derivative_axes_correct'] = stats.get('derivative_axes_correct', 0) + 1
                elif maxdiff(d, pred[k]) <= FD_TOL:
                    bad('smartrotation-spurious-derivative-term',
                        'dRdAngleAround%sAxis = finite-difference derivative of R + the predicted constant term (|D - S| = %.2e, |S| = %.2f) at angles %r'
                        % (AXES[k], maxdiff(d, pred[k]), maxabs(pred[k]), ang),
                        site='SmartRotation3D::dRdAngleAround%sAxis' % AXES[k], axis=AXES[k])
                else:
                    bad('smartrotation-derivative-mismatch',
                        'dRdAngleAround%sAxis is neither the derivative of R nor derivative + known spurious term: reported - fd = %r, predicted spurious %r at angles %r'
                        % (AXES[k], d, pred[k], ang), site='SmartRotation3D::dRdAngleAround%sAxis' % AXES[k], axis=AXES[k])
        elif op == 'smart.d2':
            pass      # history independence is a matter of the correspondence check (model: stateless)
        elif op == 'smart.hist':
            # the matrices are functions of the angles: an object brought to `ang` through any history reports what the fresh
            # object of the preceding `smart.d ang` line reported (R and the three derivative matrices, 36 numbers)
            stats['smart_histories_checked'] = stats.get('smart_histories_checked', 0) + 1
            if fresh_smart is None or len(g[0]) != 36 or maxabs([[g[0][i] - fresh_smart[i] for i in range(36)]]) > 1e-12:
                bad('smartrotation-history', 'after a history of constructor / init calls ending at the angles of the preceding smart.d line the '
                    'object does not report the matrices of a fresh object at those angles (max difference %.3g)'
                    % (maxabs([[g[0][i] - fresh_smart[i] for i in range(36)]]) if fresh_smart is not None and len(g[0]) == 36 else float('nan')))
        elif op == 'smart.dRT':
            v = [tok_val(t) for t in tk[1:7]]
            ang, t = v[:3], v[3:]
            s = max(1.0, max(abs(x) for x in t))
            drt = mat(g[0], 3, 3, 0)
            fd = mat(g[1], 3, 3, 0)
            pred = spurious_terms(*ang)
            for k in range(3):
                dk = mat(g[0], 3, 3, 9 + 9 * k)
                col = [drt[i][k] for i in range(3)]
                exp = matvec(dk, t)
                stats['drt_columns_checked'] = stats.get('drt_columns_checked', 0) + 1
                if max(abs(a - b) for a, b in zip(col, exp)) > 1e-12 * s:
                    bad('drt-column', 'dRTdAngles column %d differs from dRdAngle_%s * T' % (k, AXES[k]), axis=AXES[k])
                d = [col[i] - fd[i][k] for i in range(3)]
                sp = matvec(pred[k], t)
                if max(abs(x) for x in d) <= FD_TOL * s:
                    stats['drt_columns_correct'] = stats.get('drt_columns_correct', 0) + 1
                elif max(abs(a - b) for a, b in zip(d, sp)) <= FD_TOL * s:
                    bad('smartrotation-spurious-derivative-term',
                        'dRTdAngles column %d = d(R T)/d angle + predicted spurious term * T at angles %r, T %r' % (k, ang, t),
                        site='SmartRotation3D::dRTdAngles', axis=AXES[k])
                else:
                    bad('smartrotation-derivative-mismatch',
                        'dRTdAngles column %d: reported - fd = %r, predicted spurious %r' % (k, d, sp),
                        site='SmartRotation3D::dRTdAngles', axis=AXES[k])
        elif op == 'pose.mulcov':
            v = [tok_val(t) for t in tk[1:]]
            cin = mat(v, 6, 6, 18)
            cov = mat(g[1], 6, 6)
            jfd = mat(g[2], 6, 6)
            exp = matmul(matmul(jfd, cin), transpose(jfd))
            s = max(maxabs(exp), 1e-300)
            stats['pose_cov_checked'] = stats.get('pose_cov_checked', 0) + 1
            err = maxdiff(cov, exp) / s
            if err > 1e-6:
                bad('pose-covariance-jacobian',
                    'covariance of A*pose differs from J C J^T (J = finite-difference Jacobian of the library\'s pose map): relative error %.3g' % err,
                    site='operator*(Affine3d,Pose3D)')
            else:
                stats['pose_cov_correct'] = stats.get('pose_cov_correct', 0) + 1
            # symmetric positive semi-definite (holds for J C J^T with any J)
            sc = max(maxabs(cov), 1e-300)
            if max(abs(cov[i][j] - cov[j][i]) for i in range(6) for j in range(6)) > 1e-9 * sc:
                bad('pose-covariance-asymmetric', 'propagated covariance is not symmetric')
            elif jacobi_min_eig([[0.5 * (cov[i][j] + cov[j][i]) for j in range(6)] for i in range(6)]) < -1e-9 * sc:
                bad('pose-covariance-not-psd', 'propagated covariance has a negative eigenvalue')
        elif op == 'ls.cov':
            ne, m = int(tk[2]), int(tk[3])
            v = [tok_val(t) for t in tk[4:]]
            jm = mat(v, m, ne, 0)
            a = v[m * ne + m:m * ne + m + ne]
            var = v[-1]
            jf = [[Fraction(x) for x in r] for r in jm]
            g_ = [[sum(jf[k][i] * jf[k][j] for k in range(m)) for j in range(ne)] for i in range(ne)]
            gi = frac_inverse(g_)
            if gi is None:
                continue
            exp = [[float(Fraction(var) * Fraction(a[i]) * gi[i][j] * Fraction(a[j])) for j in range(ne)] for i in range(ne)]
            cov = mat(g[0], ne, ne)
            s = max(maxabs(exp), 1e-300)
            stats['ls_cov_checked'] = stats.get('ls_cov_checked', 0) + 1
            if maxdiff(cov, exp) > 1e-8 * s:
                bad('ls-covariance', 'computeEstimateCovariance differs from variance * A (J^T J)^-1 A^T: relative error %.3g' % (maxdiff(cov, exp) / s))
    return fails


# ------------------------------------------------------------------ (d) on a REUSED solver object: `lsh.*` histories
# One LeastSquares<double> per case, driven like an iterative caller drives it (ICP / Gauss-Newton loops keep one solver):
# several problems one after the other, estimates through all three paths, covariance queries in between.  The shadow
# below is what the op TEXT says about the object (sizes, specified rows / weights, preconditioner); the oracle needs
# nothing else: the covariance reported after an estimate must be  variance * A (G)^-1 A^T  with G the normal matrix of
# rows 0..n-1 as they were when that estimate ran (row-scaled by the weights for the weighted estimate) — exact rationals.
EPS64 = 2.0 ** -52
HIST_COND_LIMIT = 1e10      # generated problems keep cond(G) = cond(J)^2 below this at every estimate (cond(J) < 1e5: inside C07's domain)


class LsShadow:
    def __init__(self, lite=False):
        self.lite = lite        # generator's copy: sizes and values only, no exact inverse
        self.alive = False
        self.est = self.n = self.cap = self.jcols = 0
        self.rows = []          # per buffer row [list of J entries (None = unspecified), y (None = unspecified)]
        self.W = []
        self.a, self.b = [], []
        self.inv = None         # None: nothing known | 'zero' | dict(Ginv=Fractions or None, cond=float, path=str)
        self.dirty = False      # rows / weights / sizes changed since the estimate `inv` belongs to
        self.pre_changed = False

    def _reset_pre(self):
        self.a, self.b = [1.0] * self.est, [0.0] * self.est

    def normal(self, weighted, exact=True):
        """(G as floats, G as Fractions) of rows 0..n-1 of the current problem, or None when an entry is unspecified"""
        e, n = self.est, self.n
        if not self.alive or e == 0 or n > self.cap:
            return None
        R = []
        for k in range(n):
            r = self.rows[k]
            if len(r[0]) < e or any(v is None for v in r[0][:e]):
                return None
            w = self.W[k] if weighted else None
            R.append([v * w for v in r[0][:e]] if weighted else list(r[0][:e]))     # v * w: the double product the code forms
        if any(math.isnan(v) or math.isinf(v) for r in R for v in r):
            return None
        if not exact:
            return [[math.fsum(r[i] * r[j] for r in R) for j in range(e)] for i in range(e)], None
        RF = [[Fraction(v) for v in r] for r in R]
        GF = [[sum(r[i] * r[j] for r in RF) for j in range(e)] for i in range(e)]
        return [[float(x) for x in r] for r in GF], GF

    @staticmethod
    def cond(G):
        lo = jacobi_min_eig(G)
        hi = -jacobi_min_eig([[-x for x in r] for r in G])
        return hi / lo if lo > 0 else math.inf

    def feed(self, line):
        """advance by one op line; returns the analysis of a `lsh.cov` line (None otherwise / when not applicable)"""
        tk = line.split()
        op = tk[0]
        try:
            if op == 'lsh.new':
                e = int(tk[1])
                if not 1 <= e <= 8 or len(tk) > 3:
                    return None
                n = int(tk[2]) if len(tk) == 3 else 0
                if not 0 <= n <= 64:
                    return None
                self.__init__(self.lite)
                self.alive, self.est, self.n, self.cap, self.jcols = True, e, n, n, e
                self.rows = [[[0.0] * e, 0.0] for _ in range(n)]
                self.W = [1.0] * n
                self._reset_pre()
                self.inv = 'zero'
                return None
            if not self.alive:
                return None
            if op == 'lsh.est' and len(tk) == 2:
                e = int(tk[1])
                if not 1 <= e <= 8:
                    return None
                if self.cap > 0 and e != self.jcols:     # J_.resize(Y_.rows(), e): contents unspecified; Y_, W_ untouched
                    self.rows = [[[None] * e, r[1]] for r in self.rows]
                self.jcols = self.est = e
                self._reset_pre()
                self.inv, self.dirty, self.pre_changed = 'zero', False, False
            elif op == 'lsh.size' and len(tk) == 2:
                n = int(tk[1])
                if not 0 <= n <= 64:
                    return None
                if n != self.n:
                    self.dirty = True
                self.n = n
                if self.cap < n:
                    self.cap, self.jcols = n, self.est
                    self.rows = [[[None] * self.est, None] for _ in range(n)]
                    self.W = [1.0] * n
                    self.dirty = True
            elif op == 'lsh.row':
                i = int(tk[1])
                vals = [tok_val(t) for t in tk[2:]]
                if i >= self.cap or len(vals) != self.est + 1:
                    return None
                self.rows[i] = [list(vals[:self.est]), vals[self.est]]
                self.dirty = True
            elif op == 'lsh.w' and len(tk) == 3:
                i = int(tk[1])
                if i >= self.cap:
                    return None
                self.W[i] = tok_val(tk[2])
                self.dirty = True
            elif op == 'lsh.pre':
                vals = [tok_val(t) for t in tk[1:]]
                if len(vals) != 2 * self.est:
                    return None
                self.a, self.b = vals[:self.est], vals[self.est:]
                self.pre_changed = True
            elif op in ('lsh.svd', 'lsh.chol', 'lsh.wls') and len(tk) == 1:
                weighted = op == 'lsh.wls'
                g = None if self.lite else self.normal(weighted)
                if self.lite:
                    self.inv = {'Ginv': None}
                elif g is None:
                    self.inv = None
                else:
                    self.inv = {'Ginv': frac_inverse(g[1]), 'cond': self.cond(g[0]), 'path': op[4:]}
                if weighted and self.n <= self.cap:     # weightJAndY_: rows 0..n-1 stay multiplied by their weights
                    for k in range(self.n):
                        r, w = self.rows[k], self.W[k]
                        r[0] = [(v * w if (c < self.est and v is not None) else v) for c, v in enumerate(r[0])]
                        r[1] = r[1] * w if r[1] is not None else None
                self.dirty, self.pre_changed = False, False
            elif op == 'lsh.cov' and len(tk) == 2:
                var = tok_val(tk[1])
                e = self.est
                info = {'e': e, 'var': var, 'a': list(self.a), 'dirty': self.dirty, 'pre_changed': self.pre_changed}
                if self.inv == 'zero':
                    info['zero'] = True
                elif isinstance(self.inv, dict) and self.inv['Ginv'] is not None and len(self.inv['Ginv']) == e:
                    gi = self.inv['Ginv']
                    fa, fv = [Fraction(x) for x in self.a], Fraction(var)
                    info['expected'] = [[float(fv * fa[i] * gi[i][j] * fa[j]) for j in range(e)] for i in range(e)]
                    info['cond'] = self.inv['cond']
                    info['path'] = self.inv['path']
                    gmax = max(abs(float(x)) for r in gi for x in r)
                    # error model of a covariance formed through the explicit inverse of G: entry (i,j) carries the
                    # error of the inverse (relative to its largest entry, ~ eps * cond) scaled by |a_i a_j var|
                    rel = 1e-9 + 256.0 * EPS64 * self.inv['cond']
                    s = max(max(abs(x) for r in info['expected'] for x in r), 1e-300)
                    info['tol'] = [[max(1e-8 * s, rel * abs(self.a[i] * self.a[j] * var) * gmax) for j in range(e)] for i in range(e)]
                return info
        except (ValueError, IndexError, TypeError, OverflowError):
            return None
        return None


_HIST_CACHE = {}


def analyse_history(case):
    key = (case.get('name'), len(case['lines']), hash(tuple(case['lines'])))
    if key not in _HIST_CACHE:
        if len(_HIST_CACHE) > 20000:
            _HIST_CACHE.clear()
        sh = LsShadow()
        _HIST_CACHE[key] = [sh.feed(l) for l in case['lines']]
    return _HIST_CACHE[key]


def _pvals(line):
    tk = line.split()
    if not tk or tk[0] != 'P':
        return None
    try:
        return [tok_val(t) for t in tk[1:]]
    except (ValueError, IndexError):
        return None


def compare_history(case, li, impl, model):
    if impl == model:
        return True
    pi, pm = _pvals(impl), _pvals(model)
    if pi is None or pm is None or len(pi) != len(pm) or not pi:
        return False
    an = analyse_history(case)
    info = an[li] if li < len(an) else None
    if any(math.isnan(x) or math.isnan(y) for x, y in zip(pi, pm)):
        return False
    if info is not None and 'tol' in info and len(pi) == info['e'] ** 2:
        tol = flat(info['tol'])
        return all(abs(x - y) <= 2.0 * t for x, y, t in zip(pi, pm, tol))
    if info is not None and info.get('zero'):
        return all(x == y for x, y in zip(pi, pm))
    s = max(max(abs(v) for v in pi), max(abs(v) for v in pm))
    return _close(pi, pm, 1e-9 * s + 1e-300)


HIST_MALFORMED = ['lsh.size 3', 'lsh.cov d0', 'lsh.new 0', 'lsh.new 9', 'lsh.new 2 65', 'lsh.new 2', 'lsh.row 0 d0 d0 d0', 'lsh.size 2',
                  'lsh.row 2 d0 d0 d0', 'lsh.row 0 d0 d0', 'lsh.row 0 d0 d0 d0 d0', 'lsh.row 0 s0 d0 d0', 'lsh.w 5 d0', 'lsh.pre d0',
                  'lsh.pre d0 d0 d0', 'lsh.est 0', 'lsh.est 9', 'lsh.size 65', 'lsh.frob', 'lsh.cov', 'lsh.cov x', 'lsh.chol 1',
                  'lsh.row 1 d0 d0 d0', 'lsh.size 3']
HIST_MALFORMED_OK = {5: 'ok', 7: 'grew 1', 22: 'ok', 23: 'grew 1'}      # every other line: bad-op


def _well_conditioned(rng, n, e):
    """n x e design matrix with cond(J^T J) < 1e3 before the column scales"""
    while True:
        jm = [[rng.gauss() for _ in range(e)] for _ in range(n)]
        g = matmul(transpose(jm), jm)
        lo = jacobi_min_eig(g)
        hi = -jacobi_min_eig([[-x for x in r] for r in g])
        if lo > 0 and hi / lo < 1e3:
            return jm


def _history_case(rng, idx):
    sh = LsShadow(lite=True)
    lines = []
    meta = {'history': True, 'problems': 0}

    def emit(l):
        lines.append(l)
        sh.feed(l)

    def write_rows(jm, ys, idx_rows):
        for i in idx_rows:
            emit('lsh.row %d %s' % (i, toks(list(jm[i]) + [ys[i]])))

    def fresh_problem(n, e):
        jm = _well_conditioned(rng, n, e)
        scale = rng.loguniform(0.05, 20.0)          # problems of one history differ grossly in scale: so do their covariances
        sc = [scale * rng.loguniform(0.3, 3.0) for _ in range(e)]
        if rng.chance(0.25):
            # columns over several decades: cond(J) up to ~1e5 (seeded change c12d: a RELATIVE cut sigma_max * sqrt(eps) on the
            # singular values of J^T J — the squared ones of J — drops the largest-variance direction for cond(J) > 8192)
            sc = [scale * 10.0 ** rng.uniform(-2.2, 2.2) for _ in range(e)]
        jm = [[jm[r][c] * sc[c] for c in range(e)] for r in range(n)]
        return jm, [rng.gauss() * rng.choice([1.0, 1.0, 100.0]) for _ in range(n)]

    def pre_line(e):
        a = [rng.choice([-1, 1]) * rng.loguniform(1e-2, 1e2) if rng.chance(0.8) else 1.0 for _ in range(e)]
        b = [rng.uniform(-10, 10) if rng.chance(0.7) else 0.0 for _ in range(e)]
        return 'lsh.pre ' + toks(a + b)

    def usable(path):
        g = sh.normal(path == 'wls', exact=False)
        return g is not None and sh.n >= sh.est and LsShadow.cond(g[0]) < HIST_COND_LIMIT

    e = rng.choice([1, 2, 2, 3, 3, 4, 5])
    if rng.chance(0.3):
        emit('lsh.new %d %d' % (e, rng.int(0, 12)))
    else:
        emit('lsh.new %d' % e)
    if rng.chance(0.05):
        emit('lsh.cov ' + D(1.0))                   # nothing estimated yet: zero matrix (correspondence only)
    if rng.chance(0.6):
        emit(pre_line(e))
    nprob = rng.int(2, 5)
    for p in range(nprob):
        mode = 'load' if p == 0 else rng.choice(['newJ', 'newJ', 'newJ', 'resize', 'resize', 'resize', 'partial', 'partial', 'onlyY',
                                                  'weights', 'est', 'pre'])
        forced = None
        if mode == 'est':
            e = rng.choice([e, e, max(1, e - 1), min(6, e + 1), rng.int(1, 5)])
            emit('lsh.est %d' % e)
            if rng.chance(0.2):
                emit('lsh.cov ' + D(rng.loguniform(1e-2, 1e2)))      # zero right after setEstimateSize (correspondence only)
            if rng.chance(0.5):
                emit(pre_line(e))
        if mode in ('load', 'resize', 'est'):
            n = rng.choice([e, e + 1, rng.int(e, e + 6), rng.int(e, e + 14)])
            emit('lsh.size %d' % n)
            jm, ys = fresh_problem(n, e)
            order = list(range(n))
            if rng.chance(0.2):
                rng.shuffle(order)
            write_rows(jm, ys, order)
        elif mode == 'newJ':
            jm, ys = fresh_problem(sh.n, e)
            write_rows(jm, ys, range(sh.n))
        elif mode == 'partial':
            # only some rows of the design matrix change (at least one); possibly on a smaller problem
            if sh.n > e and rng.chance(0.4):
                emit('lsh.size %d' % rng.int(e, sh.n))
            jm, ys = fresh_problem(sh.n, e)
            sel = [i for i in range(sh.n) if rng.chance(0.5)] or [rng.int(0, sh.n - 1)]
            write_rows(jm, ys, sel)
        elif mode == 'onlyY':
            # the design matrix stays, only the observations change: the covariance must not move
            for i in range(sh.n):
                r = sh.rows[i]
                if all(v is not None for v in r[0][:e]):
                    emit('lsh.row %d %s' % (i, toks(list(r[0][:e]) + [rng.gauss() * 10.0])))
        elif mode == 'weights':
            for i in range(sh.n):
                if rng.chance(0.7):
                    emit('lsh.w %d %s' % (i, D(rng.uniform(0.5, 2.0))))
            forced = 'wls'
        elif mode == 'pre':
            emit(pre_line(e))
            if rng.chance(0.5) and isinstance(sh.inv, dict) and not sh.dirty:
                emit('lsh.cov ' + D(rng.loguniform(1e-4, 1e2)))      # same estimate, newly configured preconditioner
        if mode != 'weights' and rng.chance(0.25):
            for i in range(sh.n):
                if rng.chance(0.5):
                    emit('lsh.w %d %s' % (i, D(rng.uniform(0.5, 2.0))))
        if rng.chance(0.15):
            emit(pre_line(e))
        paths = rng.choice([['chol'], ['chol'], ['svd'], ['wls'], ['wls'], ['chol', 'svd'], ['svd', 'chol'], ['chol', 'wls'], ['svd', 'wls'],
                            ['wls', 'chol']])
        if forced:
            paths = [forced] + (paths[1:] if len(paths) > 1 else [])
        for path in paths:
            if not usable(path):
                # (partial rewrites / repeated in-place weighting can ruin the conditioning): state a fresh problem
                n = max(sh.n, e)
                if n != sh.n or n > sh.cap:
                    emit('lsh.size %d' % n)
                jm, ys = fresh_problem(n, e)
                write_rows(jm, ys, range(n))
                for i in range(n):
                    if sh.W[i] != 1.0:
                        emit('lsh.w %d %s' % (i, D(1.0)))
            emit('lsh.' + path)
            if rng.chance(0.85):
                emit('lsh.cov ' + D(rng.loguniform(1e-4, 1e2)))
                if rng.chance(0.2):
                    emit('lsh.cov ' + D(rng.loguniform(1e-4, 1e2)))      # a second query with another variance
        meta['problems'] += 1
    return {'name': 'lshist-%d' % idx, 'lines': lines, 'meta': meta}


def gen_history_cases(rng, tier):
    cases = [{'name': 'lshist-malformed', 'lines': list(HIST_MALFORMED), 'meta': {'history': True, 'malformed': True}}]
    for i in range(150 if tier == 'quick' else 3000):
        cases.append(_history_case(rng, i))
    return cases


def oracle_history(case, out, stats):
    fails = []

    def bump(k, v=1):
        stats[k] = stats.get(k, 0) + v
    if case.get('meta', {}).get('malformed'):
        for i, (line, o) in enumerate(zip(case['lines'], out)):
            want = HIST_MALFORMED_OK.get(i, 'bad-op')
            if o != want:
                fails.append({'kind': 'malformed-accepted', 'detail': '%s -> %s (expected %s)' % (line, o, want), 'fields': {}})
        bump('ls_hist_malformed_lines', len(out))
        return fails
    an = analyse_history(case)
    for li, (line, o) in enumerate(zip(case['lines'], out)):
        op = line.split()[0]
        bump(op)

        def bad(kind_, detail, **fields):
            fails.append({'kind': kind_, 'detail': '%s line %d (%s) -> %s : %s' % (case.get('name'), li, line[:120], o[:200], detail),
                          'fields': fields})
        if o in ('abort', 'hang', 'exception', 'skipped', 'bad-op', 'bad-shape', 'shape-mismatch'):
            bad('outcome-' + o, 'unexpected outcome on a solver history inside the preconditions')
            break
        if op != 'lsh.cov':
            continue
        info = an[li]
        P = _pvals(o)
        if info is None or P is None or len(P) != info['e'] ** 2:
            bad('malformed', 'bad covariance output')
            continue
        if info.get('zero'):
            bump('ls_hist_cov_before_any_estimate')       # not part of the property (the model / correspondence say: zero)
            continue
        if 'expected' not in info:
            bump('ls_hist_cov_skipped_unspecified')
            continue
        if info['dirty']:
            bump('ls_hist_cov_skipped_rows_changed_since_estimate')
            continue
        e = info['e']
        exp, tol = info['expected'], info['tol']
        bump('ls_hist_cov_checked')
        bump('ls_hist_cov_after_' + info['path'])
        if info['pre_changed']:
            bump('ls_hist_cov_after_preconditioner_change')
        if any(math.isnan(v) or math.isinf(v) for v in P):
            bad('ls-covariance-history', 'covariance not finite on a full-rank problem (cond %.3g)' % info['cond'], path=info['path'])
            continue
        worst = max((abs(P[i * e + j] - exp[i][j]) / tol[i][j]) for i in range(e) for j in range(e))
        stats['ls_hist_max_err_over_tol'] = max(stats.get('ls_hist_max_err_over_tol', 0.0), worst)
        if worst > 1.0:
            s = max(maxabs(exp), 1e-300)
            bad('ls-covariance-history',
                'computeEstimateCovariance on a REUSED solver differs from variance * A (J^T J)^-1 A^T of the current problem '
                '(last estimate: %s, cond %.3g): relative error %.3g; reported %r, expected %r'
                % (info['path'], info['cond'], maxdiff(mat(P, e, e), exp) / s, P, flat(exp)), path=info['path'], e=e)
    return fails


# ------------------------------------------------------------------ stage G: SmartRotation3D translated (DESIGN.md 2.5b)
_SIG = '(const double &, const double &, const double &)'
BRIDGE_SPEC = {
    'id': 'C12',
    'sources': ['src/transform/SmartRotation3D.cpp', 'src/geometry/Pose3D.cpp'],
    'imports': ['RomeaModel.Pose'],
    # std::fmod (inside rotation3DToEulerAngles -> between0And2Pi) is not in Lean's core: it is mapped to the fmod of the model this
    # function is bridged to (`Romea.Pose.fmod`: two exact reduction steps), as `Romea.Rotation.fmod` is in the C10 spec
    'externs': {'fmod': {'lean': 'Romea.Pose.fmod', 'classes': ['Add', 'Sub', 'LT', 'DecidableLT', 'NatCast', 'Trans']}},
    'transform_oracles': ['rotation'],      # `affine.rotation()`: the model's `rotOf` parameter
    'functions': [
        {'cxx': 'SmartRotation3D::SmartRotation3D', 'sig': _SIG, 'outputs': ['R_'], 'suffix': '_R'},
        {'cxx': 'SmartRotation3D::SmartRotation3D', 'sig': _SIG, 'outputs': ['dRdAngleX_'], 'suffix': '_dRdX'},
        {'cxx': 'SmartRotation3D::SmartRotation3D', 'sig': _SIG, 'outputs': ['dRdAngleY_'], 'suffix': '_dRdY'},
        {'cxx': 'SmartRotation3D::SmartRotation3D', 'sig': _SIG, 'outputs': ['dRdAngleZ_'], 'suffix': '_dRdZ'},
        # phase 5 (builder b6): `operator*(const Eigen::Affine3d &, const Pose3D &)` of src/geometry/Pose3D.cpp, `affine.rotation()` as an oracle
        {'cxx': 'operator*', 'sig': '(const Eigen::Affine3d &, const romea::core::Pose3D &)', 'suffix': '_pose'},
    ],
}


def regen(ctx):
    import bridge
    return bridge.regen_bridge(ctx, BRIDGE_SPEC)
