"""C07 — linear least-squares solver returns the minimiser of the current problem only (DESIGN.md section 6, C07).

Generator: problem SEQUENCES on one solver object (growing, shrinking, equal and square sizes; stale rows written
beyond the current data size; weights; affine preconditioners; estimate-size changes up and down on the live object,
with and without a following reallocation), float and double.
Oracle (property probe on the implementation's outputs, all judged here from the op text alone):
  * the returned x equals A*x_ls + b, x_ls = least-squares solution of rows 0..n-1 of the CURRENT problem computed
    independently by Householder QR (so: minimiser, preconditioner, history independence in one check),
  * for A = I, b = 0 the normal-equation residual J^T (J x - Y) vanishes to rounding,
  * Cholesky and SVD paths agree, the weighted variant solves the row-scaled problem,
  * a smaller problem after a larger one gives the same answer as a FRESH solver (the generator replays the
    current problem on a new object at the end of some sequences).
Tolerances scale with unit round-off * cond(J)^2 (the solver forms the normal matrix and its explicit inverse).
"""
import math
from vlib import D, S, tok_val, to_f32

ID = 'C07'
LEVEL = 'proof'
DRIVER = 'drv_c07'
HARNESS = 'c07.cpp'
SOURCES = ['src/regression/leastsquares/LeastSquares.cpp']
PROOF_MODULES = ['RomeaProofs.Properties.C07', 'RomeaProofs.Bridge.C07', 'RomeaProofs.Bridge.C07Cor']


# ------------------------------------------------------------------ tie no. 2: the member functions themselves, translated on every run
def _bridge_functions(t, s):
    rec = 'LeastSquares<%s>' % t
    lst = [('LeastSquares::LeastSquares', 'void ()', '_default'), ('LeastSquares::LeastSquares', 'void (const size_t &)', '_est'),
           ('LeastSquares::LeastSquares', 'const size_t &, const size_t &', '_estData'),
           ('LeastSquares::setDataSize', None, ''), ('LeastSquares::setEstimateSize', None, ''),
           ('LeastSquares::setPreconditionner', 'Vector &)', '_Ab'), ('LeastSquares::setPreconditionner', 'Matrix &)', '_A'),
           ('LeastSquares::computeJTJ_', None, ''), ('LeastSquares::computeJTY_', None, ''), ('LeastSquares::weightJAndY_', None, ''),
           ('LeastSquares::estimateUsingSVD', None, ''), ('LeastSquares::estimateUsingCholeskyDecomposition', None, ''),
           ('LeastSquares::weightedEstimate', None, ''), ('LeastSquares::computeEstimateCovariance', None, '')]
    out = []
    for cxx, sig, suf in lst:
        d = {'cxx': cxx, 'record': rec, 'suffix': suf + s}
        if sig:
            d['sig'] = sig
        out.append(d)
    return out


BRIDGE_SPEC = {
    'id': 'C07',
    'sources': ['src/regression/leastsquares/LeastSquares.cpp'],
    'filter': 'LeastSquares',      # one clang pass, restricted to the class (its two explicit instantiations): ~8 s of the ~11 s
    # dynamic-size Eigen members are aggregates (coefficients `m` as a total function of the indices, `rows`, `cols`); `resize` leaves
    # uninitialised coefficients = an uninterpreted function `resize_<member>` (the model's junkJ / junkY), `A.ldlt().solve(B)` is the
    # uninterpreted `ldlt_solve`, products / `dot` are explicit sums in index order with a leading zero (the model's `sumTo`)
    'dyn_sizes': True,
    # the local `Eigen::JacobiSVD<Matrix> svd(JtJ_, ComputeThinU | ComputeThinV)` is the record of its constructor arguments; its three
    # accessors are uninterpreted functions of them (the model's `Env.svd`), shapes as Eigen documents them for thin U / V
    'oracle_classes': {'JacobiSVD': {'methods': {'singularValues': ['(min {r0} {c0})'], 'matrixU': ['{r0}', '(min {r0} {c0})'],
                                                 'matrixV': ['{c0}', '(min {r0} {c0})']}}},
    'functions': _bridge_functions('double', '_d') + _bridge_functions('float', '_f'),
}


def regen(ctx):
    import bridge
    return bridge.regen_bridge(ctx, BRIDGE_SPEC)
TRUSTED = ['Eigen JacobiSVD / LDLT are parameters of the model with stated contracts (IsSVD, IsLDLTInverse); the driver plugs in '
           'Lean Float implementations (cyclic Jacobi, LDL^T) and all solver outputs are compared within a cond^2-scaled tolerance',
           'the probe judges the C++ outputs against an independent Householder-QR solution computed in Python doubles']
ASSUMPTIONS = ['theorems are over the reals (no rounding); float/double behaviour is covered by the correspondence check and the probe only',
               'contents of a reallocated buffer (setDataSize growth, setEstimateSize with a different size) are unspecified (quantified in '
               'the theorems, NaN in the driver); every generated problem rewrites rows < n afterwards, as every caller in /repo does',
               'the absolute `> epsilon` singular-value cut of estimateUsingSVD makes problems with sigma_min(J)^2 <= epsilon a separate '
               'matter (DESIGN C07): they are generated for the correspondence only and counted as svd_cut_outside_domain by the probe',
               'float problems are generated with cond(J) <= 30, double with cond(J) <= 1e6 (normal equations square the condition number)']
EXPLANATION = ('Lean proofs (minimiser, Cholesky = SVD, weighted, preconditioner, history independence over every op sequence) on the '
               'model + differential correspondence on problem sequences + QR-based probe')
HANG_SECS = 30

U = {'d': 2.0 ** -53, 'f': 2.0 ** -24}
EPS = {'d': 2.0 ** -52, 'f': 2.0 ** -23}


# ------------------------------------------------------------------ small dense linear algebra (pure python, doubles)
def householder_ls(rows, ys, e):
    """least-squares solution of rows*x = ys by Householder QR; returns (x, R) or None if rank deficient"""
    n = len(rows)
    A = [list(r) for r in rows]
    b = list(ys)
    for k in range(e):
        nrm = math.sqrt(math.fsum(A[i][k] * A[i][k] for i in range(k, n)))
        if nrm == 0.0:
            return None
        alpha = -nrm if A[k][k] >= 0 else nrm
        v = [A[i][k] for i in range(k, n)]
        v[0] -= alpha
        vv = math.fsum(x * x for x in v)
        if vv == 0.0:
            continue
        for j in range(k, e):
            s = 2.0 * math.fsum(v[i - k] * A[i][j] for i in range(k, n)) / vv
            for i in range(k, n):
                A[i][j] -= s * v[i - k]
        s = 2.0 * math.fsum(v[i - k] * b[i] for i in range(k, n)) / vv
        for i in range(k, n):
            b[i] -= s * v[i - k]
    R = [[A[i][j] if j >= i else 0.0 for j in range(e)] for i in range(e)]
    x = [0.0] * e
    for i in range(e - 1, -1, -1):
        if R[i][i] == 0.0:
            return None
        x[i] = (b[i] - math.fsum(R[i][j] * x[j] for j in range(i + 1, e))) / R[i][i]
    return x, R


def singular_values(M, e):
    """one-sided (Hestenes) Jacobi on a small square matrix"""
    A = [list(r) for r in M]
    for _ in range(60):
        rot = False
        for p in range(e):
            for q in range(p + 1, e):
                a = math.fsum(A[i][p] * A[i][p] for i in range(e))
                b = math.fsum(A[i][q] * A[i][q] for i in range(e))
                c = math.fsum(A[i][p] * A[i][q] for i in range(e))
                if abs(c) <= 1e-17 * math.sqrt(a * b) or c == 0.0:
                    continue
                rot = True
                zeta = (b - a) / (2.0 * c)
                t = math.copysign(1.0, zeta) / (abs(zeta) + math.sqrt(1.0 + zeta * zeta))
                cs = 1.0 / math.sqrt(1.0 + t * t)
                sn = cs * t
                for i in range(e):
                    x, y = A[i][p], A[i][q]
                    A[i][p] = cs * x - sn * y
                    A[i][q] = sn * x + cs * y
        if not rot:
            break
    return sorted((math.sqrt(math.fsum(A[i][j] * A[i][j] for i in range(e))) for j in range(e)), reverse=True)


def solve_square(A, b, e):
    """Gaussian elimination with partial pivoting"""
    M = [list(A[i]) + [b[i]] for i in range(e)]
    for k in range(e):
        p = max(range(k, e), key=lambda i: abs(M[i][k]))
        if M[p][k] == 0.0:
            return None
        M[k], M[p] = M[p], M[k]
        for i in range(k + 1, e):
            f = M[i][k] / M[k][k]
            for j in range(k, e + 1):
                M[i][j] -= f * M[k][j]
    x = [0.0] * e
    for i in range(e - 1, -1, -1):
        x[i] = (M[i][e] - sum(M[i][j] * x[j] for j in range(i + 1, e))) / M[i][i]
    return x


# ------------------------------------------------------------------ shadow of the solver's *specified* state
class Shadow:
    """what the op text alone says about the object: sizes, preconditioner, and the rows / weights that are
    SPECIFIED (written since the last reallocation).  Unspecified entries are None."""

    def __init__(self):
        self.T = None
        self.est = 0
        self.n = 0
        self.cap = 0
        self.jcols = 0
        self.rows = []      # per buffer row: None or (list J, y)
        self.W = []
        self.A = None
        self.b = None
        self.sc = []        # per buffer row: scaled in place by a weighted estimate and not rewritten since

    def new(self, tk):
        self.__init__()
        self.T = tk[1]
        if len(tk) >= 3:
            self.set_est(int(tk[2]))
        if len(tk) >= 4:
            n = int(tk[3])
            self.n = self.cap = n
            self.jcols = self.est
            self.rows = [([0.0] * self.est, 0.0) for _ in range(n)]
            self.W = [1.0] * n
            self.sc = [False] * n

    def set_est(self, e):
        # setEstimateSize reshapes J_ to Y_.rows() x e: contents unspecified when the column count changes (reallocation),
        # untouched when it does not; Y_, W_ keep their contents
        if self.cap > 0 and e != self.jcols:
            self.rows = [None if r is None else ([None] * e, r[1]) for r in self.rows]
        self.jcols = e
        self.est = e
        self.A = [[1.0 if i == j else 0.0 for j in range(e)] for i in range(e)]
        self.b = [0.0] * e

    def size(self, n):
        self.n = n
        if self.cap < n:
            self.cap = n
            self.jcols = self.est
            self.rows = [None] * n
            self.W = [1.0] * n
            self.sc = [False] * n
            return True
        return False

    def row(self, i, vals):
        e = self.est
        self.sc[i] = False
        self.rows[i] = (list(vals[:e]), vals[e])

    def current(self, weighted=False):
        """(rows, ys) of the current problem, or None when some needed entry is unspecified"""
        e, n = self.est, self.n
        if e == 0:
            return None
        R, Yv = [], []
        for i in range(n):
            r = self.rows[i]
            if r is None or any(v is None for v in r[0][:e]):
                return None
            w = self.W[i] if weighted else 1.0
            R.append([v * w for v in r[0][:e]])
            Yv.append(r[1] * w)
        return R, Yv

    def scale_in_place(self, rnd):
        for i in range(self.n):
            r = self.rows[i]
            if r is not None:
                w = self.W[i]
                self.rows[i] = ([rnd(v * w) if (c < self.est and v is not None) else v for c, v in enumerate(r[0])], rnd(r[1] * w))
            self.sc[i] = True

    @property
    def scaled(self):
        return any(self.sc[:self.n])


_CACHE = {}


def analyse(case):
    """per line: None, or for estimate lines a dict with the independent reference (x_ref = A x_ls + b),
    cond(J), scales; cached on the case"""
    key = (case.get('name'), len(case['lines']), hash(tuple(case['lines'])))
    if key in _CACHE:
        return _CACHE[key]
    sh = Shadow()
    out = []
    last_inv = None     # (cond, sigma_min, sigma_max) of the problem of the last estimate, for ls.cov
    for line in case['lines']:
        tk = line.split()
        op = tk[0]
        info = None
        try:
            if op == 'ls.new':
                sh.new(tk)
                last_inv = None
            elif sh.T is None:
                pass
            elif op == 'ls.est':
                sh.set_est(int(tk[1]))
                last_inv = ('zero',)
            elif op == 'ls.size':
                sh.size(int(tk[1]))
            elif op in ('ls.row', 'ls.rowk'):
                sh.row(int(tk[1]), [tok_val(t) for t in tk[2:]])
                if all(sh.rows[i] is not None for i in range(min(sh.n, len(sh.rows)))):
                    pass
            elif op in ('ls.w', 'ls.wk'):
                sh.W[int(tk[1])] = tok_val(tk[2])
            elif op in ('ls.pre', 'ls.pre1'):
                e = sh.est
                v = [tok_val(t) for t in tk[1:]]
                sh.A = [v[i * e:(i + 1) * e] for i in range(e)]
                sh.b = v[e * e:] if op == 'ls.pre' else [0.0] * e
            elif op in ('ls.svd', 'ls.chol', 'ls.wls'):
                rnd = to_f32 if sh.T == 'f' else (lambda x: x)
                cur = sh.current(weighted=(op == 'ls.wls'))
                info = {'op': op, 'T': sh.T, 'e': sh.est, 'n': sh.n, 'defined': cur is not None, 'scaled_before': sh.scaled}
                if cur is not None and sh.n >= sh.est:
                    R, Yv = cur
                    res = householder_ls(R, Yv, sh.est)
                    if res is not None:
                        xls, Rf = res
                        sv = singular_values(Rf, sh.est)
                        info.update(xls=xls, smax=sv[0], smin=sv[-1], cond=(sv[0] / sv[-1] if sv[-1] > 0 else math.inf),
                                    A=[list(r) for r in sh.A], b=list(sh.b), rows=R, ys=Yv,
                                    xref=[math.fsum(sh.A[i][j] * xls[j] for j in range(sh.est)) + sh.b[i] for i in range(sh.est)])
                        normA = max(sum(abs(v) for v in r) for r in sh.A)
                        normA1 = max(sum(abs(sh.A[i][j]) for i in range(sh.est)) for j in range(sh.est))
                        # errors of the computed J^T Y are relative to |J|^T |Y|, i.e. to |Y| / sigma_max in units of x: a right-hand
                        # side with a large component outside range(J) (noise) makes x_ls small without making its error small
                        ynorm = math.sqrt(math.fsum(v * v for v in Yv))
                        info['scale_x'] = max(normA * max(max(abs(v) for v in xls), ynorm / sv[0]) + max(abs(v) for v in sh.b), 1e-300)
                        # componentwise: x_i = sum_j A_ij xls_j + b_i, the error of xls is normwise (each xls_j off by up to
                        # tol * max|xls|), so component i is off by at most tol * (sum_j |A_ij|) * max|xls| (+ the rounding of b_i).
                        # A normwise scale would hide a dropped SMALL entry of A in a row whose other entries are small too
                        # (seeded change c07e: off-diagonals below 1e-5 / 1e-12 of the largest diagonal entry ignored)
                        mx = max(max(abs(v) for v in xls), ynorm / sv[0])
                        info['scale_xi'] = [max(sum(abs(v) for v in sh.A[i]) * mx + abs(sh.b[i]), 1e-300) for i in range(sh.est)]
                        info['inv_norm'] = 1.0 / (sv[-1] * sv[-1]) if sv[-1] > 0 else math.inf
                        last_inv = ('inv', info)
                    else:
                        info['rankdef'] = True
                        last_inv = None
                else:
                    last_inv = None
                if op == 'ls.wls':
                    sh.scale_in_place(rnd)
            elif op == 'ls.cov':
                info = {'op': op, 'T': sh.T, 'e': sh.est, 'last': last_inv, 'A': [list(r) for r in sh.A] if sh.A else None,
                        'var': tok_val(tk[1])}
                if sh.A and last_inv and last_inv[0] == 'inv':
                    normA = max(sum(abs(v) for v in r) for r in sh.A)
                    normA1 = max(sum(abs(sh.A[i][j]) for i in range(sh.est)) for j in range(sh.est))
                    info['scale_P'] = max(normA * normA1 * last_inv[1]['inv_norm'] * abs(info['var']), 1e-300)
        except (IndexError, ValueError, TypeError):
            info = None
        out.append(info)
    if len(_CACHE) > 20000:
        _CACHE.clear()
    _CACHE[key] = out
    return out


def _tol(info, scale_e=1.0):
    """relative tolerance for quantities obtained through the explicit inverse of the normal matrix"""
    u = U[info['T']]
    c = info.get('cond', 1.0)
    return 1e-9 + 64.0 * info['e'] * math.sqrt(max(info['n'], 1)) * u * c * c * scale_e


def _vec(line, tag):
    f = line.split()
    if not f or f[0] != tag:
        return None
    try:
        return [tok_val(t) for t in f[1:]]
    except ValueError:
        return None


def _in_domain(info):
    """the property's domain: specified full-rank problem, cond below the limit for the type; and (SVD path) no
    singular value of the normal matrix at or below the absolute cut"""
    if not info.get('defined') or 'xls' not in info:
        return False
    lim = 1e6 if info['T'] == 'd' else 30.0
    return info['cond'] <= lim


def _cut_active(info):
    return info['smin'] ** 2 <= 16.0 * EPS[info['T']]


# ------------------------------------------------------------------ correspondence comparison
def compare(case, li, op, impl, model):
    if impl == model:
        return True
    an = analyse(case)
    info = an[li] if li < len(an) else None
    a, b = impl.split(), model.split()
    if len(a) != len(b) or not a or a[0] != b[0]:
        return False
    if a[0] in ('x', 'P') and info is not None:
        try:
            va = [tok_val(t) for t in a[1:]]
            vb = [tok_val(t) for t in b[1:]]
        except ValueError:
            return False
        scale = None
        if a[0] == 'P':
            last = info.get('last')
            if not last or last[0] != 'inv':
                base = {'T': info['T'], 'e': info['e'], 'n': 1, 'cond': 1.0}
            else:
                base = last[1]
                scale = info.get('scale_P')
            tol = _tol(base, 4.0)
        else:
            if not info.get('defined'):
                # unspecified inputs (NaN in the model): nothing to compare
                return True
            if 'xls' not in info:
                return True     # rank deficient: both sides are garbage of different kinds
            tol = _tol(info)
            scale = info.get('scale_x')
            if _cut_active(info) and info['smin'] ** 2 >= EPS[info['T']] / 16.0 and info['op'] == 'ls.svd':
                return True     # a singular value within a factor 16 of the absolute cut: either branch may be taken
        if tol >= 0.5:
            # the rounding-error bound of the explicit inverse exceeds the result itself (u * cond^2 >~ 1: far outside the property's
            # domain for this scalar type, e.g. two float rows that agree to 5 digits): Eigen's LDLT / SVD and the model's produce
            # garbage of different kinds (finite vs NaN included) — nothing to compare
            return True
        if any(math.isnan(x) != math.isnan(y) for x, y in zip(va, vb)):
            return False
        fin = [(x, y) for x, y in zip(va, vb) if not math.isnan(x)]
        if not fin:
            return True
        if a[0] == 'x' and info.get('scale_xi') and len(info['scale_xi']) == len(va):
            return all(math.isnan(x) or abs(x - y) <= tol * max(si, abs(x), abs(y)) or (math.isinf(si) and x == y)
                       for x, y, si in zip(va, vb, info['scale_xi']))
        scale = max(scale or 0.0, max(max(abs(x), abs(y)) for x, y in fin))
        if math.isinf(scale):
            return all(x == y for x, y in fin)
        return all(abs(x - y) <= tol * scale for x, y in fin)
    if a[0] == 'row':
        # in-place scaling is one multiplication: exact, except for entries that were never specified (NaN in the model)
        for x, y in zip(a[1:], b[1:]):
            if x == y or y == 'nan':
                continue
            return False
        return True
    return False


# ------------------------------------------------------------------ generators
def _tok(T):
    return D if T == 'd' else S


def _rnd(T, x):
    return x if T == 'd' else to_f32(x)


def _orth(rng, e):
    """random orthogonal e x e (Gram-Schmidt on gaussians)"""
    Q = []
    while len(Q) < e:
        v = [rng.gauss() for _ in range(e)]
        for q in Q:
            d = sum(a * b for a, b in zip(v, q))
            v = [a - d * b for a, b in zip(v, q)]
        nrm = math.sqrt(sum(a * a for a in v))
        if nrm > 1e-3:
            Q.append([a / nrm for a in v])
    return Q


def _problem(rng, T, e, n, kind):
    """rows (n x e), ys; `kind` selects the conditioning"""
    scale = rng.loguniform(1e-2, 1e2) if rng.chance(0.5) else 1.0
    if kind == 'plain':
        rows = [[rng.gauss() * scale for _ in range(e)] for _ in range(n)]
    elif kind == 'poly':      # polynomial regression: moderately ill-conditioned
        ts = [rng.uniform(-1, 1) for _ in range(n)]
        rows = [[scale * t ** c for c in range(e)] for t in ts]
    else:                      # prescribed condition number: (random n x e) * diag * orthogonal
        cond = rng.loguniform(10, 1e6 if T == 'd' else 30.0)
        Q = _orth(rng, e)
        sig = [cond ** (-(k / max(e - 1, 1))) for k in range(e)]
        base = [[rng.gauss() for _ in range(e)] for _ in range(n)]
        # orthonormalise the columns of base (modified Gram-Schmidt), then scale
        cols = [[base[i][c] for i in range(n)] for c in range(e)]
        for c in range(e):
            for p in range(c):
                d = sum(a * b for a, b in zip(cols[c], cols[p]))
                cols[c] = [a - d * b for a, b in zip(cols[c], cols[p])]
            nr = math.sqrt(sum(a * a for a in cols[c])) or 1.0
            cols[c] = [a / nr for a in cols[c]]
        rows = [[scale * sum(cols[k][i] * sig[k] * Q[k][c] for k in range(e)) for c in range(e)] for i in range(n)]
    # right-hand sides (hence solutions) over many decades: the minimiser is homogeneous in Y, so a solver that treats a SMALL
    # right-hand side as zero (seeded change c05b: `if (JtY_.isZero()) return Bc_` — Eigen's isZero() is an absolute 1e-12 / 1e-5
    # threshold) is wrong for a quarter of these problems and right for none of the others
    mag = 10.0 ** (-rng.uniform(0.0, 14.0 if T == 'd' else 7.0)) if rng.chance(0.25) else 1.0
    xtrue = [rng.gauss() * mag for _ in range(e)]
    noise = rng.choice([0.0, 1e-3, 0.1, 1.0]) * mag
    ys = [sum(r[c] * xtrue[c] for c in range(e)) + noise * scale * rng.gauss() for r in rows]
    return [[_rnd(T, v) for v in r] for r in rows], [_rnd(T, y) for y in ys]


def _write_rows(lines, tok, rows, ys, idx, op='ls.row'):
    for i in idx:
        lines.append('%s %d %s %s' % (op, i, ' '.join(tok(v) for v in rows[i]), tok(ys[i])))


def _precond(rng, T, e, tok):
    mode = rng.below(5)
    if mode == 4 and e >= 2:
        # ALMOST diagonal: diagonal entries over several decades plus a few off-diagonal entries 1e-3 .. 1e-14 of the largest one —
        # "is this matrix diagonal?" asked with a fuzzy predicate says yes, yet in a row with a small diagonal entry the coupling term
        # is as large as the rest of the row (seeded change c07e: Eigen's isDiagonal() fast path)
        big = rng.loguniform(1.0, 1e6)
        A = [[(big * rng.loguniform(1e-8, 1.0) if i == j else 0.0) for j in range(e)] for i in range(e)]
        A[rng.below(e)][rng.below(e)] = big if e else 1.0
        for _ in range(rng.int(1, 3)):
            i, j = rng.below(e), rng.below(e)
            if i != j:
                A[i][j] = big * 10.0 ** -rng.uniform(3.0, 14.0 if T == 'd' else 7.0) * rng.choice([1.0, -1.0])
        A = [[_rnd(T, v) for v in r] for r in A]
        if all(A[i][i] != 0.0 for i in range(e)):
            b = [_rnd(T, rng.uniform(-1, 1)) if rng.chance(0.5) else 0.0 for _ in range(e)]
            return 'ls.pre ' + ' '.join(tok(v) for r in A for v in r) + ' ' + ' '.join(tok(v) for v in b)
        mode = 0
    if mode == 0:      # diagonal scaling (what FindRigidTransformationByLeastSquares uses)
        A = [[(rng.loguniform(1e-3, 1e3) if i == j else 0.0) for j in range(e)] for i in range(e)]
    elif mode == 1:    # general well-conditioned matrix
        A = [[rng.gauss() + (3.0 if i == j else 0.0) for j in range(e)] for i in range(e)]
    elif mode == 2:    # rotation-like
        A = _orth(rng, e)
    else:
        A = [[1.0 if i == j else 0.0 for j in range(e)] for i in range(e)]
    A = [[_rnd(T, v) for v in r] for r in A]
    flat = ' '.join(tok(v) for r in A for v in r)
    if rng.chance(0.7):
        b = [_rnd(T, rng.gauss() * rng.choice([0.0, 1.0, 100.0])) for _ in range(e)]
        return 'ls.pre %s %s' % (flat, ' '.join(tok(v) for v in b))
    return 'ls.pre1 ' + flat


def _sequence(rng, T, tier, idx):
    tok = _tok(T)
    e = rng.choice([1, 2, 3, 3, 4, 5, 6, 6, 7, 8])
    nmax = rng.choice([12, 40, 40, 120] + ([500] if tier != 'quick' or rng.chance(0.15) else []))
    lines = []
    ctor = rng.below(4)
    if ctor == 0:
        lines += ['ls.new %s' % T, 'ls.est %d' % e]
    cap = 0
    if ctor == 1:
        cap = rng.int(0, nmax)
        lines.append('ls.new %s %d %d' % (T, e, cap))
    elif ctor >= 2:
        lines.append('ls.new %s %d' % (T, e))
    nprob = rng.int(2, 6)
    pattern = rng.choice(['shrink', 'grow', 'mixed', 'mixed', 'saw'])
    big = rng.int(max(e + 1, nmax // 2), nmax)
    meta = {'T': T, 'e': e, 'pattern': pattern}
    cur_rows = cur_ys = None
    for p in range(nprob):
        est_changed = False
        if p > 0 and rng.chance(0.25):
            # estimate-size change on the LIVE object, up or down, with no reallocation forced behind it: setEstimateSize itself
            # reshapes the design matrix (repair 186525a); the rows are rewritten afterwards, as every caller does
            e2 = rng.choice([rng.int(1, 8), min(8, e + rng.int(1, 3)), max(1, e - rng.int(1, 3)), e])
            lines.append('ls.est %d' % e2)
            if e2 == e and cur_rows is not None and rng.chance(0.7):
                # same size: the buffers are untouched, only the preconditioner and inverseJtJ_ are reset
                lines += [rng.choice(['ls.svd', 'ls.chol']), 'ls.cov ' + tok(_rnd(T, 1.0))] if rng.chance(0.5) else ['ls.cov ' + tok(_rnd(T, 1.0)), 'ls.svd']
            est_changed = e2 != e
            e = e2
        force_grow = False
        if pattern == 'shrink':
            n = big if p == 0 else rng.int(e, max(e, big // (p + 1)))
        elif pattern == 'grow':
            n = min(nmax, e + p * rng.int(1, max(1, nmax // nprob)))
        elif pattern == 'saw':
            n = big if p % 2 == 0 else rng.choice([e, e + 1, rng.int(e, max(e, big // 3))])
        else:
            n = rng.choice([e, e + 1, rng.int(e, nmax), rng.int(e, nmax), big])
        n = max(n, e)
        if force_grow:
            n = max(n, cap + 1)
        lines.append('ls.size %d' % n)
        grew = n > cap
        cap = max(cap, n)
        kind = rng.choice(['plain', 'plain', 'poly' if e <= (6 if T == 'd' else 3) else 'plain', 'cond'])
        rows, ys = _problem(rng, T, e, n, kind)
        # every caller rewrites rows < n; on a non-growing resize we sometimes keep part of the previous rows
        # (they are specified, so they are part of the current problem)
        if (not grew) and cur_rows is not None and len(cur_rows[0]) == e and rng.chance(0.2) and not est_changed:
            keep = rng.int(0, min(n, len(cur_rows)) // 2)
            idx_w = list(range(keep, n))
        else:
            idx_w = list(range(n))
        rng.shuffle(idx_w) if rng.chance(0.2) else None
        # how the caller writes (seeded change c07f): a new getJ()/getY() per row (`ls.row`), references kept since construction
        # (`ls.rowk`), or alternating per problem — chosen from the case index, so no random draw is consumed
        wop = ('ls.row', 'ls.rowk', 'ls.rowk' if p % 2 else 'ls.row')[idx % 3]
        wwop = 'ls.wk' if idx % 2 else 'ls.w'      # same for the weights (getW() per write / reference kept)
        _write_rows(lines, tok, rows, ys, idx_w, wop)
        cur_rows, cur_ys = rows, ys
        # stale rows beyond the current size: wild values that must not matter
        if cap > n and rng.chance(0.6):
            for i in [rng.int(n, cap - 1) for _ in range(rng.int(1, 6))]:
                wild = [_rnd(T, rng.gauss() * rng.choice([1.0, 1e3, 1e6])) for _ in range(e + 1)]
                lines.append('%s %d %s' % (wop, i, ' '.join(tok(v) for v in wild)))
                if rng.chance(0.5):
                    lines.append('%s %d %s' % (wwop, i, tok(_rnd(T, rng.uniform(0.0, 50.0)))))
        if rng.chance(0.35):
            lines.append(_precond(rng, T, e, tok))
        use_w = rng.chance(0.4)
        if use_w:
            wmode = rng.below(4)
            if wmode == 0 and n >= 2:
                # STRUCTURED weights: mean-normalised (they sum EXACTLY to n without being all one: dyadic pairs w, 2 - w), a
                # single non-unit weight, constant c != 1 — aggregate statistics of the weight vector (sum, mean, min, max) equal
                # those of the default all-ones vector although the weights differ (seeded change c07d: a "default weights" early
                # return when W.sum() == n)
                ws = [1.0] * n
                sub = rng.below(3)
                if sub == 0:
                    for i in range(0, n - 1, 2):
                        d = rng.choice([0.5, 0.25, 0.75, 0.125])
                        ws[i], ws[i + 1] = 1.0 - d, 1.0 + d
                elif sub == 1:
                    quad = [0.25, 0.75, 1.25, 1.75]
                    for i in range(0, n - 3, 4):
                        ws[i:i + 4] = quad
                else:
                    i, j = rng.below(n), rng.below(n)
                    if i != j:
                        ws[i], ws[j] = 0.5, 1.5
                for i in range(n):
                    lines.append('%s %d %s' % (wwop, i, tok(_rnd(T, ws[i]))))
            else:
                for i in range(n):
                    if rng.chance(0.8):
                        lines.append('%s %d %s' % (wwop, i, tok(_rnd(T, rng.uniform(0.25, 4.0)))))
        ests = rng.choice([['ls.svd'], ['ls.chol'], ['ls.svd', 'ls.chol'], ['ls.chol', 'ls.svd'], ['ls.svd', 'ls.cov'],
                           ['ls.chol', 'ls.cov', 'ls.svd']])
        for o in ests:
            lines.append(o if o != 'ls.cov' else 'ls.cov ' + tok(_rnd(T, rng.loguniform(1e-4, 10.0))))
        if use_w or rng.chance(0.1):
            lines.append('ls.wls')
            if rng.chance(0.5):
                lines.append('ls.cov ' + tok(_rnd(T, 1.0)))
            if rng.chance(0.5):
                lines.append('ls.peek %d' % rng.int(0, n - 1))
            if rng.chance(0.3):
                # estimates on the in-place scaled rows (correspondence only; the probe skips them)
                lines.append(rng.choice(['ls.svd', 'ls.chol', 'ls.wls']))
        if rng.chance(0.25):
            lines.append('ls.peek %d' % rng.int(0, n - 1))
    # the same current problem on a FRESH object: must give the same answers
    if rng.chance(0.6) and cur_rows is not None:
        n = len(cur_rows)
        rows, ys = _problem(rng, T, e, n, 'plain')
        lines.append('ls.size %d' % n)
        _write_rows(lines, tok, rows, ys, range(n))
        # the preconditioner is configuration: state it explicitly on both objects
        pre = _precond(rng, T, e, tok) if rng.chance(0.5) else 'ls.pre1 ' + ' '.join(tok(1.0 if i == j else 0.0) for i in range(e) for j in range(e))
        lines.append(pre)
        m0 = len(lines)
        lines += ['ls.svd', 'ls.chol']
        lines += ['ls.new %s %d' % (T, e), 'ls.size %d' % n]
        _write_rows(lines, tok, rows, ys, range(n))
        lines.append(pre)
        lines += ['ls.svd', 'ls.chol']
        meta['fresh_pair'] = [m0, m0 + 1, len(lines) - 2, len(lines) - 1]
    return {'name': 'seq-%s-%d' % (T, idx), 'lines': lines, 'meta': meta}


def _boundary(rng, T, idx):
    """square problems, shrink right after a large problem, preconditioner with offset, tiny-scale (cut) problems"""
    tok = _tok(T)
    e = rng.int(1, 6)
    lines = ['ls.new %s %d' % (T, e)]
    big = rng.int(50, 200)
    rows, ys = _problem(rng, T, e, big, 'plain')
    lines.append('ls.size %d' % big)
    _write_rows(lines, tok, rows, ys, range(big))
    lines.append('ls.svd')
    # square system right after: exact interpolation
    rows2, ys2 = _problem(rng, T, e, e, 'plain')
    lines.append('ls.size %d' % e)
    _write_rows(lines, tok, rows2, ys2, range(e))
    lines += ['ls.svd', 'ls.chol']
    lines.append(_precond(rng, T, e, tok))
    lines += ['ls.svd', 'ls.chol', 'ls.cov ' + tok(_rnd(T, 2.0))]
    # data size e+1 with unit weights through the weighted path
    lines.append('ls.size %d' % (e + 1))
    rows3, ys3 = _problem(rng, T, e, e + 1, 'plain')
    _write_rows(lines, tok, rows3, ys3, range(e + 1))
    lines += ['ls.wls', 'ls.peek 0']
    if rng.chance(0.5):
        # tiny scale: every singular value of the normal matrix is far below the absolute cut
        sc = 1e-10 if T == 'd' else 1e-5
        n = rng.int(e, 20)
        rows4, ys4 = _problem(rng, T, e, n, 'plain')
        rows4 = [[_rnd(T, v * sc) for v in r] for r in rows4]
        lines.append('ls.size %d' % n)
        _write_rows(lines, tok, rows4, ys4, range(n))
        lines += ['ls.pre1 ' + ' '.join(tok(1.0 if i == j else 0.0) for i in range(e) for j in range(e)), 'ls.svd']
    # estimate-size change on the live object with NO reallocation behind it (the repaired hole): up, then down
    n = rng.int(e + 2, 12)
    r5, y5 = _problem(rng, T, e, n, 'plain')
    lines.append('ls.size %d' % n)
    _write_rows(lines, tok, r5, y5, range(n))
    lines.append('ls.svd')
    for e2 in (e + rng.int(1, 2), max(1, e - 1)):
        lines += ['ls.est %d' % e2, 'ls.size %d' % n]
        r6, y6 = _problem(rng, T, e2, n, 'plain')
        _write_rows(lines, tok, r6, y6, range(n))
        lines += ['ls.svd', 'ls.chol', 'ls.peek %d' % rng.int(0, n - 1)]
    return {'name': 'boundary-%s-%d' % (T, idx), 'lines': lines, 'meta': {'T': T, 'e': e, 'boundary': True}}


def _weights(rng, T, n):
    mode = rng.below(3)
    if mode == 0:
        return [_rnd(T, 4.0 if i % 3 == 0 else 0.5) for i in range(n)]
    if mode == 1:
        return [_rnd(T, rng.uniform(0.25, 4.0)) for _ in range(n)]
    return [_rnd(T, rng.choice([0.5, 1.0, 2.0, 3.0])) for _ in range(n)]


def _inplace(rng, T, idx):
    """ONE object driven through a history in which the problem changes BEHIND the object's back (seeded change c07f, a
    'normal equations up to date' flag cleared by setDataSize / the non-const accessors only): estimates of all three kinds on the
    same data (solve, weighted solve, solve again), rows / right-hand sides / weights rewritten with NO resize in between — through
    references kept since construction (`ls.rowk`, `ls.wk`) or through new accessor calls (`ls.row`, `ls.w`) —, mixed with
    resizes (shrink / grow / same size).  Whatever was computed before, each estimate must be the minimiser of the rows as
    they are NOW (the probe skips estimates on rows that a weighted estimate has scaled in place and nobody rewrote)."""
    tok = _tok(T)
    e = rng.choice([1, 2, 3, 3, 4, 5, 6])
    nmax = rng.choice([8, 12, 24, 40])
    ctor = rng.below(3)
    lines = []
    cap = 0
    if ctor == 0:
        lines += ['ls.new %s' % T, 'ls.est %d' % e]
    elif ctor == 1:
        cap = rng.int(0, nmax)
        lines.append('ls.new %s %d %d' % (T, e, cap))
    else:
        lines.append('ls.new %s %d' % (T, e))
    rmode = rng.choice(['ls.rowk', 'ls.rowk', 'ls.rowk', 'mixed', 'ls.row'])
    wmode = rng.choice(['ls.wk', 'ls.wk', 'mixed', 'ls.w'])

    def rop():
        return rng.choice(['ls.row', 'ls.rowk']) if rmode == 'mixed' else rmode

    def wop():
        return rng.choice(['ls.w', 'ls.wk']) if wmode == 'mixed' else wmode

    n = max(e, rng.int(e, nmax))
    rows = ys = None
    scaled = False
    for st in range(rng.int(3, 7)):
        act = 'resize' if st == 0 else rng.choice(['resize', 'resize', 'rewrite', 'rewrite', 'rewrite', 'rewrite', 'rewriteY', 'partial',
                                                   'weights', 'none'])
        kind = rng.choice(['plain', 'plain', 'plain', 'cond'])
        if act == 'resize':
            if st > 0:
                n = rng.choice([n, max(e, n // 2), e, e + 1, rng.int(e, nmax), min(nmax, n + rng.int(1, 6))])
            lines.append('ls.size %d' % n)
            cap = max(cap, n)
            rows, ys = _problem(rng, T, e, n, kind)
            _write_rows(lines, tok, rows, ys, range(n), rop())
            scaled = False
        elif act == 'rewrite':
            # problem 2 over problem 1: same size, no setDataSize
            rows, ys = _problem(rng, T, e, n, kind)
            _write_rows(lines, tok, rows, ys, range(n), rop())
            scaled = False
        elif act == 'rewriteY':
            # same design matrix, new observations
            _, ys = _problem(rng, T, e, n, 'plain')
            _write_rows(lines, tok, rows, ys, range(n), rop())
            scaled = False
        elif act == 'partial' and not scaled and n >= 2:
            r2, y2 = _problem(rng, T, e, n, 'plain')
            sub = sorted(set(rng.below(n) for _ in range(rng.int(1, max(1, n // 2)))))
            for i in sub:
                rows[i], ys[i] = r2[i], y2[i]
            _write_rows(lines, tok, rows, ys, sub, rop())
        if rng.chance(0.15):
            lines.append(_precond(rng, T, e, tok))
        ests = rng.choice([['ls.svd'], ['ls.chol'], ['ls.svd', 'ls.chol'], ['ls.chol', 'ls.svd'], ['ls.chol', 'ls.wls'], ['ls.svd', 'ls.wls'],
                           ['ls.chol', 'ls.wls'], ['ls.wls'], ['ls.svd', 'ls.wls', 'ls.chol'], ['ls.chol', 'ls.cov', 'ls.wls'],
                           ['ls.wls', 'ls.svd'], ['ls.chol', 'ls.chol'], ['ls.svd', 'ls.cov', 'ls.svd']])
        if act == 'weights' or ('ls.wls' in ests and rng.chance(0.85)):
            ws = _weights(rng, T, n)
            op = wop()
            for i in range(n):
                lines.append('%s %d %s' % (op, i, tok(ws[i])))
        for o in ests:
            lines.append(o if o != 'ls.cov' else 'ls.cov ' + tok(_rnd(T, rng.loguniform(1e-2, 10.0))))
            if o == 'ls.wls':
                scaled = True
        if rng.chance(0.2):
            lines.append('ls.peek %d' % rng.int(0, n - 1))
    return {'name': 'inplace-%s-%d' % (T, idx), 'lines': lines, 'meta': {'T': T, 'e': e, 'inplace': True}}


def _malformed():
    lines = ['ls.size 3', 'ls.new d 3', 'ls.row 0 d0 d0 d0 d0', 'ls.size 2', 'ls.row 2 d0 d0 d0 d0', 'ls.row 0 d0 d0 d0',
             'ls.row 0 s0 s0 s0 s0', 'ls.w 2 d0', 'ls.pre d0', 'ls.est 0', 'ls.est 5', 'ls.row 0 d0 d0 d0 d0', 'ls.peek 7',
             'ls.w 9 d0', 'ls.new q 3', 'ls.new d 0', 'ls.frob', 'ls.new d', 'ls.size 3', 'ls.svd', 'ls.cov d0']
    return {'name': 'malformed', 'lines': lines, 'meta': {'malformed': True}}


def gen_cases(rng, tier):
    cases = [_malformed()]
    nseq = 300 if tier == 'quick' else 3000
    for i in range(nseq):
        T = 'd' if rng.chance(0.6) else 'f'
        cases.append(_sequence(rng, T, tier, i))
    for i in range(40 if tier == 'quick' else 400):
        cases.append(_boundary(rng, 'd' if rng.chance(0.6) else 'f', i))
    # after the older families, so that those are generated exactly as before
    inpl = [_inplace(rng, 'd' if rng.chance(0.6) else 'f', i) for i in range(120 if tier == 'quick' else 1200)]
    # generated last (same random stream for the older families), run first
    return cases[:1] + inpl + cases[1:]


# ------------------------------------------------------------------ oracle
def oracle(case, out, stats):
    fails = []
    meta = case.get('meta', {})
    an = analyse(case)

    def bump(k, v=1):
        stats[k] = stats.get(k, 0) + v

    if meta.get('malformed'):
        exp = {0: 'bad-op', 2: 'bad-op', 4: 'bad-op', 5: 'bad-op', 6: 'bad-op', 7: 'bad-op', 8: 'bad-op', 9: 'bad-op', 11: 'bad-op', 12: 'bad-op',
               13: 'bad-op', 14: 'bad-op', 15: 'bad-op', 16: 'bad-op', 18: 'bad-op', 19: 'bad-op', 20: 'bad-op'}
        for i, want in exp.items():
            if out[i] != want:
                fails.append({'kind': 'malformed-accepted', 'detail': '%s -> %s' % (case['lines'][i], out[i]), 'fields': {}})
        bump('malformed_lines', len(exp))
        return fails
    prev_est = None    # (line index, info, x) of the previous estimate on the same specified problem
    xs = {}
    for li, (line, o) in enumerate(zip(case['lines'], out)):
        tk = line.split()
        op = tk[0]
        info = an[li]

        def bad(kind, detail, **fields):
            fails.append({'kind': kind, 'detail': '%s (line %d: %s) -> %s : %s' % (case.get('name'), li, line[:80], o[:200], detail), 'fields': fields})
        if o.startswith('shape-mismatch'):
            bad('design-matrix-not-resized', 'the design matrix does not have estimateSize_ columns: using it would read/write outside J_', shape=o)
            break
        if o in ('abort', 'hang', 'exception', 'skipped', 'bad-op'):
            bad('outcome-' + o, 'unexpected outcome')
            break
        if op not in ('ls.svd', 'ls.chol', 'ls.wls', 'ls.cov'):
            if op not in ('ls.w', 'ls.peek', 'ls.pre', 'ls.pre1'):
                pass
            if op in ('ls.row', 'ls.w', 'ls.rowk', 'ls.wk', 'ls.size', 'ls.new', 'ls.est', 'ls.pre', 'ls.pre1'):
                prev_est = None
            continue
        if info is None:
            continue
        if op == 'ls.cov':
            last = info.get('last')
            P = _vec(o, 'P')
            if P is None or len(P) != info['e'] ** 2:
                bad('malformed', 'bad covariance output')
                continue
            if last and last[0] == 'zero':
                if any(v != 0.0 for v in P):
                    bad('covariance-after-reset', 'covariance not zero right after setEstimateSize')
                bump('cov_zero_checked')
            elif last and last[0] == 'inv' and _in_domain(last[1]) and not last[1].get('scaled_before') and \
                    not (last[1]['op'] == 'ls.svd' and _cut_active(last[1])):
                # A^T (J^T J)^-1 A var, as the code defines it: check (J^T J) * X * = A^T .. by solving instead of inverting
                e = info['e']
                pi = last[1]
                R, A, var = pi['rows'], info['A'], info['var']
                JtJ = [[math.fsum(r[i] * r[j] for r in R) for j in range(e)] for i in range(e)]
                # P = A^T M A var with M = JtJ^-1  <=>  for M: JtJ M = I. Build M by solving columns.
                M = [solve_square(JtJ, [1.0 if i == c else 0.0 for i in range(e)], e) for c in range(e)]
                if any(m is None for m in M):
                    continue
                Mm = [[M[c][i] for c in range(e)] for i in range(e)]
                ref = [[var * math.fsum(A[k][i] * Mm[k][l] * A[l][j] for k in range(e) for l in range(e)) for j in range(e)] for i in range(e)]
                scale = info.get('scale_P') or max(abs(v) for r in ref for v in r) or 1.0
                tol = _tol(pi, 4.0)
                err = max(abs(P[i * e + j] - ref[i][j]) for i in range(e) for j in range(e))
                bump('cov_checked')
                if not (err <= tol * scale):
                    bad('covariance', 'A^T (J^T J)^-1 A var off by %.3g (scale %.3g, tol %.3g)' % (err, scale, tol * scale))
            continue
        # ---- estimates
        x = _vec(o, 'x')
        if x is None or len(x) != info['e']:
            bad('malformed', 'bad estimate output')
            continue
        xs[li] = x
        if not info.get('defined') or info.get('scaled_before'):
            bump('skipped_unspecified_or_scaled')
            prev_est = None
            continue
        if not _in_domain(info):
            bump('skipped_outside_cond_domain')
            prev_est = None
            continue
        if op == 'ls.svd' and _cut_active(info):
            bump('svd_cut_outside_domain')
            prev_est = None
            continue
        if any(math.isnan(v) or math.isinf(v) for v in x):
            bad('non-finite', 'estimate not finite on a full-rank problem', cond=info['cond'])
            continue
        e = info['e']
        tol = _tol(info)
        xref = info['xref']
        scale = info['scale_x']
        err = max(abs(a - b) for a, b in zip(x, xref))
        bump('estimates_checked')
        bump('estimates_%s_%s' % (op[3:], info['T']))
        sxi = info.get('scale_xi') or [scale] * len(x)
        worst = max(abs(a - b) / (tol * si) for a, b, si in zip(x, xref, sxi))
        stats['max_err_over_tol'] = max(stats.get('max_err_over_tol', 0.0), worst)
        if not (worst <= 1.0):
            iw = max(range(len(x)), key=lambda i_: abs(x[i_] - xref[i_]) / (tol * sxi[i_]))
            err, scale = abs(x[iw] - xref[iw]), sxi[iw]
            kind = 'weighted-minimiser' if op == 'ls.wls' else 'minimiser'
            bad(kind, 'x differs from A*x_ls+b of the current rows by %.3g (scale %.3g, allowed %.3g, cond %.3g, n=%d e=%d)' % (
                err, scale, tol * scale, info['cond'], info['n'], e), cond=info['cond'], n=info['n'], e=e, T=info['T'], op=op)
            continue
        # normal-equation residual when no preconditioner is configured
        ident = all(info['A'][i][j] == (1.0 if i == j else 0.0) for i in range(e) for j in range(e)) and not any(info['b'])
        if ident:
            R, Yv = info['rows'], info['ys']
            r = [math.fsum(R[k][c] * x[c] for c in range(e)) - Yv[k] for k in range(len(R))]
            g = [math.fsum(R[k][i] * r[k] for k in range(len(R))) for i in range(e)]
            JtJn = max(math.fsum(abs(R[k][i] * R[k][j]) for k in range(len(R)) for j in range(e)) for i in range(e))
            JtYn = max(math.fsum(abs(R[k][i] * Yv[k]) for k in range(len(R))) for i in range(e))
            gs = JtJn * max(abs(v) for v in x) + JtYn
            bump('normal_equations_checked')
            if not (max(abs(v) for v in g) <= tol * max(gs, 1e-300)):
                bad('normal-equations', 'J^T(Jx-Y) = %.3g exceeds %.3g' % (max(abs(v) for v in g), tol * gs), cond=info['cond'])
        # Cholesky and SVD paths agree (consecutive estimates on the same specified problem)
        if prev_est is not None and op != 'ls.wls' and prev_est[1]['op'] != 'ls.wls' and prev_est[1]['op'] != op:
            d = max(abs(a - b) for a, b in zip(x, prev_est[2]))
            bump('chol_vs_svd_checked')
            if not (d <= 2 * tol * scale):
                bad('cholesky-vs-svd', 'paths differ by %.3g (allowed %.3g)' % (d, 2 * tol * scale))
        prev_est = (li, info, x) if op != 'ls.wls' else None
    fp = meta.get('fresh_pair')
    if fp and all(i in xs for i in fp):
        info = an[fp[0]]
        if info and _in_domain(info) and not _cut_active(info):
            tol = _tol(info)
            for a, b in ((fp[0], fp[2]), (fp[1], fp[3])):
                scale = max(max(abs(v) for v in xs[a]), max(abs(v) for v in xs[b]), 1e-300)
                d = max(abs(p - q) for p, q in zip(xs[a], xs[b]))
                stats['fresh_solver_pairs'] = stats.get('fresh_solver_pairs', 0) + 1
                if d != 0.0:
                    stats['fresh_solver_pairs_not_bitwise'] = stats.get('fresh_solver_pairs_not_bitwise', 0) + 1
                if not (d <= 2 * tol * scale):
                    fails.append({'kind': 'history-dependence', 'detail': '%s: used object and fresh object differ by %.3g on the same problem (lines %d/%d)' % (
                        case.get('name'), d, a, b), 'fields': {'T': info['T'], 'e': info['e'], 'n': info['n']}})
    return fails


def focused_cases(rng, disagreeing, tier):
    """around a disagreement: more sequences of the same scalar type with shrinking sizes"""
    cases = []
    for k in range(200):
        T = disagreeing[k % len(disagreeing)]['meta'].get('T', 'd') if disagreeing else 'd'
        cases.append(_sequence(rng, T, tier, 100000 + k))
    return cases
