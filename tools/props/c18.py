"""C18 — check-up thresholds and status algebra (DESIGN.md section 6, C18)."""
from fractions import Fraction
import math
from vlib import D, tok_val

ID = 'C18'
LEVEL = 'proof'
DRIVER = 'drv_c18'
HARNESS = 'c18.cpp'
SOURCES = ['src/diagnostics/CheckupReliability.cpp', 'src/diagnostics/Diagnostic.cpp',
           'src/diagnostics/DiagnosticReport.cpp', 'src/diagnostics/DiagnosticStatus.cpp']
PROOF_MODULES = ['RomeaProofs.Properties.C18', 'RomeaProofs.Bridge.C18', 'RomeaProofs.Bridge.C18Cor',
                 'RomeaProofs.Bridge.C18Report', 'RomeaProofs.Bridge.C18ReportCor']
TRUSTED = ['C++ harness harness/c18.cpp maps message strings to classes and compares the info string with ostringstream<<value',
           'tools/cxx2lean.py (Python over clang-14\'s JSON AST) translates CheckupEqualTo/GreaterThan/LowerThan<double>::evaluate, '
           'Checkup<double>::timeout/setDiagnostic_/setValue_/getStatus_, CheckupReliability::evaluate and worse() from the working tree into '
           'RomeaModel/Generated/SrcC18.lean on every run; RomeaProofs/Bridge/C18*.lean prove them equal to the model for every scalar type. '
           'Trusted inside the translator: report_.diagnostics.front() and report_.info.begin() are fixed locations (the check-ups hold exactly '
           'one diagnostic and one info entry), std::string is Lean String, toStringInfoValue is an uninterpreted function, the lock_guard has '
           'no sequential meaning, the enum DiagnosticStatus is its underlying integer. worseStatus, allOK (Diagnostic.cpp) and '
           'operator+=(DiagnosticReport &, const DiagnosticReport &) are translated with the spec option whole_containers: a '
           'std::list<Diagnostic> is a List (String x Int) (message, status), a std::map<string,string> the list of its entries in ascending '
           'key order (order / uniqueness of keys = an invariant of that representation, kept by the generated mapInsertNew), iterators are '
           'indexes; Bridge/C18Report.lean proves them equal to the model\'s worseStatus / allOK / append (through arbitrary namings of the '
           'model\'s message / key / value identifiers, the key naming strictly monotone and injective), Bridge/C18ReportCor.lean restates '
           'worseStatus_is_max, allOK_iff, append_spec about the translated functions']
ASSUMPTIONS = ['theorems are over the reals on the exact values of the doubles; the rounding of t-eps / t+eps (sub-ulp window) is '
               'covered only by the correspondence check, and the probe accepts either classification inside that window']
EXPLANATION = 'proof of the threshold/aggregation laws on the Lean model + differential correspondence + boundary probe'

KINDS = ['eq', 'gt', 'lt']


def _around(rng, x):
    """x, its neighbours by 1 ulp, and a few ulps further"""
    r = [x, math.nextafter(x, math.inf), math.nextafter(x, -math.inf)]
    y = x
    for _ in range(rng.int(2, 5)):
        y = math.nextafter(y, math.inf if rng.chance(0.5) else -math.inf)
    r.append(y)
    return r


def _thresholds(rng):
    mode = rng.below(6)
    if mode == 0:
        t = rng.choice([0.0, 1.0, -1.0, 10.0, 0.1, 1e6, -3.5])
        e = rng.choice([0.0, 0.1, 0.5, 1.0, 1e-9, 0.25])
    elif mode == 1:
        t = rng.uniform(-100, 100)
        e = rng.uniform(0, 10)
    elif mode == 2:
        t = rng.gauss() * rng.loguniform(1e-6, 1e6)
        e = abs(rng.gauss()) * rng.loguniform(1e-9, 1e3)
    elif mode == 3:
        t = rng.uniform(-1, 1)
        e = 0.0
    elif mode == 4:
        t = float(rng.int(-20, 20))
        e = float(rng.int(0, 5))
    else:
        t = rng.uniform(-1e3, 1e3)
        e = rng.choice([0.0, 2.0 ** -20, 2.0 ** -40, 1.0])
    return t, e


def _values(rng, t, e, n):
    vals = []
    for b in (t - e, t + e, t):
        vals += _around(rng, b)
    while len(vals) < n:
        m = rng.below(4)
        if m == 0:
            vals.append(t + rng.gauss() * (e + 1e-3))
        elif m == 1:
            vals.append(rng.uniform(t - 3 * e - 1, t + 3 * e + 1))
        elif m == 2:
            vals.append(rng.gauss() * 1e3)
        else:
            vals.append(rng.choice([0.0, -0.0, 1e300, -1e300, 5e-324]))
    rng.shuffle(vals)
    return vals[:n]


def gen_cases(rng, tier):
    cases = []
    n_chk = 400 if tier == 'quick' else 20000
    for i in range(n_chk):
        kind = rng.choice(KINDS + ['rel'])
        if kind == 'rel':
            lo = rng.uniform(0, 1)
            hi = rng.choice([lo, lo + rng.uniform(0, 1), rng.uniform(0, 1)])
            lines = ['chk.newrel %s %s' % (D(lo), D(hi)), 'chk.report']
            vals = _around(rng, lo) + _around(rng, hi) + [rng.uniform(-0.5, 1.5) for _ in range(8)]
            rng.shuffle(vals)
            meta = {'kind': 'rel', 't': lo, 'e': hi}
        else:
            t, e = _thresholds(rng)
            lines = ['chk.new %s %s %s' % (kind, D(t), D(e)), 'chk.report']
            vals = _values(rng, t, e, rng.int(12, 30))
            meta = {'kind': kind, 't': t, 'e': e}
        for v in vals:
            r = rng.below(10)
            if r == 0 and kind != 'rel':
                lines.append('chk.timeout')
                lines.append('chk.report')
            elif r == 1:
                lines.append('chk.report')
            lines.append('chk.eval ' + D(v))
            if rng.chance(0.3):
                lines.append('chk.report')
        cases.append({'name': 'checkup-%s-%d' % (kind, i), 'lines': lines, 'meta': meta})
    # two check-ups with different names driven side by side (`sib.` = the second object): objects share nothing
    for i in range(60 if tier == 'quick' else 3000):
        lines = []
        for pre in ('', 'sib.'):
            kind = rng.choice(KINDS)
            t, e = _thresholds(rng)
            lines.append('%schk.new %s %s %s' % (pre, kind, D(t), D(e)))
        for _ in range(rng.int(6, 24)):
            pre = rng.choice(['', 'sib.'])
            r = rng.below(10)
            if r < 3:
                lines += [pre + 'chk.timeout', pre + 'chk.report']
                if rng.chance(0.5):
                    q = 'sib.' if pre == '' else ''
                    lines += [q + 'chk.timeout', q + 'chk.report', pre + 'chk.report']
            elif r < 5:
                lines.append(pre + 'chk.report')
            else:
                lines.append(pre + 'chk.eval ' + D(rng.gauss() * 10))
        cases.append({'name': 'two-checkups-%d' % i, 'lines': lines, 'meta': {'kind': 'pair'}})
    # status algebra: all pairs and triples, every run (exhaustive)
    lines = []
    for a in range(4):
        for b in range(4):
            lines.append('st.worse %d %d' % (a, b))
            for c in range(4):
                lines.append('st.worst %d %d %d' % (a, b, c))
                lines.append('st.allok %d %d %d' % (a, b, c))
    cases.append({'name': 'status-exhaustive', 'lines': lines, 'meta': {'exhaustive': True}})
    n_lists = 300 if tier == 'quick' else 20000
    lines = []
    for i in range(n_lists):
        n = rng.int(1, 20)
        bias = rng.below(4)
        l = [0 if rng.chance(0.25 * bias) else rng.below(4) for _ in range(n)]
        lines.append('%s %s' % (rng.choice(['st.worst', 'st.allok']), ' '.join(map(str, l))))
    cases.append({'name': 'status-lists', 'lines': lines, 'meta': {}})
    lines = []
    for i in range(n_lists):
        def rep():
            nd = rng.int(0, 10)
            ni = rng.int(0, 10)
            ds = ['%d:%d' % (rng.below(4), rng.below(1000)) for _ in range(nd)]
            kv = ['%d:%d' % (rng.below(12), rng.below(1000)) for _ in range(ni)]
            return 'D %d %s I %d %s' % (nd, ' '.join(ds), ni, ' '.join(kv))
        lines.append('rep.append %s %s' % (rep(), rep()))
    cases.append({'name': 'report-append', 'lines': [' '.join(l.split()) for l in lines], 'meta': {}})
    return cases


# ------------------------------------------------------------------ oracle (property probe on the implementation)
def _classes(kind, t, e, v):
    """set of (status, msg) the property allows for value v (more than one only inside the rounding window
    of the threshold computation)"""
    F = Fraction
    tv, ev, vv = F(t), F(e), F(v)

    def cmp_set(exact_thr, fl_thr, strict_lt):
        # returns set of truth values allowed for `v < thr` (strict_lt) or `v > thr`
        # exact classification, and the one obtained with the rounded threshold: they differ only for v
        # strictly inside the (sub-ulp) gap between the exact and the rounded threshold
        exact = (vv < exact_thr) if strict_lt else (vv > exact_thr)
        viafl = (vv < F(fl_thr)) if strict_lt else (vv > F(fl_thr))
        s = {exact, viafl}
        return s
    out = set()
    if kind == 'eq':
        lows = cmp_set(tv - ev, t - e, True)
        highs = cmp_set(tv + ev, t + e, False)
        for lo_ in lows:
            if lo_:
                out.add((2, 'too_low'))
            else:
                for hi_ in highs:
                    out.add((2, 'too_high') if hi_ else (0, 'is_ok'))
    elif kind == 'gt':
        for g in cmp_set(tv - ev, t - e, False):
            out.add((0, 'is_ok') if g else (2, 'too_low'))
    elif kind == 'lt':
        for l_ in cmp_set(tv + ev, t + e, True):
            out.add((0, 'is_ok') if l_ else (2, 'too_high'))
    else:  # reliability: t = low, e = high threshold, no arithmetic -> exact
        if vv < tv:
            out.add((2, 'too_low'))
        elif vv < ev:
            out.add((1, 'uncertain'))
        else:
            out.add((0, 'high'))
    return out


def _merge(kv_list):
    m = {}
    for k, v in kv_list:
        m.setdefault(k, v)
    return m


def oracle(case, out, stats):
    fails = []
    meta = case.get('meta', {})
    expect = None   # expected (st, msg, info) of the stored report
    kind = t = e = None
    other = (None, None, None, None)      # the same four for the object not addressed by the current line (`sib.` = second object)
    cur_slot = 0
    for line, o in zip(case['lines'], out):
        tk = line.split()
        op = tk[0]
        stats[op] = stats.get(op, 0) + 1
        slot = 1 if op.startswith('sib.') else 0
        if slot:
            op = op[4:]
            stats['sibling_object_ops'] = stats.get('sibling_object_ops', 0) + 1
        if op.startswith('chk.') and slot != cur_slot:      # switch the tracked object
            (expect, kind, t, e), other = other, (expect, kind, t, e)
            cur_slot = slot

        def bad(kind_, detail, **fields):
            fails.append({'kind': kind_, 'detail': '%s -> %s : %s' % (line, o, detail), 'fields': fields})
        if o in ('abort', 'hang', 'exception', 'skipped', 'bad-op'):
            bad('outcome-' + o, 'unexpected outcome')
            break
        if op == 'chk.new':
            kind, t, e = tk[1], tok_val(tk[2]), tok_val(tk[3])
            expect = ('3', 'initial', 'empty')
        elif op == 'chk.newrel':
            kind, t, e = 'rel', tok_val(tk[1]), tok_val(tk[2])
            expect = ('3', 'initial', 'empty')
        elif op == 'chk.eval':
            v = tok_val(tk[1])
            f = o.split()
            if len(f) != 8:
                bad('malformed', 'bad output')
                continue
            ret, st, msg, info = f[1], f[3], f[5], f[7]
            allowed = _classes(kind, t, e, v)
            if len(allowed) > 1:
                stats['in_rounding_window'] = stats.get('in_rounding_window', 0) + 1
            if (int(st), msg) not in allowed:
                bad('threshold', 'classification %s/%s not in %s (kind=%s t=%r e=%r v=%r)' % (st, msg, sorted(allowed), kind, t, e, v), kind=kind)
            if ret != st:
                bad('returned-vs-stored', 'returned status differs from the stored one')
            if info != 'val':
                bad('info', 'info entry is not the printed value')
            expect = (st, msg, 'val')
        elif op == 'chk.timeout':
            expect = ('3', 'timeout', 'empty')
        elif op == 'chk.report':
            f = o.split()
            if len(f) != 6 or (f[1], f[3], f[5]) != expect:
                bad('report-consistency', 'report %s differs from the last evaluation %s' % (o, expect))
        elif op == 'st.worse':
            if o != str(max(int(tk[1]), int(tk[2]))):
                bad('worse', 'not the maximum')
        elif op == 'st.worst':
            if o != str(max(map(int, tk[1:]))):
                bad('worst', 'not the maximum')
        elif op == 'st.allok':
            if o != ('1' if all(x == '0' for x in tk[1:]) else '0'):
                bad('allok', 'wrong')
        elif op == 'rep.append':
            # parse the two reports
            i = 1
            reps = []
            for _ in range(2):
                n = int(tk[i + 1])
                ds = tk[i + 2:i + 2 + n]
                i += 2 + n
                m = int(tk[i + 1])
                kv = [tuple(map(int, x.split(':'))) for x in tk[i + 2:i + 2 + m]]
                i += 2 + m
                reps.append((ds, _merge(kv)))
            ds = reps[0][0] + reps[1][0]
            info = dict(reps[0][1])
            for k, v in reps[1][1].items():
                info.setdefault(k, v)
            exp = 'D %d %s I %d %s' % (len(ds), ' '.join(ds), len(info), ' '.join('%d:%d' % (k, info[k]) for k in sorted(info)))
            if o.split() != exp.split():
                bad('append', 'expected ' + exp)
    return fails


# ------------------------------------------------------------------ stage G: the anchored functions themselves, translated (DESIGN.md 2.5b)
BRIDGE_SPEC = {
    'id': 'C18',
    'headers': ['romea_core_common/diagnostic/CheckupEqualTo.hpp', 'romea_core_common/diagnostic/CheckupGreaterThan.hpp',
                'romea_core_common/diagnostic/CheckupLowerThan.hpp'],
    'sources': ['src/diagnostics/CheckupReliability.cpp', 'src/diagnostics/DiagnosticStatus.cpp', 'src/diagnostics/Diagnostic.cpp',
                'src/diagnostics/DiagnosticReport.cpp'],
    # `std::list<Diagnostic>` is a `List (String × Int)` (message, status), `std::map<std::string, std::string>` its entry list in
    # ascending key order; iterators are indexes (worseStatus, allOK, operator+=)
    'whole_containers': True,
    'extra': ['namespace romea { namespace core {', 'template class Checkup<double>;', 'template class CheckupEqualTo<double>;', 'template class CheckupGreaterThan<double>;',
              'template class CheckupLowerThan<double>;', '}}'],
    # `toStringInfoValue(v)` (ostringstream << v) is kept as an uninterpreted function: a parameter of the translated functions
    'uninterpreted': {'toStringInfoValue': {}},
    'functions': [
        {'cxx': 'worse'},
        {'cxx': 'CheckupEqualTo::evaluate'},
        {'cxx': 'CheckupGreaterThan::evaluate'},
        {'cxx': 'CheckupLowerThan::evaluate'},
        {'cxx': 'CheckupReliability::evaluate'},
        {'cxx': 'Checkup::timeout'},
        {'cxx': 'worseStatus'},
        {'cxx': 'allOK'},
        {'cxx': 'operator+=', 'sig': 'DiagnosticReport'},
    ],
}


def regen(ctx):
    import bridge
    return bridge.regen_bridge(ctx, BRIDGE_SPEC)
