"""C04 — rigid registration from correspondences by SVD (DESIGN.md section 6, C04).

Ops: svd.pts / svd.find (four overloads on fresh objects) and, for long-lived objects, pps.compute / pps.computeT / pps.get
on numbered PreconditionedPointSet slots, svd.find ... scorr|sall on two slots, svd.find C|H ... on the case-long estimator
object (protocol: header of lean/Drivers/C04.lean and of harness/c04.cpp)."""
import math
from vlib import D, S, tok_val, to_f32

ID = 'C04'
LEVEL = 'proof'
DRIVER = 'drv_c04'
HARNESS = 'c04.cpp'
SOURCES = ['src/transform/estimation/FindRigidTransformationBySVD.cpp',
           'src/pointset/algorithms/PreconditionedPointSet.cpp',
           'src/pointset/algorithms/PointSetPreconditioner.cpp',
           'src/pointset/algorithms/Correspondence.cpp']
PROOF_MODULES = ['RomeaProofs.Properties.C04', 'RomeaProofs.Bridge.C04', 'RomeaProofs.Bridge.C04Cor']

# ------------------------------------------------------------------ stage G: the anchored functions themselves, translated (DESIGN.md 2.5b)
_PT = [('v2d', 'Eigen::Matrix<double, 2, 1, 0>'), ('v3d', 'Eigen::Matrix<double, 3, 1, 0>'),
       ('h3d', 'romea::core::HomogeneousCoordinates3<double>')]
_SVD = 'FindRigidTransformationBySVD'
_PPS = 'PreconditionedPointSet'
BRIDGE_SPEC = {
    'id': 'C04',
    'sources': ['src/transform/estimation/FindRigidTransformationBySVD.cpp', 'src/pointset/algorithms/PreconditionedPointSet.cpp'],
    'dyn_sizes': True,
    'range_for': True,      # `mean()` of EigenContainers.hpp: `for (auto point : points)` is a structural recursion on the list of points
    'oracle_classes': {'JacobiSVD': {'methods': {'singularValues': ['(min {r0} {c0})'], 'matrixU': ['{r0}', '(min {r0} {c0})'],
                                                 'matrixV': ['{c0}', '(min {r0} {c0})']}}},
    'functions':
        [{'cxx': _SVD + '::estimate_', 'record': '%s<%s>' % (_SVD, t), 'sig': 'Correspondence> &)', 'suffix': '_corr_' + s_} for s_, t in _PT] +
        [{'cxx': _SVD + '::estimate_', 'record': '%s<%s>' % (_SVD, t), 'nosig': 'Correspondence', 'suffix': '_all_' + s_} for s_, t in _PT] +
        [{'cxx': _SVD + '::find', 'record': '%s<%s>' % (_SVD, t), 'sig': '(const PointSet<%s> &, const PointSet<%s> &, const std::vector<Correspondence> &)' % (t, t),
          'suffix': '_corr_' + s_} for s_, t in _PT] +
        [{'cxx': _SVD + '::find', 'record': '%s<%s>' % (_SVD, t), 'sig': '(const PointSet<%s> &, const PointSet<%s> &)' % (t, t),
          'suffix': '_all_' + s_} for s_, t in _PT] +
        [{'cxx': _SVD + '::find', 'record': '%s<%s>' % (_SVD, t), 'sig': 'PreconditionedPointSetType &, const std::vector<Correspondence> &)',
          'suffix': '_pre_corr_' + s_} for s_, t in _PT] +
        [{'cxx': _SVD + '::find', 'record': '%s<%s>' % (_SVD, t), 'sig': 'PreconditionedPointSetType &)',
          'suffix': '_pre_all_' + s_} for s_, t in _PT] +
        [{'cxx': _PPS + '::allocate_', 'record': '%s<%s>' % (_PPS, t), 'suffix': '_' + s_} for s_, t in _PT] +
        [{'cxx': _PPS + '::compute', 'record': '%s<%s>' % (_PPS, t), 'sig': 'Scalar &)', 'suffix': '_scale_' + s_} for s_, t in _PT] +
        [{'cxx': _PPS + '::compute', 'record': '%s<%s>' % (_PPS, t), 'sig': 'TranslationVector &)', 'suffix': '_affine_' + s_} for s_, t in _PT] +
        [{'cxx': _PPS + '::PreconditionedPointSet', 'record': '%s<%s>' % (_PPS, t), 'sig': 'void ()', 'suffix': '_' + s_} for s_, t in _PT],
}


def regen(ctx):
    import bridge
    return bridge.regen_bridge(ctx, BRIDGE_SPEC)
TRUSTED = ['Eigen::JacobiSVD satisfies the contract IsSVD (U, V orthogonal, S non-negative descending, A = U S V^T): '
           'monitored at run time by harness/c04.cpp on every matrix the estimator decomposes, not proved',
           'harness/c04.cpp evaluates the probe quantities (orthonormality, determinant, residuals, an independent '
           'least-squares solution: closed form in 2D, Horn quaternion method in 3D) in long double',
           'the model driver uses a Lean one-sided Jacobi SVD (RomeaModel/RegistrationOracle.lean) in place of Eigen: '
           'oracle-dependent outputs are compared within 1e-9 (double) / 1e-4 (float), never bitwise']
ASSUMPTIONS = ['theorems are over the reals for every oracle with the contract IsSVD; floating-point rounding and the float '
               'instantiations are covered by the tolerance-checked correspondence and the probe only',
               'generated sets keep the second largest principal extent above 5 % (double) / 20 % (float) of the largest so '
               'that 1e-9 / 1e-4 is attainable in floating point; collinear 3D sets are only checked for a proper rotation',
               'preconditioning = PreconditionedPointSet(points, scale), the constructor the library itself uses here; '
               'both sets with the same scale, as everywhere in the library (two different scales are outside the property: the '
               'protocol accepts them, the generators do not produce them)',
               'long-lived objects: PreconditionedPointSet objects refilled with compute() over several scans (shrinking, growing, '
               'equal sizes; either compute overload in between) and one estimator object per case are driven through numbered '
               'slots; the model of the object follows allocate_ + the overwrite loop and the history theorems (section 7 of the '
               'property file) hold for every scalar type; a find on a slot is judged against the raw sets last computed into it']
EXPLANATION = ('proof (Lean, over the reals, for every SVD oracle meeting the contract on the decomposed matrix) that the returned '
               'linear part is orthogonal with determinant +1, of exact recovery incl. the rank d-1 (coplanar 3D / collinear 2D) '
               'case, of least-squares optimality in 2D and 3D, and of the invariances (correspondence order, homogeneous = '
               'Cartesian, isotropic preconditioning), on a line-by-line model of estimate_/find tied to the C++ by a differential '
               'correspondence check within tolerance; property probe with an independent long double solver; object-reuse '
               'histories (refilled PreconditionedPointSet objects, reused estimator) are proved equal to fresh objects and are '
               'part of the tie and of the probe')
HANG_SECS = 30

TOL = {'d': 1e-9, 'f': 1e-4}
CONTRACT_TOL = {'d': 1e-12, 'f': 2e-5}
CONDMIN = {'d': 1e-3, 'f': 2e-2}


# ------------------------------------------------------------------ small linear algebra
def rot2(th):
    c, s = math.cos(th), math.sin(th)
    return [[c, -s], [s, c]]


def rot3(axis, th):
    n = math.sqrt(sum(a * a for a in axis))
    x, y, z = (a / n for a in axis)
    c, s = math.cos(th), math.sin(th)
    C = 1 - c
    return [[c + x * x * C, x * y * C - z * s, x * z * C + y * s],
            [y * x * C + z * s, c + y * y * C, y * z * C - x * s],
            [z * x * C - y * s, z * y * C + x * s, c + z * z * C]]


def matvec(M, v):
    return [sum(M[i][j] * v[j] for j in range(len(v))) for i in range(len(M))]


def rand_rotation(rng, dim, special=None):
    if dim == 2:
        th = special if special is not None else rng.uniform(-math.pi, math.pi)
        return rot2(th)
    axis = [rng.gauss(), rng.gauss(), rng.gauss()]
    if rng.chance(0.15):
        axis = rng.choice([[1, 0, 0], [0, 1, 0], [0, 0, 1], [1, 1, 0], [1, 1, 1]])
    th = special if special is not None else rng.uniform(0, math.pi)
    return rot3(axis, th)


# ------------------------------------------------------------------ point sets
def make_points(rng, dim, n, kind, minratio):
    """points in a local frame with principal extents 1 >= e2 >= (e3), then rotated by a random frame"""
    if dim == 2:
        ext = [1.0, rng.uniform(minratio, 1.0)]
        if kind in ('flat', 'flat-axis'):
            ext[1] = 0.0                      # collinear 2D set: the rank dim-1 case of the plane
        elif kind == 'nearflat':
            ext[1] = 1e-9
    else:
        e2 = rng.uniform(minratio, 1.0)
        ext = [1.0, e2, rng.uniform(minratio, 1.0) * e2]
        if kind in ('flat', 'flat-axis'):
            ext[2] = 0.0                      # coplanar
        elif kind == 'nearflat':
            ext[2] = 1e-9                     # nearly coplanar, 1e-9 thick
        elif kind == 'collinear':
            ext[1] = 0.0
            ext[2] = 0.0
    pts = []
    if kind == 'clustered':
        k = rng.int(3, 6)
        centres = [[rng.uniform(-1, 1) * ext[i] for i in range(dim)] for _ in range(k)]
        # make sure the centres themselves span: first dim+1 at the corners of the box
        for j in range(min(k, dim + 1)):
            centres[j] = [(ext[i] if (j - 1) == i else -ext[i] * 0.5) for i in range(dim)]
        for i in range(n):
            c = centres[i % k]
            pts.append([c[a] + rng.gauss() * 1e-3 for a in range(dim)])
    else:
        # corners first so that the requested extents are really reached
        for i in range(n):
            if i < dim + 1:
                p = [(ext[a] if (i - 1) == a else -ext[a] * 0.5) for a in range(dim)]
            else:
                p = [rng.uniform(-1, 1) * ext[a] for a in range(dim)]
            pts.append(p)
    if kind != 'flat-axis':
        F = rand_rotation(rng, dim)
        pts = [matvec(F, p) for p in pts]
    rng.shuffle(pts)
    return pts


def fmt_pts(which, dim, kind, pts):
    tok = D if kind == 'd' else S
    return 'svd.pts %s %d %s %d %s' % (which, dim, kind, len(pts), ' '.join(tok(x) for p in pts for x in p))


def fmt_corr(corr):
    return '%d %s' % (len(corr), ' '.join('%d %d' % c for c in corr))


def make_case(rng, tier, idx, force=None):
    force = force or {}
    dim = force.get('dim', rng.choice([2, 3]))
    want_float = force.get('float', rng.chance(0.5))
    kind = force.get('kind', rng.choice(['generic', 'generic', 'generic', 'flat', 'flat-axis', 'nearflat', 'clustered', 'collinear']))
    if kind == 'collinear' and dim == 2:
        kind = 'flat'
    r = rng.unit()
    if tier == 'quick':
        n = rng.int(3, 12) if r < 0.5 else (rng.int(13, 60) if r < 0.93 else rng.int(61, 500))
    else:
        n = rng.int(3, 12) if r < 0.45 else (rng.int(13, 80) if r < 0.9 else rng.int(81, 500))
    n = force.get('n', n)
    if kind == 'clustered':
        n = max(n, 6)
    minratio = 0.2 if want_float else 0.05
    local = make_points(rng, dim, n, kind, minratio)
    size = rng.loguniform(1e-2, 1e3)
    off = [rng.gauss() * size * (3 if want_float else rng.choice([1, 10, 1000])) for _ in range(dim)]
    src = [[size * x + o for x, o in zip(p, off)] for p in local]
    special = None
    if rng.chance(0.2):
        special = rng.choice([0.0, math.pi, math.pi / 2, math.nextafter(math.pi, 0), 1e-8])
        if dim == 2 and rng.chance(0.5):
            special = -special
    Q = rand_rotation(rng, dim, special)
    t = [rng.gauss() * size * rng.choice([0, 1, 10]) for _ in range(dim)]
    noise = 0.0
    if force.get('noisy', rng.chance(0.3)) and kind not in ('collinear',):
        noise = size * rng.loguniform(1e-4, 1e-1)
        if kind in ('flat', 'flat-axis', 'nearflat'):
            kind = 'generic-noisy-flat'   # a noisy planar set: the optimum may need the determinant correction
    tgt = [[a + b + rng.gauss() * noise for a, b in zip(matvec(Q, p), t)] for p in src]
    # target stored in a permuted order for part of the cases
    perm = list(range(n))
    if rng.chance(0.5):
        rng.shuffle(perm)                  # tgt_stored[perm[i]] = image of src[i]
    tgt_stored = [None] * n
    for i in range(n):
        tgt_stored[perm[i]] = tgt[i]
    identity = perm == list(range(n))
    full = [(i, perm[i]) for i in range(n)]
    ckind = rng.choice(['full', 'full', 'subset'])
    corr = list(full)
    if ckind == 'subset' and n > 4 and kind not in ('clustered',):
        k = rng.int(max(3, (n + 1) // 2), n - 1)
        # keep the spanning corner points (they were shuffled: choose by extent instead) -> simply keep a random subset,
        # the harness reports the conditioning actually reached and the oracle takes it into account
        sel = list(range(n))
        rng.shuffle(sel)
        corr = [full[i] for i in sorted(sel[:k])]
    scale = rng.loguniform(1e-3, 1e3) if rng.chance(0.7) else rng.choice([1.0, 0.5, 2.0, 1e-3, 1e3])
    lines, tags = [], []

    def add(line, tag):
        lines.append(line)
        tags.append(tag)
    kinds = ['d'] + (['f'] if want_float else [])
    for fk in kinds:
        if fk == 'f':
            s_, t_ = [[to_f32(x) for x in p] for p in src], [[to_f32(x) for x in p] for p in tgt_stored]
            stok = S
        else:
            s_, t_ = src, tgt_stored
            stok = D
        add(fmt_pts('src', dim, fk, s_), None)
        add(fmt_pts('tgt', dim, fk, t_), None)
        add('svd.find c corr ' + fmt_corr(corr), {'role': 'base', 'fk': fk})
        variants = ['perm', 'hom', 'pre', 'hompre', 'all', 'pall']
        rng.shuffle(variants)
        nvar = 3 if tier == 'quick' else 4
        for v in variants[:nvar]:
            if v == 'perm':
                c2 = list(corr)
                rng.shuffle(c2)
                add('svd.find %s corr %s' % (rng.choice('ch'), fmt_corr(c2)), {'role': 'inv', 'fk': fk, 'what': 'order'})
            elif v == 'hom':
                add('svd.find h corr ' + fmt_corr(corr), {'role': 'inv', 'fk': fk, 'what': 'homogeneous'})
            elif v == 'pre':
                add('svd.find c pcorr %s %s %s' % (fmt_corr(corr), stok(scale), stok(scale)), {'role': 'inv', 'fk': fk, 'what': 'scale'})
            elif v == 'hompre':
                add('svd.find h pcorr %s %s %s' % (fmt_corr(corr), stok(scale), stok(scale)), {'role': 'inv', 'fk': fk, 'what': 'scale-hom'})
            elif v == 'all' and identity:
                if len(corr) == n:
                    add('svd.find %s all' % rng.choice('ch'), {'role': 'inv', 'fk': fk, 'what': 'no-corr-overload'})
                else:
                    add('svd.find %s all' % rng.choice('ch'), {'role': 'other', 'fk': fk})
            elif v == 'pall' and identity:
                tag = {'role': 'inv', 'fk': fk, 'what': 'scale-no-corr'} if len(corr) == n else {'role': 'other', 'fk': fk}
                add('svd.find %s pall %s %s' % (rng.choice('ch'), stok(scale), stok(scale)), tag)
    meta = {'dim': dim, 'n': n, 'kind': kind, 'noise': noise, 'Q': Q, 't': t, 'size': size, 'tags': tags,
            'ncorr': len(corr), 'corr': ckind, 'identity': identity, 'scale': scale}
    return {'name': 'svd-%s-%dd-%d' % (kind, dim, idx), 'lines': lines, 'meta': meta}


# ------------------------------------------------------------------ object-reuse histories
# The library keeps two PreconditionedPointSet members alive and refills them with compute() for every scan
# (RansacRigidTransformationModel::loadPointSets); the estimator object is long-lived as well.  A reuse case is a
# history of several scans (shrinking / growing / equal sizes) computed into numbered slots and handed to the
# preconditioned find overloads; every slot find is compared with the plain overload on the same points (role 'inv'),
# and fresh-object preconditioned finds are issued next to it.
NSLOTS = 4
REUSE_PATTERNS = ['shrink', 'shrink', 'shrink-little', 'shrink-grow', 'grow', 'equal', 'equal', 'random', 'random']


def _reuse_sizes(rng, tier, pattern, nscans):
    big = rng.chance(0.1)
    hi = 500 if (big and tier != 'quick') else (150 if big else 60)
    if pattern in ('shrink', 'shrink-little', 'shrink-grow'):
        n = rng.int(max(8, 2 * nscans + 3), hi)
    elif pattern == 'grow':
        n = rng.int(3, 20)
    else:
        n = rng.int(3, hi)
    sizes = [n]
    for k in range(1, nscans):
        if pattern == 'shrink' or (pattern == 'shrink-grow' and k == 1):
            n = rng.int(3, max(3, n - 1))
        elif pattern == 'shrink-little':
            n = max(3, n - rng.int(1, 3))
        elif pattern == 'grow' or pattern == 'shrink-grow':
            n = min(500, n + rng.int(1, 40))
        elif pattern == 'random':
            n = rng.int(3, hi)
        sizes.append(n)
    return sizes


def _scan(rng, dim, fk, n):
    """one registration problem: (source, stored target, full correspondence list, identity?, truth)"""
    kind = rng.choice(['generic', 'generic', 'generic', 'generic', 'flat', 'nearflat', 'clustered'])
    if kind == 'clustered':
        n = max(n, 6)
    local = make_points(rng, dim, n, kind, 0.2 if fk == 'f' else 0.05)
    size = rng.loguniform(1e-2, 1e3)
    off = [rng.gauss() * size * (3 if fk == 'f' else rng.choice([1, 10, 1000])) for _ in range(dim)]
    src = [[size * x + o for x, o in zip(p, off)] for p in local]
    Q = rand_rotation(rng, dim, rng.choice([0.0, math.pi, math.pi / 2]) if rng.chance(0.1) else None)
    t = [rng.gauss() * size * rng.choice([0, 1, 10]) for _ in range(dim)]
    noise = 0.0
    if rng.chance(0.2):
        noise = size * rng.loguniform(1e-4, 1e-1)
        if kind in ('flat', 'nearflat'):
            kind = 'generic-noisy-flat'
    tgt = [[a + b + rng.gauss() * noise for a, b in zip(matvec(Q, p), t)] for p in src]
    perm = list(range(n))
    if rng.chance(0.3):
        rng.shuffle(perm)
    stored = [None] * n
    for i in range(n):
        stored[perm[i]] = tgt[i]
    if fk == 'f':
        src, stored = [[to_f32(x) for x in p] for p in src], [[to_f32(x) for x in p] for p in stored]
    truth = {'Q': Q, 't': t, 'noise': noise, 'kind': kind}
    return src, stored, [(i, perm[i]) for i in range(n)], perm == list(range(n)), truth, n


def make_reuse_case(rng, tier, idx, force=None):
    force = force or {}
    dim = force.get('dim', rng.choice([2, 3]))
    fk = force.get('fk', 'f' if rng.chance(0.35) else 'd')
    stok = S if fk == 'f' else D
    pattern = force.get('pattern', rng.choice(REUSE_PATTERNS))
    nscans = rng.int(2, 4) if tier == 'quick' else rng.int(2, 6)
    sizes = _reuse_sizes(rng, tier, pattern, nscans)
    rep0 = rng.choice('ch')
    slots0 = (0, 0) if rng.chance(0.6) else (rng.int(0, NSLOTS - 1), rng.int(0, NSLOTS - 1))
    scale = rng.loguniform(1e-3, 1e3) if rng.chance(0.7) else rng.choice([1.0, 0.5, 2.0, 0.25])
    lines, tags = [], []
    held = {}          # (rep, srcSlot, tgtSlot) -> what the two objects hold: {'n', 'identity', 'full', 'truth'}

    def add(line, tag):
        lines.append(line)
        tags.append(tag)

    est_p = rng.choice([1.0, 1.0, 1.0, 0.5, 0.5, 0.0])

    def est(rep):      # capital letter: the case-long estimator object (in most cases for every find of the case)
        return rep.upper() if rng.chance(est_p) else rep

    for k, n in enumerate(sizes):
        src, stored, full, identity, truth, n = _scan(rng, dim, fk, n)
        rep, (sS, sT) = rep0, slots0
        if k > 0 and rng.chance(0.15):        # another point type / another pair of slots: other objects, the old ones stay
            rep = 'h' if rep0 == 'c' else 'c'
        if k > 0 and rng.chance(0.15):
            sS, sT = rng.int(0, NSLOTS - 1), rng.int(0, NSLOTS - 1)
        if rng.chance(0.5):
            scale = rng.loguniform(1e-3, 1e3)
        add(fmt_pts('src', dim, fk, src), None)
        add(fmt_pts('tgt', dim, fk, stored), None)
        if rng.chance(0.2):                   # the other compute overload in between (translation): overwritten below
            tr = ' '.join(stok(rng.gauss() * 10) for _ in range(dim))
            add('pps.computeT %s %d %s %s %s' % (rng.choice(['src', 'tgt']), sS if rng.chance(0.5) else sT, rep,
                                               stok(rng.loguniform(1e-2, 1e2)), tr), None)
            # a slot of the other side may now hold something else: forget what was recorded for it
            held = {key: v for key, v in held.items() if key[0] != rep or (key[1] != sS and key[1] != sT and key[2] != sS and key[2] != sT)}
        add('pps.compute src %d %s %s' % (sS, rep, stok(scale)), None)
        add('pps.compute tgt %d %s %s' % (sT, rep, stok(scale)), None)
        held = {key: v for key, v in held.items() if key[0] != rep or (key[1] != sS and key[2] != sT)}
        held[(rep, sS, sT)] = {'n': n, 'identity': identity, 'full': full, 'truth': truth}
        t_ = dict(truth, fk=fk)
        add('svd.find %s corr %s' % (rep, fmt_corr(full)), dict(t_, role='base'))
        todo = ['sall', 'sall', 'scorr', 'sub', 'fresh', 'get', 'getend']
        rng.shuffle(todo)
        todo = todo[:3 if tier == 'quick' else 4]
        if identity and k > 0 and 'sall' not in todo and rng.chance(0.7):
            todo.append('sall')
        for v in todo:
            if v == 'sall' and identity:
                add('svd.find %s sall %d %d' % (est(rep), sS, sT), dict(t_, role='inv', what='reuse-no-corr'))
            elif v == 'scorr':
                c2 = list(full)
                rng.shuffle(c2)
                add('svd.find %s scorr %s %d %d' % (est(rep), fmt_corr(c2), sS, sT), dict(t_, role='inv', what='reuse-corr'))
            elif v == 'sub' and n > 4 and truth['kind'] != 'clustered':
                sel = list(range(n))
                rng.shuffle(sel)
                c2 = [full[i] for i in sorted(sel[:rng.int(max(3, (n + 1) // 2), n - 1)])]
                add('svd.find %s scorr %s %d %d' % (est(rep), fmt_corr(c2), sS, sT), dict(t_, role='other'))
            elif v == 'fresh':
                if identity and rng.chance(0.5):
                    add('svd.find %s pall %s %s' % (est(rep), stok(scale), stok(scale)), dict(t_, role='inv', what='scale-no-corr'))
                else:
                    add('svd.find %s pcorr %s %s %s' % (est(rep), fmt_corr(full), stok(scale), stok(scale)), dict(t_, role='inv', what='scale'))
            elif v == 'get':
                add('pps.get %s %d %s %d' % ('src', sS, rep, rng.int(0, n - 1)), None)
            elif v == 'getend':
                add('pps.get %s %d %s %d' % ('tgt', sT, rep, n - 1), None)
                add('pps.get %s %d %s %d' % ('tgt', sT, rep, n), {'role': 'expect-bad-op'})
        # objects filled by an EARLIER scan and not touched since still pose that scan's problem
        older = [key for key in held if key != (rep, sS, sT)]
        if older and rng.chance(0.5):
            key = rng.choice(older)
            h = held[key]
            t2 = dict(h['truth'], fk=fk, role='other')
            if h['identity'] and rng.chance(0.5):
                add('svd.find %s sall %d %d' % (est(key[0]), key[1], key[2]), t2)
            else:
                add('svd.find %s scorr %s %d %d' % (est(key[0]), fmt_corr(h['full']), key[1], key[2]), t2)
    meta = {'dim': dim, 'reuse': pattern, 'sizes': sizes, 'tags': tags, 'fk': fk}
    return {'name': 'reuse-%s-%dd-%s-%d' % (pattern, dim, fk, idx), 'lines': lines, 'meta': meta}


def gen_cases(rng, tier):
    cases = []
    n_cases = 400 if tier == 'quick' else 20000
    # boundary stream: every kind in both dimensions, 3 points, rotation pi
    i = 0
    for dim in (2, 3):
        for kind in ('generic', 'flat', 'flat-axis', 'nearflat', 'clustered', 'collinear'):
            for noisy in (False, True):
                cases.append(make_case(rng, tier, i, {'dim': dim, 'kind': kind, 'noisy': noisy, 'float': True}))
                i += 1
        cases.append(make_case(rng, tier, i, {'dim': dim, 'n': 3, 'kind': 'generic', 'noisy': False}))
        i += 1
        cases.append(make_case(rng, tier, i, {'dim': dim, 'n': 500, 'kind': 'generic'}))
        i += 1
    n_boundary = len(cases)
    while len(cases) < n_cases:
        cases.append(make_case(rng, tier, i))
        i += 1
    # object-reuse histories: every size pattern in both dimensions and precisions, then random ones
    rr = rng.fork()
    reuse = []
    for dim in (2, 3):
        for fk in ('d', 'f'):
            for pattern in ('shrink', 'shrink-little', 'shrink-grow', 'grow', 'equal'):
                reuse.append(make_reuse_case(rr, tier, i, {'dim': dim, 'fk': fk, 'pattern': pattern}))
                i += 1
    for _ in range(60 if tier == 'quick' else 3000):
        reuse.append(make_reuse_case(rr, tier, i))
        i += 1
    # the first ones directly behind the boundary stream (a failing history is reported in case order; the thorough
    # tier's coverage measurement looks at the first few thousand cases), the rest at the end
    cases[n_boundary:n_boundary] = reuse[:220]
    cases += reuse[220:]
    # malformed lines are rejected on both sides
    cases.append({'name': 'malformed', 'lines': ['svd.find c all', 'svd.pts src 4 d 1 d0 d0 d0 d0', 'svd.pts src 2 d 2 d0 d0 d0',
                                                  'svd.pts src 2 d 1 d0 d0', 'svd.pts tgt 2 d 1 d0 d0', 'svd.find c corr 1 0 1',
                                                  'svd.find x all', 'svd.find c corr 0', 'svd.pts tgt 2 f 1 s0 s0', 'svd.find c all'],
                  'meta': {'malformed': True, 'tags': [None] * 10}})
    cases.append({'name': 'malformed-objects',
                  'lines': ['pps.compute src 0 c d4607182418800017408', 'svd.pts src 2 d 1 d0 d0', 'svd.pts tgt 2 d 1 d0 d0',
                            'pps.compute src 4 c d4607182418800017408', 'pps.compute src 0 x d4607182418800017408',
                            'pps.compute mid 0 c d4607182418800017408', 'pps.compute src 0 c', 'pps.compute src 0 c s0',
                            'pps.computeT src 0 c d4607182418800017408 d0', 'pps.get src 0 c 0', 'svd.find c sall 0 0',
                            'svd.find c scorr 1 0 0 0 0', 'svd.find c sall 0 4', 'svd.find c scorr 0 0 0', 'pps.get src 0 c'],
                  'meta': {'malformed': True, 'tags': [None] * 15}})
    return cases


# ------------------------------------------------------------------ parsing of output lines
def split_out(line):
    """-> (matrix tokens, extras dict or None)"""
    tk = line.split()
    if not tk or tk[0] != 'ok':
        return None, None
    if '|' in tk:
        k = tk.index('|')
        m, e = tk[1:k], tk[k + 2:]
        names = ['ortho', 'det', 'bottom', 'resid', 'refscale', 'dR', 'dT', 'costI', 'costR', 'contract', 'detUV']
        ex = {nm: tok_val(v) for nm, v in zip(names, e)}
        ex['sig'] = [tok_val(v) for v in e[len(names):]]
        return m, ex
    return tk[1:], None


def mat_of(tokens):
    n = int(round(math.sqrt(len(tokens))))
    if n * n != len(tokens) or n not in (3, 4):
        return None
    v = [tok_val(t) for t in tokens]
    return [v[i * n:(i + 1) * n] for i in range(n)]


def proper_defect(M):
    """max |R^T R - I| and |det R - 1| of the linear block (python floats)"""
    d = len(M) - 1
    R = [row[:d] for row in M[:d]]
    o = 0.0
    for a in range(d):
        for b in range(d):
            x = sum(R[k][a] * R[k][b] for k in range(d))
            o = max(o, abs(x - (1.0 if a == b else 0.0)))
    if d == 2:
        det = R[0][0] * R[1][1] - R[0][1] * R[1][0]
    else:
        det = (R[0][0] * (R[1][1] * R[2][2] - R[1][2] * R[2][1]) - R[0][1] * (R[1][0] * R[2][2] - R[1][2] * R[2][0]) +
               R[0][2] * (R[1][0] * R[2][1] - R[1][1] * R[2][0]))
    return o, abs(det - 1.0)


def mat_close(A, B, tol, tscale):
    """rotation block and bottom row within tol, translation column within tol * tscale"""
    d = len(A) - 1
    worst = 0.0
    for i in range(d + 1):
        for j in range(d + 1):
            x, y = A[i][j], B[i][j]
            if math.isnan(x) or math.isnan(y):
                return False, float('inf')
            lim = tol * (tscale if (j == d and i < d) else 1.0)
            worst = max(worst, abs(x - y) / lim)
    return worst <= 1.0, worst


def _kind_of_line(line):
    return None


def conditioning(ex, dim):
    """sigma_{dim-2} / sigma_0 of the decomposed cross-covariance: the motion is determined iff this is > 0"""
    if dim == 2:
        return 1.0 if ex['sig'] is not None else 0.0
    return ex['sig'][0] if ex['sig'] else 0.0


# ------------------------------------------------------------------ stage B comparison
def compare(case, li, op, impl, model):
    tk = op.split()
    if tk[0] != 'svd.find':
        return impl == model
    mi, ex = split_out(impl)
    mm, _ = split_out(model)
    if mi is None or mm is None:
        return impl.split('|')[0].split() == model.split()      # bad-op etc. must agree exactly
    if len(mi) != len(mm):
        return False
    A, B = mat_of(mi), mat_of(mm)
    if A is None or B is None or ex is None:
        return False
    fk = 'f' if mi[0].startswith('s') or mm[0].startswith('s') else 'd'
    if any(t.startswith('s') != (fk == 'f') for t in mi + mm if t != 'nan'):
        return False
    dim = len(A) - 1
    tol = TOL[fk]
    tscale = max(ex['refscale'], max(abs(A[i][dim]) for i in range(dim)), 1e-300)
    if conditioning(ex, dim) < CONDMIN[fk]:
        # the motion is not (well) determined by the data: both sides must still return a proper rotation
        o, dd = proper_defect(B)
        return o <= 10 * tol and dd <= 10 * tol
    ok, _ = mat_close(A, B, tol, tscale)
    return ok


# ------------------------------------------------------------------ oracle (property probe on the implementation)
def oracle(case, out, stats):
    fails = []
    meta = case.get('meta', {})
    tags = meta.get('tags')
    base = {}       # fk -> matrix of the base call
    npts = 1
    nside = {'src': 0, 'tgt': 0}     # points in the current raw set of each side
    slot = {}                        # (side, slot, c|h) -> (points last computed into the object, scale token, translated?)
    for li, (line, o) in enumerate(zip(case['lines'], out)):
        tk = line.split()
        op = tk[0]
        stats[op] = stats.get(op, 0) + 1

        def bad(kind_, detail, **fields):
            fails.append({'kind': kind_, 'detail': '%s: %s ... -> %s : %s' % (case.get('name'), line[:60], o[:200], detail), 'fields': fields})
        if meta.get('malformed'):
            if o not in ('bad-op', 'ok'):
                bad('malformed-accepted', 'malformed line not rejected')
            continue
        tag0 = tags[li] if tags and li < len(tags) else None
        if (tag0 and tag0.get('role') == 'expect-bad-op') or (op == 'pps.get' and o == 'bad-op'):
            continue                                  # (an index past the end; the tie compares it with the model)
        if o in ('abort', 'hang', 'exception', 'skipped', 'bad-op') or o.startswith('ub-'):
            # `ub-sizes`: the objects handed to find do not hold the points of the problem, the call would read out of bounds
            bad('outcome-' + o.split()[0], 'unexpected outcome')
            break
        if op == 'svd.pts':
            npts = int(tk[4])
            nside[tk[1]] = npts
        if op in ('pps.compute', 'pps.computeT'):
            slot[(tk[1], tk[2], tk[3])] = (nside[tk[1]], tk[4], op == 'pps.computeT')
            stats['objects_recomputed'] = stats.get('objects_recomputed', 0) + 1
        if op != 'svd.find':
            continue
        slots = tk[2] in ('scorr', 'sall')
        if tk[1] in ('C', 'H'):
            stats['finds_on_reused_estimator'] = stats.get('finds_on_reused_estimator', 0) + 1
            tk[1] = tk[1].lower()
        hS = hT = None
        if slots:
            hS, hT = slot.get(('src', tk[-2], tk[1])), slot.get(('tgt', tk[-1], tk[1]))
            stats['finds_on_reused_objects'] = stats.get('finds_on_reused_objects', 0) + 1
        m, ex = split_out(o)
        M = mat_of(m) if m else None
        if M is None or ex is None:
            bad('malformed', 'bad output')
            continue
        fk = 'f' if m[0].startswith('s') else 'd'
        tol = TOL[fk]
        dim = len(M) - 1
        tag = (tags[li] if tags and li < len(tags) else None) or {'role': 'corpus', 'fk': fk}
        if tk[2] in ('pcorr', 'pall') and tk[-1] != tk[-2]:
            tag = {'role': 'tie-only', 'fk': fk}      # different scales for the two sets: not a registration problem
        if slots and (hS is None or hT is None or hS[1] != hT[1] or hS[2] or hT[2]):
            tag = {'role': 'tie-only', 'fk': fk}      # likewise for two objects (or a translated preconditioning: outside the property)
        meta = dict(case.get('meta', {}), **{k_: v_ for k_, v_ in tag.items() if k_ in ('Q', 't', 'noise', 'kind')})
        stats['finds_' + fk] = stats.get('finds_' + fk, 0) + 1
        stats['type_%s%d%s' % (tk[1], dim, fk)] = stats.get('type_%s%d%s' % (tk[1], dim, fk), 0) + 1
        if any(math.isnan(x) for row in M for x in row):
            bad('nan', 'NaN in the result')
            continue
        # -- monitored assumption: Eigen's SVD meets the contract on this input
        stats['svd_contract_checked'] = stats.get('svd_contract_checked', 0) + 1
        stats['svd_contract_worst_' + fk] = max(stats.get('svd_contract_worst_' + fk, 0.0), ex['contract'])
        if not ex['contract'] <= CONTRACT_TOL[fk]:
            bad('svd-contract', 'Eigen::JacobiSVD output violates the IsSVD contract: residual %g' % ex['contract'], fk=fk)
        if ex['detUV'] < 0:
            stats['determinant_correction_fired'] = stats.get('determinant_correction_fired', 0) + 1
        # -- proper rotation, always (any data, any conditioning)
        stats['proper_checked'] = stats.get('proper_checked', 0) + 1
        if not ex['ortho'] <= tol:
            bad('not-orthonormal', 'max|R^T R - I| = %g' % ex['ortho'], fk=fk, dim=dim)
        if not abs(ex['det'] - 1.0) <= tol:
            bad('reflection' if ex['det'] < 0 else 'determinant', 'det R = %r' % ex['det'], fk=fk, dim=dim)
        if tag['role'] != 'tie-only' and not ex['bottom'] <= tol:
            bad('bottom-row', 'last row is not (0 .. 0 1): defect %g' % ex['bottom'], fk=fk)
        if tag['role'] == 'tie-only':
            continue
        cond = conditioning(ex, dim)
        well = cond >= CONDMIN[fk]
        stats['well_conditioned' if well else 'ill_conditioned'] = stats.get('well_conditioned' if well else 'ill_conditioned', 0) + 1
        refscale = max(ex['refscale'], 1e-300)
        tmax = max(max(abs(M[i][dim]) for i in range(dim)), refscale)
        npairs = int(tk[3]) if tk[2] in ('corr', 'pcorr', 'scorr') else (hS[0] if slots else npts)
        # -- the data is a rigid image (known from the generator, or, for corpus cases, because the independent solution fits exactly)
        exact = (meta.get('noise') == 0.0) if 'noise' in meta else (ex['costR'] <= (1e-13 * refscale) ** 2 * 1e3)
        if exact and well:
            stats['recovery_checked'] = stats.get('recovery_checked', 0) + 1
            if not ex['resid'] <= tol * tmax:
                bad('recovery-residual', 'max |H src - tgt| = %g (scale %g)' % (ex['resid'], tmax), fk=fk, dim=dim, kind=meta.get('kind'))
            if 'Q' in meta and tag['role'] in ('base', 'inv'):
                Q, t = meta['Q'], meta['t']
                dq = max(abs(M[i][j] - Q[i][j]) for i in range(dim) for j in range(dim))
                dt = max(abs(M[i][dim] - t[i]) for i in range(dim))
                if not (dq <= tol and dt <= tol * tmax):
                    bad('recovery-truth', 'R off by %g, t off by %g (scale %g)' % (dq, dt, tmax), fk=fk, dim=dim, kind=meta.get('kind'))
        # -- least squares: agreement with the independent solution (any data)
        if well:
            stats['optimality_checked'] = stats.get('optimality_checked', 0) + 1
            if not exact:
                stats['optimality_checked_noisy'] = stats.get('optimality_checked_noisy', 0) + 1
            if not (ex['dR'] <= tol and ex['dT'] <= tol * tmax):
                bad('not-least-squares', 'differs from the independent Kabsch/Horn solution: dR %g dt %g (scale %g); cost %r vs %r'
                    % (ex['dR'], ex['dT'], tmax, ex['costI'], ex['costR']), fk=fk, dim=dim, kind=meta.get('kind'))
            # every residual may carry the property's own tolerance tol * scale: allow npairs * dim of them
            if not ex['costI'] <= ex['costR'] * (1 + 100 * tol) + npairs * dim * (tol * tmax) ** 2:
                bad('cost-not-minimal', 'cost %r exceeds the reference cost %r' % (ex['costI'], ex['costR']), fk=fk, dim=dim)
        # -- invariances against the base call of the same precision; float against double
        if tag['role'] == 'base':
            base[fk] = (M, well, tmax)
            if fk == 'f' and 'd' in base and base['d'][1] and well:
                stats['float_vs_double_checked'] = stats.get('float_vs_double_checked', 0) + 1
                ok, w = mat_close(M, base['d'][0], TOL['f'], tmax)
                if not ok:
                    bad('float-vs-double', 'float and double results differ by %g tolerances' % w, dim=dim)
        elif tag['role'] == 'inv' and fk in base and base[fk][1] and well:
            stats['invariance_checked_' + tag['what']] = stats.get('invariance_checked_' + tag['what'], 0) + 1
            ok, w = mat_close(M, base[fk][0], tol, tmax)
            if not ok:
                bad('invariance-' + tag['what'], 'result changes by %g tolerances' % w, fk=fk, dim=dim)
    return fails


def focused_cases(rng, disagreeing, tier):
    out = []
    for i, c in enumerate(disagreeing[:10]):
        m = c.get('meta', {})
        if m.get('reuse'):       # a disagreement inside an object-reuse history: more histories of that shape
            for j in range(8):
                out.append(make_reuse_case(rng, tier, 100000 + 10 * i + j, {'dim': m.get('dim', 3), 'fk': m.get('fk', 'd'),
                                                                           'pattern': m['reuse'] if j < 4 else 'shrink'}))
            continue
        for j in range(8):
            out.append(make_case(rng, tier, 100000 + 10 * i + j,
                                 {'dim': m.get('dim', 3), 'kind': (m.get('kind') or 'generic').replace('generic-noisy-flat', 'flat'),
                                  'noisy': bool(m.get('noise'))}))
    if not out:
        out = [make_case(rng, tier, 200000 + j) for j in range(40)] + [make_reuse_case(rng, tier, 200040 + j) for j in range(20)]
    return out
