#!/bin/bash
# Runs the repository's own test suite with the verification guard OFF (no -DROMEA_CORE_COMMON_VERIF),
# configured the way the baseline is (CMake + Ninja, RelWithDebInfo), in a scratch build directory.
set -e
REPO=${VERIF_REPO:-/repo}
D=$(mktemp -d /tmp/romea_baseline_XXXXXX)
trap 'rm -rf "$D"' EXIT
cmake -G Ninja -S "$REPO" -B "$D" -DCMAKE_BUILD_TYPE=RelWithDebInfo -DBUILD_TESTING=ON > "$D/configure.log" 2>&1 || { cat "$D/configure.log"; exit 2; }
cmake --build "$D" -j16 > "$D/build.log" 2>&1 || { tail -50 "$D/build.log"; exit 2; }
ctest --test-dir "$D" -j8 --timeout 900 2>&1 | tail -15
exit ${PIPESTATUS[0]}
