#!/usr/bin/env python3
"""Fills the <!-- SEEDED_TABLE --> block of DESIGN.md from seeded/*/meta.json (and writes seeded/README.md)."""
import json
import os
import re

VERIF = os.path.dirname(os.path.dirname(os.path.abspath(__file__)))
SUMMARY = {}   # optional one-line descriptions, filled from notes.txt's first paragraph when absent


def main():
    rows = []
    mxp = os.path.join(VERIF, 'seeded', 'MATRIX.json')
    matrix = json.load(open(mxp)) if os.path.exists(mxp) else {}
    for name in sorted(os.listdir(os.path.join(VERIF, 'seeded'))):
        mp = os.path.join(VERIF, 'seeded', name, 'meta.json')
        if not os.path.exists(mp):
            continue
        m = json.load(open(mp))
        chk = m['steps'].get('check', {})
        log = chk.get('log', [])
        stages = []
        if any('broken obligation' in l for l in log):
            stages.append('A')
        mb = next((l for l in log if '] B ' in l), '')
        mm = re.search(r'disagreements=(\d+)', mb)
        if mm and int(mm.group(1)) > 0:
            stages.append('B')
        if any('failing input' in l for l in log):
            stages.append('C')
        fi = next((l for l in log if 'failing input' in l), '')
        kind = re.search(r'kind=(\S+)', fi)
        desc = m.get('summary') or ''
        if not desc:
            np_ = os.path.join(VERIF, 'seeded', name, 'notes.txt')
            if os.path.exists(np_):
                txt = ' '.join(open(np_).read().split())
                desc = txt[:230] + ('…' if len(txt) > 230 else '')
        stage_txt = '+'.join(stages) or ('-' if not m.get('detected') else '?')
        kind_txt = kind.group(1) if kind else ('no-failing-input-found' if m.get('detected') else 'MISSED')
        also = ''
        mx = matrix.get(name)
        if mx:      # the state AFTER strengthening: tools/seeded_matrix.py runs the current checks against every filed change
            own = mx['checks'].get(mx['property'], {})
            row = own.get('1') or (list(own.values())[0] if own else None)
            if row:
                stage_txt = '+'.join(row['stages']) or '-'
                kind_txt = row['kind'] or ('no-failing-input-found' if row['violation'] else 'MISSED')
            also = ', '.join('%s (%s)' % (p, '+'.join(next(iter(r.values()))['stages'])) for p, r in sorted(mx['checks'].items())
                             if p != mx['property'] and any(x['violation'] for x in r.values()))
        first = 'first run: ' + ('+'.join(stages) if stages else 'MISSED')
        rows.append('| %s | `%s` | %s | %s | %s | %s | %s | %s |' % (
            m['property'], name, desc.replace('|', '/'),
            'yes' if m.get('confirmed') else 'NO', stage_txt, kind_txt, also or '—', first))
    table = ('| prop | seeded change | what it is / what it needs to manifest | confirmed (tests pass, demo flips) | caught by stage (now) | failing-input kind | also caught by the check of | when first run |\n'
             '|---|---|---|---|---|---|---|---|\n' + '\n'.join(rows))
    open(os.path.join(VERIF, 'seeded', 'README.md'), 'w').write('# Independently seeded breaking changes\n\n' + table + '\n')
    dp = os.path.join(VERIF, 'DESIGN.md')
    s = open(dp).read()
    s = re.sub(r'<!-- SEEDED_TABLE -->.*?<!-- /SEEDED_TABLE -->|<!-- SEEDED_TABLE -->', '<!-- SEEDED_TABLE -->\n' + table + '\n<!-- /SEEDED_TABLE -->', s, flags=re.S)
    open(dp, 'w').write(s)
    print('%d seeded changes' % len(rows))


if __name__ == '__main__':
    main()
