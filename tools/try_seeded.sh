#!/bin/bash
# usage: tools/try_seeded.sh <seeded-name> [tier] [seed]  — runs the registered check of the seeded change's property against a scratch
# worktree with the change applied, from a PRIVATE copy of /verif (nothing in /verif is rewritten); prints the verdict lines.
set -u
name=$1; tier=${2:-quick}; seed=${3:-1}
V=$(cd "$(dirname "$0")/.." && pwd)
pid=${4:-$(python3 -c "import json;print(json.load(open('$V/seeded/$name/meta.json'))['property'])")}
wt=/tmp/trywt_$name; priv=/tmp/tryvf_$name
git -C /repo worktree remove --force $wt >/dev/null 2>&1
git -C /repo worktree add --detach $wt HEAD >/dev/null 2>&1 || exit 2
git -C $wt apply $V/seeded/$name/patch.diff || { echo "patch does not apply"; git -C /repo worktree remove --force $wt; exit 2; }
rm -rf $priv; rsync -a --exclude .git --exclude replays $V/ $priv/
(cd $priv && VERIF_SEED=$seed VERIF_REPO=$wt python3 tools/check.py $pid --tier $tier 2>&1 | grep -E "^\[$pid\] (A|B|C|done)|VIOLATION|failing input|broken obligation" | cut -c1-300)
git -C /repo worktree remove --force $wt; rm -rf $priv
