#!/bin/bash
# usage: try_seeded.sh <seeded dir name> [seeds...]   — applies seeded/<name>/patch.diff in a scratch worktree and runs the property's quick check
n=$1; shift; seeds=${@:-1}
P=$(jq -r .property /verif/seeded/$n/meta.json)
wt=/tmp/trywt_$n
git -C /repo worktree remove --force $wt >/dev/null 2>&1
git -C /repo worktree add --detach $wt HEAD >/dev/null 2>&1
git -C $wt apply /verif/seeded/$n/patch.diff || { echo "patch does not apply"; exit 2; }
for s in $seeds; do
  (cd /verif && VERIF_SEED=$s VERIF_REPO=$wt python3 tools/check.py $P ${TIER:+--tier $TIER} 2>&1 | grep -E "VIOLATION|failing input|broken obligation|\] B |\] C probe|done rc" | cut -c1-260 | sed "s/^/[$n seed $s] /")
done
git -C /repo worktree remove --force $wt
git -C /verif checkout -- lean/RomeaModel/Generated 2>/dev/null
